// C09 harness: runs the real auth.Authenticator.GenerateServerID on generated and on searched
// (secret, key) pairs and writes the observed ids for the Coq side to judge.
package main

import (
	"crypto/rand"
	"crypto/rsa"
	"crypto/sha1"
	"fmt"
	mrand "math/rand"
	"os"

	"go.minekube.com/gate/pkg/edition/java/auth"

	"verifharness/lib"
)

type detReader struct{ r *mrand.Rand }

func (d detReader) Read(p []byte) (int, error) { return d.r.Read(p) }

func main() {
	f := lib.ParseFlags()
	rng := lib.NewRng(f.Seed)
	out := lib.NewOut("C09", f)
	out.Rule = "random secrets of length 0..64 (mostly 16) against 3 RSA keys (1024/2048 bit) plus secrets searched until the SHA-1 digest has the sign bit set, k leading zero nibbles (k<=3), or trailing 00/ff bytes (carry chain of twosComplement); distinct = distinct (secret,key); non-trivial = digest negative, or with leading zero nibble, or trailing 00 byte"

	// keys: generated with crypto/rand (key bytes are part of each case, so the case is self-contained)
	var auths []auth.Authenticator
	for _, bits := range []int{1024, 1024, 2048} {
		k, err := rsa.GenerateKey(rand.Reader, bits)
		if err != nil {
			fmt.Fprintln(os.Stderr, "rsa:", err)
			os.Exit(2)
		}
		a, err := auth.New(auth.Options{PrivateKey: k})
		if err != nil {
			fmt.Fprintln(os.Stderr, "auth.New:", err)
			os.Exit(2)
		}
		auths = append(auths, a)
	}
	n := f.Count(160)
	classify := func(secret, key []byte) (bool, []string) {
		h := sha1.Sum(append(append([]byte{}, secret...), key...))
		var tags []string
		nt := false
		if h[0]&0x80 != 0 {
			tags = append(tags, "negative")
			nt = true
		} else {
			tags = append(tags, "positive")
		}
		if h[0]>>4 == 0 || (h[0]&0x80 != 0 && h[0] == 0xff) {
			tags = append(tags, "leading-zero-nibble")
			nt = true
		}
		if h[19] == 0 {
			tags = append(tags, "trailing-00")
			nt = true
		}
		return nt, tags
	}
	emit := func(a auth.Authenticator, secret []byte, kind string) {
		key := a.PublicKey()
		id, err := a.GenerateServerID(secret)
		obs := lib.Bytes([]byte(id))
		if err != nil {
			obs = lib.Bytes([]byte("ERR"))
		}
		nt, tags := classify(secret, key)
		tags = append(tags, "kind="+kind)
		out.Add(lib.App("Check.C09.mk", lib.Bytes(secret), lib.Bytes(key), obs),
			map[string]any{"secret_hex": fmt.Sprintf("%x", secret), "key_hex": fmt.Sprintf("%x", key), "observed": id, "kind": kind}, nt, tags...)
	}
	for i := 0; i < n; i++ {
		a := auths[rng.Intn(len(auths))]
		ln := 16
		if rng.Chance(1, 4) {
			ln = rng.Range(0, 64)
		}
		emit(a, rng.Bytes(ln), "random")
	}
	// searched: brute-force secrets until the digest hits the wanted shape
	want := []func(h [20]byte) bool{
		func(h [20]byte) bool { return h[0]&0x80 != 0 && h[19] == 0 },             // negative with carry into byte 18
		func(h [20]byte) bool { return h[0] == 0 },                                // two leading zero nibbles
		func(h [20]byte) bool { return h[0] == 0 && h[1]>>4 == 0 },                // three
		func(h [20]byte) bool { return h[0] == 0xff },                             // negative, magnitude loses leading byte
		func(h [20]byte) bool { return h[0] == 0xff && h[1]>>4 == 0xf },           // negative, 3 leading nibbles vanish
		func(h [20]byte) bool { return h[0]&0x80 != 0 && h[19] == 0 && h[18] == 0 }, // carry through two bytes
		func(h [20]byte) bool { return h[0] == 0x80 },
		func(h [20]byte) bool { return h[0]>>4 == 0 && h[0] != 0 },
	}
	m := f.Count(40)
	for i := 0; i < m; i++ {
		a := auths[rng.Intn(len(auths))]
		w := want[i%len(want)]
		var secret []byte
		for tries := 0; tries < 400000; tries++ {
			secret = rng.Bytes(16)
			if w(sha1.Sum(append(append([]byte{}, secret...), a.PublicKey()...))) {
				break
			}
		}
		emit(a, secret, fmt.Sprintf("searched-%d", i%len(want)))
	}
	out.Finish()
}
