// C03 harness: runs the real util.WriteX / util.ReadX of pkg/edition/java/proto/util on generated
// values (round trip with trailing bytes), on strict prefixes of every encoding, and on chosen
// length prefixes, always through a *bytes.Reader (what the real decode path passes), and writes
// what was observed (decoded value, bytes consumed, error class) for the Coq side to judge.
package main

import (
	"bytes"
	"fmt"
	"math"
	"strconv"
	"strings"

	"go.minekube.com/common/minecraft/key"
	"go.minekube.com/gate/pkg/edition/java/profile"
	"go.minekube.com/gate/pkg/edition/java/proto/util"
	"go.minekube.com/gate/pkg/util/uuid"

	"verifharness/lib"
)

// ---- universal values (mirror Check.C03.val) ----

type u64 uint64 // printed as a non-negative Z

func coqVal(v any) string {
	switch x := v.(type) {
	case int64:
		return "(VZ " + lib.Z(x) + ")"
	case u64:
		return "(VZ " + strconv.FormatUint(uint64(x), 10) + "%Z)"
	case bool:
		return "(VBool " + lib.Bool(x) + ")"
	case []byte:
		return "(VBy " + coqBytes(x) + ")"
	case []any:
		return "(VL " + lib.ListOf(x, coqVal) + ")"
	}
	panic(fmt.Sprintf("coqVal: %T", v))
}

// coqBytes prints a byte string; runs of >= 32 equal bytes become (rep n b) so that the large
// boundary-size values (which are generated as mostly constant) stay small in the case files.
func coqBytes(b []byte) string {
	var parts []string
	lit := 0 // start of the pending literal segment
	flush := func(end int) {
		if end > lit {
			parts = append(parts, lib.Bytes(b[lit:end]))
		}
	}
	for i := 0; i < len(b); {
		j := i
		for j < len(b) && b[j] == b[i] {
			j++
		}
		if j-i >= 32 {
			flush(i)
			parts = append(parts, fmt.Sprintf("(rep %d %d)", j-i, b[i]))
			lit = j
		}
		i = j
	}
	flush(len(b))
	switch len(parts) {
	case 0:
		return "[]"
	case 1:
		return parts[0]
	}
	return "(" + strings.Join(parts, " ++ ") + ")%list"
}

// big values: a few random bytes, a long constant run, a few random bytes
func genBig(r *lib.Rng, n int, text bool) []byte {
	b := bytes.Repeat([]byte{byte(r.Pick(0, 0xff, 'x', 0x80))}, n)
	if text {
		b = bytes.Repeat([]byte{byte(r.Pick('x', 'A', ' '))}, n)
	}
	h := r.Range(0, 6)
	for i := 0; i < h; i++ {
		b[i] = byte('a' + r.Intn(26))
		b[n-1-i] = byte('a' + r.Intn(26))
	}
	return b
}

func descVal(v any) any {
	switch x := v.(type) {
	case []byte:
		if len(x) > 48 {
			return fmt.Sprintf("%x…(%d bytes)", x[:48], len(x))
		}
		return fmt.Sprintf("%x", x)
	case []any:
		out := make([]any, len(x))
		for i := range x {
			out[i] = descVal(x[i])
		}
		return out
	case u64:
		return uint64(x)
	}
	return v
}

func keyVal(k key.Key) any { return []any{[]byte(k.Namespace()), []byte(k.Value())} }

func toKey(v any) key.Key {
	l := v.([]any)
	return key.New(string(l[0].([]byte)), string(l[1].([]byte)))
}

// ---- one primitive ----

type prim struct {
	name   string // tag
	coq    string // Check.C03.op term
	gen    func(r *lib.Rng, i int) any
	enc    func(w *bytes.Buffer, v any) error
	dec    func(rd *bytes.Reader) (any, error)
	hdr    func(l int64) []byte // length prefix bytes for KLen cases (nil: op has none)
	lens   []int64
	limit  int64 // -1: none
	values int   // quick-tier number of generated values
}

func varintBytes(l int64) []byte {
	var b bytes.Buffer
	_ = util.WriteVarInt(&b, int(l))
	return b.Bytes()
}

// the extended Forge short as the format defines it (2-byte short, optional third byte)
func forgeShortBytes(l int64) []byte {
	low := l & 0x7FFF
	high := (l & 0x7F8000) >> 15
	if high != 0 {
		low |= 0x8000
		return []byte{byte(low >> 8), byte(low), byte(high)}
	}
	return []byte{byte(low >> 8), byte(low)}
}

var varintEdges = []int64{0, 1, 2, 127, 128, 255, 16383, 16384, 2097151, 2097152, 268435455, 268435456,
	math.MaxInt32, -1, math.MinInt32, -128, -129}

func pickInt(r *lib.Rng, i int, edges []int64, rnd func() int64) int64 {
	if i < len(edges) {
		return edges[i]
	}
	if r.Chance(1, 3) {
		return edges[r.Intn(len(edges))]
	}
	return rnd()
}

var textAlphabet = "abcXYZ019 _-:/.äßπ€漢😀"

func genText(r *lib.Rng, n int) []byte {
	// arbitrary UTF-8 of at most n bytes
	if n > 512 {
		return genBig(r, n, true)
	}
	var sb strings.Builder
	rs := []rune(textAlphabet)
	for {
		c := string(rs[r.Intn(len(rs))])
		if sb.Len()+len(c) > n {
			break
		}
		sb.WriteString(c)
	}
	for sb.Len() < n {
		sb.WriteByte('x')
	}
	return []byte(sb.String())
}

func genBlob(r *lib.Rng, n int) []byte {
	if n > 512 {
		return genBig(r, n, false)
	}
	switch r.Intn(4) {
	case 0:
		return genText(r, n)
	case 1:
		return bytes.Repeat([]byte{0}, n)
	case 2:
		return bytes.Repeat([]byte{0xff}, n)
	}
	return r.Bytes(n)
}

func sizeFrom(r *lib.Rng, i int, sizes []int) int {
	if i < len(sizes) {
		return sizes[i]
	}
	return sizes[r.Intn(len(sizes))]
}

const nsAlphabet = "abcdefghijklmnopqrstuvwxyz0123456789_-."

func genKey(r *lib.Rng, i int) any {
	ns := "minecraft"
	switch {
	case i%8 == 1:
		ns = r.StringOver(nsAlphabet, r.Range(1, 12))
	case i%8 == 3:
		ns = "velocity"
	case i%8 == 5:
		ns = r.PickS("", "..", "Upper", "sp ace", "ünï", "a:b", ".", "...")
	}
	val := r.StringOver(nsAlphabet+"/", r.Range(0, 20))
	if i%8 == 6 {
		val = r.PickS("has space", "UPPER", "col:on", "é", "", "a/b/c.d-e_f")
	}
	return []any{[]byte(ns), []byte(val)}
}

func fixedU(name string, w int, write func(*bytes.Buffer, uint64) error, read func(*bytes.Reader) (uint64, error)) prim {
	max := uint64(1)<<(8*uint(w)) - 1
	if w == 8 {
		max = math.MaxUint64
	}
	edges := []uint64{0, 1, 0x12, 0x1200, 255, 256, max, max - 1, max / 2, max/2 + 1, 0x0102030405060708 & max, 0x00ff00ff00ff00ff & max}
	return prim{name: name, coq: fmt.Sprintf("(OU %d)", w), values: 8,
		gen: func(r *lib.Rng, i int) any {
			if i < len(edges) {
				return u64(edges[i])
			}
			return u64(r.U64() & max)
		},
		enc: func(b *bytes.Buffer, v any) error { return write(b, uint64(v.(u64))) },
		dec: func(rd *bytes.Reader) (any, error) { x, err := read(rd); return u64(x), err },
	}
}

func fixedI(name string, w int, write func(*bytes.Buffer, int64) error, read func(*bytes.Reader) (int64, error)) prim {
	min := -(int64(1) << (8*uint(w) - 1))
	max := -(min + 1)
	edges := []int64{0, 1, -1, min, max, 0x12, -0x1200, min + 1, max - 1, 256, -256}
	return prim{name: name, coq: fmt.Sprintf("(OI %d)", w), values: 6,
		gen: func(r *lib.Rng, i int) any {
			if i < len(edges) {
				return edges[i]
			}
			x := int64(r.U64())
			if w < 8 {
				x >>= uint(64 - 8*w)
			}
			return x
		},
		enc: func(b *bytes.Buffer, v any) error { return write(b, v.(int64)) },
		dec: read2any(read),
	}
}

func read2any(read func(*bytes.Reader) (int64, error)) func(*bytes.Reader) (any, error) {
	return func(rd *bytes.Reader) (any, error) { x, err := read(rd); return x, err }
}

func blobPrim(name, coq string, sizes []int, text bool, limit int64,
	write func(*bytes.Buffer, []byte) error, read func(*bytes.Reader) ([]byte, error)) prim {
	return prim{name: name, coq: coq, values: len(sizes) + 2, limit: limit,
		gen: func(r *lib.Rng, i int) any {
			n := sizeFrom(r, i, sizes)
			if text {
				return genText(r, n)
			}
			return genBlob(r, n)
		},
		enc: func(b *bytes.Buffer, v any) error { return write(b, v.([]byte)) },
		dec: func(rd *bytes.Reader) (any, error) {
			x, err := read(rd)
			if x == nil {
				x = []byte{}
			}
			return x, err
		},
		hdr:  varintBytes,
		lens: []int64{-1, 0, limit, limit + 1, math.MaxInt32, math.MinInt32, 1, limit - 1},
	}
}

func prims() []prim {
	var ps []prim
	ps = append(ps, prim{name: "varint", coq: "OVarInt", values: 24,
		gen: func(r *lib.Rng, i int) any {
			v := pickInt(r, i, varintEdges, func() int64 { return int64(int32(r.U64())) >> uint(r.Intn(32)) })
			if i >= len(varintEdges) && r.Chance(1, 8) {
				v = int64(r.U64()) >> uint(r.Intn(30)) // outside int32: the writer truncates to uint32
			}
			return v
		},
		enc: func(b *bytes.Buffer, v any) error {
			n, err := util.WriteVarIntN(b, int(v.(int64))) // WriteVarInt = WriteVarIntN without n
			if err == nil && n != b.Len() {
				varintNMismatch = append(varintNMismatch, map[string]any{"known": nil, "what": "WriteVarIntN n differs from bytes written", "value": v, "n": n, "written": b.Len()})
			}
			return err
		},
		dec: func(rd *bytes.Reader) (any, error) {
			// ReadVarInt is ReadVarIntReturnN without n; n must be the number of bytes consumed
			before := rd.Len()
			x, n, err := util.ReadVarIntReturnN(rd)
			if err == nil && n != before-rd.Len() {
				varintNMismatch = append(varintNMismatch, map[string]any{"known": nil, "what": "ReadVarIntReturnN n differs from bytes consumed", "value": x, "n": n, "consumed": before - rd.Len()})
			}
			return int64(x), err
		},
	})
	ps = append(ps, prim{name: "bool", coq: "OBool", values: 2,
		gen: func(r *lib.Rng, i int) any { return i%2 == 0 },
		enc: func(b *bytes.Buffer, v any) error { return util.WriteBool(b, v.(bool)) },
		dec: func(rd *bytes.Reader) (any, error) { x, err := util.ReadBool(rd); return x, err },
	})
	ps = append(ps, prim{name: "uint8", coq: "OU8", values: 4,
		gen: func(r *lib.Rng, i int) any { return int64([]int{0, 255, 128, 1}[i%4]) ^ int64(r.Intn(2)) },
		enc: func(b *bytes.Buffer, v any) error { return util.WriteUint8(b, uint8(v.(int64))) },
		dec: func(rd *bytes.Reader) (any, error) { x, err := util.ReadUint8(rd); return int64(x), err },
	})
	ps = append(ps, prim{name: "int8", coq: "OI8", values: 4,
		gen: func(r *lib.Rng, i int) any { return int64([]int{0, -1, -128, 127}[i%4]) },
		enc: func(b *bytes.Buffer, v any) error { return util.WriteInt8(b, int8(v.(int64))) },
		dec: func(rd *bytes.Reader) (any, error) { x, err := util.ReadInt8(rd); return int64(x), err },
	})
	ps = append(ps,
		fixedU("uint16", 2, func(b *bytes.Buffer, x uint64) error { return util.WriteUint16(b, uint16(x)) },
			func(rd *bytes.Reader) (uint64, error) { x, err := util.ReadUint16(rd); return uint64(x), err }),
		fixedU("uint32", 4, func(b *bytes.Buffer, x uint64) error { return util.WriteUint32(b, uint32(x)) },
			func(rd *bytes.Reader) (uint64, error) { x, err := util.ReadUint32(rd); return uint64(x), err }),
		fixedU("uint64", 8, func(b *bytes.Buffer, x uint64) error { return util.WriteUint64(b, x) },
			func(rd *bytes.Reader) (uint64, error) { return util.ReadUint64(rd) }),
		fixedU("float32", 4, func(b *bytes.Buffer, x uint64) error { return util.WriteFloat32(b, math.Float32frombits(uint32(x))) },
			func(rd *bytes.Reader) (uint64, error) { x, err := util.ReadFloat32(rd); return uint64(math.Float32bits(x)), err }),
		fixedU("float64", 8, func(b *bytes.Buffer, x uint64) error { return util.WriteFloat64(b, math.Float64frombits(x)) },
			func(rd *bytes.Reader) (uint64, error) { x, err := util.ReadFloat64(rd); return math.Float64bits(x), err }),
		fixedI("int16", 2, func(b *bytes.Buffer, x int64) error { return util.WriteInt16(b, int16(x)) },
			func(rd *bytes.Reader) (int64, error) { x, err := util.ReadInt16(rd); return int64(x), err }),
		fixedI("int32", 4, func(b *bytes.Buffer, x int64) error { return util.WriteInt32(b, int32(x)) },
			func(rd *bytes.Reader) (int64, error) { x, err := util.ReadInt32(rd); return int64(x), err }),
		fixedI("int", 4, func(b *bytes.Buffer, x int64) error { return util.WriteInt(b, int(x)) },
			func(rd *bytes.Reader) (int64, error) { x, err := util.ReadInt(rd); return int64(x), err }),
		fixedI("int64", 8, func(b *bytes.Buffer, x int64) error { return util.WriteInt64(b, x) },
			func(rd *bytes.Reader) (int64, error) { return util.ReadInt64(rd) }),
	)
	genUUID := func(r *lib.Rng, i int) any {
		switch i {
		case 0:
			return make([]byte, 16)
		case 1:
			return bytes.Repeat([]byte{0xff}, 16)
		case 2:
			return []byte{0x80, 0, 0, 0, 0, 0, 0, 1, 0x7f, 0xff, 0xff, 0xff, 0x80, 0, 0, 0}
		}
		return r.Bytes(16)
	}
	toUUID := func(v any) (id uuid.UUID) { copy(id[:], v.([]byte)); return }
	ps = append(ps, prim{name: "uuid", coq: "OUUID", values: 5, gen: genUUID,
		enc: func(b *bytes.Buffer, v any) error { return util.WriteUUID(b, toUUID(v)) },
		dec: func(rd *bytes.Reader) (any, error) { x, err := util.ReadUUID(rd); return append([]byte{}, x[:]...), err },
	})
	ps = append(ps, prim{name: "uuid-int-array", coq: "OUUIDInts", values: 5, gen: genUUID,
		enc: func(b *bytes.Buffer, v any) error { return util.WriteUUIDIntArray(b, toUUID(v)) },
		dec: func(rd *bytes.Reader) (any, error) {
			x, err := util.ReadUUIDIntArray(rd)
			return append([]byte{}, x[:]...), err
		},
	})
	for _, max := range []int{4, 20, util.DefaultMaxStringSize} {
		max := max
		sizes := []int{0, 1, 4 * max, 4*max - 1, 2, 3}
		if max == util.DefaultMaxStringSize {
			sizes = []int{0, 1, 127, 128, 300, 16383, 16384, 5}
		}
		ps = append(ps, blobPrim(fmt.Sprintf("string-max%d", max), fmt.Sprintf("(OString %d%%Z)", max), sizes, true, int64(4*max),
			func(b *bytes.Buffer, v []byte) error { return util.WriteString(b, string(v)) },
			func(rd *bytes.Reader) ([]byte, error) {
				var s string
				var err error
				if max == util.DefaultMaxStringSize {
					s, err = util.ReadString(rd)
				} else {
					s, err = util.ReadStringMax(rd, max)
				}
				return []byte(s), err
			}))
	}
	for _, max := range []int{8, 300, util.DefaultMaxStringSize} {
		max := max
		sizes := []int{0, 1, max, max - 1, 2, 0}
		if max == util.DefaultMaxStringSize {
			sizes = []int{0, 1, 127, 128, 255, 256, 16384, 0}
		}
		ps = append(ps, blobPrim(fmt.Sprintf("bytes-max%d", max), fmt.Sprintf("(OBytes %d%%Z)", max), sizes, false, int64(max),
			util_WriteBytes,
			func(rd *bytes.Reader) ([]byte, error) {
				if max == util.DefaultMaxStringSize {
					return util.ReadBytes(rd)
				}
				return util.ReadBytesLen(rd, max)
			}))
	}
	for _, ext := range []bool{false, true} {
		ext := ext
		sizes := []int{0, 1, 44, 255, 256, 300, 32767, 32768, 0, 2}
		p := blobPrim(fmt.Sprintf("bytes17-ext=%v", ext), "(OBytes17 "+lib.Bool(ext)+")", sizes, false, util.ForgeMaxArrayLength,
			func(b *bytes.Buffer, v []byte) error { return util.WriteBytes17(b, v, ext) },
			func(rd *bytes.Reader) ([]byte, error) { return util.ReadBytes17(rd) })
		p.hdr = forgeShortBytes
		p.lens = []int64{0, 1, 255, 256, 300, 32767, 32768, util.ForgeMaxArrayLength + 1, 1<<23 - 1}
		p.values = 8
		ps = append(ps, p)
	}
	ps = append(ps, prim{name: "forge-short", coq: "OFShort", values: 14,
		gen: func(r *lib.Rng, i int) any {
			return pickInt(r, i, []int64{0, 1, 255, 256, 300, 32767, 32768, 32769, 65535, 65536, util.ForgeMaxArrayLength, 1<<23 - 1},
				func() int64 { return int64(r.Intn(1 << 23)) })
		},
		enc: func(b *bytes.Buffer, v any) error { return util.WriteExtendedForgeShort(b, int(v.(int64))) },
		dec: func(rd *bytes.Reader) (any, error) { x, err := util.ReadExtendedForgeShort(rd); return int64(x), err },
	})
	listLens := []int64{-1, 0, 1, 3, math.MaxInt32, math.MinInt32, -2}
	ps = append(ps, prim{name: "string-array", coq: "OStrings", values: 6, hdr: varintBytes, lens: listLens, limit: -1,
		gen: func(r *lib.Rng, i int) any {
			n := sizeFrom(r, i, []int{0, 1, 3, 2})
			l := make([]any, n)
			for j := range l {
				l[j] = genText(r, r.Pick(0, 1, 5, 130))
			}
			return l
		},
		enc: func(b *bytes.Buffer, v any) error {
			var ss []string
			for _, x := range v.([]any) {
				ss = append(ss, string(x.([]byte)))
			}
			return util.WriteStrings(b, ss)
		},
		dec: func(rd *bytes.Reader) (any, error) {
			ss, err := util.ReadStringArray(rd)
			l := make([]any, len(ss))
			for j := range ss {
				l[j] = []byte(ss[j])
			}
			return l, err
		},
	})
	for _, which := range []string{"varint-array", "int-array"} {
		which := which
		ps = append(ps, prim{name: which, coq: "OVarInts", values: 5, hdr: varintBytes, lens: listLens, limit: -1,
			gen: func(r *lib.Rng, i int) any {
				n := sizeFrom(r, i, []int{0, 1, 4, 2})
				l := make([]any, n)
				for j := range l {
					l[j] = varintEdges[r.Intn(len(varintEdges))]
				}
				return l
			},
			enc: func(b *bytes.Buffer, v any) error {
				var xs []int
				for _, x := range v.([]any) {
					xs = append(xs, int(x.(int64)))
				}
				return util.WriteVarIntArray(b, xs)
			},
			dec: func(rd *bytes.Reader) (any, error) {
				var xs []int
				var err error
				if which == "int-array" {
					xs, err = util.ReadIntArray(rd)
				} else {
					xs, err = util.ReadVarIntArray(rd)
				}
				l := make([]any, len(xs))
				for j := range xs {
					l[j] = int64(xs[j])
				}
				return l, err
			},
		})
	}
	ps = append(ps, prim{name: "properties", coq: "OProps", values: 6, hdr: varintBytes, lens: listLens, limit: -1,
		gen: func(r *lib.Rng, i int) any {
			n := sizeFrom(r, i, []int{0, 1, 2, 3})
			l := make([]any, n)
			for j := range l {
				sig := []byte{}
				if r.Bool() {
					sig = genText(r, r.Pick(1, 8, 140))
				}
				l[j] = []any{genText(r, r.Pick(0, 8)), genText(r, r.Pick(0, 1, 30)), sig}
			}
			return l
		},
		enc: func(b *bytes.Buffer, v any) error {
			var pp []profile.Property
			for _, x := range v.([]any) {
				t := x.([]any)
				pp = append(pp, profile.Property{Name: string(t[0].([]byte)), Value: string(t[1].([]byte)), Signature: string(t[2].([]byte))})
			}
			return util.WriteProperties(b, pp)
		},
		dec: func(rd *bytes.Reader) (any, error) {
			pp, err := util.ReadProperties(rd)
			l := make([]any, len(pp))
			for j, p := range pp {
				l[j] = []any{[]byte(p.Name), []byte(p.Value), []byte(p.Signature)}
			}
			return l, err
		},
	})
	ps = append(ps, blobPrim("utf", "OUTF", []int{0, 1, 255, 256, 2, 65535, 65536, 3}, true, -1,
		func(b *bytes.Buffer, v []byte) error { return util.WriteUTF(b, string(v)) },
		func(rd *bytes.Reader) ([]byte, error) { s, err := util.ReadUTF(rd); return []byte(s), err }))
	ps[len(ps)-1].hdr = nil
	ps = append(ps, prim{name: "key", coq: "OKey", values: 16, gen: genKey,
		enc: func(b *bytes.Buffer, v any) error { return util.WriteKey(b, toKey(v)) },
		dec: func(rd *bytes.Reader) (any, error) {
			k, err := util.ReadKey(rd)
			if err != nil || k == nil {
				return []any{}, err
			}
			return keyVal(k), nil
		},
	})
	ps = append(ps, prim{name: "key-array", coq: "OKeys", values: 5, hdr: varintBytes, lens: listLens, limit: -1,
		gen: func(r *lib.Rng, i int) any {
			n := sizeFrom(r, i, []int{0, 1, 3, 2})
			l := make([]any, n)
			for j := range l {
				l[j] = genKey(r, r.Pick(0, 1, 3, 1)) // valid keys
			}
			if i%5 == 4 && n > 0 {
				l[n-1] = genKey(r, 5) // WriteKeyArray must stop at an invalid key
			}
			return l
		},
		enc: func(b *bytes.Buffer, v any) error {
			var ks []key.Key
			for _, x := range v.([]any) {
				ks = append(ks, toKey(x))
			}
			return util.WriteKeyArray(b, ks)
		},
		dec: func(rd *bytes.Reader) (any, error) {
			ks, err := util.ReadKeyArray(rd)
			l := make([]any, len(ks))
			for j := range ks {
				l[j] = keyVal(ks[j])
			}
			return l, err
		},
	})
	ps = append(ps, prim{name: "minimal-key", coq: "OMinKey", values: 8, gen: genKey,
		enc: func(b *bytes.Buffer, v any) error { return util.WriteMinimalKey(b, toKey(v)) },
		dec: func(rd *bytes.Reader) (any, error) {
			k, err := util.ReadMinimalKey(rd)
			if err != nil || k == nil {
				return []any{}, err
			}
			return keyVal(k), nil
		},
	})
	return ps
}

var varintNMismatch []any

func util_WriteBytes(b *bytes.Buffer, v []byte) error { return util.WriteBytes(b, v) }

// ---- running the real code ----

type observation struct {
	coq  string
	desc any
}

func observe(p prim, input []byte) (o observation) {
	rd := bytes.NewReader(input)
	defer func() {
		if rec := recover(); rec != nil {
			o = observation{"ObsPanic", map[string]any{"panic": fmt.Sprint(rec)}}
		}
	}()
	v, err := p.dec(rd)
	if err != nil {
		return observation{"ObsErr", map[string]any{"err": err.Error()}}
	}
	consumed := len(input) - rd.Len()
	return observation{lib.App("ObsOk", coqVal(v), lib.N(uint64(consumed))), map[string]any{"value": descVal(v), "consumed": consumed}}
}

func main() {
	f := lib.ParseFlags()
	rng := lib.NewRng(f.Seed)
	out := lib.NewOut("C03", f)
	out.Imports = "From Verif Require Import Model.Prim.\n"
	out.Rule = "per primitive: boundary values first (sizes 0/1/127/128/255/256/limit-1/limit, int edges), then random; each value gives one round-trip case (real WriteX, then real ReadX on encoding ++ 0..3 trailing bytes, through a *bytes.Reader), one case per strict prefix of the encoding (all prefixes up to 24 bytes, else header/boundary/random cut points), and length-prefixed primitives get cases with prefixes -1, 0, 1, limit-1, limit, limit+1, 2^31-1, -2^31 followed by 0..4 bytes or by a complete body; plus a malformed stream of raw inputs per reader (over-long VarInts, random bytes) judged by model agreement only; distinct = distinct (op, kind, value, observation) terms; non-trivial = prefix cases with k >= 1, round trips whose encoding has >= 2 bytes or trailing bytes, all length-prefix cases"

	for _, p := range prims() {
		r := rng.Fork()
		nv := f.Count(p.values)
		for i := 0; i < nv; i++ {
			v := p.gen(r, i)
			var buf bytes.Buffer
			encErr := p.enc(&buf, v)
			e := append([]byte{}, buf.Bytes()...)
			encCoq := lib.Some(coqBytes(e))
			if encErr != nil {
				e = nil
				encCoq = "None"
			}
			// round trip with trailing bytes (every other case: none, so that "array at the end of the payload" is hit)
			rest := []byte{}
			if i%2 == 1 {
				rest = r.Bytes(r.Range(1, 3))
			}
			in := append(append([]byte{}, e...), rest...)
			o := observe(p, in)
			out.Add(lib.App("Check.C03.mk", p.coq, lib.App("KRound", coqBytes(rest)), coqVal(v), encCoq, o.coq),
				map[string]any{"op": p.name, "kind": "roundtrip", "value": descVal(v), "encoding_hex": descVal(e), "write_error": fmt.Sprint(encErr), "trailing_hex": fmt.Sprintf("%x", rest), "observed": o.desc},
				len(e) >= 2 || len(rest) > 0, "op="+p.name, "kind=roundtrip")
			if encErr != nil {
				continue
			}
			// strict prefixes
			var cuts []int
			if len(e) <= 24 {
				for k := 0; k < len(e); k++ {
					cuts = append(cuts, k)
				}
			} else {
				seen := map[int]bool{}
				cand := []int{0, 1, 2, 3, 4, 5, len(e) - 1, len(e) - 2, len(e) / 2}
				nr := 3
				if len(e) > 2048 {
					cand = []int{0, 1, len(e) - 1}
					nr = 1
				}
				for j := 0; j < nr; j++ {
					cand = append(cand, r.Intn(len(e)))
				}
				for _, k := range cand {
					if k >= 0 && k < len(e) && !seen[k] {
						seen[k] = true
						cuts = append(cuts, k)
					}
				}
			}
			for _, k := range cuts {
				o := observe(p, e[:k])
				out.Add(lib.App("Check.C03.mk", p.coq, lib.App("KPrefix", lib.N(uint64(k))), coqVal(v), encCoq, o.coq),
					map[string]any{"op": p.name, "kind": "prefix", "value": descVal(v), "encoding_hex": descVal(e), "prefix_len": k, "input_hex": descVal(e[:k]), "observed": o.desc},
					k >= 1, "op="+p.name, "kind=prefix")
			}
		}
		// length prefixes
		if p.hdr != nil {
			for _, l := range p.lens {
				tails := [][]byte{{}, r.Bytes(r.Range(1, 4))}
				if l > 70000 && l <= p.limit {
					tails = tails[:1] // keep huge in-limit lengths to the empty tail (a regression to zero padding would produce a huge observation)
				}
				if l > 0 && l <= 4096 {
					tails = append(tails, r.Bytes(int(l)+r.Range(0, 2))) // a complete body: accepted iff l is within the limit
				}
				for _, tail := range tails {
					in := append(append([]byte{}, p.hdr(l)...), tail...)
					o := observe(p, in)
					out.Add(lib.App("Check.C03.mk", p.coq, lib.App("KLen", lib.Z(l), coqBytes(tail)), "(VL [])", "None", o.coq),
						map[string]any{"op": p.name, "kind": "length-prefix", "length": l, "limit": p.limit, "input_hex": fmt.Sprintf("%x", in), "observed": o.desc},
						true, "op="+p.name, "kind=length-prefix")
				}
			}
		}
	}
	// malformed stream: arbitrary bytes straight into every reader (judged by model agreement only)
	raw := rng.Fork()
	special := [][]byte{
		{0x80, 0x80, 0x80, 0x80, 0x80, 0x01}, {0xff, 0xff, 0xff, 0xff, 0xff, 0x0f}, {0xff, 0xff, 0xff, 0xff, 0x7f},
		{0x80, 0x80, 0x80, 0x80, 0x10}, {0x02}, {0x80}, {}, {0x00}, {0x01, 0x3a}, {0x03, 0x3a, 0x61, 0x62}, {0x03, 0x61, 0x3a, 0x3a},
	}
	for _, p := range prims() {
		n := f.Count(6)
		for i := 0; i < n; i++ {
			var in []byte
			if i < 3 {
				in = special[raw.Intn(len(special))]
			} else {
				in = raw.Bytes(raw.Range(0, 12))
				if raw.Bool() && len(in) > 0 {
					in[0] = byte(raw.Intn(6)) // small leading length so that bodies are sometimes complete
				}
			}
			o := observe(p, in)
			out.Add(lib.App("Check.C03.mk", p.coq, lib.App("KRaw", coqBytes(in)), "(VL [])", "None", o.coq),
				map[string]any{"op": p.name, "kind": "raw", "input_hex": fmt.Sprintf("%x", in), "observed": o.desc},
				len(in) > 0, "op="+p.name, "kind=raw")
		}
	}
	for _, m := range varintNMismatch {
		out.GoViolation(m)
	}
	out.Finish()
}
