// C29 harness: runs the real Lite route matcher (matchWithGroups, FindRouteWithGroups,
// ClearVirtualHost, substituteBackendParams, findRoute) on generated patterns, hosts, templates and
// route lists and writes what it observed for the Coq side (Check/C29.v) to judge against the
// glob / simultaneous-substitution model.
package main

import (
	"fmt"
	"net"
	"strings"
	"time"

	"go.minekube.com/gate/pkg/edition/java/lite"
	"go.minekube.com/gate/pkg/edition/java/lite/config"

	"verifharness/lib"
)

// fakeConn is the client socket findRoute looks at (RemoteAddr only).
type fakeConn struct{}

func (fakeConn) Read([]byte) (int, error)         { return 0, net.ErrClosed }
func (fakeConn) Write(b []byte) (int, error)      { return len(b), nil }
func (fakeConn) Close() error                     { return nil }
func (fakeConn) LocalAddr() net.Addr              { return &net.TCPAddr{IP: net.IPv4(127, 0, 0, 1), Port: 25565} }
func (fakeConn) RemoteAddr() net.Addr             { return &net.TCPAddr{IP: net.IPv4(127, 0, 0, 1), Port: 54321} }
func (fakeConn) SetDeadline(time.Time) error      { return nil }
func (fakeConn) SetReadDeadline(time.Time) error  { return nil }
func (fakeConn) SetWriteDeadline(time.Time) error { return nil }

// symbols a pattern is drawn from: letters, dot, both wildcards and every regexp metacharacter
// QuoteMeta has to neutralise; a few upper-case and multi-byte letters for the case folding.
var patSyms = []string{"a", "b", "a", "b", ".", "*", "*", "?", "\\", "(", "[", "$", "^", "|", "+", ")", "]", "{", "A", "B", "1", "Ä", "ä", "Ж", "ж", "日", "\n"}

// what a wildcard may have to swallow / what a host may contain
var hostSyms = []string{"a", "b", "a", "b", ".", ".", "A", "B", "x", "X", "1", "2", "$", "*", "?", "\\", "(", "[", "^", "|", "+",
	"\n", "\n", "\x00", "Ä", "ä", "é", "É", "Σ", "σ", "Ж", "ж", "日", "😀", "\xff", "\xc3", "\xe2\x82", "\xed\xa0\x80", "/", "//", "///"}

func pick(r *lib.Rng, xs []string) string { return xs[r.Intn(len(xs))] }

func genPattern(r *lib.Rng, maxLen int) string {
	n := r.Range(0, maxLen)
	var sb strings.Builder
	for i := 0; i < n; i++ {
		sb.WriteString(pick(r, patSyms))
	}
	return sb.String()
}

func genText(r *lib.Rng, maxLen int, syms []string) string {
	n := r.Range(0, maxLen)
	var sb strings.Builder
	for i := 0; i < n; i++ {
		sb.WriteString(pick(r, syms))
	}
	return sb.String()
}

// hostFor instantiates the pattern: wildcards get random text, literals are kept (sometimes with
// flipped case), so that most generated pairs match; then optionally one mutation.
func hostFor(r *lib.Rng, pattern string) string {
	var sb strings.Builder
	for _, c := range pattern {
		switch c {
		case '*':
			sb.WriteString(genText(r, 3, hostSyms))
		case '?':
			if r.Chance(1, 12) {
				// zero or two characters: must not match
				if r.Bool() {
					sb.WriteString("ab")
				}
			} else {
				s := pick(r, hostSyms)
				sb.WriteString(s)
			}
		default:
			s := string(c)
			if r.Chance(1, 4) {
				s = strings.ToUpper(s)
			}
			sb.WriteString(s)
		}
	}
	h := sb.String()
	switch r.Intn(10) {
	case 0: // drop a byte
		if len(h) > 0 {
			i := r.Intn(len(h))
			h = h[:i] + h[i+1:]
		}
	case 1: // insert something
		i := r.Intn(len(h) + 1)
		h = h[:i] + pick(r, hostSyms) + h[i:]
	}
	return h
}

func optGroups(ok bool, gs []string) string {
	if !ok {
		return "None"
	}
	return lib.Some(lib.ListOf(gs, lib.Str))
}

func hasMeta(s string) bool { return strings.ContainsAny(s, "\\.+()|[]{}^$") }

func main() {
	f := lib.ParseFlags()
	rng := lib.NewRng(f.Seed)
	out := lib.NewOut("C29", f)
	out.Rule = "match: patterns of <=7 symbols over letters, '.', '*', '?', every regexp metacharacter, upper case, multi-byte letters and LF; hosts are instantiations of the pattern (wildcards filled from an alphabet with LF, NUL, '$', metacharacters, Latin-1/Greek/Cyrillic/CJK/emoji, invalid UTF-8) plus independent random hosts; lower-sweep: every code point of Base.Text.lower_covered below U+0500 through pattern '*'; subst: templates over {a . : $ 0-9} with 0..12 groups over {x 1 0 $ $1 $2 empty}; route: 1-4 routes x 1-3 patterns x 0-3 backend templates, raw host with Forge / TCPShield suffixes and surrounding dots, also through the real findRoute; distinct = distinct Coq term; non-trivial = a match with >=1 group, a template with >=1 '$', or a route lookup with >=2 patterns"

	sm := lite.NewStrategyManager()

	addMatch := func(s, pattern, kind string) {
		ok, gs := lite.VerifMatchWithGroups(s, pattern)
		tags := []string{"kind=" + kind}
		if ok {
			tags = append(tags, "matched")
		} else {
			tags = append(tags, "no-match")
		}
		if strings.Contains(s, "\n") {
			tags = append(tags, "host-has-LF")
		}
		if hasMeta(pattern) {
			tags = append(tags, "pattern-has-regexp-meta")
		}
		out.Add(lib.App("Check.C29.CMatch", lib.Str(s), lib.Str(pattern), optGroups(ok, gs)),
			map[string]any{"kind": kind, "host": s, "pattern": pattern, "host_hex": fmt.Sprintf("%x", s), "pattern_hex": fmt.Sprintf("%x", pattern), "matched": ok, "groups": gs},
			ok && len(gs) > 0, tags...)
	}

	// --- fixed corpus: the recorded findings and classic edge cases, always first
	for _, c := range [][2]string{
		{"a\nb.example.com", "*.example.com"}, {"a.example.com", "*.example.com"}, {"", ""}, {"", "*"}, {"", "?"},
		{"abc", "abc"}, {"aXbXc", "*x*"}, {"a\\b", "a\\?"}, {"a+b", "a+b"}, {"aab", "a+b"}, {"ab", "a|b"}, {"a", "a|b"},
		{"A\xffB\xc3\x84", "a?b?"}, {"x.y", "x?y"}, {"xzy", "x.y"}, {"abab", "*ab"}, {"abab", "*?*"}, {"\n", "?"}, {"\n", "\n"},
		{"É", "?"}, {"a\x00b.example.com", "*.example.com"},
	} {
		addMatch(c[0], c[1], "corpus")
	}

	// --- random pattern/host pairs
	n := f.Count(900)
	for i := 0; i < n; i++ {
		r := rng.Fork()
		p := genPattern(r, 7)
		var h string
		if r.Chance(4, 5) {
			h = hostFor(r, p)
		} else {
			h = genText(r, 6, hostSyms)
		}
		addMatch(h, p, "random")
	}

	// --- lower-casing sweep over the covered blocks (through '*', which returns the lowered host)
	var covered []rune
	for c := rune(0); c < 0x500; c++ {
		if c < 0x100 || (c >= 0x391 && c <= 0x3c9) || (c >= 0x400 && c <= 0x45f) {
			covered = append(covered, c)
		}
	}
	covered = append(covered, 0x3042, 0x30a2, 0x4e00, 0x9fff, 0x1f600, 0x1f64f, 0xfffd)
	for i := 0; i < len(covered); i += 24 {
		j := i + 24
		if j > len(covered) {
			j = len(covered)
		}
		addMatch(string(covered[i:j]), "*", "lower-sweep")
	}

	// --- exhaustive small domain (thorough only; generation order unchanged for quick)
	if f.Tier == "thorough" {
		syms := []string{"a", "*", "?", "\n"}
		var words []string
		var rec func(prefix string, k int)
		rec = func(prefix string, k int) {
			words = append(words, prefix)
			if k == 0 {
				return
			}
			for _, s := range syms {
				rec(prefix+s, k-1)
			}
		}
		rec("", 3)
		for _, p := range words {
			for _, h := range words {
				addMatch(h, p, "exhaustive")
			}
		}
	}

	// --- substitution
	tmplSyms := []string{"a", ".", ":", "$", "$", "$1", "$2", "$3", "$10", "$12", "0", "1", "2", "9", "$0", "$01"}
	grpSyms := []string{"x", "y", "1", "0", "2", "$", "$1", "$2", "", "ab", "$10"}
	addSubst := func(t string, gs []string, kind string) {
		obs := lite.VerifSubstituteBackendParams(t, gs)
		tags := []string{"kind=" + kind, fmt.Sprintf("groups=%d", len(gs))}
		out.Add(lib.App("Check.C29.CSubst", lib.Str(t), lib.ListOf(gs, lib.Str), lib.Str(obs)),
			map[string]any{"kind": kind, "template": t, "groups": gs, "observed": obs},
			strings.Contains(t, "$") && len(gs) > 0, tags...)
	}
	addSubst("$2", []string{"x", "$1"}, "subst-corpus")
	addSubst("h$19", []string{"x", "y"}, "subst-corpus")
	addSubst("$3$2", []string{"X", "1", "$"}, "subst-corpus")
	addSubst("$$2", []string{"X", "1"}, "subst-corpus")
	addSubst("$1.servers.svc:25565", []string{"abc"}, "subst-corpus")
	addSubst("$1-$2:$3", []string{"a", "b", "25565"}, "subst-corpus")
	addSubst("$99", []string{"a"}, "subst-corpus")
	addSubst("$1", nil, "subst-corpus")
	addSubst("$10$1", []string{"a", "b", "c", "d", "e", "f", "g", "h", "i", "j"}, "subst-corpus")
	m := f.Count(500)
	for i := 0; i < m; i++ {
		r := rng.Fork()
		t := genText(r, 6, tmplSyms)
		ng := r.Pick(0, 1, 1, 2, 2, 2, 3, 3, 9, 10, 12)
		gs := make([]string, ng)
		for j := range gs {
			gs[j] = pick(r, grpSyms)
			if r.Chance(1, 3) {
				gs[j] += pick(r, grpSyms)
			}
		}
		addSubst(t, gs, "subst-random")
	}

	// --- route lookup, also through the real findRoute
	k := f.Count(500)
	for i := 0; i < k; i++ {
		r := rng.Fork()
		nr := r.Range(1, 4)
		routes := make([]config.Route, nr)
		var allPats []string
		for j := range routes {
			np := r.Range(1, 3)
			for q := 0; q < np; q++ {
				p := genPattern(r, 5)
				if r.Chance(1, 3) {
					p = "*." + genText(r, 3, []string{"a", "b", "."})
				}
				routes[j].Host = append(routes[j].Host, p)
				allPats = append(allPats, p)
			}
			nb := r.Range(0, 3)
			for q := 0; q < nb; q++ {
				routes[j].Backend = append(routes[j].Backend, genText(r, 5, []string{"a", "b", ".", ":", "$1", "$2", "$1", "$12", "$", "1"}))
			}
		}
		// host: built for one of the patterns (so that earlier routes may or may not shadow it), or random
		var host string
		if r.Chance(5, 6) {
			host = hostFor(r, allPats[r.Intn(len(allPats))])
		} else {
			host = genText(r, 5, hostSyms)
		}
		raw := host
		if r.Chance(1, 3) {
			raw = strings.Repeat(".", r.Intn(3)) + raw + strings.Repeat(".", r.Intn(3))
		}
		switch r.Intn(6) {
		case 0:
			raw += "\x00FML\x00"
		case 1:
			raw += "\x00FML2\x00"
		case 2:
			raw += "///1.2.3.4:5///1700000000"
		case 3:
			raw += ".///1.2.3.4:5///1700000000\x00FML\x00"
		}
		clean := lite.ClearVirtualHost(raw)
		mh, mr, gs := lite.FindRouteWithGroups(clean, routes...)
		found := "None"
		var subs []string
		idx := -1
		if mr != nil {
			for j := range routes {
				if mr == &routes[j] {
					idx = j
				}
			}
			found = lib.Some("(" + lib.N(uint64(idx)) + ", " + lib.Str(mh) + ", " + lib.ListOf(gs, lib.Str) + ")")
			for _, b := range routes[idx].Backend {
				subs = append(subs, lite.VerifSubstituteBackendParams(b, gs))
			}
		}
		// the real findRoute (its own copy of the routes: it must not depend on the calls above)
		frHost, frRoute, failed, hasNext, first, firstOK := lite.VerifFindRouteC29(routes, raw, sm, fakeConn{})
		cls := 0
		switch {
		case failed && frRoute == nil:
			cls = 1
		case failed:
			cls = 2
		}
		if failed == hasNext || (hasNext && !firstOK) || (frRoute != nil && idx >= 0 && frRoute != &routes[idx]) {
			// shapes the Coq case cannot express: an iterator together with an error, an empty iterator
			// for a route with backends, or a different route object than FindRouteWithGroups
			out.GoViolation(map[string]any{"known": nil, "route_iteration": i, "what": "findRoute result shape", "raw": raw, "failed": failed, "hasNext": hasNext, "firstOK": firstOK})
		}
		rts := lib.ListOf(routes, func(rt config.Route) string {
			return lib.Pair(lib.ListOf([]string(rt.Host), lib.Str), lib.ListOf([]string(rt.Backend), lib.Str))
		})
		tags := []string{"kind=route", fmt.Sprintf("class=%d", cls)}
		if strings.Contains(clean, "\n") {
			tags = append(tags, "host-has-LF")
		}
		if clean != raw {
			tags = append(tags, "host-cleaned")
		}
		out.Add(lib.App("Check.C29.CRoute", lib.Str(raw), rts, lib.Str(clean), found, lib.ListOf(subs, lib.Str),
			lib.N(uint64(cls)), lib.Str(frHost), lib.Str(first)),
			map[string]any{"kind": "route", "raw_host": raw, "raw_hex": fmt.Sprintf("%x", raw), "routes": routes, "clean": clean, "found_index": idx, "found_pattern": mh, "groups": gs, "backends": subs, "findRoute_class": cls, "findRoute_host": frHost, "first": first},
			len(allPats) >= 2, tags...)
	}
	out.Finish()
}
