// C23 harness: registers a generated command graph (literals/arguments, per-node requirement
// results, executors, redirects to later siblings/descendants) on a real Proxy, sends a generated
// backend command tree through the real backendPlaySessionHandler.HandlePacket and records the
// AvailableCommands packet the player receives. The Coq side (Check/C23.v) judges.
// The cyclic-redirect inputs (finding C23-1: fatal stack overflow) run in a child process: this
// binary re-executes itself with VERIF_C23_CHILD set.
package main

import (
	"bytes"
	"context"
	"fmt"
	"hash/fnv"
	"os"
	"os/exec"
	"runtime/debug"
	"strconv"
	"strings"
	"time"

	"github.com/robinbraemer/event"
	"go.minekube.com/brigodier"

	"go.minekube.com/gate/pkg/command"
	"go.minekube.com/gate/pkg/edition/java/config"
	"go.minekube.com/gate/pkg/edition/java/profile"
	"go.minekube.com/gate/pkg/edition/java/proto/packet"
	"go.minekube.com/gate/pkg/edition/java/proto/version"
	"go.minekube.com/gate/pkg/edition/java/proxy"
	"go.minekube.com/gate/pkg/gate/proto"
	"go.minekube.com/gate/pkg/util/permission"
	"go.minekube.com/gate/pkg/util/uuid"

	"verifharness/c2xfix"
	"verifharness/lib"
)

type gnode struct {
	id       int
	arg      bool
	req      bool
	reqKind  int // 0 nil, 1 closure, 2 permission
	exec     bool
	redirect int // 0 = none
	children []int
	depth    int
}

type graph struct {
	nodes   []*gnode // index = id; nodes[0] is the root
	built   []brigodier.CommandNode
	removed []int // root children currently unregistered
}

func genGraph(r *lib.Rng) *graph {
	g := &graph{nodes: []*gnode{{id: 0, req: true}}}
	maxNodes := r.Pick(3, 8, 15, 25, 40)
	var grow func(parent *gnode, depth int)
	grow = func(parent *gnode, depth int) {
		fan := r.Range(0, 4)
		if depth == 1 {
			fan = r.Range(1, 4)
		}
		for i := 0; i < fan && len(g.nodes) <= maxNodes; i++ {
			n := &gnode{id: len(g.nodes), depth: depth}
			n.arg = depth > 1 && r.Chance(3, 10)
			n.req = r.Chance(3, 4)
			if n.req {
				n.reqKind = r.Intn(3)
			} else {
				n.reqKind = 1 + r.Intn(2)
			}
			n.exec = r.Chance(3, 5)
			g.nodes = append(g.nodes, n)
			parent.children = append(parent.children, n.id)
			if depth < 5 && r.Chance(3, 5) {
				grow(n, depth+1)
			}
		}
	}
	grow(g.nodes[0], 1)
	// redirects only to nodes with a larger id (descendants, later siblings, later cousins):
	// every edge then increases the id, so the graph is acyclic
	for _, n := range g.nodes[1:] {
		if n.id < len(g.nodes)-1 && r.Chance(1, 5) {
			n.redirect = r.Range(n.id+1, len(g.nodes)-1)
		}
	}
	return g
}

func nameOf(id int) string { return "n" + strconv.Itoa(id) }

// build registers the graph on the dispatcher root and returns the permission table
// (permission string -> node whose CURRENT requirement outcome answers it).
func (g *graph) build(root *brigodier.RootCommandNode) map[string]*gnode {
	perms := map[string]*gnode{}
	built := make([]brigodier.CommandNode, len(g.nodes))
	g.built = built
	for id := len(g.nodes) - 1; id >= 1; id-- {
		n := g.nodes[id]
		var req brigodier.RequireFn
		switch n.reqKind {
		case 1:
			nd := n
			req = func(context.Context) bool { return nd.req } // outcome at call time
		case 2:
			perm := "verif.node." + strconv.Itoa(id)
			perms[perm] = n
			req = command.Requires(func(c *command.RequiresContext) bool { return c.Source != nil && c.Source.HasPermission(perm) })
		}
		var cmd brigodier.Command
		if n.exec {
			cmd = command.Command(func(*command.Context) error { return nil })
		}
		var node brigodier.CommandNode
		if n.arg {
			b := brigodier.Argument(nameOf(id), []brigodier.ArgumentType{brigodier.StringWord, brigodier.Bool, brigodier.Int}[id%3])
			if req != nil {
				b.Requires(req)
			}
			if cmd != nil {
				b.Executes(cmd)
			}
			if n.redirect != 0 {
				b.Redirect(built[n.redirect])
			}
			node = b.BuildArgument()
		} else {
			b := brigodier.Literal(nameOf(id))
			if req != nil {
				b.Requires(req)
			}
			if cmd != nil {
				b.Executes(cmd)
			}
			if n.redirect != 0 {
				b.Redirect(built[n.redirect])
			}
			node = b.BuildLiteral()
		}
		for _, c := range n.children {
			node.AddChild(built[c])
		}
		built[id] = node
	}
	for _, c := range g.nodes[0].children {
		root.AddChild(built[c])
	}
	return perms
}

// mutate changes what the player may use (and sometimes what is registered) between two
// AvailableCommands packets of one backend session; returns a tag.
func (g *graph) mutate(r *lib.Rng, root *brigodier.RootCommandNode) string {
	var mutable []*gnode
	for _, n := range g.nodes[1:] {
		if n.reqKind != 0 {
			mutable = append(mutable, n)
		}
	}
	switch x := r.Intn(100); {
	case x < 25:
		for _, n := range mutable {
			n.req = false
		}
		return "revoke-all"
	case x < 45:
		for _, n := range mutable {
			n.req = true
		}
		return "grant-all"
	case x < 75:
		for i, k := 0, r.Range(1, 3); i < k && len(mutable) > 0; i++ {
			n := mutable[r.Intn(len(mutable))]
			n.req = !n.req
		}
		return "flip-nodes"
	case x < 85:
		if cs := g.nodes[0].children; len(cs) > 0 {
			i := r.Intn(len(cs))
			c := cs[i]
			root.RemoveChild(nameOf(c))
			g.nodes[0].children = append(append([]int{}, cs[:i]...), cs[i+1:]...)
			g.removed = append(g.removed, c)
			return "unregister-root-command"
		}
		return "none"
	case x < 92:
		if len(g.removed) > 0 {
			c := g.removed[len(g.removed)-1]
			g.removed = g.removed[:len(g.removed)-1]
			root.AddChild(g.built[c])
			g.nodes[0].children = append(g.nodes[0].children, c)
			return "re-register-root-command"
		}
		return "none"
	default:
		n := &gnode{id: len(g.nodes), depth: 1, req: r.Chance(3, 4), reqKind: 1, exec: true}
		g.nodes = append(g.nodes, n)
		nd := n
		node := brigodier.Literal(nameOf(n.id)).Requires(func(context.Context) bool { return nd.req }).
			Executes(command.Command(func(*command.Context) error { return nil })).BuildLiteral()
		g.built = append(g.built, node)
		root.AddChild(node)
		g.nodes[0].children = append(g.nodes[0].children, n.id)
		return "register-new-root-command"
	}
}

func (g *graph) coq() string {
	items := make([]string, len(g.nodes))
	for i, n := range g.nodes {
		k := "KLit"
		if i == 0 {
			k = "KRoot"
		} else if n.arg {
			k = "KArg"
		}
		items[i] = lib.Pair(lib.N(uint64(i)), lib.App("mkG", k, lib.Bool(n.req), lib.Bool(n.exec),
			lib.Opt(n.redirect != 0, lib.N(uint64(n.redirect))), lib.ListOf(n.children, func(c int) string { return lib.N(uint64(c)) })))
	}
	return lib.List(items)
}

func (g *graph) desc() []any {
	var out []any
	for _, n := range g.nodes {
		out = append(out, map[string]any{"id": n.id, "argument": n.arg, "requirement": n.req, "req_kind": n.reqKind, "executes": n.exec, "redirect": n.redirect, "children": n.children})
	}
	return out
}

// canonical text of a subtree of the backend's tree (names, kinds, executors, order, redirects by name)
func canon(n brigodier.CommandNode, depth int, sb *strings.Builder) {
	if depth > 8 {
		sb.WriteString("...")
		return
	}
	switch n.(type) {
	case *brigodier.LiteralCommandNode:
		sb.WriteString("L")
	case *brigodier.ArgumentCommandNode:
		sb.WriteString("A")
	default:
		sb.WriteString("R")
	}
	fmt.Fprintf(sb, "%q", n.Name())
	if n.Command() != nil {
		sb.WriteString("!")
	}
	if n.Requirement() != nil {
		sb.WriteString("?")
	}
	if n.Redirect() != nil {
		fmt.Fprintf(sb, ">%q", n.Redirect().Name())
	}
	sb.WriteString("(")
	n.ChildrenOrdered().Range(func(_ string, c brigodier.CommandNode) bool {
		canon(c, depth+1, sb)
		sb.WriteString(",")
		return true
	})
	sb.WriteString(")")
}

func fingerprint(n brigodier.CommandNode) uint64 {
	var sb strings.Builder
	canon(n, 0, &sb)
	h := fnv.New64a()
	h.Write([]byte(sb.String()))
	return h.Sum64() >> 2
}

type bchild struct {
	key  int // name key: proxy id for "n<id>", 1000+j for "b<j>"
	node brigodier.CommandNode
	fp   uint64
}

func genBackend(r *lib.Rng, g *graph) (*brigodier.RootCommandNode, []*bchild) {
	root := &brigodier.RootCommandNode{}
	var out []*bchild
	used := map[int]bool{}
	k := r.Range(0, 5)
	for i := 0; i < k; i++ {
		key := 1000 + r.Intn(8)
		if r.Chance(1, 2) && len(g.nodes[0].children) > 0 {
			key = g.nodes[0].children[r.Intn(len(g.nodes[0].children))] // clashes with a proxy root command (usable or not)
		} else if r.Chance(1, 6) && len(g.nodes) > 2 {
			key = r.Range(1, len(g.nodes)-1) // same name as some deeper proxy node: no clash at the root
		}
		if used[key] {
			continue
		}
		used[key] = true
		name := nameOf(key)
		if key >= 1000 {
			name = "b" + strconv.Itoa(key-1000)
		}
		b := brigodier.Literal(name)
		if r.Bool() {
			b.Executes(brigodier.CommandFunc(func(*brigodier.CommandContext) error { return nil }))
		}
		for j, m := 0, r.Range(0, 2); j < m; j++ {
			if r.Bool() {
				b.Then(brigodier.Literal("s" + strconv.Itoa(j)))
			} else {
				b.Then(brigodier.Argument("t"+strconv.Itoa(j), brigodier.StringWord).Executes(brigodier.CommandFunc(func(*brigodier.CommandContext) error { return nil })))
			}
		}
		n := b.BuildLiteral()
		root.AddChild(n)
		out = append(out, &bchild{key: key, node: n, fp: fingerprint(n)})
	}
	return root, out
}

func decodeID(name string) uint64 {
	if strings.HasPrefix(name, "n") {
		if v, err := strconv.ParseUint(name[1:], 10, 32); err == nil && nameOf(int(v)) == name {
			return v
		}
	}
	return 999999
}

// otree prints a proxy copy as a Model.CmdTree.otree term
func otree(n brigodier.CommandNode, depth int, usableCtx context.Context) string {
	if depth > 64 {
		return "(ONode 999998%N KLit false None [])"
	}
	k := "KLit"
	switch n.(type) {
	case *brigodier.ArgumentCommandNode:
		k = "KArg"
	case *brigodier.RootCommandNode:
		k = "KRoot"
	}
	red := "None"
	if n.Redirect() != nil {
		red = lib.Some(otree(n.Redirect(), depth+1, usableCtx))
	}
	var cs []string
	n.ChildrenOrdered().Range(func(_ string, c brigodier.CommandNode) bool {
		cs = append(cs, otree(c, depth+1, usableCtx))
		return true
	})
	id := decodeID(n.Name())
	if !n.CanUse(usableCtx) { // copies must carry the always-true requirement
		id = 999997
	}
	return lib.App("ONode", lib.N(id), k, lib.Bool(n.Command() != nil), red, lib.List(cs))
}

func newProxy(announce bool) *proxy.Proxy {
	cfg := config.DefaultConfig
	cfg.AnnounceProxyCommands = announce
	p, err := proxy.New(proxy.Options{Config: &cfg, EventMgr: event.New()}) // as gate.New does; the default event.Nop never runs FireParallel's continuation
	if err != nil {
		fmt.Fprintln(os.Stderr, "proxy.New:", err)
		os.Exit(2)
	}
	return p
}

// waitAvailable returns the n-th (0-based) AvailableCommands packet the player received.
func waitAvailable(client *c2xfix.Conn, n int, d time.Duration) *packet.AvailableCommands {
	deadline := time.Now().Add(d)
	for {
		k := 0
		for _, pk := range client.Written() {
			if ac, ok := pk.(*packet.AvailableCommands); ok {
				if k == n {
					return ac
				}
				k++
			}
		}
		if time.Now().After(deadline) {
			return nil
		}
		time.Sleep(200 * time.Microsecond)
	}
}

// child: the cyclic-redirect inputs on the real code path; a fatal stack overflow kills this process.
func child(variant string) {
	debug.SetMaxStack(8 << 20)
	p := newProxy(true)
	root := &p.Command().Root
	switch variant {
	case "redirect-to-root":
		p.Command().Register(brigodier.Literal("run").Redirect(root))
	case "redirect-to-ancestor":
		a := brigodier.Literal("a").BuildLiteral()
		a.AddChild(brigodier.Literal("b").Redirect(a).BuildLiteral())
		root.AddChild(a)
	case "redirect-to-root-nested":
		p.Command().Register(brigodier.Literal("execute").Then(brigodier.Literal("as").Then(brigodier.Argument("who", brigodier.StringWord).Redirect(root))))
	default:
		fmt.Fprintln(os.Stderr, "unknown variant")
		os.Exit(3)
	}
	proto770 := version.Minecraft_1_21_5.Protocol
	client, backend := c2xfix.NewConn(proto770), c2xfix.NewConn(proto770)
	h, err := proxy.VerifC23NewBackendPlayHandler(p, client, backend, &profile.GameProfile{ID: uuid.New(), Name: "verif"},
		func(string) permission.TriState { return permission.True })
	if err != nil {
		fmt.Fprintln(os.Stderr, "handler:", err)
		os.Exit(3)
	}
	h.HandlePacket(&proto.PacketContext{Protocol: proto770, Direction: proto.ClientBound, Packet: &packet.AvailableCommands{RootNode: &brigodier.RootCommandNode{}}})
	if ac := waitAvailable(client, 0, 15*time.Second); ac != nil {
		fmt.Printf("DONE children=%d\n", len(ac.RootNode.Children()))
		os.Exit(0)
	}
	fmt.Println("NOPACKET")
	os.Exit(4)
}

func main() {
	if v := os.Getenv("VERIF_C23_CHILD"); v != "" {
		child(v)
		return
	}
	f := lib.ParseFlags()
	rng := lib.NewRng(f.Seed)
	out := lib.NewOut("C23", f)
	out.Imports = "From Verif Require Import Model.CmdTree.\n"
	out.Rule = "per case: a proxy command graph of 1-40 nodes under the dispatcher root (depth <= 5, fan-out <= 4, ids in preorder; root children literals, deeper nodes 30% arguments; requirement result 75% true realised as nil requirement / closure / permission lookup through command.Requires; 60% with executor; 20% with a redirect to a node of larger id = descendant, later sibling or later cousin; some nodes have both redirect and children) and a backend root with 0-5 literal children (small subtrees) whose names clash with usable / unusable proxy root commands, with deeper proxy nodes, or not at all; each backend session (one real backendPlaySessionHandler, AnnounceProxyCommands on) receives 1-4 AvailableCommands packets through HandlePacket, each with a fresh backend root; between two packets the player's requirement outcomes change (revoke all / grant all / flip 1-3 nodes; closures and the permission function answer at call time) or a root command is unregistered / re-registered / newly registered; every packet is one case, judged against the graph and outcomes at that moment. Plus 3 cyclic-redirect graphs in child processes. distinct = distinct Coq case term; non-trivial = some node is unusable, or some redirect exists, or a backend child clashes with a proxy root command"
	n := f.Count(110) // backend sessions; 1-4 AvailableCommands packets each (about 260 cases)
	proto770 := version.Minecraft_1_21_5.Protocol
	for i := 0; i < n; i++ {
		r := rng.Fork()
		g := genGraph(r)
		p := newProxy(true)
		root := &p.Command().Root
		perms := g.build(root)
		client, backend := c2xfix.NewConn(proto770), c2xfix.NewConn(proto770)
		permFn := func(s string) permission.TriState {
			if nd, ok := perms[s]; ok && nd.req {
				return permission.True
			} else if ok {
				return permission.False
			}
			return permission.Undefined
		}
		h, err := proxy.VerifC23NewBackendPlayHandler(p, client, backend, &profile.GameProfile{ID: uuid.New(), Name: "verif"}, permFn)
		if err != nil {
			fmt.Fprintln(os.Stderr, "handler:", err)
			os.Exit(2)
		}
		packets := r.Pick(1, 2, 2, 3, 3, 4)
		change := "first-packet"
		for k := 0; k < packets; k++ {
			if k > 0 {
				// same backend session, same handler: the player's requirement outcomes (and sometimes
				// the registered commands) change before the backend resends its tree
				change = g.mutate(r, root)
			}
			broot, bkids := genBackend(r, g)
			h.HandlePacket(&proto.PacketContext{Protocol: proto770, Direction: proto.ClientBound, Packet: &packet.AvailableCommands{RootNode: broot}})
			ac := waitAvailable(client, k, 15*time.Second)
			var obs []string
			var obsDesc []string
			if ac == nil {
				out.GoViolation(map[string]any{"known": nil, "index": -1, "what": "player never received the AvailableCommands packet within 15s", "graph": g.desc(), "packet_no": k})
			} else {
				byPtr := map[brigodier.CommandNode]*bchild{}
				for _, b := range bkids {
					byPtr[b.node] = b
				}
				ctx := command.ContextWithSource(context.Background(), nil)
				ac.RootNode.ChildrenOrdered().Range(func(_ string, c brigodier.CommandNode) bool {
					if b, ok := byPtr[c]; ok {
						obs = append(obs, lib.App("MBackend", lib.App("mkB", lib.N(uint64(b.key)), lib.N(fingerprint(c)))))
						obsDesc = append(obsDesc, "backend:"+c.Name())
					} else {
						obs = append(obs, lib.App("MProxy", otree(c, 0, ctx)))
						obsDesc = append(obsDesc, "proxy:"+c.Name())
					}
					return true
				})
			}
			term := lib.App("Check.C23.mk", g.coq(),
				lib.ListOf(bkids, func(b *bchild) string { return lib.App("mkB", lib.N(uint64(b.key)), lib.N(b.fp)) }), lib.List(obs))
			unusable, redirects, clash := 0, 0, 0
			for _, nd := range g.nodes[1:] {
				if !nd.req {
					unusable++
				}
				if nd.redirect != 0 {
					redirects++
				}
			}
			for _, b := range bkids {
				for _, c := range g.nodes[0].children {
					if b.key == c {
						clash++
					}
				}
			}
			var bdesc []string
			for _, b := range bkids {
				bdesc = append(bdesc, b.node.Name())
			}
			size := "nodes<=8"
			if len(g.nodes) > 25 {
				size = "nodes>25"
			} else if len(g.nodes) > 8 {
				size = "nodes<=25"
			}
			out.Add(term, map[string]any{"session": i, "packet_no": k, "change_before_packet": change, "graph_with_current_requirement_outcomes": g.desc(),
				"backend_children": bdesc, "observed_root_children": obsDesc},
				unusable > 0 || redirects > 0 || clash > 0,
				size, fmt.Sprintf("unusable=%v", unusable > 0), fmt.Sprintf("redirects=%v", redirects > 0), fmt.Sprintf("root_name_clash=%v", clash > 0),
				fmt.Sprintf("backend_children=%d", len(bkids)), fmt.Sprintf("packet_no=%d", k), "change="+change)
		}
	}
	// cyclic redirects: child processes (fatal stack overflow is not recoverable in-process)
	self, _ := os.Executable()
	for _, v := range []string{"redirect-to-root", "redirect-to-ancestor", "redirect-to-root-nested"} {
		ctx, cancel := context.WithTimeout(context.Background(), 60*time.Second)
		cmd := exec.CommandContext(ctx, self)
		cmd.Env = append(os.Environ(), "VERIF_C23_CHILD="+v)
		var so, se bytes.Buffer
		cmd.Stdout, cmd.Stderr = &so, &se
		err := cmd.Run()
		timedOut := ctx.Err() != nil
		cancel()
		overflow := strings.Contains(se.String(), "stack overflow") || strings.Contains(se.String(), "goroutine stack exceeds")
		switch {
		case err == nil && strings.HasPrefix(so.String(), "DONE"):
			out.Tag("cyclic:" + v + "=terminated")
		case overflow || timedOut:
			what := "fatal error: stack overflow"
			if timedOut && !overflow {
				what = "no answer within 60s"
			}
			out.Tag("cyclic:" + v + "=diverged")
			out.GoViolation(map[string]any{"known": 1, "index": -1, "variant": v,
				"what":   "filterNode does not terminate on a redirect cycle (" + what + ") when a backend sends its command tree",
				"replay": "VERIF_C23_CHILD=" + v + " " + self, "stderr_head": trunc(se.String(), 300)})
		default:
			out.Tag("cyclic:" + v + "=error")
			out.GoViolation(map[string]any{"known": nil, "index": -1, "variant": v, "what": "cyclic-redirect child process failed in an unexpected way",
				"error": fmt.Sprint(err), "stdout": trunc(so.String(), 300), "stderr_head": trunc(se.String(), 600)})
		}
	}
	out.Finish()
}

func trunc(s string, n int) string {
	if len(s) <= n {
		return s
	}
	return s[:n]
}
