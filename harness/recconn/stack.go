package recconn

import "runtime"

func runtimeStack(b []byte) int { return runtime.Stack(b, false) }
