// Package recconn is a recording netmc.MinecraftConn shared by the C13 and C18 harnesses.
// It never touches a socket: packets handed to WritePacket/BufferPacket are appended to a log
// (and passed to OnPacket, outside the recorder's lock), everything else is a no-op.
package recconn

import (
	"context"
	"net"
	"sync"
	"sync/atomic"

	"go.minekube.com/gate/pkg/edition/java/netmc"
	"go.minekube.com/gate/pkg/edition/java/proto/state"
	"go.minekube.com/gate/pkg/edition/java/proxy/phase"
	"go.minekube.com/gate/pkg/gate/proto"
)

type Conn struct {
	ID    int
	Proto proto.Protocol
	// OnPacket, if set, sees every packet written, together with the connection state at that moment.
	OnPacket func(c *Conn, p proto.Packet, st *state.Registry)
	// OnFlush, if set, sees every Flush.
	OnFlush func(c *Conn)

	st      atomic.Pointer[state.Registry]
	mu      sync.Mutex
	packets []proto.Packet
	flushes int
	ctx     context.Context
	cancel  context.CancelFunc
	handler netmc.SessionHandler
	ctype   phase.ConnectionType
}

func New(id int, st *state.Registry, p proto.Protocol) *Conn {
	ctx, cancel := context.WithCancel(context.Background())
	c := &Conn{ID: id, Proto: p, ctx: ctx, cancel: cancel}
	c.st.Store(st)
	return c
}

// SetRegistry changes what State() reports (a backend moving between LOGIN/CONFIG/PLAY).
func (c *Conn) SetRegistry(st *state.Registry) { c.st.Store(st) }

func (c *Conn) Packets() []proto.Packet {
	c.mu.Lock()
	defer c.mu.Unlock()
	return append([]proto.Packet(nil), c.packets...)
}

func (c *Conn) Flushes() int {
	c.mu.Lock()
	defer c.mu.Unlock()
	return c.flushes
}

func (c *Conn) packet(p proto.Packet) error {
	st := c.st.Load()
	c.mu.Lock()
	c.packets = append(c.packets, p)
	h := c.OnPacket
	c.mu.Unlock()
	if h != nil {
		h(c, p, st)
	}
	return nil
}

func (c *Conn) Context() context.Context { return c.ctx }
func (c *Conn) Close() error             { c.cancel(); return nil }
func (c *Conn) State() *state.Registry   { return c.st.Load() }
func (c *Conn) Protocol() proto.Protocol { return c.Proto }
func (c *Conn) RemoteAddr() net.Addr {
	return &net.TCPAddr{IP: net.IPv4(127, 0, 0, 1), Port: 40000 + c.ID}
}
func (c *Conn) LocalAddr() net.Addr { return &net.TCPAddr{IP: net.IPv4(127, 0, 0, 1), Port: 25577} }
func (c *Conn) Type() phase.ConnectionType {
	if c.ctype != nil {
		return c.ctype
	}
	return phase.Vanilla
}
func (c *Conn) SetType(t phase.ConnectionType)                                    { c.ctype = t }
func (c *Conn) ActiveSessionHandler() netmc.SessionHandler                        { return c.handler }
func (c *Conn) SetActiveSessionHandler(_ *state.Registry, h netmc.SessionHandler) { c.handler = h }
func (c *Conn) SwitchSessionHandler(*state.Registry) bool                         { return true }
func (c *Conn) AddSessionHandler(*state.Registry, netmc.SessionHandler)           {}
func (c *Conn) SetAutoReading(bool)                                               {}
func (c *Conn) SetOutboundState(*state.Registry)                                  {}
func (c *Conn) SetProtocol(proto.Protocol)                                        {}
func (c *Conn) SetState(st *state.Registry)                                       { c.st.Store(st) }
func (c *Conn) SetCompressionThreshold(int) error                                 { return nil }
func (c *Conn) EnableEncryption([]byte) error                                     { return nil }
func (c *Conn) WritePacket(p proto.Packet) error                                  { return c.packet(p) }
func (c *Conn) BufferPacket(p proto.Packet) error                                 { return c.packet(p) }
func (c *Conn) Write([]byte) error                                                { return nil }
func (c *Conn) BufferPayload([]byte) error                                        { return nil }
func (c *Conn) Flush() error {
	c.mu.Lock()
	c.flushes++
	h := c.OnFlush
	c.mu.Unlock()
	if h != nil {
		h(c)
	}
	return nil
}
func (c *Conn) Reader() netmc.Reader   { return nil }
func (c *Conn) Writer() netmc.Writer   { return nil }
func (c *Conn) EnablePlayPacketQueue() {}

var _ netmc.MinecraftConn = (*Conn)(nil)

// Goid reads the current goroutine's id from its stack header; callbacks use it to find out on
// whose call they are running.
func Goid() uint64 {
	var buf [64]byte
	n := runtimeStack(buf[:])
	b := buf[:n]
	const pre = "goroutine "
	if len(b) < len(pre) {
		return 0
	}
	b = b[len(pre):]
	var id uint64
	for _, ch := range b {
		if ch < '0' || ch > '9' {
			break
		}
		id = id*10 + uint64(ch-'0')
	}
	return id
}
