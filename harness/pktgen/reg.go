// Package pktgen is shared by the C04, C05 and C07 harnesses: enumeration of the live packet
// registries, structured value generators per registered Go packet type, and the reflection dump
// of a packet's fields as a Coq term (Check.C04.fval).
package pktgen

import (
	"os"
	"reflect"
	"regexp"
	"sort"

	"go.minekube.com/gate/pkg/edition/java/proto/state"
	"go.minekube.com/gate/pkg/edition/java/proto/version"
	"go.minekube.com/gate/pkg/gate/proto"
)

// Reg is one (state, direction, protocol, id) -> type entry of the live registry.
type Reg struct {
	State     *state.Registry
	StateName string
	Dir       proto.Direction
	Proto     proto.Protocol
	ID        proto.PacketID
	Type      reflect.Type // struct type (not pointer)
}

var stateList = []struct {
	name string
	reg  *state.Registry
}{
	{"Handshake", state.Handshake}, {"Status", state.Status}, {"Login", state.Login}, {"Config", state.Config}, {"Play", state.Play},
}

// All enumerates every registered packet through the public registries, in a fixed order.
func All() []Reg {
	var out []Reg
	for _, s := range stateList {
		for _, d := range []proto.Direction{proto.ServerBound, proto.ClientBound} {
			pr := s.reg.ServerBound
			if d == proto.ClientBound {
				pr = s.reg.ClientBound
			}
			var protos []int
			for p := range pr.Protocols {
				protos = append(protos, int(p))
			}
			sort.Ints(protos)
			for _, p := range protos {
				r := pr.Protocols[proto.Protocol(p)]
				var ids []int
				for id := range r.PacketIDs {
					ids = append(ids, int(id))
				}
				sort.Ints(ids)
				for _, id := range ids {
					t := r.PacketIDs[proto.PacketID(id)]
					for t.Kind() == reflect.Ptr {
						t = t.Elem()
					}
					out = append(out, Reg{State: s.reg, StateName: s.name, Dir: d, Proto: proto.Protocol(p), ID: proto.PacketID(id), Type: t})
				}
			}
		}
	}
	return out
}

// TypeNames returns the distinct registered type names (reflect String(), e.g. "packet.Handshake").
func TypeNames(regs []Reg) []string {
	seen := map[string]bool{}
	var out []string
	for _, r := range regs {
		n := r.Type.String()
		if !seen[n] {
			seen[n] = true
			out = append(out, n)
		}
	}
	sort.Strings(out)
	return out
}

// SampleVersions: min, 1.8, 1.13, 1.19.3, 1.20.2, max (quick) or every supported version.
func SampleVersions(all bool) []proto.Protocol {
	if all {
		var out []proto.Protocol
		for _, v := range version.SupportedVersions {
			out = append(out, v.Protocol)
		}
		return out
	}
	return []proto.Protocol{
		version.MinimumVersion.Protocol, version.Minecraft_1_8.Protocol, version.Minecraft_1_13.Protocol,
		version.Minecraft_1_19_3.Protocol, version.Minecraft_1_20_2.Protocol, version.MaximumVersion.Protocol,
	}
}

// NewPacket creates the decode target the way the decoder does (CreatePacket sets the state on stateful packets).
func (r Reg) NewPacket() proto.Packet {
	pr := state.FromDirection(r.Dir, r.State, r.Proto)
	return pr.CreatePacket(r.ID)
}

func (r Reg) Ctx() *proto.PacketContext {
	return &proto.PacketContext{Direction: r.Dir, Protocol: r.Proto, PacketID: r.ID}
}

// FragmentNames reads the names of the types the translator put into the layout fragment from the
// regenerated coq/Gen/PacketLayouts.v (only used to decide which cases carry field dumps / bodies and
// for the coverage numbers in evidence). ok=false when the file is not there.
func FragmentNames() (map[string]bool, bool) {
	for _, p := range []string{"../coq/Gen/PacketLayouts.v", "coq/Gen/PacketLayouts.v", "/verif/coq/Gen/PacketLayouts.v"} {
		b, err := os.ReadFile(p)
		if err != nil {
			continue
		}
		out := map[string]bool{}
		for _, m := range regexp.MustCompile(`Fragment "([^"]+)"`).FindAllStringSubmatch(string(b), -1) {
			out[m[1]] = true
		}
		return out, true
	}
	return nil, false
}

// OpaqueReasons reads, from the regenerated Gen file, why each type outside the fragment is Opaque.
func OpaqueReasons() map[string]string {
	out := map[string]string{}
	for _, p := range []string{"../coq/Gen/PacketLayouts.v", "coq/Gen/PacketLayouts.v", "/verif/coq/Gen/PacketLayouts.v"} {
		b, err := os.ReadFile(p)
		if err != nil {
			continue
		}
		for _, m := range regexp.MustCompile(`Opaque "([^"]+)" "([^"]*)"`).FindAllStringSubmatch(string(b), -1) {
			out[m[1]] = m[2]
		}
		return out
	}
	return out
}
