package pktgen

import (
	"encoding/hex"
	"fmt"
	"math"
	"reflect"
	"strings"
	"time"

	"github.com/Tnze/go-mc/nbt"
	"go.minekube.com/brigodier"
	"go.minekube.com/common/minecraft/color"
	"go.minekube.com/common/minecraft/component"
	"go.minekube.com/common/minecraft/key"

	"go.minekube.com/gate/pkg/edition/java/profile"
	p "go.minekube.com/gate/pkg/edition/java/proto/packet"
	"go.minekube.com/gate/pkg/edition/java/proto/packet/bossbar"
	"go.minekube.com/gate/pkg/edition/java/proto/packet/chat"
	"go.minekube.com/gate/pkg/edition/java/proto/packet/config"
	"go.minekube.com/gate/pkg/edition/java/proto/packet/cookie"
	"go.minekube.com/gate/pkg/edition/java/proto/packet/plugin"
	"go.minekube.com/gate/pkg/edition/java/proto/packet/tablist/legacytablist"
	"go.minekube.com/gate/pkg/edition/java/proto/packet/tablist/playerinfo"
	"go.minekube.com/gate/pkg/edition/java/proto/packet/title"
	"go.minekube.com/gate/pkg/edition/java/proto/state/states"
	"go.minekube.com/gate/pkg/edition/java/proto/version"
	"go.minekube.com/gate/pkg/edition/java/proxy/crypto"
	"go.minekube.com/gate/pkg/edition/java/proxy/crypto/keyrevision"
	"go.minekube.com/gate/pkg/gate/proto"
	"go.minekube.com/gate/pkg/util/favicon"
	"go.minekube.com/gate/pkg/util/uuid"

	"verifharness/lib"
)

// G carries what a generator may depend on.
type G struct {
	R     *lib.Rng
	Proto proto.Protocol
	Dir   proto.Direction
	State string
	Big   bool // allow one boundary-size field (32767) in this value
	Tags  []string
}

func (g *G) tag(t string) { g.Tags = append(g.Tags, t) }

// two fixed 1024-bit RSA public keys (PKIX DER); fixed so that generation is a function of the seed only
var derKeys = func() [][]byte {
	var out [][]byte
	for _, h := range []string{
		"30819f300d06092a864886f70d010101050003818d0030818902818100bd1327aee018a67ea202a4716d410c43a3acedc1b07488299d1bd18f86691ddea6c03f4418c90e25d9490ab7253dd013e577daf489d7b82a03068950771a3558cdcc34ec79f76b16996990e1067fd0a7c6e9eb424d40a1dd2a083d22b00f13b8cb7a02eccdf76d65c89c2152e25b0efcad25b6b665044bb083983e9be969d6cd0203010001",
		"30819f300d06092a864886f70d010101050003818d0030818902818100c18a93e3e2dc213ef9c7fbc11ea3ef109a059f598f8787504bda7213fe96bbd1872a00e360427ebed59eeb2d4bf753584ca7c8c1bf38a803d8147f4d844213834c1e56e37d5eea3dce0101f2e3f4f4c8137828b1c01556f463354d5ddbf450f239881eedbb5bc0499442dd5d3651b83d4172f811934e8279c90266883bfd43a70203010001",
	} {
		b, err := hex.DecodeString(h)
		if err != nil {
			panic(err)
		}
		out = append(out, b)
	}
	return out
}()

// ---------- scalar generators ----------

var lenClasses = []int{0, 1, 2, 5, 16, 127, 128, 255, 256}

// Len picks a boundary length not above max; with Big set it may once return min(max, 32767).
func (g *G) Len(max int) int {
	if g.Big && max >= 1000 && g.R.Chance(1, 3) {
		g.Big = false
		n := 32767
		if max < n {
			n = max
		}
		g.tag(fmt.Sprintf("len=%d", n))
		return n
	}
	for tries := 0; tries < 20; tries++ {
		n := lenClasses[g.R.Intn(len(lenClasses))]
		if g.R.Chance(1, 4) {
			n = g.R.Intn(40)
		}
		if n <= max {
			g.tag(fmt.Sprintf("len=%d", bucket(n)))
			return n
		}
	}
	return max
}

func bucket(n int) int {
	for _, c := range []int{0, 1, 127, 128, 255, 256} {
		if n == c {
			return n
		}
	}
	if n < 127 {
		return 2 // "small"
	}
	return 200 // "medium"
}

const asciiAlpha = "abcdefghijklmnopqrstuvwxyzABCDEFGHIJKLMNOPQRSTUVWXYZ0123456789_-. "

// Str returns a string of n characters; mostly ASCII, sometimes with multi-byte runes.
func (g *G) Str(n int) string {
	if n > 0 && n <= 64 && g.R.Chance(1, 6) {
		g.tag("utf8")
		return g.R.StringOver(asciiAlpha+"äöüßéœ€漢字😀", n)
	}
	return g.R.StringOver(asciiAlpha, n)
}

func (g *G) Ident(n int) string { return g.R.StringOver("abcdefghijklmnopqrstuvwxyz0123456789_", n) }

func (g *G) Int32() int {
	switch g.R.Intn(8) {
	case 0:
		return 0
	case 1:
		return g.R.Pick(1, 127, 128, 255, 256, 16383, 16384, 32767, 65535)
	case 2:
		return -1
	case 3:
		return math.MaxInt32
	case 4:
		return math.MinInt32
	case 5:
		return -g.R.Intn(1 << 20)
	}
	return g.R.Intn(1 << 30)
}

func (g *G) Int64() int64 {
	switch g.R.Intn(6) {
	case 0:
		return 0
	case 1:
		return -1
	case 2:
		return math.MaxInt64
	case 3:
		return math.MinInt64
	}
	return int64(g.R.U64())
}

func (g *G) UUID() uuid.UUID {
	var u uuid.UUID
	copy(u[:], g.R.Bytes(16))
	if g.R.Chance(1, 10) {
		u = uuid.UUID{}
		u[15] = 1
	}
	return u
}

func (g *G) Float32() float32 {
	f := math.Float32frombits(uint32(g.R.U64()))
	if f != f || math.IsInf(float64(f), 0) {
		return 0.5
	}
	return f
}

func (g *G) Key() key.Key {
	ns := g.R.PickS("minecraft", "gate", "velocity", "a")
	return key.New(ns, g.Ident(1+g.R.Intn(12)))
}

func (g *G) Component() component.Component {
	t := &component.Text{Content: g.Str(g.R.Pick(0, 1, 5, 40))}
	if g.R.Chance(1, 2) {
		t.S = component.Style{Color: []color.Color{color.Red, color.Green, color.Aqua}[g.R.Intn(3)]}
	}
	if g.R.Chance(1, 3) {
		t.Extra = []component.Component{&component.Text{Content: g.Str(3), S: component.Style{Bold: component.True}}}
		g.tag("component=nested")
	}
	return t
}

// Holder wraps a generated component. From 1.20.3 on the wire form is NBT built from a Go map (JSON -> NBT), whose
// key order changes from call to call; the tag is therefore computed once and pinned in the holder so that the
// value handed to Encode has ONE wire form (which the field dump then reports).
func (g *G) Holder() *chat.ComponentHolder {
	h := chat.FromComponent(g.Component())
	if g.Proto.GreaterEqual(version.Minecraft_1_20_3) {
		if bt, err := h.AsBinaryTag(); err == nil {
			h.BinaryTag = bt
		}
	}
	return h
}

func (g *G) Properties() []profile.Property {
	n := g.R.Pick(0, 0, 1, 2, 3)
	var out []profile.Property
	for i := 0; i < n; i++ {
		pr := profile.Property{Name: g.Str(g.Len(64)), Value: g.Str(g.Len(300))}
		if g.R.Bool() {
			pr.Signature = g.Str(1 + g.Len(300))
		}
		out = append(out, pr)
	}
	return out
}

func (g *G) IdentifiedKey() crypto.IdentifiedKey {
	rev := keyrevision.LinkedV2
	if g.Proto == version.Minecraft_1_19.Protocol {
		rev = keyrevision.GenericV1
	}
	k, err := crypto.NewIdentifiedKey(rev, derKeys[g.R.Intn(len(derKeys))], int64(g.R.Intn(1<<40)), g.R.Bytes(g.R.Pick(1, 128, 256, 512)))
	if err != nil {
		panic(err)
	}
	return k
}

// NBT: a nameless compound with a few tags, nested to the given depth
func (g *G) NBTCompound(depth int) nbt.RawMessage {
	var sb strings.Builder
	g.nbtCompoundBody(&sb, depth)
	return nbt.RawMessage{Type: nbt.TagCompound, Data: []byte(sb.String())}
}

func (g *G) nbtCompoundBody(sb *strings.Builder, depth int) {
	n := g.R.Intn(3)
	for i := 0; i < n; i++ {
		name := g.Ident(1 + g.R.Intn(6))
		switch k := g.R.Intn(4); {
		case k == 0 && depth > 0:
			sb.WriteByte(nbt.TagCompound)
			writeNBTName(sb, name)
			g.nbtCompoundBody(sb, depth-1)
		case k == 1:
			sb.WriteByte(nbt.TagString)
			writeNBTName(sb, name)
			writeNBTName(sb, g.Ident(g.R.Intn(10)))
		case k == 2:
			sb.WriteByte(nbt.TagInt)
			writeNBTName(sb, name)
			sb.Write(g.R.Bytes(4))
		default:
			sb.WriteByte(nbt.TagByte)
			writeNBTName(sb, name)
			sb.WriteByte(byte(g.R.Intn(2)))
		}
	}
	sb.WriteByte(nbt.TagEnd)
}

func writeNBTName(sb *strings.Builder, s string) {
	sb.WriteByte(byte(len(s) >> 8))
	sb.WriteByte(byte(len(s)))
	sb.WriteString(s)
}

// ---------- generic reflection fill ----------

// string length caps per field (characters); the decoder's limits = what the protocol permits
var strCaps = map[string]int{
	"packet.ClientSettings.Locale":         16,
	"packet.ServerLogin.Username":          16,
	"packet.ServerLoginSuccess.Username":   16,
	"packet.EncryptionRequest.ServerID":    20,
	"packet.TabCompleteRequest.Command":    2048,
	"chat.SessionPlayerChat.Message":       256,
	"chat.SessionPlayerCommand.Command":    256,
	"chat.UnsignedPlayerCommand.Command":   32767,
	"chat.ArgumentSignature.Name":          16,
	"chat.KeyedPlayerChat.Message":         256,
	"chat.KeyedPlayerCommand.Command":      256,
	"chat.LegacyChat.Message":              100,
	"packet.JoinGame.LevelType":            16,
	"packet.ResourcePackRequest.URL":       2000,
	"packet.ResourcePackRequest.Hash":      40,
	"packet.ResourcePackResponse.Hash":     40,
	"packet.Handshake.ServerAddress":       255,
	"packet.StatusResponse.Status":         32767,
	"packet.Transfer.Host":                 255,
	"packet.LoginPluginMessage.Channel":    255,
	"plugin.Message.Channel":               255,
}

// non-empty string fields (the encoder refuses the empty value)
var strNonEmpty = map[string]bool{
	"packet.ServerLogin.Username": true, "packet.ServerLoginSuccess.Username": true,
	"packet.TabCompleteRequest.Command": true, "packet.ResourcePackRequest.URL": true,
}

var bytesCaps = map[string]int{
	"packet.EncryptionRequest.PublicKey":     256,
	"packet.EncryptionRequest.VerifyToken":   16,
	"packet.EncryptionResponse.SharedSecret": 128,
	"packet.EncryptionResponse.VerifyToken":  128,
	"cookie.CookieResponse.Payload":          5120,
	"cookie.CookieStore.Payload":             5120,
}

func (g *G) fill(v reflect.Value, owner string) {
	t := v.Type()
	switch {
	case t == timeType:
		v.Set(reflect.ValueOf(time.UnixMilli(int64(g.R.Intn(1 << 41)))))
		return
	case t == uuidType:
		v.Set(reflect.ValueOf(g.UUID()))
		return
	case t == keyType:
		v.Set(reflect.ValueOf(g.Key()))
		return
	}
	switch v.Kind() {
	case reflect.Bool:
		v.SetBool(g.R.Bool())
	case reflect.Int:
		v.SetInt(int64(g.Int32()))
	case reflect.Int64:
		v.SetInt(g.Int64())
	case reflect.Int32:
		v.SetInt(int64(int32(g.Int32())))
	case reflect.Int16:
		v.SetInt(int64(g.R.Intn(256)))
	case reflect.Int8:
		v.SetInt(int64(int8(g.R.Intn(256))))
	case reflect.Uint8:
		v.SetUint(uint64(g.R.Intn(256)))
	case reflect.Float32:
		v.SetFloat(float64(g.Float32()))
	case reflect.String:
		max := 32767
		if c, ok := strCaps[owner]; ok {
			max = c
		}
		n := g.Len(max)
		if n == 0 && strNonEmpty[owner] {
			n = 1
		}
		v.SetString(g.Str(n))
	case reflect.Slice:
		if t.Elem().Kind() == reflect.Uint8 {
			max := 32767
			if c, ok := bytesCaps[owner]; ok {
				max = c
			}
			v.SetBytes(g.R.Bytes(g.Len(max)))
			return
		}
		n := g.R.Pick(0, 1, 2, 3)
		if g.R.Chance(1, 12) {
			n = g.R.Pick(127, 128, 256)
			g.tag(fmt.Sprintf("count=%d", n))
		}
		s := reflect.MakeSlice(t, n, n)
		for i := 0; i < n; i++ {
			g.fill(s.Index(i), owner+"[]")
		}
		v.Set(s)
	case reflect.Ptr:
		if g.R.Chance(1, 3) {
			g.tag("optional=absent")
			return
		}
		g.tag("optional=present")
		nv := reflect.New(t.Elem())
		g.fill(nv.Elem(), owner)
		v.Set(nv)
	case reflect.Struct:
		for i := 0; i < t.NumField(); i++ {
			f := t.Field(i)
			if !f.IsExported() {
				continue
			}
			g.fill(v.Field(i), t.String()+"."+f.Name)
		}
	}
}

// ---------- per-type generators ----------

// Gen builds a value of the registered type. ok=false: no generator (counted by the caller).
func Gen(t reflect.Type, g *G) (pk proto.Packet, ok bool) {
	pv := reflect.New(t)
	pk, _ = pv.Interface().(proto.Packet)
	if pk == nil {
		return nil, false
	}
	if st, ok := pk.(interface{ SetState(states.State) }); ok {
		switch g.State {
		case "Config":
			st.SetState(states.ConfigState)
		case "Play":
			st.SetState(states.PlayState)
		}
	}
	switch x := pk.(type) {
	case *p.KeepAlive:
		x.RandomID = g.Int64()
		if g.Proto.Lower(version.Minecraft_1_12_2) {
			x.RandomID = int64(int32(g.Int32())) // VarInt / int era
		}
	case *p.Handshake:
		g.fill(pv.Elem(), t.String())
		x.Port = g.R.Pick(0, 1, 25565, 25565, 32767, 32768, 40000, 65535)
	case *p.Disconnect:
		x.Reason = g.Holder()
	case *p.HeaderAndFooter:
		x.Header, x.Footer = *g.Holder(), *g.Holder()
	case *title.Text:
		x.Component = *g.Holder()
	case *title.Subtitle:
		x.Component = *g.Holder()
	case *title.Actionbar:
		x.Component = *g.Holder()
	case *title.Clear:
		x.Action = title.Action(g.R.Pick(int(title.Hide), int(title.Reset)))
	case *title.Legacy:
		x.Action = title.Action(g.R.Intn(6))
		x.Component = g.Holder()
		x.FadeIn, x.Stay, x.FadeOut = g.Int32(), g.Int32(), g.Int32()
	case *chat.SystemChat:
		x.Component = g.Holder()
		x.Type = chat.MessageType(g.R.Pick(int(chat.SystemMessageType), int(chat.GameInfoMessageType)))
	case *chat.LegacyChat:
		max := 100
		if g.Dir == proto.ClientBound {
			max = 32767
		} else if g.Proto.GreaterEqual(version.Minecraft_1_11) {
			max = 256
		}
		x.Message = g.Str(g.Len(max))
		x.Type = chat.MessageType(g.R.Intn(3))
		x.Sender = g.UUID()
	case *chat.SessionPlayerCommand:
		x.Command = g.Str(g.Len(256))
		x.Timestamp = time.UnixMilli(int64(g.R.Intn(1 << 41)))
		x.Salt = g.Int64()
		n := g.R.Pick(0, 1, 2, 8)
		for i := 0; i < n; i++ {
			x.ArgumentSignatures.Entries = append(x.ArgumentSignatures.Entries, chat.ArgumentSignature{Name: g.Str(g.Len(16)), Signature: g.R.Bytes(256)})
		}
		g.lastSeen(&x.LastSeenMessages)
	case *chat.UnsignedPlayerCommand:
		x.Command = g.Str(g.Len(32767))
	case *chat.SessionPlayerChat:
		x.Message = g.Str(g.Len(256))
		x.Timestamp = time.UnixMilli(int64(g.R.Intn(1 << 41)))
		x.Salt = g.Int64()
		x.Signed = g.R.Bool()
		if x.Signed {
			x.Signature = g.R.Bytes(256)
		}
		g.lastSeen(&x.LastSeenMessages)
	case *chat.KeyedPlayerChat:
		x.Message = g.Str(g.Len(256))
		x.Expiry = time.UnixMilli(int64(g.R.Intn(1 << 41)))
		x.Salt = g.R.Bytes(8)
		x.Salt[0] |= 1
		x.Signature = g.R.Bytes(g.R.Pick(1, 256))
		x.SignedPreview = g.R.Bool()
		g.prevMessages(&x.PreviousMessages, &x.LastMessage)
	case *chat.KeyedPlayerCommand:
		x.Command = g.Str(g.Len(256))
		x.Timestamp = time.UnixMilli(int64(g.R.Intn(1 << 41)))
		x.Salt = g.Int64() | 1
		x.Arguments = map[string][]byte{}
		for i, n := 0, g.R.Intn(2); i < n; i++ { // at most one entry: map order is not deterministic
			x.Arguments[g.Ident(1+g.R.Intn(15))] = g.R.Bytes(g.R.Pick(0, 1, 256))
		}
		x.SignedPreview = g.R.Bool()
		g.prevMessages(&x.PreviousMessages, &x.LastMessage)
		if len(x.PreviousMessages) == 0 {
			x.PreviousMessages = []*crypto.SignaturePair{{Signer: g.UUID(), Signature: g.R.Bytes(8)}}
		}
	case *p.ServerLogin:
		x.Username = g.Str(1 + g.R.Intn(16))
		if g.R.Bool() {
			x.PlayerKey = g.IdentifiedKey()
		}
		if g.R.Bool() {
			x.HolderID = g.UUID()
		}
	case *p.ServerData:
		if g.R.Chance(2, 3) || g.Proto.GreaterEqual(version.Minecraft_1_19_4) {
			x.Description = g.Holder()
		}
		if g.R.Bool() {
			x.Favicon = favicon.Favicon("data:image/png;base64,aGVsbG8=")
		}
		x.SecureChatEnforced = g.R.Bool()
	case *p.ResourcePackRequest:
		x.ID = g.UUID()
		x.URL = "https://example.com/" + g.Ident(g.R.Intn(20))
		x.Hash = g.R.StringOver("0123456789abcdef", g.R.Pick(0, 40))
		x.Required = g.R.Bool()
		if g.R.Bool() {
			x.Prompt = g.Holder()
		}
	case *p.TabCompleteResponse:
		g.fill(reflect.ValueOf(&x.TransactionID).Elem(), "")
		x.Start, x.Length = g.R.Intn(100), g.R.Intn(100)
		n := g.R.Pick(0, 1, 3)
		for i := 0; i < n; i++ {
			o := p.TabCompleteOffer{Text: g.Str(g.Len(64))}
			if g.R.Bool() && g.Proto.GreaterEqual(version.Minecraft_1_13) {
				o.Tooltip = g.Holder()
			}
			x.Offers = append(x.Offers, o)
		}
	case *bossbar.BossBar:
		x.ID = g.UUID()
		x.Action = bossbar.Action(g.R.Intn(6))
		x.Name = g.Holder()
		x.Percent = g.Float32()
		x.Color = bossbar.Color(g.R.Intn(7))
		x.Overlay = bossbar.Overlay(g.R.Intn(5))
		x.Flags = byte(g.R.Intn(8))
	case *legacytablist.PlayerListItem:
		x.Action = legacytablist.PlayerListItemAction(g.R.Intn(5))
		n := g.R.Pick(1, 1, 2, 3)
		for i := 0; i < n; i++ {
			it := legacytablist.PlayerListItemEntry{ID: g.UUID(), Name: g.Str(1 + g.R.Intn(16)), Properties: g.Properties(),
				GameMode: g.R.Intn(4), Latency: g.R.Intn(30000)}
			if g.R.Bool() && g.Proto.GreaterEqual(version.Minecraft_1_8) {
				it.DisplayName = g.Component()
			}
			x.Items = append(x.Items, it)
		}
	case *playerinfo.Upsert:
		g.Upsert(x, nil)
	case *playerinfo.Remove:
		for i, n := 0, g.R.Pick(0, 1, 2, 128); i < n; i++ {
			x.PlayersToRemove = append(x.PlayersToRemove, g.UUID())
		}
	case *p.JoinGame:
		g.fill(pv.Elem(), t.String())
		lt, ln := g.Str(g.Len(16)), g.Str(g.Len(64))
		x.LevelType = &lt
		x.DimensionInfo = &p.DimensionInfo{RegistryIdentifier: "minecraft:" + g.Ident(1+g.R.Intn(10)), LevelName: &ln, Flat: g.R.Bool(), DebugType: g.R.Bool()}
		x.Registry = g.NBTCompound(2)
		x.CurrentDimensionData = g.NBTCompound(1)
		x.Gamemode, x.PreviousGamemode, x.Difficulty = int16(g.R.Intn(4)), int16(g.R.Intn(4)), int16(g.R.Intn(4))
		x.MaxPlayers, x.Dimension = g.R.Intn(200), g.R.Intn(3)
		x.LevelNames = []string{"minecraft:overworld", "minecraft:the_nether"}[:g.R.Intn(3)]
	case *p.Respawn:
		g.fill(pv.Elem(), t.String())
		ln := g.Str(g.Len(64))
		x.DimensionInfo = &p.DimensionInfo{RegistryIdentifier: "minecraft:" + g.Ident(1+g.R.Intn(10)), LevelName: &ln, Flat: g.R.Bool(), DebugType: g.R.Bool()}
		x.CurrentDimensionData = g.NBTCompound(1)
		x.Gamemode, x.PreviousGamemode, x.Difficulty = int16(g.R.Intn(4)), int16(g.R.Intn(4)), int16(g.R.Intn(4))
		x.Dimension = g.R.Intn(3)
		x.DataToKeep = byte(g.R.Intn(2))
		x.LevelType = g.Str(g.Len(16))
	case *p.AvailableCommands:
		x.RootNode = g.CommandTree(2 + g.R.Intn(3))
	case *p.DialogShow:
		x.ID = g.R.Pick(0, 0, 1, 7)
		x.BinaryTag = g.NBTCompound(2)
	case *p.SoundEntityPacket:
		x.SoundID = g.R.Pick(0, 0, 5)
		x.SoundName = key.New("minecraft", g.Ident(1+g.R.Intn(10)))
		if g.R.Bool() {
			f := g.Float32()
			x.FixedRange = &f
		}
		x.SoundSource = p.SoundSource(g.R.Intn(10))
		x.EntityID, x.Volume, x.Pitch = g.R.Intn(1<<20), g.Float32(), g.Float32()
		x.Seed = g.Int64() | 1
	case *p.StopSoundPacket:
		if g.R.Bool() {
			s := p.SoundSource(g.R.Intn(10))
			x.Source = &s
		}
		if g.R.Bool() {
			x.SoundName = g.Key()
		}
	case *config.TagsUpdate:
		x.Tags = map[string]map[string][]int{}
		if g.R.Bool() { // at most one entry per map: iteration order is not deterministic
			x.Tags[g.Ident(5)] = map[string][]int{g.Ident(4): {1, 2, g.R.Intn(1000)}}
		}
	case *p.CustomReportDetails:
		x.Details = map[string]string{}
		if g.R.Bool() {
			x.Details[g.Str(5)] = g.Str(g.Len(200))
		}
	case *p.ServerLinks:
		for i, n := 0, g.R.Pick(0, 1, 2, 128); i < n; i++ {
			l := &p.ServerLink{ID: g.R.Pick(-1, 0, 3), URL: "https://" + g.Ident(8)}
			l.DisplayName = *g.Holder()
			x.ServerLinks = append(x.ServerLinks, l)
		}
	case *config.KnownPacks:
		for i, n := 0, g.R.Pick(0, 1, 2, 64); i < n; i++ {
			x.Packs = append(x.Packs, config.KnownPack{Namespace: g.Ident(5), Id: g.Str(g.Len(40)), Version: g.Str(g.Len(10))})
		}
	case *config.ActiveFeatures:
		for i, n := 0, g.R.Pick(0, 1, 2, 128); i < n; i++ {
			x.ActiveFeatures = append(x.ActiveFeatures, g.Key())
		}
	case *cookie.CookieRequest:
		x.Key = g.Key()
	case *plugin.Message:
		x.Channel = g.R.PickS("minecraft:brand", "gate:x", "velocity:player_info", "REGISTER", "MC|Brand", "BungeeCord", "FML|HS", "custom")
		max := 32767
		if g.Proto.Lower(version.Minecraft_1_8) {
			max = 2000
		}
		x.Data = g.R.Bytes(g.Len(max))
	case *p.EncryptionResponse:
		g.fill(pv.Elem(), t.String())
		if g.Proto.GreaterEqual(version.Minecraft_1_19) {
			x.VerifyToken = g.R.Bytes(g.Len(256))
		}
	default:
		g.fill(pv.Elem(), t.String())
	}
	return pk, true
}

func (g *G) lastSeen(l *chat.LastSeenMessages) {
	l.Offset = g.R.Intn(1 << 20)
	l.Acknowledged.Bytes = g.R.Bytes(3)
	l.Checksum = byte(g.R.Intn(256))
}

func (g *G) prevMessages(prev *[]*crypto.SignaturePair, last **crypto.SignaturePair) {
	for i, n := 0, g.R.Pick(0, 1, 5); i < n; i++ {
		*prev = append(*prev, &crypto.SignaturePair{Signer: g.UUID(), Signature: g.R.Bytes(g.R.Pick(1, 256))})
	}
	if g.R.Bool() {
		*last = &crypto.SignaturePair{Signer: g.UUID(), Signature: g.R.Bytes(g.R.Pick(1, 256))}
	}
}

// Upsert fills a player-info update. actions == nil: a random subset in canonical order.
func (g *G) Upsert(x *playerinfo.Upsert, actions []playerinfo.UpsertAction) {
	if actions == nil {
		for _, a := range playerinfo.UpsertActions {
			if g.R.Bool() {
				actions = append(actions, a)
			}
		}
	}
	x.ActionSet = actions
	for i, n := 0, g.R.Pick(0, 1, 2, 3); i < n; i++ {
		e := &playerinfo.Entry{ProfileID: g.UUID(), Listed: g.R.Bool(), Latency: g.R.Intn(1 << 16), GameMode: g.R.Intn(4), ShowHat: g.R.Bool(), ListOrder: g.R.Intn(100)}
		e.Profile = profile.GameProfile{ID: e.ProfileID, Name: g.Str(1 + g.R.Intn(16)), Properties: g.Properties()}
		if g.R.Bool() {
			e.DisplayName = g.Holder()
		}
		if g.R.Chance(1, 3) {
			e.RemoteChatSession = &chat.RemoteChatSession{ID: g.UUID(), Key: g.IdentifiedKey()}
		}
		x.Entries = append(x.Entries, e)
	}
}

var noop = brigodier.CommandFunc(func(*brigodier.CommandContext) error { return nil })

// CommandTree builds a small brigadier tree: literals, string/bool/int arguments, one redirect.
func (g *G) CommandTree(n int) *brigodier.RootCommandNode {
	root := &brigodier.RootCommandNode{}
	var first brigodier.CommandNode
	for i := 0; i < n; i++ {
		lit := brigodier.Literal(fmt.Sprintf("l%d%s", i, g.Ident(g.R.Intn(5))))
		if g.R.Bool() {
			lit.Executes(noop)
		}
		if g.R.Bool() {
			arg := brigodier.Argument("a"+g.Ident(3), []brigodier.ArgumentType{brigodier.String, brigodier.Bool, brigodier.Int, brigodier.StringWord}[g.R.Intn(4)]).Executes(noop)
			if g.R.Bool() {
				arg.Then(brigodier.Argument("b"+g.Ident(2), brigodier.Bool).Executes(noop))
			}
			lit.Then(arg)
		}
		var node brigodier.CommandNode = nil
		if first != nil && g.R.Chance(1, 3) {
			node = brigodier.Literal(fmt.Sprintf("r%d", i)).Redirect(first).Build()
		} else {
			node = lit.Build()
		}
		if first == nil {
			first = node
		}
		root.AddChild(node)
	}
	return root
}
