package pktgen

import (
	"bytes"
	"math"
	"reflect"
	"time"

	"go.minekube.com/gate/pkg/edition/java/proto/packet/chat"
	"go.minekube.com/gate/pkg/edition/java/proto/util"
	"go.minekube.com/gate/pkg/edition/java/proto/version"
	"go.minekube.com/gate/pkg/edition/java/proxy/crypto"
	"go.minekube.com/gate/pkg/gate/proto"

	"go.minekube.com/common/minecraft/key"
	"go.minekube.com/gate/pkg/util/uuid"

	"verifharness/lib"
)

var (
	timeType = reflect.TypeOf(time.Time{})
	uuidType = reflect.TypeOf(uuid.UUID{})
	keyType  = reflect.TypeOf((*key.Key)(nil)).Elem()
)

// Dump prints the exported fields of a packet as a Check.C04.fval term. Kinds the dump does not
// carry (maps, funcs, foreign interfaces) become FX; the Coq side fails closed when a layout needs them.
func Dump(p any) string { return DumpAt(p, 0) }

var (
	dumpProto  proto.Protocol
	holderType = reflect.TypeOf(chat.ComponentHolder{})
)

// DumpAt dumps for one protocol: chat.ComponentHolder fields are dumped as the wire form they have at
// that protocol (JSON text below 1.20.3, a nameless NBT tag from 1.20.3 on), produced by the holder's own Write.
func DumpAt(p any, protocol proto.Protocol) string {
	dumpProto = protocol
	v := reflect.ValueOf(p)
	for v.Kind() == reflect.Ptr {
		if v.IsNil() {
			return "FX"
		}
		v = v.Elem()
	}
	return dumpVal(v, 0)
}

// DumpKey prints a player key as the values that travel: expiry (ms), the PKIX key bytes, Mojang's signature.
func DumpKey(k crypto.IdentifiedKey) string {
	h := k.SignatureHolder()
	return "(FS " + lib.List([]string{
		lib.Pair(`"Expiry"`, "(FZ "+lib.Z(k.ExpiryTemporal().UnixMilli())+")"),
		lib.Pair(`"Bytes"`, "(FBy "+lib.Bytes(k.SignedPublicKeyBytes())+")"),
		lib.Pair(`"Signature"`, "(FBy "+lib.Bytes(k.Signature())+")"),
		lib.Pair(`"Holder"`, "(FU "+lib.Bytes(h[:])+")"),
	}) + ")"
}

func dumpVal(v reflect.Value, depth int) string {
	if depth > 12 {
		return "FX"
	}
	t := v.Type()
	switch {
	case t == timeType:
		return "(FZ " + lib.Z(v.Interface().(time.Time).UnixMilli()) + ")"
	case t == uuidType:
		u := v.Interface().(uuid.UUID)
		return "(FU " + lib.Bytes(u[:]) + ")"
	case t == holderType:
		if !v.CanAddr() {
			return "FX"
		}
		h := v.Addr().Interface().(*chat.ComponentHolder)
		var b bytes.Buffer
		if err := util.RecoverFunc(func() error { return h.Write(&b, dumpProto) }); err != nil {
			return "FX"
		}
		w := b.Bytes()
		if dumpProto.Lower(version.Minecraft_1_20_3) {
			_, n, err := util.ReadVarIntReturnN(bytes.NewReader(w))
			if err != nil {
				return "FX"
			}
			w = w[n:]
		}
		return "(FBy " + lib.Bytes(w) + ")"
	case t == keyType:
		if v.IsNil() {
			return "(FO None)"
		}
		return "(FO (Some (FBy " + lib.Str(v.Interface().(key.Key).String()) + ")))"
	}
	switch v.Kind() {
	case reflect.Bool:
		return "(FB " + lib.Bool(v.Bool()) + ")"
	case reflect.Int, reflect.Int8, reflect.Int16, reflect.Int32, reflect.Int64:
		return "(FZ " + lib.Z(v.Int()) + ")"
	case reflect.Uint8, reflect.Uint16, reflect.Uint32:
		return "(FZ " + lib.Z(int64(v.Uint())) + ")"
	case reflect.Uint, reflect.Uint64:
		u := v.Uint()
		if u > math.MaxInt64 {
			return "FX"
		}
		return "(FZ " + lib.Z(int64(u)) + ")"
	case reflect.Float32:
		return "(FZ " + lib.Z(int64(math.Float32bits(float32(v.Float())))) + ")"
	case reflect.Float64:
		b := math.Float64bits(v.Float())
		if b > math.MaxInt64 {
			// bit patterns with the sign bit: print as the unsigned value via two halves is not needed by any fragment type
			return "FX"
		}
		return "(FZ " + lib.Z(int64(b)) + ")"
	case reflect.String:
		return "(FBy " + lib.Str(v.String()) + ")"
	case reflect.Slice:
		if t.Elem().Kind() == reflect.Uint8 {
			return "(FBy " + lib.Bytes(v.Bytes()) + ")"
		}
		items := make([]string, v.Len())
		for i := range items {
			items[i] = dumpVal(v.Index(i), depth+1)
		}
		return "(FL " + lib.List(items) + ")"
	case reflect.Array:
		if t.Elem().Kind() == reflect.Uint8 {
			b := make([]byte, v.Len())
			for i := range b {
				b[i] = byte(v.Index(i).Uint())
			}
			return "(FBy " + lib.Bytes(b) + ")"
		}
		return "FX"
	case reflect.Ptr:
		if v.IsNil() {
			return "(FO None)"
		}
		return "(FO (Some " + dumpVal(v.Elem(), depth+1) + "))"
	case reflect.Struct:
		return "(FS " + lib.List(structFields(v, depth)) + ")"
	case reflect.Interface:
		if v.IsNil() {
			return "(FO None)"
		}
		if k, ok := v.Interface().(crypto.IdentifiedKey); ok {
			return "(FO (Some " + DumpKey(k) + "))"
		}
	}
	return "FX"
}

func structFields(v reflect.Value, depth int) []string {
	t := v.Type()
	var items []string
	for i := 0; i < t.NumField(); i++ {
		f := t.Field(i)
		if !f.IsExported() {
			continue
		}
		if f.Anonymous && f.Type.Kind() == reflect.Struct {
			items = append(items, structFields(v.Field(i), depth)...) // promoted fields
			continue
		}
		items = append(items, lib.Pair(`"`+f.Name+`"`, dumpVal(v.Field(i), depth+1)))
	}
	return items
}
