module verifharness

go 1.26

require (
	github.com/robinbraemer/event v0.1.1
	go.minekube.com/common v0.4.0
	go.minekube.com/connect v0.6.3-0.20260803141147-8001cda93b1d
	go.minekube.com/gate v0.0.0
	google.golang.org/protobuf v1.36.11
)

require (
	buf.build/gen/go/minekube/connect/protocolbuffers/go v1.36.10-20240220124425-904ce30425c9.1 // indirect
	github.com/Tnze/go-mc v1.20.2 // indirect
	github.com/agext/levenshtein v1.2.3 // indirect
	github.com/cespare/xxhash/v2 v2.3.0 // indirect
	github.com/davecgh/go-spew v1.1.2-0.20180830191138-d8f796af33cc // indirect
	github.com/dboslee/lru v0.0.1 // indirect
	github.com/ebitengine/purego v0.10.2 // indirect
	github.com/edwingeng/deque/v2 v2.1.1 // indirect
	github.com/emirpasic/gods v1.18.1 // indirect
	github.com/felixge/httpsnoop v1.0.4 // indirect
	github.com/francoispqt/gojay v1.2.13 // indirect
	github.com/fsnotify/fsnotify v1.9.0 // indirect
	github.com/gammazero/deque v1.2.1 // indirect
	github.com/go-logr/logr v1.4.3
	github.com/go-logr/stdr v1.2.2 // indirect
	github.com/golang/groupcache v0.0.0-20241129210726-2c02b8208cf8 // indirect
	github.com/google/uuid v1.6.0 // indirect
	github.com/jellydator/ttlcache/v3 v3.4.1 // indirect
	github.com/lucasb-eyer/go-colorful v1.4.0 // indirect
	github.com/nfnt/resize v0.0.0-20180221191011-83c6a9932646 // indirect
	github.com/pires/go-proxyproto v0.13.0
	github.com/segmentio/fasthash v1.0.3 // indirect
	github.com/zyedidia/generic v1.2.1 // indirect
	go.minekube.com/brigodier v0.0.2
	go.minekube.com/vialite v0.3.0 // indirect
	go.opentelemetry.io/auto/sdk v1.2.1 // indirect
	go.opentelemetry.io/contrib/instrumentation/net/http/otelhttp v0.69.0 // indirect
	go.opentelemetry.io/otel v1.44.0 // indirect
	go.opentelemetry.io/otel/metric v1.44.0 // indirect
	go.opentelemetry.io/otel/trace v1.44.0 // indirect
	go.uber.org/atomic v1.11.0 // indirect
	golang.org/x/exp v0.0.0-20260611194520-c48552f49976 // indirect
	golang.org/x/sync v0.21.0 // indirect
	golang.org/x/sys v0.45.0 // indirect
	golang.org/x/text v0.38.0 // indirect
	golang.org/x/time v0.14.0 // indirect
	google.golang.org/genproto/googleapis/rpc v0.0.0-20260414002931-afd174a4e478
	google.golang.org/grpc v1.82.1 // indirect
	gopkg.in/yaml.v3 v3.0.1 // indirect
)

replace go.minekube.com/gate => /repo
