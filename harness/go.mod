module verifharness

go 1.26

require go.minekube.com/gate v0.0.0

require (
	github.com/cespare/xxhash/v2 v2.3.0 // indirect
	github.com/felixge/httpsnoop v1.0.4 // indirect
	github.com/go-logr/logr v1.4.3 // indirect
	github.com/go-logr/stdr v1.2.2 // indirect
	github.com/google/uuid v1.6.0 // indirect
	go.opentelemetry.io/auto/sdk v1.2.1 // indirect
	go.opentelemetry.io/contrib/instrumentation/net/http/otelhttp v0.69.0 // indirect
	go.opentelemetry.io/otel v1.44.0 // indirect
	go.opentelemetry.io/otel/metric v1.44.0 // indirect
	go.opentelemetry.io/otel/trace v1.44.0 // indirect
)

replace go.minekube.com/gate => /repo
