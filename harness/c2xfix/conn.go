// Package c2xfix holds what the C21/C22/C23 harnesses share: a recording netmc.MinecraftConn,
// a scripted crypto.IdentifiedKey and small helpers. No gate logic is re-implemented here.
package c2xfix

import (
	"context"
	"crypto/rsa"
	"net"
	"sync"
	"time"

	"go.minekube.com/gate/pkg/edition/java/netmc"
	"go.minekube.com/gate/pkg/edition/java/proto/state"
	"go.minekube.com/gate/pkg/edition/java/proxy/crypto/keyrevision"
	"go.minekube.com/gate/pkg/edition/java/proxy/phase"
	"go.minekube.com/gate/pkg/gate/proto"
	"go.minekube.com/gate/pkg/util/uuid"
)

// Conn records every packet written to it, in write order. Close cancels its context
// (which is what netmc.Closed / connectedPlayer.Active look at).
type Conn struct {
	Proto proto.Protocol
	// Delay, when set, is called before a written packet is recorded (PRNG-chosen sleeps that
	// shift the interleaving of the chat queue's writer goroutines with the feeding goroutine).
	Delay func(p proto.Packet)

	ctx    context.Context
	cancel context.CancelFunc
	mu     sync.Mutex
	pkts   []proto.Packet
	typ    phase.ConnectionType
	sh     netmc.SessionHandler
}

func NewConn(p proto.Protocol) *Conn {
	ctx, cancel := context.WithCancel(context.Background())
	return &Conn{Proto: p, ctx: ctx, cancel: cancel}
}

func (c *Conn) Written() []proto.Packet {
	c.mu.Lock()
	defer c.mu.Unlock()
	return append([]proto.Packet(nil), c.pkts...)
}

func (c *Conn) IsClosed() bool { return c.ctx.Err() != nil }

func (c *Conn) Context() context.Context { return c.ctx }
func (c *Conn) Close() error             { c.cancel(); return nil }
func (c *Conn) State() *state.Registry   { return state.Play }
func (c *Conn) Protocol() proto.Protocol { return c.Proto }
func (c *Conn) RemoteAddr() net.Addr     { return &net.TCPAddr{IP: net.IPv4(127, 0, 0, 1), Port: 40000} }
func (c *Conn) LocalAddr() net.Addr      { return &net.TCPAddr{IP: net.IPv4(127, 0, 0, 1), Port: 25565} }
func (c *Conn) Type() phase.ConnectionType {
	if c.typ != nil {
		return c.typ
	}
	return phase.Vanilla
}
func (c *Conn) SetType(t phase.ConnectionType)                                    { c.typ = t }
func (c *Conn) ActiveSessionHandler() netmc.SessionHandler                        { return c.sh }
func (c *Conn) SetActiveSessionHandler(_ *state.Registry, h netmc.SessionHandler) { c.sh = h }
func (c *Conn) SwitchSessionHandler(*state.Registry) bool                         { return true }
func (c *Conn) AddSessionHandler(*state.Registry, netmc.SessionHandler)           {}
func (c *Conn) SetAutoReading(bool)                                               {}
func (c *Conn) SetOutboundState(*state.Registry)                                  {}
func (c *Conn) SetProtocol(proto.Protocol)                                        {}
func (c *Conn) SetState(*state.Registry)                                          {}
func (c *Conn) SetCompressionThreshold(int) error                                 { return nil }
func (c *Conn) EnableEncryption([]byte) error                                     { return nil }
func (c *Conn) WritePacket(p proto.Packet) error {
	if c.Delay != nil {
		c.Delay(p)
	}
	c.mu.Lock()
	c.pkts = append(c.pkts, p)
	c.mu.Unlock()
	return nil
}
func (c *Conn) Write([]byte) error                { return nil }
func (c *Conn) BufferPacket(p proto.Packet) error { return c.WritePacket(p) }
func (c *Conn) BufferPayload([]byte) error        { return nil }
func (c *Conn) Flush() error                      { return nil }
func (c *Conn) Reader() netmc.Reader              { return nil }
func (c *Conn) Writer() netmc.Writer              { return nil }
func (c *Conn) EnablePlayPacketQueue()            {}

var _ netmc.MinecraftConn = (*Conn)(nil)

// Key is a crypto.IdentifiedKey whose only meaningful answer is its revision.
type Key struct{ Rev keyrevision.Revision }

func (k Key) Signer() *rsa.PublicKey                     { return nil }
func (k Key) ExpiryTemporal() time.Time                  { return time.Time{} }
func (k Key) Expired() bool                              { return false }
func (k Key) Signature() []byte                          { return nil }
func (k Key) SignatureValid() bool                       { return true }
func (k Key) Salt() []byte                               { return nil }
func (k Key) SignedPublicKey() *rsa.PublicKey            { return nil }
func (k Key) SignedPublicKeyBytes() []byte               { return nil }
func (k Key) VerifyDataSignature([]byte, ...[]byte) bool { return true }
func (k Key) SignatureHolder() uuid.UUID                 { return uuid.Nil }
func (k Key) KeyRevision() keyrevision.Revision          { return k.Rev }
