// Package lib holds what every property harness shares: one PRNG, Coq literal printers,
// the sharded case-file writer and the meta.json the driver reads.
package lib

// Rng is splitmix64; every random choice of a run derives from VERIF_SEED through it.
type Rng struct{ s uint64 }

func NewRng(seed uint64) *Rng { return &Rng{s: seed*0x9E3779B97F4A7C15 + 0x1234567} }

func (r *Rng) U64() uint64 {
	r.s += 0x9E3779B97F4A7C15
	z := r.s
	z = (z ^ (z >> 30)) * 0xBF58476D1CE4E5B9
	z = (z ^ (z >> 27)) * 0x94D049BB133111EB
	return z ^ (z >> 31)
}

// Intn returns a value in [0,n).
func (r *Rng) Intn(n int) int {
	if n <= 0 {
		return 0
	}
	return int(r.U64() % uint64(n))
}

// Range returns a value in [lo,hi].
func (r *Rng) Range(lo, hi int) int { return lo + r.Intn(hi-lo+1) }

func (r *Rng) Bool() bool { return r.U64()&1 == 1 }

// Chance is true with probability num/den.
func (r *Rng) Chance(num, den int) bool { return r.Intn(den) < num }

func (r *Rng) Bytes(n int) []byte {
	b := make([]byte, n)
	for i := range b {
		b[i] = byte(r.U64())
	}
	return b
}

// Pick returns one of the given ints.
func (r *Rng) Pick(xs ...int) int { return xs[r.Intn(len(xs))] }

// PickS returns one of the given strings.
func (r *Rng) PickS(xs ...string) string { return xs[r.Intn(len(xs))] }

// Fork derives an independent generator (for per-case streams that must not shift when a
// neighbouring case consumes more randomness).
func (r *Rng) Fork() *Rng { return &Rng{s: r.U64()} }

// Perm returns a random permutation of 0..n-1.
func (r *Rng) Perm(n int) []int {
	p := make([]int, n)
	for i := range p {
		p[i] = i
	}
	for i := n - 1; i > 0; i-- {
		j := r.Intn(i + 1)
		p[i], p[j] = p[j], p[i]
	}
	return p
}

// AsciiName returns a string of length n over the given alphabet.
func (r *Rng) StringOver(alphabet string, n int) string {
	rs := []rune(alphabet)
	out := make([]rune, n)
	for i := range out {
		out[i] = rs[r.Intn(len(rs))]
	}
	return string(out)
}
