package lib

import (
	"crypto/sha256"
	"encoding/json"
	"flag"
	"fmt"
	"os"
	"path/filepath"
	"sort"
	"strconv"
	"strings"
)

// Flags common to every property harness.
type Flags struct {
	Seed  uint64
	Tier  string // quick | thorough | search
	Out   string
	Only  int // >=0: emit only the case with this global index (replay)
	Shard int
	Scale float64
}

func ParseFlags() Flags {
	var f Flags
	seed := flag.String("seed", os.Getenv("VERIF_SEED"), "PRNG seed")
	flag.StringVar(&f.Tier, "tier", "quick", "quick|thorough|search")
	flag.StringVar(&f.Out, "out", "", "output directory for shards and meta.json")
	flag.IntVar(&f.Only, "only", -1, "emit only this case index")
	flag.IntVar(&f.Shard, "shard", 0, "cases per shard file (0 = harness default)")
	flag.Parse()
	if *seed == "" {
		*seed = "1"
	}
	s, err := strconv.ParseUint(*seed, 10, 64)
	if err != nil {
		// any string seeds the generator
		h := sha256.Sum256([]byte(*seed))
		for i := 0; i < 8; i++ {
			s = s<<8 | uint64(h[i])
		}
	}
	f.Seed = s
	if f.Out == "" {
		fmt.Fprintln(os.Stderr, "missing --out")
		os.Exit(2)
	}
	switch f.Tier {
	case "quick":
		f.Scale = 1
	case "thorough":
		f.Scale = 10
	case "search":
		f.Scale = 8
	default:
		fmt.Fprintln(os.Stderr, "bad --tier")
		os.Exit(2)
	}
	return f
}

// Count scales a quick-tier case count by the tier.
func (f Flags) Count(quick int) int { return int(float64(quick) * f.Scale) }

// Out collects cases and writes shard files plus meta.json.
type Out struct {
	Prop      string // "C09"
	Flags     Flags
	Imports   string // extra "From Verif Require Import ..." lines
	CaseType  string // e.g. "Check.C09.case"
	Judge     string // e.g. "Check.C09.judge"
	ShardSize int
	Rule      string // how cases are generated and what makes one non-trivial / distinct

	terms      []string
	descs      []any
	idx        []int
	next       int
	dist       map[string]int
	seen       map[[32]byte]bool
	nontrivial int
	goViol     []any
	extra      map[string]any
}

func NewOut(prop string, f Flags) *Out {
	return &Out{Prop: prop, Flags: f, CaseType: "Check." + prop + ".case", Judge: "Check." + prop + ".judge",
		ShardSize: shardOr(f.Shard, 250), dist: map[string]int{}, seen: map[[32]byte]bool{}, extra: map[string]any{}}
}

// Wanted tells a generator whether the case about to be produced will be kept (replay mode
// keeps one); generators must still consume the same randomness either way.
func (o *Out) Wanted() bool { return o.Flags.Only < 0 || o.Flags.Only == o.next }

// Add records one case: its Coq term, a JSON-able description for replays/samples,
// whether it is non-trivial by the harness's stated rule, and distribution tags.
func (o *Out) Add(term string, desc any, nontrivial bool, tags ...string) {
	i := o.next
	o.next++
	if o.Flags.Only >= 0 && o.Flags.Only != i {
		return
	}
	o.terms = append(o.terms, term)
	o.descs = append(o.descs, desc)
	o.idx = append(o.idx, i)
	for _, t := range tags {
		o.dist[t]++
	}
	h := sha256.Sum256([]byte(term))
	if !o.seen[h] {
		o.seen[h] = true
		if nontrivial {
			o.nontrivial++
		}
	}
}

// GoViolation records a violation observed on the Go side that cannot be expressed as a
// Coq case (process crash, hang, data race report). desc must make it replayable.
func (o *Out) GoViolation(desc any) { o.goViol = append(o.goViol, desc) }

// Extra adds a key to meta.json (copied into evidence.coverage by the driver).
func (o *Out) Extra(k string, v any) { o.extra[k] = v }

func (o *Out) Tag(t string) { o.dist[t]++ }

type shardInfo struct {
	File  string `json:"file"`
	Index []int  `json:"index"`
}

func (o *Out) Finish() {
	if err := os.MkdirAll(o.Flags.Out, 0o755); err != nil {
		panic(err)
	}
	old, _ := filepath.Glob(filepath.Join(o.Flags.Out, "shard_*"))
	for _, f := range old {
		os.Remove(f)
	}
	var shards []shardInfo
	for s := 0; s*o.ShardSize < len(o.terms) || (s == 0 && len(o.terms) == 0); s++ {
		lo, hi := s*o.ShardSize, (s+1)*o.ShardSize
		if hi > len(o.terms) {
			hi = len(o.terms)
		}
		name := fmt.Sprintf("shard_%03d.v", s)
		var sb strings.Builder
		sb.WriteString("From Coq Require Import List NArith ZArith String Uint63.\n")
		sb.WriteString("From Verif Require Import Base.Hex Base.Pack63 Base.Verdict Check." + o.Prop + ".\n")
		sb.WriteString(o.Imports)
		sb.WriteString("Import ListNotations.\nOpen Scope string_scope.\nOpen Scope N_scope.\n")
		sb.WriteString("Definition cases : list " + o.CaseType + " := [\n")
		for i := lo; i < hi; i++ {
			if i > lo {
				sb.WriteString(";\n")
			}
			sb.WriteString("  " + o.terms[i])
		}
		sb.WriteString("\n].\n")
		sb.WriteString("Definition result := Eval vm_compute in Base.Verdict.report " + o.Judge + " cases.\nPrint result.\n")
		if err := os.WriteFile(filepath.Join(o.Flags.Out, name), []byte(sb.String()), 0o644); err != nil {
			panic(err)
		}
		shards = append(shards, shardInfo{File: name, Index: append([]int{}, o.idx[lo:hi]...)})
	}
	df, err := os.Create(filepath.Join(o.Flags.Out, "descs.jsonl"))
	if err != nil {
		panic(err)
	}
	enc := json.NewEncoder(df)
	for i, d := range o.descs {
		enc.Encode(map[string]any{"index": o.idx[i], "desc": d, "coq": trunc(o.terms[i], 4000)})
	}
	df.Close()
	keys := make([]string, 0, len(o.dist))
	for k := range o.dist {
		keys = append(keys, k)
	}
	sort.Strings(keys)
	var samples []any
	for i := 0; i < len(o.descs) && len(samples) < 3; i += 1 + len(o.descs)/3 {
		samples = append(samples, map[string]any{"index": o.idx[i], "desc": o.descs[i], "coq": trunc(o.terms[i], 600)})
	}
	meta := map[string]any{
		"property": o.Prop, "seed": o.Flags.Seed, "tier": o.Flags.Tier,
		"n_cases": len(o.terms), "distinct": len(o.seen), "distinct_nontrivial": o.nontrivial,
		"rule": o.Rule, "distribution": o.dist, "shards": shards, "samples": samples,
		"go_violations": o.goViol, "extra": o.extra,
	}
	b, _ := json.MarshalIndent(meta, "", " ")
	if err := os.WriteFile(filepath.Join(o.Flags.Out, "meta.json"), b, 0o644); err != nil {
		panic(err)
	}
}

func trunc(s string, n int) string {
	if len(s) <= n {
		return s
	}
	return s[:n] + "…"
}

func shardOr(n, d int) int {
	if n > 0 {
		return n
	}
	return d
}
