package lib

import (
	"fmt"
	"strconv"
	"strings"
)

// Bytes prints a byte string as a Coq term of type Base.Hex.bytes (list N).
// Short strings go as hex string literals, long ones as packed Uint63 lists (7 bytes per int):
// string literals cost ~13 KB/s in coqc, Uint63 lists are ~6x cheaper (measured, DESIGN.md 2).
func Bytes(b []byte) string {
	if len(b) == 0 {
		return "[]"
	}
	if len(b) <= 96 {
		return `(hx "` + hexs(b) + `")`
	}
	var sb strings.Builder
	fmt.Fprintf(&sb, "(B %d [", len(b))
	for i := 0; i < len(b); i += 7 {
		var v uint64
		for j := 6; j >= 0; j-- {
			v <<= 8
			if i+j < len(b) {
				v |= uint64(b[i+j])
			}
		}
		if i > 0 {
			sb.WriteString(";")
		}
		sb.WriteString(strconv.FormatUint(v, 10))
	}
	sb.WriteString("]%uint63)")
	return sb.String()
}

func hexs(b []byte) string {
	const d = "0123456789abcdef"
	out := make([]byte, 2*len(b))
	for i, x := range b {
		out[2*i] = d[x>>4]
		out[2*i+1] = d[x&15]
	}
	return string(out)
}

// Str prints a Go string as bytes (its UTF-8 / raw bytes).
func Str(s string) string { return Bytes([]byte(s)) }

// Z prints a signed integer as a Coq Z term.
func Z(i int64) string {
	if i < 0 {
		return "(" + strconv.FormatInt(i, 10) + ")%Z"
	}
	return strconv.FormatInt(i, 10) + "%Z"
}

// N prints an unsigned integer as a Coq N term.
func N(u uint64) string { return strconv.FormatUint(u, 10) + "%N" }

// Nat prints a small natural number (never above a few thousand).
func Nat(n int) string {
	if n < 0 || n > 5000 {
		panic("lib.Nat: nat literal out of the safe range; use N or Z")
	}
	return strconv.Itoa(n) + "%nat"
}

func Bool(b bool) string {
	if b {
		return "true"
	}
	return "false"
}

// List prints a Coq list of already printed terms.
func List(items []string) string { return "[" + strings.Join(items, "; ") + "]" }

// ListOf maps and prints.
func ListOf[T any](xs []T, f func(T) string) string {
	items := make([]string, len(xs))
	for i, x := range xs {
		items[i] = f(x)
	}
	return List(items)
}

func Some(t string) string { return "(Some " + t + ")" }

func Opt(present bool, t string) string {
	if present {
		return Some(t)
	}
	return "None"
}

// App prints a constructor/function application with parenthesised arguments.
func App(f string, args ...string) string {
	if len(args) == 0 {
		return f
	}
	return "(" + f + " " + strings.Join(args, " ") + ")"
}

// Pair prints a Coq pair.
func Pair(a, b string) string { return "(" + a + ", " + b + ")" }
