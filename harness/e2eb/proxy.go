package e2eb

import (
	"context"
	"crypto/rand"
	"crypto/rsa"
	"errors"
	"net"
	"sync"
	"time"

	"github.com/go-logr/logr"
	"github.com/robinbraemer/event"
	"go.minekube.com/gate/pkg/edition/java/config"
	"go.minekube.com/gate/pkg/edition/java/proxy"
	"go.minekube.com/gate/pkg/util/configutil"

	"verifharness/e2e"
)

// ProxyOpts configures the proxy under test.
type ProxyOpts struct {
	ClientThreshold     int       // compression threshold towards clients (-1: off)
	Try                 []string  // try list (fallback order)
	ConnectionTimeoutMs int       // effective backend connect/login (and write) timeout; 0: gate's default
	ReadTimeoutMs       int       // effective read timeout; 0: gate's default
	NoFailover          bool      // FailoverOnUnexpectedServerDisconnect = false
	Sync                *SyncSink // scheduling aid: installed as the proxy's logger (needs Proxy.Start, see StartProxy)
	Online              bool      // online mode: real RSA/AES login against a scripted session server (e2e.NewAuth)
	Events              event.Manager
}

// Proxy is a real gate proxy built from the public API with a loopback listener in front of
// Proxy.HandleConn.
type Proxy struct {
	P   *proxy.Proxy
	Cfg *config.Config
	Ev  event.Manager
	ln  net.Listener

	mu    sync.Mutex
	conns []net.Conn
	stop  context.CancelFunc
}

// StartProxy builds the proxy (offline mode, forwarding none, quotas and packet limiter off).
// A real event manager is always used: with the default no-op manager gate never runs the
// callbacks it hands to FireParallel, so 1.20.2+ clients would never be connected anywhere.
func StartProxy(o ProxyOpts) (*Proxy, error) {
	cfg := config.DefaultConfig
	cfg.Bind = "127.0.0.1:0"
	cfg.OnlineMode = false
	cfg.Forwarding.Mode = config.NoneForwardingMode
	cfg.Compression.Threshold = o.ClientThreshold
	cfg.Compression.Level = -1
	cfg.Servers = map[string]string{}
	cfg.Try = append([]string(nil), o.Try...)
	cfg.ForcedHosts = map[string][]string{}
	cfg.Quota.Connections.Enabled = false
	cfg.Quota.Logins.Enabled = false
	cfg.PacketLimiter.PacketsPerSecond = -1
	cfg.PacketLimiter.BytesPerSecond = -1
	cfg.BungeePluginChannelEnabled = false
	cfg.BuiltinCommands = false
	cfg.AnnounceProxyCommands = false
	cfg.ForceKeyAuthentication = false
	cfg.FailoverOnUnexpectedServerDisconnect = !o.NoFailover
	// gate computes time.Duration(cfg.ConnectionTimeout)*time.Millisecond, i.e. it reads the raw
	// number as milliseconds (the 5 s default therefore means 5e9 ms); store the raw number so that
	// the effective timeout is the requested one.
	if o.ConnectionTimeoutMs > 0 {
		cfg.ConnectionTimeout = configutil.Duration(o.ConnectionTimeoutMs)
	}
	if o.ReadTimeoutMs > 0 {
		cfg.ReadTimeout = configutil.Duration(o.ReadTimeoutMs)
	}
	ev := o.Events
	if ev == nil {
		ev = event.New()
	}
	opts := proxy.Options{Config: &cfg, EventMgr: ev}
	if o.Online {
		cfg.OnlineMode = true
		key, err := rsa.GenerateKey(rand.Reader, 1024)
		if err != nil {
			return nil, err
		}
		a, err := e2e.NewAuth(key, e2e.OutProfile)
		if err != nil {
			return nil, err
		}
		opts.Authenticator = a
	}
	p, err := proxy.New(opts)
	if err != nil {
		return nil, err
	}
	ln, err := net.Listen("tcp", "127.0.0.1:0")
	if err != nil {
		return nil, err
	}
	h := &Proxy{P: p, Cfg: &cfg, Ev: ev, ln: ln}
	if o.Sync != nil {
		// The only public way to give the proxy a logger is the context of Proxy.Start (which also
		// listens on cfg.Bind = 127.0.0.1:0; that listener is not used). Connections still come in
		// through HandleConn below.
		ctx, cancel := context.WithCancel(logr.NewContext(context.Background(), logr.New(o.Sync)))
		h.stop = cancel
		go func() { _ = p.Start(ctx) }()
		select {
		case <-o.Sync.ready:
		case <-time.After(20 * time.Second):
			cancel()
			_ = ln.Close()
			return nil, errors.New("proxy did not start")
		}
	}
	go func() {
		for {
			c, err := ln.Accept()
			if err != nil {
				return
			}
			if tc, ok := c.(*net.TCPConn); ok {
				_ = tc.SetNoDelay(true)
			}
			h.mu.Lock()
			h.conns = append(h.conns, c)
			h.mu.Unlock()
			go p.HandleConn(c)
		}
	}()
	return h, nil
}

// Addr is the address clients dial.
func (h *Proxy) Addr() string { return h.ln.Addr().String() }

// Register registers a backend under its name.
func (h *Proxy) Register(b *Backend) (proxy.RegisteredServer, error) {
	return h.P.Register(proxy.NewServerInfo(b.Name, b.Addr()))
}

// Player waits until the named player is registered with the proxy.
func (h *Proxy) Player(name string, d time.Duration) proxy.Player {
	deadline := time.Now().Add(d)
	for {
		if pl := h.P.PlayerByName(name); pl != nil {
			return pl
		}
		if time.Now().After(deadline) {
			return nil
		}
		time.Sleep(2 * time.Millisecond)
	}
}

// Close stops the listener and closes all client connections accepted so far.
func (h *Proxy) Close() {
	_ = h.ln.Close()
	if h.stop != nil {
		h.stop()
	}
	h.mu.Lock()
	cs := h.conns
	h.conns = nil
	h.mu.Unlock()
	for _, c := range cs {
		_ = c.Close()
	}
}

// CurrentServerName returns the name of the player's current server ("" if none).
func CurrentServerName(pl proxy.Player) string {
	if cs := pl.CurrentServer(); cs != nil && cs.Server() != nil {
		return cs.Server().ServerInfo().Name()
	}
	return ""
}

// HasPlayer tells whether the server's player list contains a player with the name.
func HasPlayer(rs proxy.RegisteredServer, name string) bool {
	found := false
	rs.Players().Range(func(p proxy.Player) bool {
		if p.Username() == name {
			found = true
			return false
		}
		return true
	})
	return found
}
