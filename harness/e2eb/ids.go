package e2eb

import (
	"bytes"
	"fmt"
	"reflect"
	"sort"

	"go.minekube.com/common/minecraft/component"
	"go.minekube.com/gate/pkg/edition/java/proto/packet"
	"go.minekube.com/gate/pkg/edition/java/proto/packet/config"
	"go.minekube.com/gate/pkg/edition/java/proto/state"
	"go.minekube.com/gate/pkg/edition/java/proto/state/states"
	"go.minekube.com/gate/pkg/edition/java/proto/util"
	"go.minekube.com/gate/pkg/edition/java/proto/version"
	"go.minekube.com/gate/pkg/gate/proto"
	"go.minekube.com/gate/pkg/util/uuid"
)

// Version is a client protocol version the peers of this package can speak.
type Version struct {
	Name     string
	Protocol proto.Protocol
}

// Versions supported by the fake backend and the fake client.
var Versions = []Version{
	{"1.8", version.Minecraft_1_8.Protocol},
	{"1.12.2", version.Minecraft_1_12_2.Protocol},
	{"1.16.5", version.Minecraft_1_16_4.Protocol},
	{"1.19.4", version.Minecraft_1_19_4.Protocol},
	{"1.20.1", version.Minecraft_1_20.Protocol},
	{"1.20.4", version.Minecraft_1_20_3.Protocol},
	{"1.21.1", version.Minecraft_1_21.Protocol},
	{"1.21.4", version.Minecraft_1_21_4.Protocol},
}

// VersionByName finds a supported version.
func VersionByName(name string) (Version, bool) {
	for _, v := range Versions {
		if v.Name == name {
			return v, true
		}
	}
	return Version{}, false
}

// HasConfig tells whether the version has the configuration phase (1.20.2+).
func HasConfig(p proto.Protocol) bool { return p.GreaterEqual(version.Minecraft_1_20_2) }

// Registry returns gate's id table for (state, direction, protocol).
func Registry(st *state.Registry, dir proto.Direction, p proto.Protocol) *state.ProtocolRegistry {
	return state.FromDirection(dir, st, p)
}

// IDOf returns the id gate's registry assigns to the packet type.
func IDOf(st *state.Registry, dir proto.Direction, p proto.Protocol, pkt proto.Packet) (int, bool) {
	id, ok := Registry(st, dir, p).PacketID(pkt)
	return int(id), ok
}

// TypeOf returns the packet type gate's registry decodes the id to ("" if unknown).
func TypeOf(st *state.Registry, dir proto.Direction, p proto.Protocol, id int) string {
	t, ok := Registry(st, dir, p).PacketIDs[proto.PacketID(id)]
	if !ok {
		return ""
	}
	return t.String()
}

// KnownIDs lists the ids that gate's registry decodes into packet structs for (state, dir, protocol),
// ascending, with the Go type each one decodes to.
func KnownIDs(st *state.Registry, dir proto.Direction, p proto.Protocol) (ids []int, types map[int]string) {
	types = map[int]string{}
	for id, t := range Registry(st, dir, p).PacketIDs {
		ids = append(ids, int(id))
		types[int(id)] = t.String()
	}
	sort.Ints(ids)
	return
}

// Build encodes pkt with gate's encoder for (state, dir, protocol) into a payload (id + body).
func Build(st *state.Registry, dir proto.Direction, p proto.Protocol, pkt proto.Packet) ([]byte, error) {
	id, ok := IDOf(st, dir, p, pkt)
	if !ok {
		return nil, fmt.Errorf("%T has no id in %s/%s/%s", pkt, st, dir, p)
	}
	var b bytes.Buffer
	ctx := &proto.PacketContext{Direction: dir, Protocol: p, PacketID: proto.PacketID(id), Packet: pkt}
	if err := util.RecoverFunc(func() error { return pkt.Encode(ctx, &b) }); err != nil {
		return nil, fmt.Errorf("encode %T: %w", pkt, err)
	}
	return MakePayload(id, b.Bytes()), nil
}

// MustBuild is Build that panics (only for packets known to encode).
func MustBuild(st *state.Registry, dir proto.Direction, p proto.Protocol, pkt proto.Packet) []byte {
	b, err := Build(st, dir, p, pkt)
	if err != nil {
		panic(err)
	}
	return b
}

// Decode decodes a payload with gate's decoder for (state, dir, protocol); nil if the id is unknown
// or the body does not decode.
func Decode(st *state.Registry, dir proto.Direction, p proto.Protocol, payload []byte) proto.Packet {
	id, body, err := SplitID(payload)
	if err != nil {
		return nil
	}
	pkt := Registry(st, dir, p).CreatePacket(proto.PacketID(id))
	if pkt == nil {
		return nil
	}
	ctx := &proto.PacketContext{Direction: dir, Protocol: p, PacketID: proto.PacketID(id), Packet: pkt, Payload: payload}
	if err := util.RecoverFunc(func() error { return pkt.Decode(ctx, bytes.NewReader(body)) }); err != nil {
		return nil
	}
	return pkt
}

// kind classifies a payload by the type gate's registry gives its id (no body decoding).
func kind(st *state.Registry, dir proto.Direction, p proto.Protocol, payload []byte) reflect.Type {
	id, _, err := SplitID(payload)
	if err != nil {
		return nil
	}
	t, ok := Registry(st, dir, p).PacketIDs[proto.PacketID(id)]
	if !ok {
		return nil
	}
	return t
}

var (
	tDisconnect        = reflect.TypeOf(packet.Disconnect{})
	tLoginSuccess      = reflect.TypeOf(packet.ServerLoginSuccess{})
	tSetCompression    = reflect.TypeOf(packet.SetCompression{})
	tKeepAlive         = reflect.TypeOf(packet.KeepAlive{})
	tJoinGame          = reflect.TypeOf(packet.JoinGame{})
	tFinished          = reflect.TypeOf(config.FinishedUpdate{})
	tStartUpdate       = reflect.TypeOf(config.StartUpdate{})
	tHandshake         = reflect.TypeOf(packet.Handshake{})
	tServerLogin       = reflect.TypeOf(packet.ServerLogin{})
	tLoginAck          = reflect.TypeOf(packet.LoginAcknowledged{})
	tEncryptionRequest = reflect.TypeOf(packet.EncryptionRequest{})
)

// JoinGameFor returns a JoinGame that gate can encode and decode for the protocol.
func JoinGameFor(p proto.Protocol, entityID int) *packet.JoinGame {
	level := "minecraft:overworld"
	lt := "default"
	j := &packet.JoinGame{
		EntityID:           entityID,
		Gamemode:           1,
		Dimension:          0,
		PartialHashedSeed:  42,
		Difficulty:         1,
		MaxPlayers:         20,
		LevelType:          &lt,
		ViewDistance:       8,
		SimulationDistance: 8,
		ShowRespawnScreen:  true,
		PreviousGamemode:   -1,
		SeaLevel:           63,
	}
	if p.GreaterEqual(version.Minecraft_1_16) {
		j.LevelType = nil
		j.LevelNames = []string{level}
		empty := util.CompoundBinaryTag{Type: 10, Data: []byte{0}} // TAG_Compound {} (TAG_End)
		j.Registry = empty
		j.CurrentDimensionData = empty
		j.DimensionInfo = &packet.DimensionInfo{RegistryIdentifier: level, LevelName: &level}
	}
	return j
}

// loginSuccessFor builds the LoginSuccess a backend answers with.
func loginSuccessFor(name string) *packet.ServerLoginSuccess {
	return &packet.ServerLoginSuccess{UUID: uuid.OfflinePlayerUUID(name), Username: name}
}

// disconnectFor builds a Disconnect for the given state.
func disconnectFor(p proto.Protocol, st states.State, reason string) *packet.Disconnect {
	return packet.NewDisconnect(&component.Text{Content: reason}, p, st)
}
