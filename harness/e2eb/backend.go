package e2eb

import (
	"errors"
	"net"
	"sync"
	"sync/atomic"
	"time"

	"go.minekube.com/gate/pkg/edition/java/proto/packet"
	"go.minekube.com/gate/pkg/edition/java/proto/packet/config"
	"go.minekube.com/gate/pkg/edition/java/proto/state"
	"go.minekube.com/gate/pkg/edition/java/proto/state/states"
	"go.minekube.com/gate/pkg/gate/proto"
)

// Behaviour is what a backend does with one incoming connection.
type Behaviour int

const (
	Accept     Behaviour = iota // complete login (and configuration), send JoinGame, stay in play
	Refuse                      // close the connection right after accepting it
	KickLogin                   // read handshake + login start, answer with a login Disconnect
	KickConfig                  // 1.20.2+: LoginSuccess, then Disconnect in configuration (older: like KickPlay)
	KickPlay                    // complete login (and configuration), Disconnect in play instead of JoinGame
	Stall                       // read handshake + login start, then never answer
)

func (b Behaviour) String() string {
	return [...]string{"accept", "refuse", "kick-login", "kick-config", "kick-play", "stall"}[b]
}

// Script is the behaviour for one connection.
type Script struct {
	Do        Behaviour
	Threshold int // compression threshold the backend announces with SetCompression; < 0: none
}

// Phase of a backend connection as seen by the backend.
type Phase int32

const (
	PhaseHandshake Phase = iota
	PhaseLogin
	PhaseConfig
	PhasePlayPreJoin
	PhaseJoined
	PhaseEnded
)

// Backend is a scripted fake Minecraft server on a loopback TCP port.
type Backend struct {
	Name string
	ln   net.Listener
	// Next returns the script for the n-th accepted connection (n counts from 0).
	Next func(n int) Script

	mu    sync.Mutex
	conns []*BackendConn
	down  bool
}

// NewBackend starts listening on 127.0.0.1:0.
func NewBackend(name string, next func(n int) Script) (*Backend, error) {
	ln, err := net.Listen("tcp", "127.0.0.1:0")
	if err != nil {
		return nil, err
	}
	b := &Backend{Name: name, ln: ln, Next: next}
	go b.acceptLoop()
	return b, nil
}

// Addr is the listen address.
func (b *Backend) Addr() net.Addr { return b.ln.Addr() }

// Conns returns the connections accepted so far, in accept order.
func (b *Backend) Conns() []*BackendConn {
	b.mu.Lock()
	defer b.mu.Unlock()
	return append([]*BackendConn(nil), b.conns...)
}

// WaitConn waits until the n-th connection (from 0) has been accepted.
func (b *Backend) WaitConn(n int, d time.Duration) *BackendConn {
	deadline := time.Now().Add(d)
	for {
		b.mu.Lock()
		if len(b.conns) > n {
			c := b.conns[n]
			b.mu.Unlock()
			return c
		}
		b.mu.Unlock()
		if time.Now().After(deadline) {
			return nil
		}
		time.Sleep(2 * time.Millisecond)
	}
}

// Open returns the connections that are not closed (by either side).
func (b *Backend) Open() []*BackendConn {
	var out []*BackendConn
	for _, c := range b.Conns() {
		if !c.IsClosed() {
			out = append(out, c)
		}
	}
	return out
}

// Close stops listening and closes every connection.
func (b *Backend) Close() {
	b.mu.Lock()
	b.down = true
	cs := append([]*BackendConn(nil), b.conns...)
	b.mu.Unlock()
	_ = b.ln.Close()
	for _, c := range cs {
		c.Close()
	}
}

func (b *Backend) acceptLoop() {
	for {
		c, err := b.ln.Accept()
		if err != nil {
			return
		}
		if tc, ok := c.(*net.TCPConn); ok {
			_ = tc.SetNoDelay(true)
		}
		b.mu.Lock()
		n := len(b.conns)
		sc := Script{Do: Accept, Threshold: -1}
		if b.Next != nil {
			sc = b.Next(n)
		}
		bc := &BackendConn{Backend: b, Index: n, Script: sc, W: NewWire(c), joined: make(chan struct{}), closed: make(chan struct{})}
		bc.AcceptedAt.Store(time.Now().UnixNano())
		b.conns = append(b.conns, bc)
		down := b.down
		b.mu.Unlock()
		if down {
			bc.Close()
			continue
		}
		go bc.serve()
	}
}

// BackendConn is one proxy -> backend connection.
type BackendConn struct {
	Backend *Backend
	Index   int
	Script  Script
	W       *Wire

	Protocol proto.Protocol
	Username string
	phase    atomic.Int32

	// timestamps (UnixNano, 0 = not reached): accepted, JoinGame sent, connection ended
	AcceptedAt atomic.Int64
	JoinedAt   atomic.Int64
	EndedAt    atomic.Int64

	joined    chan struct{}
	joinOnce  sync.Once
	closed    chan struct{}
	closeOnce sync.Once
	Err       error // why serve ended (io.EOF when the proxy closed)

	mu        sync.Mutex
	recv      [][]byte // every payload received in play (KeepAlive replies included)
	keepAlive []int64  // KeepAlive ids received in play/config
	entityID  int
}

// Phase returns how far the connection got.
func (c *BackendConn) Phase() Phase { return Phase(c.phase.Load()) }

// IsClosed tells whether the connection has ended (closed by the proxy or by the script).
func (c *BackendConn) IsClosed() bool {
	select {
	case <-c.closed:
		return true
	default:
		return false
	}
}

// WaitClosed waits for the end of the connection.
func (c *BackendConn) WaitClosed(d time.Duration) bool {
	select {
	case <-c.closed:
		return true
	case <-time.After(d):
		return false
	}
}

// WaitJoined waits until JoinGame has been sent.
func (c *BackendConn) WaitJoined(d time.Duration) bool {
	select {
	case <-c.joined:
		return true
	case <-c.closed:
		select {
		case <-c.joined:
			return true
		default:
			return false
		}
	case <-time.After(d):
		return false
	}
}

// Close closes the connection from the backend side.
func (c *BackendConn) Close() {
	c.closeOnce.Do(func() {
		c.EndedAt.Store(time.Now().UnixNano())
		_ = c.W.Close()
		close(c.closed)
	})
}

func (c *BackendConn) end(err error) {
	c.mu.Lock()
	if c.Err == nil {
		c.Err = err
	}
	c.mu.Unlock()
	c.phase.Store(int32(PhaseEnded))
	c.Close()
}

// Send writes one raw payload (id + body) to the proxy.
func (c *BackendConn) Send(payload []byte) error { return c.W.WritePayload(payload) }

// SendAll writes payloads as one byte stream (split by W.Chunk if set).
func (c *BackendConn) SendAll(ps [][]byte) error { return c.W.WritePayloads(ps) }

// SendKeepAlive sends a play KeepAlive with the given id.
func (c *BackendConn) SendKeepAlive(id int64) error {
	return c.Send(MustBuild(state.Play, proto.ClientBound, c.Protocol, &packet.KeepAlive{RandomID: id}))
}

// Kick sends a play Disconnect and closes.
func (c *BackendConn) Kick(reason string) error {
	err := c.Send(MustBuild(state.Play, proto.ClientBound, c.Protocol, disconnectFor(c.Protocol, states.PlayState, reason)))
	time.Sleep(5 * time.Millisecond)
	c.Close()
	return err
}

// Received returns a copy of the payloads received in play so far.
func (c *BackendConn) Received() [][]byte {
	c.mu.Lock()
	defer c.mu.Unlock()
	return append([][]byte(nil), c.recv...)
}

// WaitReceived waits until at least n payloads were received in play.
func (c *BackendConn) WaitReceived(n int, d time.Duration) bool {
	deadline := time.Now().Add(d)
	for {
		c.mu.Lock()
		k := len(c.recv)
		c.mu.Unlock()
		if k >= n {
			return true
		}
		if c.IsClosed() || time.Now().After(deadline) {
			return false
		}
		time.Sleep(time.Millisecond)
	}
}

// KeepAlives returns the KeepAlive ids the proxy sent to this backend.
func (c *BackendConn) KeepAlives() []int64 {
	c.mu.Lock()
	defer c.mu.Unlock()
	return append([]int64(nil), c.keepAlive...)
}

var errScript = errors.New("script ended the connection")

func (c *BackendConn) serve() {
	sc := c.Script
	if sc.Do == Refuse {
		c.end(errScript)
		return
	}
	// --- handshake
	p, err := c.W.ReadPayload()
	if err != nil {
		c.end(err)
		return
	}
	hs, ok := Decode(state.Handshake, proto.ServerBound, 0, p).(*packet.Handshake)
	if !ok || hs.NextStatus != 2 {
		c.end(errors.New("bad handshake"))
		return
	}
	c.Protocol = proto.Protocol(hs.ProtocolVersion)
	c.phase.Store(int32(PhaseLogin))
	// --- login start
	p, err = c.W.ReadPayload()
	if err != nil {
		c.end(err)
		return
	}
	if sl, ok := Decode(state.Login, proto.ServerBound, c.Protocol, p).(*packet.ServerLogin); ok {
		c.Username = sl.Username
	} else {
		c.end(errors.New("bad login start"))
		return
	}
	switch sc.Do {
	case Stall:
		// never answer; wait for the proxy to give up
		c.W.ReadTimeout = 60 * time.Second
		_, err = c.W.ReadPayload()
		c.end(err)
		return
	case KickLogin:
		_ = c.Send(MustBuild(state.Login, proto.ClientBound, c.Protocol, disconnectFor(c.Protocol, states.LoginState, "kick-login")))
		c.drainUntilClosed()
		return
	}
	if sc.Threshold >= 0 {
		if err = c.Send(MustBuild(state.Login, proto.ClientBound, c.Protocol, &packet.SetCompression{Threshold: sc.Threshold})); err != nil {
			c.end(err)
			return
		}
		c.W.SetThreshold(sc.Threshold)
	}
	if err = c.Send(MustBuild(state.Login, proto.ClientBound, c.Protocol, loginSuccessFor(c.Username))); err != nil {
		c.end(err)
		return
	}
	if HasConfig(c.Protocol) {
		// wait for LoginAcknowledged
		for {
			p, err = c.W.ReadPayload()
			if err != nil {
				c.end(err)
				return
			}
			if kind(state.Login, proto.ServerBound, c.Protocol, p) == tLoginAck {
				break
			}
		}
		c.phase.Store(int32(PhaseConfig))
		if sc.Do == KickConfig {
			_ = c.Send(MustBuild(state.Config, proto.ClientBound, c.Protocol, disconnectFor(c.Protocol, states.ConfigState, "kick-config")))
			c.drainUntilClosed()
			return
		}
		if err = c.Send(MustBuild(state.Config, proto.ClientBound, c.Protocol, &config.FinishedUpdate{})); err != nil {
			c.end(err)
			return
		}
		// wait for the acknowledgement (other configuration packets may come first)
		for {
			p, err = c.W.ReadPayload()
			if err != nil {
				c.end(err)
				return
			}
			if kind(state.Config, proto.ServerBound, c.Protocol, p) == tFinished {
				break
			}
		}
	}
	c.phase.Store(int32(PhasePlayPreJoin))
	if sc.Do == KickPlay || sc.Do == KickConfig {
		_ = c.Send(MustBuild(state.Play, proto.ClientBound, c.Protocol, disconnectFor(c.Protocol, states.PlayState, "kick-play")))
		c.drainUntilClosed()
		return
	}
	c.entityID = 100 + c.Index
	if err = c.Send(MustBuild(state.Play, proto.ClientBound, c.Protocol, JoinGameFor(c.Protocol, c.entityID))); err != nil {
		c.end(err)
		return
	}
	c.phase.Store(int32(PhaseJoined))
	c.JoinedAt.Store(time.Now().UnixNano())
	c.joinOnce.Do(func() { close(c.joined) })
	// --- play: collect what arrives
	c.W.ReadTimeout = 0
	for {
		p, err = c.W.ReadPayload()
		if err != nil {
			c.end(err)
			return
		}
		if len(p) == 0 {
			continue
		}
		if kind(state.Play, proto.ServerBound, c.Protocol, p) == tKeepAlive {
			if ka, ok := Decode(state.Play, proto.ServerBound, c.Protocol, p).(*packet.KeepAlive); ok {
				c.mu.Lock()
				c.keepAlive = append(c.keepAlive, ka.RandomID)
				c.mu.Unlock()
			}
		}
		c.mu.Lock()
		c.recv = append(c.recv, p)
		c.mu.Unlock()
	}
}

// drainUntilClosed reads (and ignores) until the proxy closes the connection, at most 3 s.
func (c *BackendConn) drainUntilClosed() {
	c.W.ReadTimeout = 3 * time.Second
	for {
		if _, err := c.W.ReadPayload(); err != nil {
			c.end(err)
			return
		}
	}
}
