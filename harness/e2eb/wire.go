package e2eb

import (
	"bufio"
	"bytes"
	"compress/zlib"
	"crypto/aes"
	"crypto/cipher"
	"errors"
	"fmt"
	"io"
	"net"
	"sync"
	"time"
)

// PutVarInt appends the Minecraft VarInt encoding of v (as int32) to b.
func PutVarInt(b []byte, v int) []byte {
	u := uint32(int32(v))
	for {
		if u < 0x80 {
			return append(b, byte(u))
		}
		b = append(b, byte(u&0x7f)|0x80)
		u >>= 7
	}
}

// GetVarInt decodes a VarInt from the head of b; n is the number of bytes used (0 on error).
func GetVarInt(b []byte) (v int, n int) {
	var u uint32
	for i := 0; i < 5; i++ {
		if i >= len(b) {
			return 0, 0
		}
		u |= uint32(b[i]&0x7f) << (7 * uint(i))
		if b[i]&0x80 == 0 {
			return int(int32(u)), i + 1
		}
	}
	return 0, 0
}

// SplitID splits a payload into packet id and body.
func SplitID(payload []byte) (id int, body []byte, err error) {
	id, n := GetVarInt(payload)
	if n == 0 {
		return 0, nil, errors.New("payload without packet id")
	}
	return id, payload[n:], nil
}

// MakePayload builds a payload (packet id VarInt followed by the body).
func MakePayload(id int, body []byte) []byte {
	p := PutVarInt(make([]byte, 0, len(body)+3), id)
	return append(p, body...)
}

// ErrTimeout is returned by reads that hit the watchdog.
var ErrTimeout = errors.New("e2eb: watchdog timeout")

// Wire frames payloads on a net.Conn: VarInt length prefix; after SetThreshold(t >= 0) every frame
// carries the uncompressed length (0 = stored) and payloads of length >= t are zlib-compressed.
type Wire struct {
	C  net.Conn
	br *bufio.Reader

	rmu  sync.Mutex
	thrR int

	wmu  sync.Mutex
	thrW int
	zw   *zlib.Writer // reused across frames (write side)
	zbuf bytes.Buffer
	zr   io.ReadCloser // reused across frames (read side)
	// Chunk, when set, is asked for the size of the next TCP write while a frame batch is written
	// (values < 1 mean "everything that is left").
	Chunk func() int

	ReadTimeout time.Duration

	enc *cfb8 // write side cipher (nil: plaintext)
}

// cfb8 is AES/CFB8 from its definition: one block encryption per byte, the shift register holds the
// last 16 ciphertext bytes and starts as the IV (Minecraft uses the shared secret as key and IV).
type cfb8 struct {
	b   cipher.Block
	reg [16]byte
	dec bool
}

func newCFB8(secret []byte, dec bool) (*cfb8, error) {
	if len(secret) != 16 {
		return nil, errors.New("shared secret must be 16 bytes")
	}
	b, err := aes.NewCipher(secret)
	if err != nil {
		return nil, err
	}
	c := &cfb8{b: b, dec: dec}
	copy(c.reg[:], secret)
	return c, nil
}

func (c *cfb8) xor(p []byte) {
	var o [16]byte
	for i, x := range p {
		c.b.Encrypt(o[:], c.reg[:])
		y := x ^ o[0]
		ct := y
		if c.dec {
			ct = x
		}
		copy(c.reg[:], c.reg[1:])
		c.reg[15] = ct
		p[i] = y
	}
}

type decReader struct {
	r io.Reader
	c *cfb8
}

func (d *decReader) Read(p []byte) (int, error) {
	n, err := d.r.Read(p)
	d.c.xor(p[:n])
	return n, err
}

// EnableEncryption switches both directions to AES/CFB8 with the shared secret. It must be called
// when nothing is buffered (right after the EncryptionResponse was written).
func (w *Wire) EnableEncryption(secret []byte) error {
	dec, err := newCFB8(secret, true)
	if err != nil {
		return err
	}
	enc, err := newCFB8(secret, false)
	if err != nil {
		return err
	}
	w.rmu.Lock()
	if w.br.Buffered() != 0 {
		w.rmu.Unlock()
		return errors.New("bytes buffered while enabling encryption")
	}
	w.br = bufio.NewReaderSize(&decReader{w.C, dec}, 1<<16)
	w.rmu.Unlock()
	w.wmu.Lock()
	w.enc = enc
	w.wmu.Unlock()
	return nil
}

// NewWire wraps a connection; compression is off.
func NewWire(c net.Conn) *Wire {
	return &Wire{C: c, br: bufio.NewReaderSize(c, 1<<16), thrR: -1, thrW: -1, ReadTimeout: 20 * time.Second}
}

// SetThreshold switches both directions to the compressed frame format (t < 0: plain format).
func (w *Wire) SetThreshold(t int) {
	w.rmu.Lock()
	w.thrR = t
	w.rmu.Unlock()
	w.wmu.Lock()
	w.thrW = t
	w.wmu.Unlock()
}

// Threshold returns the write-side threshold.
func (w *Wire) Threshold() int {
	w.wmu.Lock()
	defer w.wmu.Unlock()
	return w.thrW
}

func (w *Wire) readVarInt() (int, error) {
	var u uint32
	for i := 0; i < 5; i++ {
		b, err := w.br.ReadByte()
		if err != nil {
			return 0, err
		}
		u |= uint32(b&0x7f) << (7 * uint(i))
		if b&0x80 == 0 {
			return int(int32(u)), nil
		}
	}
	return 0, errors.New("varint too long")
}

// ReadPayload reads the next frame and returns its (decompressed) payload. Empty frames are returned
// as empty payloads. A watchdog deadline of ReadTimeout applies (ErrTimeout).
func (w *Wire) ReadPayload() ([]byte, error) {
	w.rmu.Lock()
	defer w.rmu.Unlock()
	if w.ReadTimeout > 0 {
		_ = w.C.SetReadDeadline(time.Now().Add(w.ReadTimeout))
	}
	p, err := w.readPayload()
	if err != nil {
		var ne net.Error
		if errors.As(err, &ne) && ne.Timeout() {
			return nil, ErrTimeout
		}
	}
	return p, err
}

func (w *Wire) readPayload() ([]byte, error) {
	n, err := w.readVarInt()
	if err != nil {
		return nil, err
	}
	if n < 0 || n > 1<<23 {
		return nil, fmt.Errorf("bad frame length %d", n)
	}
	frame := make([]byte, n)
	if _, err = io.ReadFull(w.br, frame); err != nil {
		return nil, err
	}
	if w.thrR < 0 || n == 0 {
		return frame, nil
	}
	ulen, k := GetVarInt(frame)
	if k == 0 {
		return nil, errors.New("bad data length")
	}
	if ulen == 0 {
		return frame[k:], nil
	}
	if ulen < 0 || ulen > 1<<24 {
		return nil, fmt.Errorf("bad uncompressed length %d", ulen)
	}
	var err2 error
	if w.zr == nil {
		w.zr, err2 = zlib.NewReader(bytes.NewReader(frame[k:]))
	} else {
		err2 = w.zr.(zlib.Resetter).Reset(bytes.NewReader(frame[k:]), nil)
	}
	if err2 != nil {
		w.zr = nil
		return nil, err2
	}
	out := make([]byte, ulen)
	if _, err = io.ReadFull(w.zr, out); err != nil {
		return nil, fmt.Errorf("inflate: %w", err)
	}
	// the stream must end exactly here
	var one [1]byte
	if m, _ := w.zr.Read(one[:]); m != 0 {
		return nil, errors.New("inflate: more data than announced")
	}
	return out, nil
}

// Frame returns the wire bytes of one payload under threshold thr (-1: plain).
func Frame(payload []byte, thr int) []byte {
	if thr < 0 {
		return append(PutVarInt(make([]byte, 0, len(payload)+5), len(payload)), payload...)
	}
	if len(payload) < thr {
		out := PutVarInt(make([]byte, 0, len(payload)+6), len(payload)+1)
		out = append(out, 0)
		return append(out, payload...)
	}
	var zb bytes.Buffer
	zw := zlib.NewWriter(&zb)
	_, _ = zw.Write(payload)
	_ = zw.Close()
	inner := PutVarInt(make([]byte, 0, zb.Len()+5), len(payload))
	inner = append(inner, zb.Bytes()...)
	out := PutVarInt(make([]byte, 0, len(inner)+5), len(inner))
	return append(out, inner...)
}

// WritePayload frames and writes one payload.
func (w *Wire) WritePayload(p []byte) error { return w.WritePayloads([][]byte{p}) }

// WritePayloads frames all payloads and writes the resulting byte stream, split by Chunk if set.
func (w *Wire) WritePayloads(ps [][]byte) error {
	w.wmu.Lock()
	defer w.wmu.Unlock()
	var buf []byte
	for _, p := range ps {
		if w.thrW >= 0 && len(p) >= w.thrW {
			// same bytes as Frame, with a reused zlib writer
			if w.zw == nil {
				w.zw = zlib.NewWriter(&w.zbuf)
			}
			w.zbuf.Reset()
			w.zw.Reset(&w.zbuf)
			_, _ = w.zw.Write(p)
			_ = w.zw.Close()
			inner := PutVarInt(make([]byte, 0, w.zbuf.Len()+5), len(p))
			inner = append(inner, w.zbuf.Bytes()...)
			buf = append(PutVarInt(buf, len(inner)), inner...)
			continue
		}
		buf = append(buf, Frame(p, w.thrW)...)
	}
	if w.enc != nil {
		w.enc.xor(buf)
	}
	_ = w.C.SetWriteDeadline(time.Now().Add(120 * time.Second))
	for len(buf) > 0 {
		n := len(buf)
		if w.Chunk != nil {
			if c := w.Chunk(); c >= 1 && c < n {
				n = c
			}
		}
		if _, err := w.C.Write(buf[:n]); err != nil {
			return err
		}
		buf = buf[n:]
	}
	return nil
}

// Close closes the connection.
func (w *Wire) Close() error { return w.C.Close() }
