package e2eb

import "sync"

// RunParallel runs job(0..n-1) at most width at a time and returns the results in index order,
// so that what a harness emits does not depend on scheduling.
func RunParallel[T any](n, width int, job func(i int) T) []T {
	out := make([]T, n)
	if width < 1 {
		width = 1
	}
	sem := make(chan struct{}, width)
	var wg sync.WaitGroup
	for i := 0; i < n; i++ {
		wg.Add(1)
		sem <- struct{}{}
		go func(i int) {
			defer wg.Done()
			defer func() { <-sem }()
			out[i] = job(i)
		}(i)
	}
	wg.Wait()
	return out
}
