// Package e2eb is the end-to-end harness for properties that need a player IN PLAY on a backend
// (C15 relay, C16 server switches): a scripted fake BACKEND server, a fake CLIENT that follows the
// login -> (configuration) -> play state machine, and helpers that build a REAL gate proxy from the
// public API only (proxy.New, Proxy.Register, Proxy.HandleConn, Player.CreateConnectionRequest).
//
// API
//
//	wire.go     Wire: the Minecraft wire format written independently of gate's codec package
//	            (own VarInt framing, own zlib handling, vanilla rule "compress iff len >= threshold").
//	            NewWire(conn), (*Wire).ReadPayload / WritePayload / SetThreshold; Chunk lets a test
//	            split the written byte stream into arbitrary TCP writes. PutVarInt, GetVarInt,
//	            SplitID, MakePayload.
//	ids.go      Lookup of packet ids and construction of the few protocol packets the peers must speak
//	            (Handshake, LoginStart, LoginSuccess, SetCompression, FinishedUpdate, JoinGame, KeepAlive,
//	            Disconnect, StartUpdate ack) for a protocol version, taken from gate's state registry and
//	            packet structs (allowed: their content is not what C15/C16 judge). KnownIDs(state, dir,
//	            protocol) lists the ids gate's registry decodes, Versions lists the supported versions.
//	backend.go  Backend: loopback TCP listener speaking handshake -> login (optional SetCompression with
//	            its own threshold, LoginSuccess) -> configuration (1.20.2+: FinishedUpdate handshake)
//	            -> play (JoinGame, then scripted packets). Each accepted connection follows the Script
//	            returned by the backend's Next func: Accept / Refuse (close on connect) / KickLogin /
//	            KickConfig / KickPlay (disconnect packet before JoinGame) / Stall (never answers the
//	            login). BackendConn: Send, SendKeepAlive, Kick, Close, IsClosed, WaitJoined, WaitClosed,
//	            Received (every payload seen in play), KeepAlives, Phase, AcceptedAt / JoinedAt / EndedAt
//	            timestamps. Backend: Conns, Open, WaitConn, Close.
//	client.go   Client: Dial + Login (handshake, login start, SetCompression, LoginSuccess, 1.20.2+
//	            LoginAcknowledged / configuration acks, StartUpdate acks during switches), WaitJoins,
//	            Send, Received, WaitReceived, IsClosed, Kicked. Against a proxy started with Online the login
//	            does the real encryption exchange (RSA PKCS#1 v1.5, then AES/CFB8 written from its definition
//	            in wire.go; session server scripted by harness/e2e.NewAuth) - Encrypted reports it.
//	proxy.go    StartProxy(ProxyOpts) builds the proxy (offline mode, forwarding none, quotas and packet
//	            limiter off, configurable compression threshold / timeouts / try list), accepts
//	            loopback connections into Proxy.HandleConn; Register(backend); Player(name).
//	syncsink.go SyncSink: a discarding logr.LogSink used as a scheduling aid (barrier at gate's
//	            newServerConnection) for forced concurrent bursts; ProxyOpts.Sync installs it.
//	par.go      RunParallel(n, width, job): runs jobs width-wide, results in index order.
//
// Every blocking operation has a watchdog timeout; a hang is reported as an observation.
// Trust: everything in this package is part of the trusted base of C15 and C16.
package e2eb
