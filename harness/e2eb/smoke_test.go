package e2eb

import (
	"bytes"
	"context"
	"testing"
	"time"
)

// Self-test of the package against the real proxy: every supported version logs in, lands on the
// first backend, relays one unknown packet each way, switches to a second backend.
func TestSmoke(t *testing.T) {
	for _, v := range Versions {
		v := v
		t.Run(v.Name, func(t *testing.T) {
			t.Parallel()
			a, _ := NewBackend("alpha", func(int) Script { return Script{Do: Accept, Threshold: 64} })
			b, _ := NewBackend("beta", func(int) Script { return Script{Do: Accept, Threshold: -1} })
			defer a.Close()
			defer b.Close()
			px, err := StartProxy(ProxyOpts{ClientThreshold: 256, Try: []string{"alpha", "beta"}})
			if err != nil {
				t.Fatal(err)
			}
			defer px.Close()
			if _, err = px.Register(a); err != nil {
				t.Fatal(err)
			}
			rb, err := px.Register(b)
			if err != nil {
				t.Fatal(err)
			}
			cl, err := Dial(px.Addr(), v, "Tester")
			if err != nil {
				t.Fatal(err)
			}
			defer cl.Close()
			if err = cl.Login("localhost", 25565); err != nil {
				t.Fatal(err)
			}
			if !cl.WaitJoins(1, 5*time.Second) {
				t.Fatalf("no JoinGame; closed=%v err=%v", cl.IsClosed(), cl.Err)
			}
			pl := px.Player("Tester", time.Second)
			if pl == nil {
				t.Fatal("player not registered")
			}
			for i := 0; i < 200 && CurrentServerName(pl) == ""; i++ {
				time.Sleep(5 * time.Millisecond)
			}
			if CurrentServerName(pl) != "alpha" {
				t.Fatalf("current = %q", CurrentServerName(pl))
			}
			ac := a.WaitConn(0, time.Second)
			// one unknown packet each way
			up := MakePayload(0x7e, bytes.Repeat([]byte{0xab}, 300))
			base := len(ac.Received())
			if err = cl.Send(up); err != nil {
				t.Fatal(err)
			}
			if !ac.WaitReceived(base+1, 2*time.Second) || !bytes.Equal(ac.Received()[base], up) {
				t.Fatalf("serverbound relay failed: %d", len(ac.Received()))
			}
			down := MakePayload(0x7f, bytes.Repeat([]byte{0xcd}, 1000))
			cbase := len(cl.Received())
			if err = ac.Send(down); err != nil {
				t.Fatal(err)
			}
			if !cl.WaitReceived(cbase+1, 2*time.Second) || !bytes.Equal(cl.Received()[cbase], down) {
				t.Fatalf("clientbound relay failed")
			}
			// switch
			ctx, cancel := context.WithTimeout(context.Background(), 5*time.Second)
			defer cancel()
			res, err := pl.CreateConnectionRequest(rb).Connect(ctx)
			if err != nil {
				t.Fatalf("connect: %v", err)
			}
			if !res.Status().Successful() {
				t.Fatalf("status %v", res.Status())
			}
			if CurrentServerName(pl) != "beta" {
				t.Fatalf("current after switch = %q", CurrentServerName(pl))
			}
			if !ac.WaitClosed(time.Second) {
				t.Fatal("old backend connection still open")
			}
			if !cl.WaitJoins(2, 2*time.Second) {
				t.Fatal("no second JoinGame")
			}
		})
	}
}

// an online-mode (encrypted) client joins and relays a large packet
func TestSmokeOnline(t *testing.T) {
	for _, v := range Versions {
		v := v
		t.Run(v.Name, func(t *testing.T) {
			t.Parallel()
			a, _ := NewBackend("alpha", func(int) Script { return Script{Do: Accept, Threshold: 64} })
			defer a.Close()
			px, err := StartProxy(ProxyOpts{ClientThreshold: 256, Try: []string{"alpha"}, Online: true})
			if err != nil {
				t.Fatal(err)
			}
			defer px.Close()
			if _, err = px.Register(a); err != nil {
				t.Fatal(err)
			}
			cl, err := Dial(px.Addr(), v, "OnlineGuy")
			if err != nil {
				t.Fatal(err)
			}
			defer cl.Close()
			if err = cl.Login("localhost", 25565); err != nil {
				t.Fatal(err)
			}
			if !cl.Encrypted() {
				t.Fatal("no encryption exchange")
			}
			if !cl.WaitJoins(1, 10*time.Second) {
				t.Fatalf("no JoinGame; closed=%v err=%v", cl.IsClosed(), cl.Err)
			}
			ac := a.WaitConn(0, time.Second)
			if !ac.WaitJoined(5 * time.Second) {
				t.Fatal("backend not joined")
			}
			time.Sleep(100 * time.Millisecond)
			up := MakePayload(0x7e, bytes.Repeat([]byte{0xab, 0x12, 0x77}, 5000))
			base := len(ac.Received())
			if err = cl.Send(up); err != nil {
				t.Fatal(err)
			}
			ok := false
			for i := 0; i < 400 && !ok; i++ {
				for _, p := range ac.Received()[base:] {
					if bytes.Equal(p, up) {
						ok = true
					}
				}
				time.Sleep(5 * time.Millisecond)
			}
			if !ok {
				t.Fatal("large serverbound packet not relayed intact")
			}
		})
	}
}
