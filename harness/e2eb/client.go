package e2eb

import (
	"crypto/rand"
	"crypto/rsa"
	"crypto/x509"
	"errors"
	"net"
	"sync"
	"time"

	"go.minekube.com/gate/pkg/edition/java/proto/packet"
	"go.minekube.com/gate/pkg/edition/java/proto/packet/config"
	"go.minekube.com/gate/pkg/edition/java/proto/state"
	"go.minekube.com/gate/pkg/gate/proto"
	"go.minekube.com/gate/pkg/util/uuid"

	"verifharness/e2e"
)

// Client is a fake Minecraft client.
type Client struct {
	W        *Wire
	Protocol proto.Protocol
	Name     string
	// ReplyKeepAlive makes the client echo every KeepAlive it receives (like a real client).
	ReplyKeepAlive bool

	mu        sync.Mutex
	st        *state.Registry // inbound (clientbound) state
	joins     int
	recv      [][]byte // play payloads that the client state machine does not consume
	keepAlive []int64
	kicked    bool
	kickState string
	threshold int
	encrypted bool

	closed    chan struct{}
	closeOnce sync.Once
	Err       error
}

// Dial connects to addr (the proxy listener) over loopback TCP.
func Dial(addr string, v Version, name string) (*Client, error) {
	c, err := net.DialTimeout("tcp", addr, 5*time.Second)
	if err != nil {
		return nil, err
	}
	if tc, ok := c.(*net.TCPConn); ok {
		_ = tc.SetNoDelay(true)
	}
	return &Client{W: NewWire(c), Protocol: v.Protocol, Name: name, st: state.Login, closed: make(chan struct{}), threshold: -1}, nil
}

// Login sends handshake + login start and runs the login exchange until LoginSuccess (and, for
// 1.20.2+, LoginAcknowledged); afterwards a reader goroutine follows the configuration / play state
// machine. It returns an error if the proxy disconnects or nothing arrives in time.
func (c *Client) Login(host string, port int) error {
	hs := &packet.Handshake{ProtocolVersion: int(c.Protocol), ServerAddress: host, Port: port, NextStatus: 2}
	ls := &packet.ServerLogin{Username: c.Name, HolderID: uuid.OfflinePlayerUUID(c.Name)}
	err := c.W.WritePayloads([][]byte{
		MustBuild(state.Handshake, proto.ServerBound, c.Protocol, hs),
		MustBuild(state.Login, proto.ServerBound, c.Protocol, ls),
	})
	if err != nil {
		return err
	}
	for {
		p, err := c.W.ReadPayload()
		if err != nil {
			c.end(err)
			return err
		}
		switch kind(state.Login, proto.ClientBound, c.Protocol, p) {
		case tSetCompression:
			sc, ok := Decode(state.Login, proto.ClientBound, c.Protocol, p).(*packet.SetCompression)
			if !ok {
				return errors.New("bad SetCompression")
			}
			c.W.SetThreshold(sc.Threshold)
			c.mu.Lock()
			c.threshold = sc.Threshold
			c.mu.Unlock()
		case tLoginSuccess:
			if HasConfig(c.Protocol) {
				if err = c.W.WritePayload(MustBuild(state.Login, proto.ServerBound, c.Protocol, &packet.LoginAcknowledged{})); err != nil {
					return err
				}
				c.setState(state.Config)
			} else {
				c.setState(state.Play)
			}
			go c.readLoop()
			return nil
		case tEncryptionRequest:
			// online mode: RSA-encrypt a fresh shared secret and the verify token, then AES/CFB8
			_, body, _ := SplitID(p)
			er, err := e2e.ParseEncryptionRequest(int(c.Protocol), body)
			if err != nil {
				return err
			}
			pub, err := x509.ParsePKIXPublicKey(er.PublicKey)
			if err != nil {
				return err
			}
			rpub, ok := pub.(*rsa.PublicKey)
			if !ok {
				return errors.New("not an RSA key")
			}
			secret := make([]byte, 16)
			_, _ = rand.Read(secret)
			sct, err := rsa.EncryptPKCS1v15(rand.Reader, rpub, secret)
			if err != nil {
				return err
			}
			tct, err := rsa.EncryptPKCS1v15(rand.Reader, rpub, er.VerifyToken)
			if err != nil {
				return err
			}
			id, _ := IDOf(state.Login, proto.ServerBound, c.Protocol, &packet.EncryptionResponse{})
			if err = c.W.WritePayload(MakePayload(id, e2e.EncryptionResponse(int(c.Protocol), sct, tct))); err != nil {
				return err
			}
			if err = c.W.EnableEncryption(secret); err != nil {
				return err
			}
			c.mu.Lock()
			c.encrypted = true
			c.mu.Unlock()
		case tDisconnect:
			c.mu.Lock()
			c.kicked, c.kickState = true, "login"
			c.mu.Unlock()
			c.end(errors.New("disconnected in login"))
			return errors.New("disconnected in login")
		default:
			// login plugin requests etc. are not expected in these setups
		}
	}
}

func (c *Client) setState(s *state.Registry) {
	c.mu.Lock()
	c.st = s
	c.mu.Unlock()
}

func (c *Client) state() *state.Registry {
	c.mu.Lock()
	defer c.mu.Unlock()
	return c.st
}

// Encrypted tells whether the login went through the encryption exchange (online mode).
func (c *Client) Encrypted() bool {
	c.mu.Lock()
	defer c.mu.Unlock()
	return c.encrypted
}

// Threshold returns the compression threshold the proxy announced (-1: none).
func (c *Client) Threshold() int {
	c.mu.Lock()
	defer c.mu.Unlock()
	return c.threshold
}

func (c *Client) readLoop() {
	c.W.ReadTimeout = 0
	for {
		p, err := c.W.ReadPayload()
		if err != nil {
			c.end(err)
			return
		}
		if len(p) == 0 {
			continue
		}
		st := c.state()
		switch kind(st, proto.ClientBound, c.Protocol, p) {
		case tFinished: // configuration finished: acknowledge, go to play
			if st == state.Config {
				_ = c.W.WritePayload(MustBuild(state.Config, proto.ServerBound, c.Protocol, &config.FinishedUpdate{}))
				c.setState(state.Play)
				continue
			}
		case tStartUpdate: // play -> configuration (server switch on 1.20.2+)
			if st == state.Play {
				_ = c.W.WritePayload(MustBuild(state.Play, proto.ServerBound, c.Protocol, &config.FinishedUpdate{}))
				c.setState(state.Config)
				continue
			}
		case tKeepAlive:
			if ka, ok := Decode(st, proto.ClientBound, c.Protocol, p).(*packet.KeepAlive); ok {
				c.mu.Lock()
				c.keepAlive = append(c.keepAlive, ka.RandomID)
				reply := c.ReplyKeepAlive
				c.mu.Unlock()
				if reply {
					_ = c.W.WritePayload(MustBuild(st, proto.ServerBound, c.Protocol, ka))
				}
				if st == state.Play {
					// KeepAlive is forwarded by the proxy without re-encoding: keep it visible
					c.mu.Lock()
					c.recv = append(c.recv, p)
					c.mu.Unlock()
				}
				continue
			}
		case tJoinGame:
			if st == state.Play {
				c.mu.Lock()
				c.joins++
				c.mu.Unlock()
				continue
			}
		case tDisconnect:
			c.mu.Lock()
			c.kicked = true
			c.kickState = st.String()
			c.mu.Unlock()
			continue
		}
		if st == state.Play {
			c.mu.Lock()
			c.recv = append(c.recv, p)
			c.mu.Unlock()
		}
	}
}

func (c *Client) end(err error) {
	c.closeOnce.Do(func() {
		c.mu.Lock()
		c.Err = err
		c.mu.Unlock()
		_ = c.W.Close()
		close(c.closed)
	})
}

// Close closes the client connection.
func (c *Client) Close() { c.end(errors.New("closed by harness")) }

// IsClosed tells whether the connection to the proxy has ended.
func (c *Client) IsClosed() bool {
	select {
	case <-c.closed:
		return true
	default:
		return false
	}
}

// WaitClosed waits for the end of the connection.
func (c *Client) WaitClosed(d time.Duration) bool {
	select {
	case <-c.closed:
		return true
	case <-time.After(d):
		return false
	}
}

// Kicked tells whether a Disconnect packet was received.
func (c *Client) Kicked() bool {
	c.mu.Lock()
	defer c.mu.Unlock()
	return c.kicked
}

// Joins is the number of JoinGame packets received.
func (c *Client) Joins() int {
	c.mu.Lock()
	defer c.mu.Unlock()
	return c.joins
}

// WaitJoins waits until at least n JoinGame packets were received.
func (c *Client) WaitJoins(n int, d time.Duration) bool {
	deadline := time.Now().Add(d)
	for {
		if c.Joins() >= n {
			return true
		}
		if c.IsClosed() || time.Now().After(deadline) {
			return c.Joins() >= n
		}
		time.Sleep(time.Millisecond)
	}
}

// Send writes one raw payload to the proxy.
func (c *Client) Send(payload []byte) error { return c.W.WritePayload(payload) }

// SendAll writes payloads as one byte stream (split by W.Chunk if set).
func (c *Client) SendAll(ps [][]byte) error { return c.W.WritePayloads(ps) }

// Received returns a copy of the play payloads not consumed by the client state machine.
func (c *Client) Received() [][]byte {
	c.mu.Lock()
	defer c.mu.Unlock()
	return append([][]byte(nil), c.recv...)
}

// WaitReceived waits until at least n such payloads were received.
func (c *Client) WaitReceived(n int, d time.Duration) bool {
	deadline := time.Now().Add(d)
	for {
		c.mu.Lock()
		k := len(c.recv)
		c.mu.Unlock()
		if k >= n {
			return true
		}
		if c.IsClosed() || time.Now().After(deadline) {
			return false
		}
		time.Sleep(time.Millisecond)
	}
}

// KeepAlives returns the KeepAlive ids received from the proxy.
func (c *Client) KeepAlives() []int64 {
	c.mu.Lock()
	defer c.mu.Unlock()
	return append([]int64(nil), c.keepAlive...)
}
