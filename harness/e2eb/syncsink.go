package e2eb

import (
	"sync"
	"sync/atomic"
	"time"

	"github.com/go-logr/logr"
)

// SyncSink is a logr.LogSink that discards everything and changes no decision of the code under
// test. Its only purpose is scheduling: gate derives a logger named "serverConn" from the player's
// logger in newServerConnection, i.e. after a connection request has validated its destination and
// before it takes the in-flight slot. While a round is armed, every request that gets there waits
// (bounded) until `expect` requests got equally far, then all go on together. Requests that are
// refused earlier never arrive; the wait is released by the timeout.
type SyncSink struct {
	ready     chan struct{}
	readyOnce sync.Once
	round     atomic.Pointer[syncRound]
}

type syncRound struct {
	arrived atomic.Int32
	expect  int32
	wait    time.Duration
}

// NewSyncSink returns an unarmed sink.
func NewSyncSink() *SyncSink { return &SyncSink{ready: make(chan struct{})} }

// Arm starts a round: the next arrivals at "serverConn" wait for each other.
func (s *SyncSink) Arm(expect int, wait time.Duration) {
	s.round.Store(&syncRound{expect: int32(expect), wait: wait})
}

// Disarm ends the round and returns how many requests arrived at the barrier.
func (s *SyncSink) Disarm() int {
	r := s.round.Swap(nil)
	if r == nil {
		return 0
	}
	return int(r.arrived.Load())
}

func (s *SyncSink) Init(logr.RuntimeInfo)  {}
func (s *SyncSink) Enabled(level int) bool { return level == 0 }
func (s *SyncSink) Info(_ int, msg string, _ ...any) {
	if msg == "listening for connections" { // Proxy.Start got as far as using the logger
		s.readyOnce.Do(func() { close(s.ready) })
	}
}
func (s *SyncSink) Error(error, string, ...any)    {}
func (s *SyncSink) WithValues(...any) logr.LogSink { return s }
func (s *SyncSink) WithName(name string) logr.LogSink {
	if name == "serverConn" {
		if r := s.round.Load(); r != nil {
			r.arrived.Add(1)
			for until := time.Now().Add(r.wait); r.arrived.Load() < r.expect && time.Now().Before(until); {
				time.Sleep(200 * time.Microsecond)
			}
		}
	}
	return s
}
