package e2e

import (
	"context"
	"crypto/rsa"
	"errors"
	"fmt"
	"io"
	"net"
	"net/http"
	"strings"
	"sync"
	"time"

	"github.com/robinbraemer/event"
	"go.minekube.com/common/minecraft/component"
	"go.minekube.com/gate/pkg/edition/java/auth"
	"go.minekube.com/gate/pkg/edition/java/config"
	"go.minekube.com/gate/pkg/edition/java/proxy"
	"go.minekube.com/gate/pkg/edition/java/proxy/message"
)

// Watchdog is the default time after which a silent peer counts as hung.
const Watchdog = 10 * time.Second

// Config returns a copy of gate's DefaultConfig prepared for in-process tests: rate limiters off,
// classic (non-lite) mode, no servers. Change fields before passing it to NewProxy.
func Config() *config.Config {
	c := config.DefaultConfig
	c.Bind = "127.0.0.1:0"
	c.Quota.Connections.Enabled = false
	c.Quota.Logins.Enabled = false
	c.Servers = map[string]string{}
	c.Try = []string{}
	c.ForcedHosts = map[string][]string{}
	c.Lite.Enabled = false
	return &c
}

// NewProxy builds a proxy through the public constructor only. mgr may be nil (then event.New()).
func NewProxy(cfg *config.Config, mgr event.Manager, authn auth.Authenticator) (*proxy.Proxy, error) {
	if mgr == nil {
		mgr = event.New()
	}
	return proxy.New(proxy.Options{Config: cfg, EventMgr: mgr, Authenticator: authn})
}

// Connect opens an in-memory connection to the proxy (`go p.HandleConn(serverEnd)`) and returns the
// client-side Wire and the pipe end (for WaitPeer).
func Connect(p *proxy.Proxy) (*Wire, *PipeConn) {
	c, s := Pipe()
	go p.HandleConn(s)
	return NewWire(c), c
}

// ---- session server -------------------------------------------------------------------------

// Outcome scripts what the fake session server answers to hasJoined.
type Outcome int

const (
	OutProfile      Outcome = iota // 200 + a profile whose name is the requested username
	OutNoContent                   // 204
	OutUnauthorized                // 401
	OutOtherStatus                 // 500
	OutTransportErr                // the HTTP round trip fails
	OutEmptyBody                   // 200 with an empty body
	OutBadProfile                  // 200 with a JSON body lacking a name
)

func (o Outcome) String() string {
	return [...]string{"profile", "204", "401", "500", "transport-error", "empty-body", "bad-profile"}[o]
}

// JoinCall is one recorded AuthenticateJoin invocation.
type JoinCall struct {
	ServerID, Username, IP string
	URLServerID, URLUser   string // what reached the (fake) session server in the URL query
	Err                    bool   // AuthenticateJoin returned an error
	Online                 bool   // the Response said OnlineMode
}

// Auth wraps a real authenticator; only the HTTP transport behind AuthenticateJoin is scripted.
type Auth struct {
	auth.Authenticator
	Key       *rsa.PrivateKey
	Outcome   Outcome
	ProfileID string // undashed uuid returned for OutProfile

	mu    sync.Mutex
	calls []JoinCall
}

type scripted struct{ a *Auth }

func (s scripted) RoundTrip(r *http.Request) (*http.Response, error) {
	a := s.a
	q := r.URL.Query()
	a.mu.Lock()
	if n := len(a.calls); n > 0 {
		a.calls[n-1].URLServerID, a.calls[n-1].URLUser = q.Get("serverId"), q.Get("username")
	}
	a.mu.Unlock()
	mk := func(code int, body string) (*http.Response, error) {
		return &http.Response{StatusCode: code, Status: fmt.Sprint(code), Proto: "HTTP/1.1", ProtoMajor: 1, ProtoMinor: 1,
			Header: http.Header{}, Body: io.NopCloser(strings.NewReader(body)), ContentLength: int64(len(body)), Request: r}, nil
	}
	switch a.Outcome {
	case OutProfile:
		return mk(200, fmt.Sprintf(`{"id":%q,"name":%q,"properties":[]}`, a.ProfileID, q.Get("username")))
	case OutNoContent:
		return mk(204, "")
	case OutUnauthorized:
		return mk(401, `{"error":"Unauthorized"}`)
	case OutOtherStatus:
		return mk(500, "oops")
	case OutEmptyBody:
		return mk(200, "")
	case OutBadProfile:
		return mk(200, `{"id":"`+a.ProfileID+`"}`)
	default:
		return nil, errors.New("scripted transport error")
	}
}

// NewAuth builds the scripted authenticator around auth.New with the given key.
func NewAuth(key *rsa.PrivateKey, out Outcome) (*Auth, error) {
	a := &Auth{Key: key, Outcome: out, ProfileID: "069a79f444e94726a5befca90e38aaf5"}
	real, err := auth.New(auth.Options{PrivateKey: key, Client: &http.Client{Transport: scripted{a}, Timeout: 5 * time.Second}})
	if err != nil {
		return nil, err
	}
	a.Authenticator = real
	return a, nil
}

func (a *Auth) AuthenticateJoin(ctx context.Context, serverID, username, ip string) (auth.Response, error) {
	a.mu.Lock()
	a.calls = append(a.calls, JoinCall{ServerID: serverID, Username: username, IP: ip})
	i := len(a.calls) - 1
	a.mu.Unlock()
	resp, err := a.Authenticator.AuthenticateJoin(ctx, serverID, username, ip)
	a.mu.Lock()
	a.calls[i].Err = err != nil
	if err == nil && resp != nil {
		a.calls[i].Online = resp.OnlineMode()
	}
	a.mu.Unlock()
	return resp, err
}

// Calls returns the recorded AuthenticateJoin calls.
func (a *Auth) Calls() []JoinCall {
	a.mu.Lock()
	defer a.mu.Unlock()
	return append([]JoinCall{}, a.calls...)
}

// ---- events -----------------------------------------------------------------------------------

// Event is one recorded proxy event.
type Event struct {
	Kind       string // prelogin | profile | login | postlogin | disconnect
	Name       string
	Online     bool   // profile: GameProfileRequestEvent.OnlineMode
	Registered bool   // login/postlogin: proxy.Player(id) != nil at that moment
	Status     string // disconnect: login status
}

// Events records login-related events of one proxy and can script the PreLogin result.
type Events struct {
	Mgr      event.Manager
	PreLogin string // "", "deny", "force-online", "force-offline"
	// PluginMessages is the number of login plugin messages (channel "verif:prelogin", body 0x01) the
	// PreLogin subscriber sends through the event's LoginPhaseConnection before setting its result.
	// The proxy numbers them 1..n per connection; the login continues when all were answered.
	PluginMessages int
	proxy    *proxy.Proxy
	mu       sync.Mutex
	list     []Event
}

var preLoginChannel, _ = message.ChannelIdentifierFrom("verif:prelogin")

type nopConsumer struct{}

func (nopConsumer) OnMessageResponse([]byte) error { return nil }

// NewEvents creates an event manager with recording subscribers. Call Bind after NewProxy.
func NewEvents(preLogin string) *Events {
	e := &Events{Mgr: event.New(), PreLogin: preLogin}
	add := func(ev Event) { e.mu.Lock(); e.list = append(e.list, ev); e.mu.Unlock() }
	registered := func(pl proxy.Player) bool {
		return e.proxy != nil && pl != nil && e.proxy.Player(pl.ID()) != nil
	}
	event.Subscribe(e.Mgr, 0, func(ev *proxy.PreLoginEvent) {
		add(Event{Kind: "prelogin", Name: ev.Username()})
		if lpc, ok := ev.Conn().(proxy.LoginPhaseConnection); ok {
			for i := 0; i < e.PluginMessages; i++ {
				if err := lpc.SendLoginPluginMessage(preLoginChannel, []byte{0x01}, nopConsumer{}); err != nil {
					add(Event{Kind: "plugin-message-refused", Name: err.Error()})
				}
			}
		}
		switch e.PreLogin {
		case "deny":
			ev.Deny(&component.Text{Content: "denied by pre-login handler"})
		case "force-online":
			ev.ForceOnlineMode()
		case "force-offline":
			ev.ForceOfflineMode()
		}
	})
	event.Subscribe(e.Mgr, 0, func(ev *proxy.GameProfileRequestEvent) {
		add(Event{Kind: "profile", Name: ev.GameProfile().Name, Online: ev.OnlineMode()})
	})
	event.Subscribe(e.Mgr, 0, func(ev *proxy.LoginEvent) {
		add(Event{Kind: "login", Name: ev.Player().Username(), Registered: registered(ev.Player())})
	})
	event.Subscribe(e.Mgr, 0, func(ev *proxy.PostLoginEvent) {
		add(Event{Kind: "postlogin", Name: ev.Player().Username(), Registered: registered(ev.Player())})
	})
	event.Subscribe(e.Mgr, 0, func(ev *proxy.DisconnectEvent) {
		add(Event{Kind: "disconnect", Name: ev.Player().Username(), Status: fmt.Sprint(ev.LoginStatus())})
	})
	return e
}

// Bind tells the recorder which proxy to query for registration.
func (e *Events) Bind(p *proxy.Proxy) { e.proxy = p }

// List returns the events recorded so far.
func (e *Events) List() []Event {
	e.mu.Lock()
	defer e.mu.Unlock()
	return append([]Event{}, e.list...)
}

// ---- fake backend listener (for later builders) ------------------------------------------------

// ListenBackend listens on loopback TCP and hands every accepted connection to serve as a Wire
// (server role). Close the returned listener to stop.
func ListenBackend(serve func(w *Wire)) (net.Listener, error) {
	ln, err := net.Listen("tcp", "127.0.0.1:0")
	if err != nil {
		return nil, err
	}
	go func() {
		for {
			c, err := ln.Accept()
			if err != nil {
				return
			}
			go func() {
				w := NewWire(c)
				defer w.Close()
				serve(w)
			}()
		}
	}()
	return ln, nil
}

// ---- deterministic parallel runner -------------------------------------------------------------

// RunParallel runs job(0..n-1) at most width at a time and returns the results in index order.
// A job that panics yields the zero value and its panic text in errs[i].
func RunParallel[T any](n, width int, job func(i int) T) (res []T, errs []string) {
	res = make([]T, n)
	errs = make([]string, n)
	sem := make(chan struct{}, width)
	var wg sync.WaitGroup
	for i := 0; i < n; i++ {
		wg.Add(1)
		sem <- struct{}{}
		go func(i int) {
			defer wg.Done()
			defer func() { <-sem }()
			defer func() {
				if r := recover(); r != nil {
					errs[i] = fmt.Sprint(r)
				}
			}()
			res[i] = job(i)
		}(i)
	}
	wg.Wait()
	return
}
