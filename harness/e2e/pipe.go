package e2e

import (
	"io"
	"net"
	"os"
	"sync"
	"time"
)

// half is one direction of a Pipe: an unbounded byte queue.
type half struct {
	mu      sync.Mutex
	cond    *sync.Cond
	buf     []byte
	wclosed bool // writer side closed: reader gets EOF after draining
	rclosed bool // reader side closed: writes fail
	waiting int  // readers currently blocked on an empty queue
	rdl     time.Time
	timer   *time.Timer
	total   int64 // bytes ever written
}

func newHalf() *half { h := &half{}; h.cond = sync.NewCond(&h.mu); return h }

type pipeAddr string

func (a pipeAddr) Network() string { return "tcp" }
func (a pipeAddr) String() string  { return string(a) }

// PipeConn is one end of an in-memory duplex connection created by Pipe.
type PipeConn struct {
	in, out       *half
	local, remote net.Addr
	once          sync.Once
}

// Pipe returns the two ends of a buffered in-memory connection. Writes never block; data written
// before a Close stays readable by the peer, then Read returns io.EOF.
// The addresses look like loopback TCP (gate formats and parses them).
func Pipe() (client, server *PipeConn) {
	c2s, s2c := newHalf(), newHalf()
	ca, sa := pipeAddr("127.0.0.1:40000"), pipeAddr("127.0.0.1:25565")
	client = &PipeConn{in: s2c, out: c2s, local: ca, remote: sa}
	server = &PipeConn{in: c2s, out: s2c, local: sa, remote: ca}
	return
}

type timeoutErr struct{}

func (timeoutErr) Error() string   { return "i/o timeout" }
func (timeoutErr) Timeout() bool   { return true }
func (timeoutErr) Temporary() bool { return false }
func (timeoutErr) Is(target error) bool {
	return target == os.ErrDeadlineExceeded
}

func (p *PipeConn) Read(b []byte) (int, error) {
	h := p.in
	h.mu.Lock()
	defer h.mu.Unlock()
	for {
		if h.rclosed {
			return 0, io.ErrClosedPipe
		}
		if len(h.buf) > 0 {
			n := copy(b, h.buf)
			h.buf = h.buf[n:]
			if len(h.buf) == 0 {
				h.buf = nil
			}
			return n, nil
		}
		if h.wclosed {
			return 0, io.EOF
		}
		if !h.rdl.IsZero() && !time.Now().Before(h.rdl) {
			return 0, &net.OpError{Op: "read", Net: "pipe", Err: timeoutErr{}}
		}
		if len(b) == 0 {
			return 0, nil
		}
		h.waiting++
		h.cond.Broadcast() // wake idle-waiters
		h.cond.Wait()
		h.waiting--
	}
}

func (p *PipeConn) Write(b []byte) (int, error) {
	h := p.out
	h.mu.Lock()
	defer h.mu.Unlock()
	if h.wclosed || h.rclosed {
		return 0, io.ErrClosedPipe
	}
	h.buf = append(h.buf, b...)
	h.total += int64(len(b))
	h.cond.Broadcast()
	return len(b), nil
}

// Close closes both directions of this end. The peer can still read what was written before.
func (p *PipeConn) Close() error {
	p.once.Do(func() {
		p.out.mu.Lock()
		p.out.wclosed = true
		p.out.cond.Broadcast()
		p.out.mu.Unlock()
		p.in.mu.Lock()
		p.in.rclosed = true
		p.in.buf = nil
		p.in.cond.Broadcast()
		p.in.mu.Unlock()
	})
	return nil
}

func (p *PipeConn) LocalAddr() net.Addr  { return p.local }
func (p *PipeConn) RemoteAddr() net.Addr { return p.remote }

func (p *PipeConn) SetDeadline(t time.Time) error {
	_ = p.SetReadDeadline(t)
	return nil
}

func (p *PipeConn) SetReadDeadline(t time.Time) error {
	h := p.in
	h.mu.Lock()
	defer h.mu.Unlock()
	h.rdl = t
	if h.timer != nil {
		h.timer.Stop()
		h.timer = nil
	}
	if !t.IsZero() {
		d := time.Until(t)
		if d < 0 {
			d = 0
		}
		h.timer = time.AfterFunc(d, func() {
			h.mu.Lock()
			h.cond.Broadcast()
			h.mu.Unlock()
		})
	}
	h.cond.Broadcast()
	return nil
}

func (p *PipeConn) SetWriteDeadline(time.Time) error { return nil } // writes never block

// PeerState is what WaitPeer observed.
type PeerState int

const (
	PeerIdle    PeerState = iota // peer blocked in Read with nothing left to consume
	PeerClosed                   // peer closed its end
	PeerTimeout                  // neither within the watchdog time: a hang
)

func (s PeerState) String() string { return [...]string{"idle", "closed", "timeout"}[s] }

// WaitPeer blocks until the peer of this end has consumed everything written so far and is blocked
// in Read again (PeerIdle), or has closed (PeerClosed). With gate on the other end, idle means that
// all packets sent so far were handled to completion by its read loop.
func (p *PipeConn) WaitPeer(watchdog time.Duration) PeerState {
	h := p.out // the peer reads from our out half
	deadline := time.Now().Add(watchdog)
	t := time.AfterFunc(watchdog, func() {
		h.mu.Lock()
		h.cond.Broadcast()
		h.mu.Unlock()
	})
	defer t.Stop()
	h.mu.Lock()
	defer h.mu.Unlock()
	for {
		if h.rclosed {
			return PeerClosed
		}
		if len(h.buf) == 0 && h.waiting > 0 {
			return PeerIdle
		}
		if !time.Now().Before(deadline) {
			return PeerTimeout
		}
		h.cond.Wait()
	}
}

// PeerClosedNow reports whether the peer has closed, without waiting.
func (p *PipeConn) PeerClosedNow() bool {
	h := p.out
	h.mu.Lock()
	defer h.mu.Unlock()
	return h.rclosed
}

// Buffered returns the number of bytes readable right now without blocking.
func (p *PipeConn) Buffered() int {
	h := p.in
	h.mu.Lock()
	defer h.mu.Unlock()
	return len(h.buf)
}

// WaitPeerClosed waits up to grace for the peer to close (used for closes that the proxy performs
// asynchronously); returns whether it did.
func (p *PipeConn) WaitPeerClosed(grace time.Duration) bool {
	h := p.out
	deadline := time.Now().Add(grace)
	t := time.AfterFunc(grace, func() {
		h.mu.Lock()
		h.cond.Broadcast()
		h.mu.Unlock()
	})
	defer t.Stop()
	h.mu.Lock()
	defer h.mu.Unlock()
	for !h.rclosed {
		if !time.Now().Before(deadline) {
			return false
		}
		h.cond.Wait()
	}
	return true
}
