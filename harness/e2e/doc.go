// Package e2e is the shared end-to-end harness: a fake Minecraft peer that talks to a REAL gate
// proxy built from the public API only.
//
// README
//
//   - Pipe()            in-memory, buffered, duplex net.Conn pair (never blocks on write, keeps data
//     readable after the peer closed, supports deadlines) with one extra: the client end can wait
//     until the server end is idle (blocked in Read on an empty buffer) or closed. Because gate
//     handles a connection's packets synchronously in its read loop, "server idle" means "every
//     packet sent so far has been handled completely" - this replaces sleeps.
//   - Wire              the wire format, written independently of gate's codec package: VarInt length
//     frames, zlib compression after SetCompression (threshold), AES/CFB8 after encryption (own CFB8
//     over crypto/aes). Works for both directions (fake client and fake backend). Every read has a
//     watchdog timeout; a hang is an observation (ErrTimeout), never a stuck harness. Every packet
//     sent/received is appended to a transcript together with the protocol state label.
//   - packets.go        independent encoders/parsers for the handful of handshake/status/login packets
//     (per protocol version), e.g. LoginStart, EncryptionResponse, ParseEncryptionRequest, ParseLoginSuccess.
//   - NewProxy / Config a proxy from proxy.New(proxy.Options{Config, EventMgr, Authenticator}) with
//     quotas off; Connect(p) runs `go p.HandleConn(serverEnd)` and returns the client Wire.
//   - Auth              an auth.Authenticator wrapping a real auth.New (real RSA key, real Verify /
//     DecryptSharedSecret / GenerateServerID / AuthenticateJoin status mapping) whose HTTP transport is
//     replaced by a scripted session-server outcome; records every AuthenticateJoin call.
//   - Events            an event.Manager recorder (PreLogin, GameProfileRequest, Login, PostLogin,
//     Disconnect) that can also script the PreLogin result and let the
//     PreLogin subscriber send login plugin messages (Events.PluginMessages).
//   - HandlerConn / ProfileKey   recording netmc.MinecraftConn for delivering DECODED packets to a session handler
//     (where the wire cannot carry the input), and a stand-in for a Mojang-signed profile key whose data
//     signatures are verified with real RSA.
//   - ListenBackend     loopback TCP listener handing each accepted connection to a callback as a Wire
//     (for later builders: C15/C16/C31 fake backends).
//   - RunParallel       runs n independent jobs `width`-wide and returns results in index order
//     (deterministic emission order regardless of scheduling).
//
// Trust: everything in this package is part of the trusted base of the E2E properties.
package e2e
