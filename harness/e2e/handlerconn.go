package e2e

import (
	"context"
	stdcrypto "crypto"
	"crypto/rand"
	"crypto/rsa"
	"crypto/sha256"
	"crypto/x509"
	"net"
	"sync"
	"time"

	"go.minekube.com/gate/pkg/edition/java/netmc"
	"go.minekube.com/gate/pkg/edition/java/proto/state"
	"go.minekube.com/gate/pkg/edition/java/proxy/crypto"
	"go.minekube.com/gate/pkg/edition/java/proxy/crypto/keyrevision"
	"go.minekube.com/gate/pkg/edition/java/proxy/phase"
	"go.minekube.com/gate/pkg/gate/proto"
	"go.minekube.com/gate/pkg/util/uuid"
)

// Written is one packet a session handler wrote to a HandlerConn.
type Written struct {
	Packet proto.Packet
	State  string // the connection's protocol state when it was written ("LOGIN", "PLAY", ...)
}

// HandlerConn is a recording netmc.MinecraftConn for driving gate's session handlers with DECODED
// packets (no wire): it records the packets written, the secret encryption was enabled with and
// whether the connection was closed, and runs handler activation/disconnect like the real connection.
// Used where the wire cannot carry the input (a login start with a profile key nobody can get
// signed by Mojang). Deliver packets with Handle.
type HandlerConn struct {
	mu        sync.Mutex
	ctx       context.Context
	cancel    context.CancelFunc
	protocol  proto.Protocol
	st        *state.Registry
	connType  phase.ConnectionType
	handler   netmc.SessionHandler
	written   []Written
	encSecret []byte
	threshold *int
	closed    bool
}

var _ netmc.MinecraftConn = (*HandlerConn)(nil)

// NewHandlerConn returns a connection in the login state speaking the given protocol.
func NewHandlerConn(protocol int) *HandlerConn {
	ctx, cancel := context.WithCancel(context.Background())
	return &HandlerConn{ctx: ctx, cancel: cancel, protocol: proto.Protocol(protocol), st: state.Login, connType: phase.Vanilla}
}

// Install makes h the active handler without calling Activated (as HandleConn does for the first one).
func (c *HandlerConn) Install(h netmc.SessionHandler) { c.mu.Lock(); c.handler = h; c.mu.Unlock() }

// Handle delivers one decoded serverbound packet to the active handler, like the read loop would;
// p == nil stands for an unknown packet id. Nothing is delivered once the connection is closed.
func (c *HandlerConn) Handle(p proto.Packet) {
	c.mu.Lock()
	h, closed := c.handler, c.closed
	c.mu.Unlock()
	if closed || h == nil {
		return
	}
	h.HandlePacket(&proto.PacketContext{Direction: proto.ServerBound, Protocol: c.protocol, Packet: p})
}

// Snapshot returns what was written so far, the secret of EnableEncryption (nil if never) and closed.
func (c *HandlerConn) Snapshot() (w []Written, encSecret []byte, closed bool) {
	c.mu.Lock()
	defer c.mu.Unlock()
	return append([]Written{}, c.written...), append([]byte(nil), c.encSecret...), c.closed
}

func (c *HandlerConn) Context() context.Context { return c.ctx }
func (c *HandlerConn) Close() error {
	c.mu.Lock()
	if c.closed {
		c.mu.Unlock()
		return netmc.ErrClosedConn
	}
	c.closed = true
	h := c.handler
	c.mu.Unlock()
	c.cancel()
	if h != nil {
		h.Disconnected()
	}
	return nil
}
func (c *HandlerConn) State() *state.Registry   { c.mu.Lock(); defer c.mu.Unlock(); return c.st }
func (c *HandlerConn) Protocol() proto.Protocol { return c.protocol }
func (c *HandlerConn) RemoteAddr() net.Addr     { return &net.TCPAddr{IP: net.IPv4(127, 0, 0, 1), Port: 40000} }
func (c *HandlerConn) LocalAddr() net.Addr      { return &net.TCPAddr{IP: net.IPv4(127, 0, 0, 1), Port: 25565} }
func (c *HandlerConn) Type() phase.ConnectionType {
	c.mu.Lock()
	defer c.mu.Unlock()
	return c.connType
}
func (c *HandlerConn) SetType(t phase.ConnectionType) { c.mu.Lock(); c.connType = t; c.mu.Unlock() }
func (c *HandlerConn) ActiveSessionHandler() netmc.SessionHandler {
	c.mu.Lock()
	defer c.mu.Unlock()
	return c.handler
}
func (c *HandlerConn) SetActiveSessionHandler(r *state.Registry, h netmc.SessionHandler) {
	c.mu.Lock()
	prev := c.handler
	c.handler, c.st = h, r
	c.mu.Unlock()
	if prev != nil {
		prev.Deactivated()
	}
	h.Activated()
}
func (c *HandlerConn) SwitchSessionHandler(*state.Registry) bool               { return true }
func (c *HandlerConn) AddSessionHandler(*state.Registry, netmc.SessionHandler) {}
func (c *HandlerConn) SetAutoReading(bool)                                     {}
func (c *HandlerConn) SetOutboundState(*state.Registry)                        {}
func (c *HandlerConn) SetProtocol(p proto.Protocol)                            { c.protocol = p }
func (c *HandlerConn) SetState(r *state.Registry)                              { c.mu.Lock(); c.st = r; c.mu.Unlock() }
func (c *HandlerConn) SetCompressionThreshold(t int) error {
	c.mu.Lock()
	c.threshold = &t
	c.mu.Unlock()
	return nil
}
func (c *HandlerConn) EnableEncryption(secret []byte) error {
	if l := len(secret); l != 16 && l != 24 && l != 32 { // what aes.NewCipher would say
		return net.InvalidAddrError("invalid AES key size")
	}
	c.mu.Lock()
	c.encSecret = append([]byte{}, secret...)
	c.mu.Unlock()
	return nil
}
func (c *HandlerConn) WritePacket(p proto.Packet) error {
	c.mu.Lock()
	defer c.mu.Unlock()
	if c.closed {
		return netmc.ErrClosedConn
	}
	c.written = append(c.written, Written{Packet: p, State: c.st.State.String()})
	return nil
}
func (c *HandlerConn) Write([]byte) error                { return nil }
func (c *HandlerConn) BufferPacket(p proto.Packet) error { return c.WritePacket(p) }
func (c *HandlerConn) BufferPayload([]byte) error        { return nil }
func (c *HandlerConn) Flush() error                      { return nil }
func (c *HandlerConn) Reader() netmc.Reader              { return nil }
func (c *HandlerConn) Writer() netmc.Writer              { return nil }
func (c *HandlerConn) EnablePlayPacketQueue()            {}

// ProfileKey stands in for a player key that the session service has signed (nobody outside Mojang
// can mint that signature): SignatureValid and Expired answer as scripted, while signatures over
// data (the verify token + salt of an encryption response) are verified for real with RSA/SHA-256
// against the key pair, exactly like gate's own identifiedKey.VerifyDataSignature.
type ProfileKey struct {
	Priv   *rsa.PrivateKey
	DER    []byte
	Holder uuid.UUID
	Rev    keyrevision.Revision
	Valid  bool
}

var _ crypto.IdentifiedKey = (*ProfileKey)(nil)

// NewProfileKey generates a 2048-bit client key pair held by holder.
func NewProfileKey(holder [16]byte, rev keyrevision.Revision) (*ProfileKey, error) {
	priv, err := rsa.GenerateKey(rand.Reader, 2048)
	if err != nil {
		return nil, err
	}
	der, err := x509.MarshalPKIXPublicKey(&priv.PublicKey)
	if err != nil {
		return nil, err
	}
	return &ProfileKey{Priv: priv, DER: der, Holder: uuid.UUID(holder), Rev: rev, Valid: true}, nil
}

func (k *ProfileKey) Signer() *rsa.PublicKey            { return &k.Priv.PublicKey }
func (k *ProfileKey) ExpiryTemporal() time.Time         { return time.Now().Add(time.Hour) }
func (k *ProfileKey) Expired() bool                     { return false }
func (k *ProfileKey) Signature() []byte                 { return []byte{1} }
func (k *ProfileKey) SignatureValid() bool              { return k.Valid }
func (k *ProfileKey) Salt() []byte                      { return nil }
func (k *ProfileKey) SignedPublicKey() *rsa.PublicKey   { return &k.Priv.PublicKey }
func (k *ProfileKey) SignedPublicKeyBytes() []byte      { return k.DER }
func (k *ProfileKey) SignatureHolder() uuid.UUID        { return k.Holder }
func (k *ProfileKey) KeyRevision() keyrevision.Revision { return k.Rev }
func (k *ProfileKey) VerifyDataSignature(signature []byte, toVerify ...[]byte) bool {
	if len(toVerify) == 0 {
		return false
	}
	h := sha256.New()
	for _, b := range toVerify {
		h.Write(b)
	}
	return rsa.VerifyPKCS1v15(&k.Priv.PublicKey, stdcrypto.SHA256, h.Sum(nil), signature) == nil
}

// Sign signs the concatenation of parts like a 1.19 client signs verify token + salt.
func (k *ProfileKey) Sign(parts ...[]byte) []byte {
	h := sha256.New()
	for _, b := range parts {
		h.Write(b)
	}
	sig, _ := rsa.SignPKCS1v15(rand.Reader, k.Priv, stdcrypto.SHA256, h.Sum(nil))
	return sig
}
