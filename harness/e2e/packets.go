package e2e

import (
	"encoding/binary"
	"encoding/hex"
	"errors"
	"fmt"
	"strings"
)

// Protocol numbers the packet layouts below depend on (from wiki.vg, not from gate).
const (
	P1_7_2  = 4
	P1_7_6  = 5
	P1_8    = 47
	P1_13   = 393
	P1_16   = 735
	P1_19   = 759
	P1_19_1 = 760
	P1_19_3 = 761
	P1_20_1 = 763
	P1_20_2 = 764
	P1_20_5 = 766
	P1_21   = 767
	P26_2   = 776
)

// Packet ids of the handshake/status/login states (identical in every version that has them).
const (
	IDHandshake           = 0x00
	IDStatusRequest       = 0x00
	IDStatusPing          = 0x01
	IDStatusResponse      = 0x00
	IDLoginStart          = 0x00
	IDEncryptionResponse  = 0x01
	IDLoginPluginResponse = 0x02
	IDLoginAcknowledged   = 0x03
	IDLoginDisconnect     = 0x00
	IDEncryptionRequest   = 0x01
	IDLoginSuccess        = 0x02
	IDSetCompression      = 0x03
	IDLoginPluginMessage  = 0x04
)

// Buf is a tiny append-only packet body builder.
type Buf struct{ B []byte }

func (b *Buf) VarInt(v int) *Buf     { b.B = PutVarInt(b.B, v); return b }
func (b *Buf) Bytes(p []byte) *Buf   { b.B = append(PutVarInt(b.B, len(p)), p...); return b }
func (b *Buf) String(s string) *Buf  { return b.Bytes([]byte(s)) }
func (b *Buf) Raw(p []byte) *Buf     { b.B = append(b.B, p...); return b }
func (b *Buf) U16(v uint16) *Buf     { b.B = binary.BigEndian.AppendUint16(b.B, v); return b }
func (b *Buf) I64(v int64) *Buf      { b.B = binary.BigEndian.AppendUint64(b.B, uint64(v)); return b }
func (b *Buf) Bytes17(p []byte) *Buf { b.U16(uint16(len(p))); return b.Raw(p) }
func (b *Buf) Bool(v bool) *Buf {
	if v {
		b.B = append(b.B, 1)
	} else {
		b.B = append(b.B, 0)
	}
	return b
}

// Handshake body: protocol, host, port, next state (1 status, 2 login, 3 transfer).
func Handshake(protocol int, host string, port uint16, next int) []byte {
	return new(Buf).VarInt(protocol).String(host).U16(port).VarInt(next).B
}

// LoginStart body for the given protocol, without a player key. id is the 16-byte player UUID the
// client claims (sent from 1.19.1 on; mandatory from 1.20.2).
func LoginStart(protocol int, name []byte, id [16]byte) []byte {
	b := new(Buf).Bytes(name)
	if protocol >= P1_19 {
		if protocol < P1_19_3 {
			b.Bool(false) // no player key
		}
		if protocol >= P1_20_2 {
			b.Raw(id[:])
		} else if protocol >= P1_19_1 {
			b.Bool(true).Raw(id[:])
		}
	}
	return b.B
}

// LoginStartWithKey is LoginStart for 1.19 - 1.19.2 carrying a (forged) player key.
func LoginStartWithKey(protocol int, name []byte, id [16]byte, expiryMillis int64, pubDER, sig []byte) []byte {
	b := new(Buf).Bytes(name).Bool(true).I64(expiryMillis).Bytes(pubDER).Bytes(sig)
	if protocol >= P1_19_1 {
		b.Bool(true).Raw(id[:])
	}
	return b.B
}

// EncryptionResponse body (no salt/signature variant).
func EncryptionResponse(protocol int, secretCT, tokenCT []byte) []byte {
	b := new(Buf)
	if protocol < P1_8 {
		return b.Bytes17(secretCT).Bytes17(tokenCT).B
	}
	b.Bytes(secretCT)
	if protocol >= P1_19 && protocol < P1_19_3 {
		b.Bool(true) // "has verify token" (no salt)
	}
	return b.Bytes(tokenCT).B
}

func LoginPluginResponse(id int, ok bool, data []byte) []byte {
	return new(Buf).VarInt(id).Bool(ok).Raw(data).B
}

// rd is a tiny reader over a packet body.
type rd struct {
	b   []byte
	err error
}

func (r *rd) take(n int) []byte {
	if r.err != nil {
		return nil
	}
	if n < 0 || n > len(r.b) {
		r.err = errors.New("short body")
		return nil
	}
	p := r.b[:n]
	r.b = r.b[n:]
	return p
}
func (r *rd) varint() int {
	if r.err != nil {
		return 0
	}
	v, n := GetVarInt(r.b)
	if n <= 0 {
		r.err = errors.New("bad varint")
		return 0
	}
	r.b = r.b[n:]
	return v
}
func (r *rd) bytes() []byte   { return r.take(r.varint()) }
func (r *rd) bytes17() []byte { p := r.take(2); if p == nil { return nil }; return r.take(int(binary.BigEndian.Uint16(p))) }
func (r *rd) bool() bool      { p := r.take(1); return p != nil && p[0] != 0 }

// EncryptionRequest as the client sees it.
type EncryptionRequest struct {
	ServerID    string
	PublicKey   []byte
	VerifyToken []byte
	ShouldAuth  bool
}

func ParseEncryptionRequest(protocol int, body []byte) (EncryptionRequest, error) {
	r := &rd{b: body}
	var e EncryptionRequest
	e.ServerID = string(r.bytes())
	if protocol >= P1_8 {
		e.PublicKey = r.bytes()
		e.VerifyToken = r.bytes()
		e.ShouldAuth = true
		if protocol >= P1_20_5 {
			e.ShouldAuth = r.bool()
		}
	} else {
		e.PublicKey = r.bytes17()
		e.VerifyToken = r.bytes17()
		e.ShouldAuth = true
	}
	if r.err == nil && len(r.b) != 0 {
		r.err = fmt.Errorf("%d trailing bytes", len(r.b))
	}
	return e, r.err
}

// LoginSuccess as the client sees it.
type LoginSuccess struct {
	UUID       [16]byte
	Username   string
	Properties int
}

func ParseLoginSuccess(protocol int, body []byte) (LoginSuccess, error) {
	r := &rd{b: body}
	var s LoginSuccess
	if protocol >= P1_16 {
		copy(s.UUID[:], r.take(16))
	} else {
		str := strings.ReplaceAll(string(r.bytes()), "-", "")
		raw, err := hex.DecodeString(str)
		if r.err == nil && (err != nil || len(raw) != 16) {
			r.err = fmt.Errorf("bad uuid string %q", str)
		}
		copy(s.UUID[:], raw)
	}
	s.Username = string(r.bytes())
	if protocol >= P1_19 {
		s.Properties = r.varint()
		for i := 0; i < s.Properties && r.err == nil; i++ {
			r.bytes()
			r.bytes()
			if r.bool() {
				r.bytes()
			}
		}
	}
	if protocol == P1_20_5 || protocol == P1_21 {
		r.bool()
	}
	if protocol >= P26_2 {
		r.take(16)
	}
	if r.err == nil && len(r.b) != 0 {
		r.err = fmt.Errorf("%d trailing bytes", len(r.b))
	}
	return s, r.err
}

func ParseSetCompression(body []byte) (int, error) {
	r := &rd{b: body}
	v := r.varint()
	if r.err == nil && len(r.b) != 0 {
		r.err = errors.New("trailing bytes")
	}
	return v, r.err
}

// ParseString reads a body consisting of exactly one length-prefixed string (status response,
// login disconnect reason).
func ParseString(body []byte) (string, error) {
	r := &rd{b: body}
	s := string(r.bytes())
	if r.err == nil && len(r.b) != 0 {
		r.err = errors.New("trailing bytes")
	}
	return s, r.err
}
