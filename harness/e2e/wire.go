package e2e

import (
	"bytes"
	"compress/zlib"
	"crypto/aes"
	"crypto/cipher"
	"errors"
	"fmt"
	"io"
	"net"
	"sync"
	"time"
)

// Errors returned by Wire reads. Everything else is reported as ErrGarbled with detail.
var (
	ErrClosed  = errors.New("e2e: peer closed the connection")
	ErrTimeout = errors.New("e2e: watchdog timeout (nothing arrived)")
	ErrGarbled = errors.New("e2e: undecodable bytes on the wire")
)

// Packet is one decoded frame: the packet id and the bytes after it.
type Packet struct {
	ID   int
	Body []byte
}

// Entry is one transcript line.
type Entry struct {
	Dir   string // "send" or "recv"
	State string // label set by the user of the Wire (handshake/status/login/config/play)
	ID    int    // packet id; -1 for raw writes and notes
	Body  []byte
	Note  string // "", "raw", "closed", "timeout", "garbled: ...", "encrypted on", "compression N"
}

// cfb8 is AES/CFB8 written from the definition: one block encryption per byte.
type cfb8 struct {
	b   cipher.Block
	reg []byte
	dec bool
}

func newCFB8(key []byte, dec bool) (*cfb8, error) {
	b, err := aes.NewCipher(key)
	if err != nil {
		return nil, err
	}
	if len(key) < 16 {
		return nil, errors.New("iv too short")
	}
	return &cfb8{b: b, reg: append([]byte{}, key[:16]...), dec: dec}, nil
}

func (c *cfb8) xor(p []byte) {
	var o [16]byte
	for i, x := range p {
		c.b.Encrypt(o[:], c.reg)
		y := x ^ o[0]
		ct := y
		if c.dec {
			ct = x
		}
		copy(c.reg, c.reg[1:])
		c.reg[15] = ct
		p[i] = y
	}
}

// Wire speaks the Minecraft Java wire format over a net.Conn in either role.
type Wire struct {
	Conn  net.Conn
	State string // transcript label; set it when the protocol state changes

	mu          sync.Mutex
	inbuf       []byte // decrypted, not yet parsed
	enc, dec    *cfb8
	compression int // -1 off
	eof         bool
	log         []Entry
}

func NewWire(c net.Conn) *Wire { return &Wire{Conn: c, State: "handshake", compression: -1} }

// Transcript returns a copy of everything sent/received so far.
func (w *Wire) Transcript() []Entry {
	w.mu.Lock()
	defer w.mu.Unlock()
	return append([]Entry{}, w.log...)
}

func (w *Wire) note(dir, n string) {
	w.mu.Lock()
	w.log = append(w.log, Entry{Dir: dir, State: w.State, ID: -1, Note: n})
	w.mu.Unlock()
}

// EnableEncryption switches both directions to AES/CFB8 with key = iv = secret. Bytes already read
// from the connection stay as they are; everything read or written from now on is en/decrypted.
func (w *Wire) EnableEncryption(secret []byte) error {
	e, err := newCFB8(secret, false)
	if err != nil {
		return err
	}
	d, _ := newCFB8(secret, true)
	w.enc, w.dec = e, d
	w.note("send", "encrypted on")
	return nil
}

// SetCompression sets the threshold (negative = off) for both directions.
func (w *Wire) SetCompression(threshold int) {
	w.compression = threshold
	w.note("recv", fmt.Sprintf("compression %d", threshold))
}

// PutVarInt appends v as a VarInt (uint32 view, 1..5 bytes).
func PutVarInt(b []byte, v int) []byte {
	u := uint32(v)
	for u >= 0x80 {
		b = append(b, byte(u)|0x80)
		u >>= 7
	}
	return append(b, byte(u))
}

// GetVarInt decodes a VarInt from b: value, bytes used (0 = incomplete, -1 = malformed).
func GetVarInt(b []byte) (int, int) {
	var u uint32
	for i := 0; i < 5; i++ {
		if i >= len(b) {
			return 0, 0
		}
		u |= uint32(b[i]&0x7f) << (7 * uint(i))
		if b[i]&0x80 == 0 {
			return int(int32(u)), i + 1
		}
	}
	return 0, -1
}

// Frame builds the wire bytes (before encryption) of one packet under the current compression.
func (w *Wire) Frame(id int, body []byte) []byte {
	payload := append(PutVarInt(nil, id), body...)
	return w.FramePayload(payload)
}

// FramePayload frames an already built payload (packet id + data).
func (w *Wire) FramePayload(payload []byte) []byte {
	if w.compression < 0 {
		return append(PutVarInt(nil, len(payload)), payload...)
	}
	var inner []byte
	if len(payload) < w.compression {
		inner = append(PutVarInt(nil, 0), payload...)
	} else {
		var z bytes.Buffer
		zw := zlib.NewWriter(&z)
		_, _ = zw.Write(payload)
		_ = zw.Close()
		inner = append(PutVarInt(nil, len(payload)), z.Bytes()...)
	}
	return append(PutVarInt(nil, len(inner)), inner...)
}

// Send writes one packet (framed, compressed, encrypted as currently configured).
func (w *Wire) Send(id int, body []byte) error {
	err := w.write(w.Frame(id, body))
	w.mu.Lock()
	e := Entry{Dir: "send", State: w.State, ID: id, Body: append([]byte{}, body...)}
	if err != nil {
		e.Note = "write failed"
	}
	w.log = append(w.log, e)
	w.mu.Unlock()
	return err
}

// SendRaw writes bytes as they are (still encrypted if encryption is on): for malformed frames.
func (w *Wire) SendRaw(b []byte) error {
	err := w.write(append([]byte{}, b...))
	w.mu.Lock()
	e := Entry{Dir: "send", State: w.State, ID: -1, Body: append([]byte{}, b...), Note: "raw"}
	if err != nil {
		e.Note = "raw, write failed"
	}
	w.log = append(w.log, e)
	w.mu.Unlock()
	return err
}

func (w *Wire) write(b []byte) error {
	if w.enc != nil {
		w.enc.xor(b)
	}
	_, err := w.Conn.Write(b)
	return err
}

// fill reads more bytes from the connection into inbuf (decrypting), honouring the deadline.
func (w *Wire) fill(deadline time.Time) error {
	if w.eof {
		return ErrClosed
	}
	_ = w.Conn.SetReadDeadline(deadline)
	tmp := make([]byte, 8192)
	n, err := w.Conn.Read(tmp)
	if n > 0 {
		if w.dec != nil {
			w.dec.xor(tmp[:n])
		}
		w.inbuf = append(w.inbuf, tmp[:n]...)
		return nil
	}
	if err == nil {
		return nil
	}
	var ne net.Error
	if errors.As(err, &ne) && ne.Timeout() {
		return ErrTimeout
	}
	// EOF, reset, closed pipe: the peer is gone
	w.eof = true
	return ErrClosed
}

// Recv reads the next packet, waiting at most watchdog. Errors: ErrClosed (clean end of stream at a
// frame boundary), ErrTimeout, or an error wrapping ErrGarbled (bad VarInt, oversized frame, bad
// zlib, stream ended inside a frame). Empty frames are returned as Packet{ID: -1}.
func (w *Wire) Recv(watchdog time.Duration) (Packet, error) {
	deadline := time.Now().Add(watchdog)
	p, err := w.recv(deadline)
	w.mu.Lock()
	switch {
	case err == nil:
		w.log = append(w.log, Entry{Dir: "recv", State: w.State, ID: p.ID, Body: p.Body})
	case errors.Is(err, ErrClosed):
		w.log = append(w.log, Entry{Dir: "recv", State: w.State, ID: -1, Note: "closed"})
	case errors.Is(err, ErrTimeout):
		w.log = append(w.log, Entry{Dir: "recv", State: w.State, ID: -1, Note: "timeout"})
	default:
		w.log = append(w.log, Entry{Dir: "recv", State: w.State, ID: -1, Note: err.Error()})
	}
	w.mu.Unlock()
	return p, err
}

func (w *Wire) recv(deadline time.Time) (Packet, error) {
	for {
		ln, n := GetVarInt(w.inbuf)
		if n < 0 {
			return Packet{}, fmt.Errorf("%w: frame length VarInt too long", ErrGarbled)
		}
		if n > 0 {
			if ln < 0 || ln > 1<<21 {
				return Packet{}, fmt.Errorf("%w: frame length %d", ErrGarbled, ln)
			}
			if len(w.inbuf) >= n+ln {
				frame := w.inbuf[n : n+ln]
				w.inbuf = w.inbuf[n+ln:]
				return w.parseFrame(frame)
			}
		}
		if err := w.fill(deadline); err != nil {
			if errors.Is(err, ErrClosed) && len(w.inbuf) > 0 {
				return Packet{}, fmt.Errorf("%w: stream ended inside a frame (%d bytes left)", ErrGarbled, len(w.inbuf))
			}
			return Packet{}, err
		}
	}
}

func (w *Wire) parseFrame(frame []byte) (Packet, error) {
	if len(frame) == 0 {
		return Packet{ID: -1}, nil
	}
	payload := frame
	if w.compression >= 0 {
		claimed, n := GetVarInt(frame)
		if n <= 0 {
			return Packet{}, fmt.Errorf("%w: bad data-length VarInt", ErrGarbled)
		}
		if claimed == 0 {
			payload = frame[n:]
		} else {
			if claimed < 0 || claimed > 8<<20 {
				return Packet{}, fmt.Errorf("%w: claimed size %d", ErrGarbled, claimed)
			}
			zr, err := zlib.NewReader(bytes.NewReader(frame[n:]))
			if err != nil {
				return Packet{}, fmt.Errorf("%w: zlib header: %v", ErrGarbled, err)
			}
			out, err := io.ReadAll(io.LimitReader(zr, int64(claimed)+1))
			if err != nil {
				return Packet{}, fmt.Errorf("%w: zlib body: %v", ErrGarbled, err)
			}
			if len(out) != claimed {
				return Packet{}, fmt.Errorf("%w: inflated %d bytes, claimed %d", ErrGarbled, len(out), claimed)
			}
			payload = out
		}
	}
	id, n := GetVarInt(payload)
	if n <= 0 {
		return Packet{}, fmt.Errorf("%w: bad packet id", ErrGarbled)
	}
	return Packet{ID: id, Body: append([]byte{}, payload[n:]...)}, nil
}

// Pending reports whether at least one more byte is available without waiting (pipe connections
// only; for other connections it only looks at the internal buffer).
func (w *Wire) Pending() bool {
	if len(w.inbuf) > 0 {
		return true
	}
	if pc, ok := w.Conn.(*PipeConn); ok {
		return pc.Buffered() > 0
	}
	return false
}

// Close closes the underlying connection.
func (w *Wire) Close() { _ = w.Conn.Close() }
