package e2e

import (
	"errors"
	"time"

	"go.minekube.com/gate/pkg/edition/java/proxy"
)

// Client is a fake Minecraft client connected to a proxy over a Pipe.
type Client struct {
	*Wire
	Pipe     *PipeConn
	Protocol int
}

// Dial connects a new fake client to the proxy (no packets sent yet).
func Dial(p *proxy.Proxy, protocol int) *Client {
	w, pc := Connect(p)
	return &Client{Wire: w, Pipe: pc, Protocol: protocol}
}

// Reaction is what the proxy did in response to everything sent so far.
type Reaction struct {
	Packets []Packet // complete packets that arrived, in order (empty frames have ID -1)
	Closed  bool     // the proxy closed the connection
	Hung    bool     // neither idle nor closed within the watchdog
	Garbled string   // non-empty: undecodable bytes arrived (detail)
}

// Settle waits until the proxy has handled everything sent so far (idle) or closed, then returns all
// packets that arrived meanwhile. It never sleeps: see Pipe.
func (c *Client) Settle() Reaction {
	var r Reaction
	switch c.Pipe.WaitPeer(Watchdog) {
	case PeerClosed:
		r.Closed = true
	case PeerTimeout:
		r.Hung = true
	}
	c.drain(&r)
	return r
}

// AwaitClose waits up to grace for a close that the proxy performs asynchronously and collects what
// arrived; r.Closed tells whether it happened.
func (c *Client) AwaitClose(grace time.Duration) Reaction {
	var r Reaction
	r.Closed = c.Pipe.WaitPeerClosed(grace)
	c.drain(&r)
	return r
}

func (c *Client) drain(r *Reaction) {
	for r.Closed || c.Pending() {
		p, err := c.Recv(Watchdog)
		if err != nil {
			if errors.Is(err, ErrClosed) {
				r.Closed = true
			} else if errors.Is(err, ErrTimeout) {
				r.Hung = true
			} else {
				r.Garbled = err.Error()
			}
			return
		}
		r.Packets = append(r.Packets, p)
		c.track(p)
	}
}

// track follows the two server packets that change how the stream must be read: in the login state
// SetCompression switches framing, LoginSuccess ends the login state (the label becomes "play" before
// 1.20.2; from 1.20.2 on the client stays in "login-success" until it sends LoginAcknowledged).
func (c *Client) track(p Packet) {
	if c.State != "login" {
		return
	}
	switch p.ID {
	case IDSetCompression:
		if t, err := ParseSetCompression(p.Body); err == nil {
			c.SetCompression(t)
		}
	case IDLoginSuccess:
		if c.Protocol >= P1_20_2 {
			c.State = "login-success"
		} else {
			c.State = "play"
		}
	}
}

// SendHandshake sends the handshake packet and sets the transcript state label.
func (c *Client) SendHandshake(host string, port uint16, next int) error {
	err := c.Send(IDHandshake, Handshake(c.Protocol, host, port, next))
	switch next {
	case 1:
		c.State = "status"
	default:
		c.State = "login"
	}
	return err
}
