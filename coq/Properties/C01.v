(* C01 — Packet frames survive compression, encryption and arbitrary stream chunking.
   Only statements and `exact`; the proofs are in Proofs/C01.v.  zlib (deflate / inflate / lazy_close_ok)
   and the AES block function E are universally quantified; the only premise on them is inflate_deflate. *)
From Coq Require Import List NArith ZArith Bool.
From Verif Require Import Base.Hex Base.VarInt Model.Codec Proofs.C01.
Import ListNotations.
Open Scope N_scope.

(* "with or without AES/CFB8 encryption under any 16-byte shared secret": CFB8 decryption inverts CFB8
   encryption for EVERY block function E and every start register (the secret is key and iv), any length. *)
Theorem cfb8_inverse : forall (E : bytes -> bytes) (iv p : bytes),
  cfb8_dec E iv (cfb8_enc E iv p) = p.
Proof. exact (fun E iv p => cfb8_inverse_reg E p iv). Qed.
Print Assumptions cfb8_inverse.

(* "however the underlying byte stream is split into reads": io.ReadFull (fullReader) over any chunking of a
   stream returns the same bytes and leaves the same remaining stream as over the unsplit stream
   (flat_view forgets only how the remainder is chunked). *)
Theorem read_full_chunks : forall (cs : list bytes) (n : nat) (s : bytes),
  concat cs = s -> flat_view (read_full cs n) = flat_view (read_full [s] n).
Proof. exact read_full_chunks_eq. Qed.
Print Assumptions read_full_chunks.

(* one frame: what writeBuf / writeCompressed emit for p is decoded by readVarIntFrame / readPayload /
   decompress to exactly p, leaving exactly the bytes that followed — for every threshold t (negative =
   disabled, 0, positive) and level. *)
Theorem frame_roundtrip : forall (deflate : Z -> bytes -> bytes) (inflate : bytes -> zres) (lazy_close_ok : bytes -> N -> bool),
  (forall l p, inflate (deflate l p) = mkz p true) ->
  forall t lvl d p rest,
  starts_with_id p = true -> fitsb deflate t lvl d p = true ->
  snd (impl_decode_frame inflate lazy_close_ok (mkcfg t d) (frame deflate t lvl p ++ rest)) = FOk p rest.
Proof. exact Proofs.C01.frame_roundtrip. Qed.
Print Assumptions frame_roundtrip.

(* The property: every sequence of payloads written (each starting with its packet id, each within the
   decoder's own size limits fitsb) is read back as exactly that sequence, in order, and then the reader
   waits for more — for every threshold, level, direction, encryption off (None) or on (Some secret),
   and every list of chunks whose concatenation is the wire. *)
Theorem C01_stream_roundtrip :
  forall (deflate : Z -> bytes -> bytes) (inflate : bytes -> zres) (lazy_close_ok : bytes -> N -> bool) (E : bytes -> bytes),
  (forall l p, inflate (deflate l p) = mkz p true) ->
  forall (ps : list bytes) (t lvl : Z) (d : dir) (enc : option bytes) (chunks : list bytes),
  Forall (fun p => starts_with_id p = true /\ fitsb deflate t lvl d p = true) ps ->
  concat chunks = wire deflate E t lvl enc ps ->
  decode_stream inflate lazy_close_ok E (mkcfg t d) enc chunks = (ps, TNeedMore).
Proof. exact stream_roundtrip. Qed.
Print Assumptions C01_stream_roundtrip.

(* The size premise is the decoder's own limit and is necessary: a payload whose compressed frame body
   exceeds 2^21-1 bytes is written by the encoder but rejected by the decoder (reachable: 2^21-1
   incompressible bytes under threshold 0, level 0 — run on the real code by the harness, see
   coverage.big_sessions in the evidence). *)
Theorem C01_oversize_frame_rejected :
  forall (deflate : Z -> bytes -> bytes) (inflate : bytes -> zres) (lazy_close_ok : bytes -> N -> bool),
  (forall l p, inflate (deflate l p) = mkz p true) ->
  forall t lvl d p rest,
  (0 <= t)%Z -> (t <= Z.of_N (len p))%Z ->
  (MAXFRAME < Z.of_N (len (write_varint (Z.of_N (len p)) ++ deflate lvl p)) < 2147483648)%Z ->
  snd (impl_decode_frame inflate lazy_close_ok (mkcfg t d) (frame deflate t lvl p ++ rest)) = FErr EFrameTooLarge.
Proof. exact oversize_frame_rejected. Qed.
Print Assumptions C01_oversize_frame_rejected.

(* The empty payload is outside Encoder.Write's contract; what happens is characterised, not hidden:
   without compression it becomes an empty frame (which readPacket skips); under threshold 0 the writer
   compresses it with claimed size 0, which the reader takes for an over-long uncompressed frame. *)
Theorem C01_empty_payload :
  forall (deflate : Z -> bytes -> bytes) (inflate : bytes -> zres) (lazy_close_ok : bytes -> N -> bool),
  (forall l p, inflate (deflate l p) = mkz p true) ->
  forall lvl d rest,
  (forall t, (t < 0)%Z ->
     snd (impl_decode_frame inflate lazy_close_ok (mkcfg t d) (frame deflate t lvl [] ++ rest)) = FOk [] rest) /\
  (deflate lvl [] <> [] -> (Z.of_N (len (deflate lvl [])) < MAXFRAME)%Z ->
     snd (impl_decode_frame inflate lazy_close_ok (mkcfg 0 d) (frame deflate 0 lvl [] ++ rest)) = FErr EOverThreshold).
Proof.
  intros deflate inflate lz H lvl d rest. split.
  - intros t Ht. exact (empty_payload_plain deflate inflate lz H t lvl d rest Ht).
  - exact (empty_payload_threshold0 deflate inflate lz H lvl d rest).
Qed.
Print Assumptions C01_empty_payload.

(* Histories — what the judge of the correspondence evaluates.  A user of netmc.Writer may Write, change the
   threshold, enable encryption and Flush in any order; frames still sitting in the write buffer when the
   configuration changes are delivered intact in the form they had when written (Flush is not even visible on
   the wire).  For every such history whose written payloads meet the round-trip premises under the threshold in
   force at their write (ops_ok), from any starting threshold t and cipher state reg, and every chunking of the
   wire: a reader that makes the same changes after the same packets gets back exactly the written payloads, in
   order, and then waits. *)
Theorem C01_history_roundtrip :
  forall (deflate : Z -> bytes -> bytes) (inflate : bytes -> zres) (lazy_close_ok : bytes -> N -> bool) (E : bytes -> bytes),
  (forall l p, inflate (deflate l p) = mkz p true) ->
  forall (lvl : Z) (d : dir) (ops : list wop) (t : Z) (reg : option bytes) (chunks : list bytes),
  ops_ok deflate lvl t d ops = true ->
  concat chunks = wire_ops deflate E lvl t reg ops ->
  read_ops inflate lazy_close_ok E d t (mkrd chunks reg) ops = (written ops, TNeedMore).
Proof.
  intros deflate inflate lz E H lvl d ops t reg chunks Hok Hwire.
  exact (history_roundtrip deflate inflate lz E H lvl d ops t (mkrd chunks reg) Hok Hwire).
Qed.
Print Assumptions C01_history_roundtrip.

(* Non-vacuity for histories: two writes before the threshold is set, a third before encryption is enabled, none
   of them flushed before the changes, a threshold change after encryption; the premise holds, the chunked wire
   (3, 0, 9, rest) is read back as the five written payloads, the first two frames are on the wire in plaintext
   and the wire differs from the same history without encryption. *)
Example C01_history_premises_satisfiable :
  ops_ok id_deflate 6 (-1) ClientBound ex_history = true /\
  (let w := wire_ops id_deflate toy_E 6 (-1) None ex_history in
   read_ops id_inflate no_lazy toy_E ClientBound (-1) (mkrd [firstn 3 w; []; firstn 9 (skipn 3 w); skipn 12 w] None) ex_history
     = (written ex_history, TNeedMore)
   /\ written ex_history = [[1; 2; 3]; [5]; [127; 0; 0; 0; 0]; [9; 9; 9]; [4; 4]]
   /\ firstn 6 w = [3; 1; 2; 3; 1; 5]
   /\ w <> wire_ops id_deflate toy_E 6 (-1) None (filter (fun o => match o with WEnc _ => false | _ => true end) ex_history)).
Proof. exact ex_history_computes. Qed.

(* Non-vacuity: the premises are met by a concrete instance (stored-mode stand-in for zlib, a toy block
   function), and the same session evaluates to the payloads: encrypted, compressed from 2 bytes on,
   delivered as chunks of 1, 0, 5 and the remaining bytes; the wire differs from the plaintext frames. *)
Example C01_premises_satisfiable :
  (forall l p, id_inflate (id_deflate l p) = mkz p true) /\
  Forall (fun p => starts_with_id p = true /\ fitsb id_deflate 2 6 ServerBound p = true) ex_payloads /\
  (let w := wire id_deflate toy_E 2 6 (Some ex_secret) ex_payloads in
   decode_stream id_inflate no_lazy toy_E (mkcfg 2 ServerBound) (Some ex_secret)
     [firstn 1 w; []; firstn 5 (skipn 1 w); skipn 6 w] = (ex_payloads, TNeedMore)
   /\ w <> frames id_deflate 2 6 ex_payloads).
Proof. exact (conj id_inflate_deflate (conj ex_premises ex_session_computes)). Qed.
