(* C15 - Non-intercepted packets are relayed byte-identical and in order.
   Only statements and `exact`; the proofs are in Proofs/C15.v.  The model is Model/Relay.v. *)
From Coq Require Import List NArith ZArith Bool.
From Verif Require Import Base.Hex Base.VarInt Model.Relay Proofs.C15.
Import ListNotations.
Open Scope N_scope.

(* "every packet the proxy does not intercept is delivered to the other side with an identical payload
   and in the same relative order ... whatever the packet sizes, the compression thresholds on each
   side (which may differ)": for every stream [ps] of pass-through packets, every pair of thresholds
   [ta] (sending side) and [tb] (receiving side), every way the two byte streams are cut into reads
   ([chunks_a] arriving at the proxy, [chunks_b] arriving at the far side), what the far side decodes
   is [ps].  The frame codec of a side is a parameter with the frame round trip (C01) as the visible
   premise; [t] is the id table of any version and direction, [h] whatever the handlers of intercepted
   packets write. *)
Theorem C15_relay_identity :
  forall (encode_stream : Z -> list bytes -> bytes)
         (decode_stream : Z -> list bytes -> list bytes)
         (valid : bytes -> Prop),
    (forall t ps chunks,
        Forall valid ps -> concat chunks = encode_stream t ps -> decode_stream t chunks = ps) ->
    forall (t : table) (h : bytes -> list bytes) (ta tb : Z) (ps : list bytes)
           (chunks_a chunks_b : list bytes),
      Forall valid ps ->
      Forall (fun p => pass_throughb t p = true) ps ->
      concat chunks_a = encode_stream ta ps ->
      concat chunks_b = relay encode_stream decode_stream t h ta tb chunks_a ->
      decode_stream tb chunks_b = ps.
Proof. exact relay_identity. Qed.
Print Assumptions C15_relay_identity.

(* "in the same relative order" when intercepted packets are interleaved: the far side receives a
   stream [out] in which the packets that were forwarded are exactly the pass-through packets of [ps],
   untouched and in their original order, whatever the proxy writes on its own in between. *)
Theorem C15_relative_order :
  forall (encode_stream : Z -> list bytes -> bytes)
         (decode_stream : Z -> list bytes -> list bytes)
         (valid : bytes -> Prop),
    (forall t ps chunks,
        Forall valid ps -> concat chunks = encode_stream t ps -> decode_stream t chunks = ps) ->
    forall (t : table) (h : bytes -> list bytes) (ta tb : Z) (ps : list bytes)
           (chunks_a chunks_b : list bytes),
      Forall valid ps ->
      Forall valid (relay_payloads t h ps) ->
      concat chunks_a = encode_stream ta ps ->
      concat chunks_b = relay encode_stream decode_stream t h ta tb chunks_a ->
      exists out : list (origin * bytes),
        decode_stream tb chunks_b = map snd out /\
        map snd (filter is_fwd out) = filter (pass_throughb t) ps.
Proof. exact relay_order. Qed.
Print Assumptions C15_relative_order.

(* The same two facts without any wire: the dispatch alone never touches, drops, duplicates or reorders
   a pass-through packet (this is the function the correspondence check evaluates on every case). *)
Theorem C15_dispatch_identity :
  forall (t : table) (h : bytes -> list bytes) (ps : list bytes),
    Forall (fun p => pass_throughb t p = true) ps -> relay_payloads t h ps = ps.
Proof. exact relay_payloads_id. Qed.
Print Assumptions C15_dispatch_identity.

Theorem C15_dispatch_order :
  forall (t : table) (h : bytes -> list bytes) (ps : list bytes),
    map snd (filter is_fwd (relay_tagged t h ps)) = filter (pass_throughb t) ps.
Proof. exact relay_forwarded_subsequence. Qed.
Print Assumptions C15_dispatch_order.

(* what "not intercepted" means: ids the registry does not know, and known types marked forward-as-is *)
Theorem C15_pass_through_domain :
  forall (t : table) (p : bytes) (id : N),
    packet_id p = Some id ->
    (lookup id t = None -> pass_throughb t p = true) /\
    (lookup id t = Some KForward -> pass_throughb t p = true) /\
    (lookup id t = Some KIntercept -> pass_throughb t p = false).
Proof.
  intros t p id H. repeat split.
  - exact (unknown_id_pass t p id H).
  - exact (forward_kind_pass t p id H).
  - exact (intercepted_not_pass t p id H).
Qed.
Print Assumptions C15_pass_through_domain.

(* Non-vacuity: the codec premise is satisfiable (a concrete length-prefixed codec satisfies it), and a
   concrete pass-through stream with different thresholds goes through the composed relay unchanged. *)
Example C15_premise_satisfiable :
  (forall t ps chunks,
      Forall toy_valid ps -> concat chunks = toy_encode t ps -> toy_decode t chunks = ps)
  /\ Forall toy_valid ex_ps
  /\ Forall (fun p => pass_throughb ex_table p = true) ex_ps
  /\ toy_decode 256 [relay toy_encode toy_decode ex_table (fun _ => []) (-1) 256 [toy_encode (-1) ex_ps]] = ex_ps.
Proof.
  split; [exact toy_roundtrip|]. split; [exact ex_ps_valid|]. split; [exact ex_ps_pass|]. exact ex_relay.
Qed.

Example C15_order_example :
  relay_payloads ex_table (fun p => [[0x63]; p]) ex_mixed
    = [[0x7e; 1]; [0x63]; [0x17; 5; 5]; [0x63]; [0x0f; 4]; [0x21; 8]]
  /\ filter (pass_throughb ex_table) ex_mixed = [[0x7e; 1]; [0x21; 8]].
Proof. exact ex_mixed_order. Qed.
