(* C32 — Lite ping cache never serves status from before a reload.
   Only statements and `exact`; proofs are in Proofs/C32.v, definitions in Model/PingCache.v.

   A thread is any list of atomic steps [ev] of the cache (ECs1 / EDoChan / EComplete = the three
   critical sections of pingStatusCache.load with singleflight in between, EReset, ETick = time
   passes, ESkew = only the injected clock moves, EGet = fast path); [threads ts] turns thread
   scripts into Base.Conc threads and [run ... sched init] executes ANY schedule (list of thread
   indices, complete or not).  Steps are guarded by the state (a DoChan of a request that is not
   parked, or the completion of a fetch nobody leads, is a no-op), so the quantification covers all
   interleavings of requests, slow or failed fetches, clock advances and resets.
   Ghost fields of the answers: r_req_start = logical time of the request's first step,
   r_fetch_start = logical time at which the loader that produced the value was started,
   [resets s] = logical times of the resets. *)
From Coq Require Import List NArith Bool.
From Verif Require Import Base.Hex Base.Conc Model.PingCache Proofs.C32.
Import ListNotations.
Open Scope N_scope.

(* "after routes are reloaded or the cache is reset, no request that starts afterwards is answered
   with a status obtained before the reset": for every reset that precedes the start of a request,
   the fetch whose value the request received was started after that reset. *)
Theorem C32_no_stale_after_reset : forall ts sched,
  let s := final_state (run (threads ts) sched init) in
  forall r, In r (responses s) -> r_val r <> None ->
  forall tr, In tr (resets s) -> tr < r_req_start r -> tr < r_fetch_start r.
Proof. exact no_stale_after_reset. Qed.
Print Assumptions C32_no_stale_after_reset.

(* "with at most one backend status request in flight per key": at every instant of every schedule
   no two flights (running loaders) have the same generation and the same pingKey
   (backend, protocol, route generation). *)
Theorem C32_single_flight : forall ts sched,
  uniq sameb (map fkey (flights (final_state (run (threads ts) sched init)))).
Proof. exact single_flight. Qed.
Print Assumptions C32_single_flight.

(* "cached ... for the route's TTL": an answer taken from the cache (CS1, CS2 or fast path) is
   younger than the TTL it was stored with, on the injected clock, in every schedule ... *)
Theorem C32_ttl : forall ts sched,
  let s := final_state (run (threads ts) sched init) in
  forall r, In r (responses s) -> from_cache r -> r_now r < r_set r + r_ttl r.
Proof. exact ttl_bound. Qed.
Print Assumptions C32_ttl.

(* ... and when the injected clock is the wall clock (production: no ESkew step) it lies in the
   window [stored, stored + ttl). *)
Theorem C32_ttl_window : forall ts sched,
  (forall e, In e (concat ts) -> no_skew e) ->
  let s := final_state (run (threads ts) sched init) in
  forall r, In r (responses s) -> from_cache r -> r_set r <= r_now r /\ r_now r < r_set r + r_ttl r.
Proof. exact ttl_window. Qed.
Print Assumptions C32_ttl_window.

(* the whole invariant (cache entries belong to the current generation and were fetched after the
   last reset, flights were started after the reset that created their generation, ...) holds in
   every reachable state *)
Theorem C32_invariant : forall ts sched, Inv (final_state (run (threads ts) sched init)).
Proof. exact inv_every_schedule. Qed.
Print Assumptions C32_invariant.

(* "the configured fallback status is used only when every backend failed": [resolve] over the
   backends in iterator order answers with the fallback only if it is configured and all backends
   failed, with an error only if none is configured and all failed, and otherwise with the status
   of the first backend that answered. *)
Theorem C32_fallback_only_if_all_failed : forall oks fb,
  (resolve oks fb = AFallback -> fb = true /\ forallb negb oks = true)
  /\ (resolve oks fb = AError -> fb = false /\ forallb negb oks = true)
  /\ (forall i, resolve oks fb = AStatus i ->
        exists pre post, oks = pre ++ true :: post /\ forallb negb pre = true /\ i = N.of_nat (length pre))
  /\ (forallb negb oks = true -> fb = true -> resolve oks fb = AFallback).
Proof. exact fallback_only_if_all_failed. Qed.
Print Assumptions C32_fallback_only_if_all_failed.

(* non-vacuity: a schedule with a reset during a fetch, a shared flight, a cache hit, an expiry and
   a failed fetch; and all 140 interleavings of two requests with a reset *)
Example C32_nonvacuous_run :
  obs_of (run_events ex_events)
  = ([(0, Some (0, true)); (1, Some (1, true)); (2, Some (1, true)); (3, Some (1, true)); (4, Some (4, false))],
     [0; 1; 4]).
Proof. exact ex_run. Qed.

(* all 140 interleavings of two requests with a reset are evaluated in
   Proofs.C32.ex_all_schedules (kept there: re-checking it here by conversion is slow) *)

(* ---------- the reload decision judged by Check.C32.CReload ----------
   [routes_differ] compares the two flattened route lists ((field path, printed value) pairs, every
   exported field of every route).  It ignores nothing: *)
From Verif Require Import Check.C32 Proofs.C32_Reload.

Theorem C32_routes_differ_sound_complete : forall r1 r2,
  (routes_differ r1 r2 = true <-> r1 <> r2) /\ (routes_differ r1 r2 = false <-> r1 = r2).
Proof. exact routes_differ_sound_complete. Qed.
Print Assumptions C32_routes_differ_sound_complete.

(* [reload_step r1 r2] = reset (cache cleared, generation advanced) iff the routes differ.
   If they do not differ the cache state is unchanged: *)
Theorem C32_reload_unchanged : forall r1 r2 s,
  routes_differ r1 r2 = false -> reload_step r1 r2 s = s.
Proof. exact reload_unchanged. Qed.
Print Assumptions C32_reload_unchanged.

(* If they differ, then from any state satisfying the invariant (every reachable state does):
   every key misses right after the reload, the generation has advanced, and after ANY further steps
   [es] - new requests for any key, and completions of loads that were already in flight when the
   reload happened (the generation guard keeps them out of the cache) - every answer to a request
   that started after the reload carries a value whose fetch started after the reload.  This is a
   corollary of C32_invariant / C32_no_stale_after_reset with the reload's time as the reset. *)
Theorem C32_reload_no_stale : forall r1 r2 s,
  Inv s -> routes_differ r1 r2 = true ->
  let s1 := reload_step r1 r2 s in
  (forall k, fst (live s1 k) = None)
  /\ gen s1 = gen s + 1
  /\ forall es r, In r (responses (fold_left step es s1)) -> r_val r <> None ->
       time s < r_req_start r -> time s < r_fetch_start r.
Proof. exact reload_no_stale. Qed.
Print Assumptions C32_reload_no_stale.

Theorem C32_reload_no_stale_reachable : forall r1 r2 h,
  routes_differ r1 r2 = true ->
  let s := fold_left step h init in
  let s1 := reload_step r1 r2 s in
  (forall k, fst (live s1 k) = None)
  /\ forall es r, In r (responses (fold_left step es s1)) -> r_val r <> None ->
       time s < r_req_start r -> time s < r_fetch_start r.
Proof. exact reload_no_stale_reachable. Qed.
Print Assumptions C32_reload_no_stale_reachable.

(* the judge's decision is this very predicate: a reload case whose second ping was served from
   the cache is a violation exactly when the two route lists are not the same list *)
Theorem C32_reload_judge_decision : forall f ra rb g0 g1,
  judge (CReload f ra rb g0 g1 false) = Base.Verdict.VViolation <-> ra <> rb.
Proof.
  intros f ra rb g0 g1. destruct (routes_differ_sound_complete ra rb) as [[A1 A2] [B1 B2]].
  unfold routes_differ in *. unfold judge. destruct (beq_routes ra rb); cbn [negb andb].
  - split; [|intro H; exfalso; apply H; now apply B1].
    destruct (reload_model false g0) as [mf mg].
    destruct (Bool.eqb false mf && (g1 =? mg)); intro H; discriminate H.
  - split; [intros _; now apply A1|reflexivity].
Qed.
Print Assumptions C32_reload_judge_decision.

(* non-vacuity: routes differing only in ModifyVirtualHost differ; a load in flight across the
   reload completes afterwards and the request started after the reload is NOT answered with it
   (it is parked); without a difference the same request is answered from the cache *)
Example C32_nonvacuous_reload :
  routes_differ [route_mvh false] [route_mvh true] = true
  /\ routes_differ [route_mvh true] [route_mvh true] = false
  /\ (let s := fold_left step [ECs1 0 kA 3; EDoChan 0] init in
      let after := fold_left step [EComplete 0 true; ECs1 1 kA 3]
                     (reload_step [route_mvh false] [route_mvh true] s) in
      map (fun r => (r_id r, r_val r)) (responses after) = [(0, Some (0, true))]
      /\ map p_id (parked after) = [1])
  /\ (let s := fold_left step [ECs1 0 kA 3; EDoChan 0] init in
      let after := fold_left step [EComplete 0 true; ECs1 1 kA 3]
                     (reload_step [route_mvh true] [route_mvh true] s) in
      map (fun r => (r_id r, r_val r)) (responses after) = [(0, Some (0, true)); (1, Some (0, true))]).
Proof. exact reload_example. Qed.
