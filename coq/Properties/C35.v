(* C35 — Live config changes are atomic, validated and versioned by content.
   Only statements and `exact`; proofs in Proofs/C35.v; model in Model/LiveConfig.v:
     step hash cur op = what ApplyLiveConfig / ApplyLiveConfigIfVersion / ConfigSnapshot do to
     the current configuration `cur` (abstracted to (rest, lite, routes)) and what they return;
     run hash cur ops = the history of events (before, op, result, after) of a sequence of calls;
     hash = the version function (sha256 of the JSON encoding in the code), a parameter. *)
From Coq Require Import List NArith Bool.
From Verif Require Import Base.Hex Base.Conc Model.LiveConfig Proofs.C35.
Import ListNotations.

(* "only valid candidates that differ from the current configuration solely in Lite routes are
   applied; every published configuration is one complete accepted candidate" — for every
   history, every applied call: *)
Theorem C35_published_is_candidate : forall hash cur ops e,
  In e (run hash cur ops) -> r_code (e_res e) = CApplied ->
  exists cd, cand_of (e_op e) = Some cd /\ c_valid cd = true /\
             lite (e_before e) = true /\ lite (c_cfg cd) = true /\
             rest (c_cfg cd) = rest (e_before e) /\
             c_cfg cd <> e_before e /\
             e_after e = c_cfg cd.
Proof. exact published_is_candidate. Qed.
Print Assumptions C35_published_is_candidate.

(* ... and the configuration in force after any history is the initial one or one complete
   candidate that was submitted (as valid) in that history *)
Theorem C35_current_is_initial_or_candidate : forall hash ops cur,
  final hash cur ops = cur \/
  exists o cd, In o ops /\ cand_of o = Some cd /\ c_valid cd = true /\
               final hash cur ops = c_cfg cd.
Proof. exact current_is_initial_or_candidate. Qed.
Print Assumptions C35_current_is_initial_or_candidate.

(* "Rejected candidates leave configuration, version and routing unchanged" (everything that is
   not `applied`: invalid, unsupported, unchanged, precondition_failed, snapshots) *)
Theorem C35_reject_unchanged : forall hash cur ops e,
  In e (run hash cur ops) -> r_code (e_res e) <> CApplied ->
  e_after e = e_before e /\ hash (e_after e) = hash (e_before e) /\
  routes (e_after e) = routes (e_before e).
Proof. exact reject_unchanged. Qed.
Print Assumptions C35_reject_unchanged.

(* "a conditional apply succeeds only if its expected version is the current one" *)
Theorem C35_cas : forall hash cur ops e c expected,
  In e (run hash cur ops) -> e_op e = ApplyIf c expected ->
  (r_code (e_res e) <> CPrecondition -> expected = hash (e_before e)) /\
  (expected <> hash (e_before e) ->
     r_code (e_res e) = CPrecondition /\ e_after e = e_before e /\
     r_version (e_res e) = hash (e_before e)) /\
  (expected = hash (e_before e) ->
     e_res e = snd (apply_locked hash (e_before e) c) /\ r_code (e_res e) <> CPrecondition).
Proof. exact cas. Qed.
Print Assumptions C35_cas.

(* "the version string changes exactly when the configuration content changes": any two calls
   of a history that report a version report the same one iff they left the same content in
   force.  Premise: the hash is injective (stated, not assumed globally). *)
Theorem C35_version_iff_content : forall hash,
  (forall a b, hash a = hash b -> a = b) ->
  forall cur ops e1 e2,
  In e1 (run hash cur ops) -> In e2 (run hash cur ops) ->
  reports_version (r_code (e_res e1)) = true -> reports_version (r_code (e_res e2)) = true ->
  (r_version (e_res e1) = r_version (e_res e2) <-> e_after e1 = e_after e2).
Proof. exact version_iff_content. Qed.
Print Assumptions C35_version_iff_content.

Theorem C35_reported_version_is_current : forall hash cur ops e,
  In e (run hash cur ops) -> reports_version (r_code (e_res e)) = true ->
  r_version (e_res e) = hash (e_after e).
Proof. exact reported_version_is_current. Qed.
Print Assumptions C35_reported_version_is_current.

(* "including concurrent ones": goroutines are lists of calls, each call one atomic action (it
   holds reloadMu for its whole body).  For EVERY schedule the trace of events is a sequential
   history of those calls, so all theorems above apply to it. *)
Theorem C35_schedules_are_histories : forall hash tops sched cur,
  let r := Conc.run (goroutines hash tops) sched cur in
  exists ops, incl ops (concat tops) /\ events r = run hash cur ops /\
              final_state r = final hash cur ops.
Proof. exact schedules_are_histories. Qed.
Print Assumptions C35_schedules_are_histories.

(* non-vacuity: a history that hits every outcome; a race of two fresh conditional applies in
   which, under every interleaving, exactly one wins *)
Example C35_nonvacuous_history :
  map (fun e => (r_code (e_res e), e_after e))
      (run demo_hash c0
         [ApplyIf (Some good) [9]%N; Apply (Some bad_routes); Apply (Some other_change);
          ApplyIf (Some good) (demo_hash c0); ApplyIf (Some bad_routes) (demo_hash c0);
          Apply (Some good); Apply None])
  = [(CPrecondition, c0); (CInvalid, c0); (CUnsupported, c0); (CApplied, c_cfg good);
     (CPrecondition, c_cfg good); (CUnchanged, c_cfg good); (CInvalid, c_cfg good)].
Proof. exact demo_history. Qed.
