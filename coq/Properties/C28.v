(* C28 - The tab-list model matches what the client was told.
   Only statements and `exact`; the proofs are in Proofs/C28*.v.

   Baseline: /repo after the fix commits d54f770 (C28-1 = C07-1), d5f50a6 (C28-2), eb9ac68 (C28-3).
   [pstep cf ver tbl] is the proxy's 1.19.3+ tab list (TabList.Add / RemoveAll / entry setters /
   ProcessUpdate / ProcessRemove) with the packets it makes the viewer receive; [impl_tcfg] is the
   code as it is now (canonical action order on the wire, re-adding the held entry is a no-op, a
   changed profile is sent as remove + add), which is what the property demands ([tcfg_impl_is_spec]);
   [old_tcfg] is the PRE-FIX code, about which the refutations at the end speak.  [client_after] is a
   reference vanilla client that decodes the BYTES of player-info update / remove packets and
   applies them; [view] is the proxy's Entries() as the client would show it. *)
From Coq Require Import List NArith ZArith Bool String.
From Verif Require Import Base.Hex Base.Assoc Model.TabList Proofs.C28_Struct Proofs.C28_Wire Proofs.C28.
Import ListNotations.
Open Scope N_scope.

Theorem tcfg_impl_is_spec : impl_tcfg = spec_tcfg.
Proof. exact tcfg_impl_is_spec_proof. Qed.
Print Assumptions tcfg_impl_is_spec.

(* "After any sequence of tab-list API changes and backend player-info updates/removals the entries
   the proxy reports are exactly the entries a vanilla client holds ... with the same profiles,
   latency, game mode, listing, display name and order": for every history h (backend action sets
   valid for the version) from related states, every id is bound in the proxy's view exactly as in
   the client that applied, in order, the packets the viewer received (structured level: the
   packets as action set + entries; the bytes are decoded by [client_after], see C28_wire below). *)
Theorem C28_structured : forall ver tbl h P C,
  VRel ver tbl P C -> Forall (wf_top ver) h ->
  forall k, option_map (pview ver tbl) (aget k (proxy_after impl_tcfg ver tbl P h))
            = aget k (apply_all C (spackets impl_tcfg ver tbl P h)).
Proof. exact C28_struct. Qed.
Print Assumptions C28_structured.

(* from the empty list: view (proxy_after h) = client_after (packets h), entry for entry *)
Theorem C28_from_empty : forall ver tbl h,
  Forall (wf_top ver) h ->
  forall k, aget k (view ver tbl (proxy_after impl_tcfg ver tbl [] h))
            = aget k (apply_all [] (spackets impl_tcfg ver tbl [] h)).
Proof.
  intros ver tbl h W k. rewrite aget_view.
  exact (C28_struct ver tbl h [] [] (fun _ => eq_refl) W k).
Qed.
Print Assumptions C28_from_empty.

(* The property itself, through the BYTES: for every version, display-name table and history that is
   well-formed (sizes within the protocol's limits: names at most 16 characters, at most 16
   properties, 32-bit latencies / game modes / list orders, ids below 2^128, fewer than 2^31 entries,
   backend action sets valid for the version; [tbl_ok]: the decoder delimits the table's chat
   components exactly), the reference vanilla client can decode every packet the viewer receives
   from the demanded tab list, and the state it ends in is, entry for entry, the proxy's view. *)
Theorem C28 : forall ver tbl h,
  tbl_ok ver tbl -> wf_hist ver tbl [] h ->
  exists c, client_after ver [] (packets impl_tcfg ver tbl [] h) = Some c /\
            forall k, aget k (view ver tbl (proxy_after impl_tcfg ver tbl [] h)) = aget k c.
Proof. exact C28_wire. Qed.
Print Assumptions C28.

(* the wire lemma it rests on: the vanilla decoder reads back what the canonical encoder writes
   (fields of absent actions come back as the reader's defaults: [masked]) *)
Theorem vanilla_decodes_canonical_upsert : forall ver order es,
  wf_upsert ver order es ->
  vanilla_decode_upsert ver (encode_upsert true order es) = Some (bits_of order, map (masked order) es).
Proof. exact decode_encode_upsert. Qed.
Print Assumptions vanilla_decodes_canonical_upsert.
Theorem vanilla_decodes_remove : forall ids,
  wf_remove ids -> vanilla_decode_remove (encode_remove ids) = Some ids.
Proof. exact decode_encode_remove. Qed.
Print Assumptions vanilla_decodes_remove.

(* [tbl_ok] holds for every pre-1.20.3 (JSON string) component; for NBT components it is a premise
   exercised by the correspondence (and by C28_demo / C28_refuted_undecodable below on a concrete one) *)
Theorem json_components_are_delimited : forall ver s,
  ver < 765 -> short 262144 s -> comp_ok ver (enc_string s).
Proof. exact comp_ok_json. Qed.
Print Assumptions json_components_are_delimited.

(* vanilla's two passes over a packet (add all new players, then update) and gate's entry-after-entry
   ProcessUpdate give the same map *)
Theorem two_pass_is_sequential : forall (V E : Type) key mk upd add (es : list E) (m : amap V) k,
  aget k (two_pass_upsert key mk upd add es m) = aget k (seq_upsert key mk upd add es m).
Proof. intros. apply two_pass_seq. Qed.
Print Assumptions two_pass_is_sequential.

(* the judge's decidable comparison of views is entry-for-entry equality *)
Theorem same_view_is_equality : forall a b, same_view a b = true <-> (forall k, aget k a = aget k b).
Proof. exact same_view_spec. Qed.
Print Assumptions same_view_is_equality.

(* ---------- the PRE-FIX code (findings C28-1 = C07-1, C28-2, C28-3; all fixed) ---------- *)

(* C28-1 (fixed): the pre-fix encoder: same action bit set, different bytes; the canonical encoder (today's) does not depend on the order *)
Theorem old_encoding_depends_on_caller_order :
  let e := mkD 1 [] [] false 0 true 300 None 0 false in
  bits_of [3; 4] = bits_of [4; 3] /\
  encode_upsert false [3; 4] [e] <> encode_upsert false [4; 3] [e] /\
  encode_upsert true [3; 4] [e] = encode_upsert true [4; 3] [e].
Proof. exact same_bits_different_bytes. Qed.
Print Assumptions old_encoding_depends_on_caller_order.

(* C28-1 (fixed): before the fix a proxy-originated add was mis-decoded by the client: wrong values ... *)
Theorem old_C28_refuted_wrong_values :
  exists c, client_after 765 [] (packets old_tcfg 765 [] [] [Add [(1, alice)]]) = Some c /\
            option_map c_gm (aget 1 c) = Some 0 /\ option_map c_latency (aget 1 c) = Some 1%Z /\
            option_map c_gm (aget 1 (view 765 [] (proxy_after old_tcfg 765 [] [] [Add [(1, alice)]]))) = Some 1 /\
            option_map c_latency (aget 1 (view 765 [] (proxy_after old_tcfg 765 [] [] [Add [(1, alice)]]))) = Some 300%Z.
Proof. exact order_refuted_values. Qed.
Print Assumptions old_C28_refuted_wrong_values.

(* ... or not decodable at all, while today's encoding of the same add is decoded to the proxy's view *)
Theorem old_C28_refuted_undecodable :
  client_after 765 [] (packets old_tcfg 765 tbl_al [] [Add [(1, alice_named)]]) = None /\
  exists c, client_after 765 [] (packets impl_tcfg 765 tbl_al [] [Add [(1, alice_named)]]) = Some c /\
            same_view (view 765 tbl_al (proxy_after impl_tcfg 765 tbl_al [] [Add [(1, alice_named)]])) c = true.
Proof. exact order_refuted_decode. Qed.
Print Assumptions old_C28_refuted_undecodable.

(* C28-2 (fixed): before the fix adding the entry the list already holds panicked *)
Theorem old_C28_readd_panics :
  map m_ret (run old_tcfg 765 [] [] [Add [(1, alice)]; AddLive 1]) = [TOk; TPanic].
Proof. exact readd_panics. Qed.
Print Assumptions old_C28_readd_panics.

(* C28-3 (fixed): with the other two repaired but not this one (mkT true true false), an Add with an
   existing id and another profile changed the proxy's entry only *)
Theorem old_C28_profile_change_lost :
  exists c, client_after 765 [] (packets (mkT true true false) 765 [] [] [Add [(1, alice)]; Add [(1, bob_as_1)]]) = Some c /\
            option_map c_name (aget 1 c) = Some (tx "Alice") /\
            option_map c_name (aget 1 (view 765 [] (proxy_after (mkT true true false) 765 [] [] [Add [(1, alice)]; Add [(1, bob_as_1)]]))) = Some (tx "Bob").
Proof. exact profile_change_lost. Qed.
Print Assumptions old_C28_profile_change_lost.

(* premises are met, through the bytes: a history with add, re-add, profile change, setters, a backend
   join and a removal; the reference client decodes everything and ends with the proxy's view *)
Example C28_demo :
  tbl_ok 765 [] /\ wf_hist 765 [] [] demo_history /\
  exists c, client_after 765 [] (packets impl_tcfg 765 [] [] demo_history) = Some c /\
            same_view (view 765 [] (proxy_after impl_tcfg 765 [] [] demo_history)) c = true /\
            map fst c = [2].
Proof. split; [exact (proj1 demo_wf_hist)|]. split; [exact (proj2 demo_wf_hist)|exact demo_agrees]. Qed.
