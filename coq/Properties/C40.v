(* C40 — Bedrock players get valid, stable Java identities.
   Only statements and `exact`; the proofs are in Proofs/C40.v.
   java_compatible_username / java_name / java_uuid : Model/JavaIdentity.v (transcriptions of
   javaCompatibleUsername, of its call site with fmt.Sprintf(UsernameFormat, gamertag), and of JavaUuid);
   name_char c := 65<=c<=90 \/ 97<=c<=122 \/ 48<=c<=57 \/ c = 95. *)
From Coq Require Import List NArith ZArith.
From Verif Require Import Base.Hex Base.Text Base.Sha1 Base.Decimal Model.JavaIdentity Proofs.C40.
Import ListNotations.
Open Scope N_scope.

Theorem C40_name_char_def : forall c,
  name_char c <-> (65 <= c <= 90) \/ (97 <= c <= 122) \/ (48 <= c <= 57) \/ c = 95.
Proof. exact (fun c => iff_refl _). Qed.

(* "For every Bedrock gamertag and username format, the Java profile name ... is 1 to 16 characters drawn
   only from A-Z, a-z, 0-9 and underscore": for EVERY byte string handed to javaCompatibleUsername (hence
   for whatever fmt.Sprintf produces from any format and gamertag, valid UTF-8 or not) ... *)
Theorem C40_username_alphabet_len : forall s,
  (1 <= length (java_compatible_username s) <= 16)%nat /\ Forall name_char (java_compatible_username s).
Proof. exact username_alphabet_len. Qed.
Print Assumptions C40_username_alphabet_len.

(* ... in particular for every format of the "%s" fragment (literal text, %%, %s) and every gamertag *)
Theorem C40_name_alphabet_len : forall fmt tag,
  (1 <= length (java_name fmt tag) <= 16)%nat /\ Forall name_char (java_name fmt tag).
Proof. exact name_alphabet_len. Qed.
Print Assumptions C40_name_alphabet_len.

(* not vacuous as a normaliser: a name that already is a Java name is kept unchanged *)
Theorem C40_username_identity_on_valid : forall s,
  s <> [] -> (length s <= 16)%nat -> forallb name_ok s = true -> java_compatible_username s = s.
Proof. exact username_identity_on_valid. Qed.
Print Assumptions C40_username_identity_on_valid.

(* "the same XUID always maps to the same RFC 4122 UUID": java_uuid is a function of the XUID alone, 16
   bytes, version nibble 5, variant bits 10, every other bit taken from SHA-1("FloodgateXUID:" ++ decimal) *)
Theorem C40_uuid_bits : forall x,
  let s := sha1 (uuid_preimage x) in
  let u := java_uuid x in
  length u = 16%nat /\ wf_bytes u /\
  nth 6 u 0 / 16 = 5 /\ nth 6 u 0 mod 16 = nth 6 s 0 mod 16 /\
  nth 8 u 0 / 64 = 2 /\ nth 8 u 0 mod 64 = nth 8 s 0 mod 64 /\
  (forall i, (i < 16)%nat -> i <> 6%nat -> i <> 8%nat -> nth i u 0 = nth i s 0).
Proof. exact uuid_bits. Qed.
Print Assumptions C40_uuid_bits.

(* "different XUIDs map to different UUIDs", the provable part: the hashed pre-images differ
   (decimal printing is injective on all integers) *)
Theorem C40_preimage_injective : forall x y, uuid_preimage x = uuid_preimage y -> x = y.
Proof. exact preimage_injective. Qed.
Print Assumptions C40_preimage_injective.

(* ... and the rest under its cryptographic premise: no collision of the truncated, re-stamped SHA-1.
   PARTIAL: the premise is collision resistance of 122 bits of SHA-1; it is not proved (it cannot be), the
   harness checks distinctness over the XUIDs it generates. *)
Theorem C40_uuid_distinct_under_collision_resistance :
  (forall a b : bytes, set_version_variant (sha1 a) = set_version_variant (sha1 b) -> a = b) ->
  forall x y, java_uuid x = java_uuid y -> x = y.
Proof. exact uuid_distinct_under_cr. Qed.
Print Assumptions C40_uuid_distinct_under_collision_resistance.

Example C40_nonvacuous_names :
  java_name [95; 37; 115] [83; 116; 101; 118; 101; 32; 49] = [95; 83; 116; 101; 118; 101; 95; 49] /\
  java_name [] [] = [95] /\
  java_name [37; 115] [230; 176; 180; 255; 97] = [95; 95; 97] /\
  length (java_name [95; 37; 115] (repeat 97 40)) = 16%nat.
Proof. exact name_examples. Qed.
Example C40_nonvacuous_uuid :
  java_uuid 2535412345678901 <> java_uuid 2535412345678902 /\
  nth 6 (java_uuid 2535412345678901) 0 / 16 = 5 /\ nth 8 (java_uuid 2535412345678901) 0 / 64 = 2.
Proof. exact uuid_example. Qed.
