(* C41 — Connect session principal fields are extracted exactly or rejected.
   Only statements and `exact`; the proofs are in Proofs/C41.v.
   [extract]     : Model/Principal.v, transcription of the scan loop of ExtractSessionPrincipalWire and of
                   the protowire functions it calls (ConsumeTag/Varint/Bytes/FieldValue, recursion budget 10000);
   [ref_extract] : parse the whole region with the reference parser of Base/ProtoWire.v (written from the
                   encoding specification), then read fields 6..12 declaratively (last value wins).
   [u] is the unknown-field region of the decoded Session; [wf_bytes u] says its elements are bytes (< 256). *)
From Coq Require Import List NArith ZArith.
From Verif Require Import Base.Hex Base.ProtoWire Model.Principal Proofs.C41.
Import ListNotations.
Open Scope N_scope.

(* "the Bedrock principal fields the proxy extracts equal those a reference protobuf parser reads
   (last value wins for scalars)" — for EVERY byte string, including every malformed one. *)
Theorem C41_agree : forall u, wf_bytes u -> extract u = ref_extract u.
Proof. exact C41_agree_proof. Qed.
Print Assumptions C41_agree.

(* "the proposal is rejected ... when it carries a second envelope, an empty or oversized envelope, a
   principal field with the wrong wire type, malformed field encoding, or an envelope without a 16-byte
   nonce" — and in no other case. must_reject u =
     malformed u || has_wrong_type u || second_envelope u || some_bad_envelope_size u || envelope_without_nonce u,
   each clause a decidable predicate over the reference parse of u (Model/Principal.v). *)
Theorem C41_reject_iff : forall u, wf_bytes u -> (extract u = RErr <-> must_reject u = true).
Proof. exact C41_reject_iff_proof. Qed.
Print Assumptions C41_reject_iff.

(* "never silently downgraded to 'no principal'": (nil, nil) is returned only when no field 6..12 occurs. *)
Theorem C41_never_downgrades : forall u, wf_bytes u -> has_field_6_12 u = true -> extract u <> ROk None.
Proof. exact C41_never_downgrades_proof. Qed.
Print Assumptions C41_never_downgrades.

(* The fuel of the model's loops is not an observable: any fuel above the length gives the same result
   (so [RErr] never stands for "out of fuel"). *)
Theorem C41_fuel_irrelevant : forall u f, wf_bytes u -> (length u < f)%nat -> extract_fuel f u = extract u.
Proof. exact C41_fuel_proof. Qed.
Print Assumptions C41_fuel_irrelevant.

(* Reading note made explicit: ConnectSessionNonce is a [16]byte that is filled only together with an
   envelope; a proposal without envelope yields sixteen zero bytes whatever field 9 carries. *)
Theorem C41_nonce_only_with_envelope : forall u p, wf_bytes u ->
  extract u = ROk (Some p) -> p_envelope p = [] -> p_nonce p = zeros16.
Proof. exact C41_nonce_only_with_envelope_proof. Qed.
Print Assumptions C41_nonce_only_with_envelope.

(* Non-vacuity: a complete v2 proposal is accepted with exactly its fields; a second envelope, a
   varint-typed envelope, a truncation and a missing nonce are rejected; a v1 proposal has no principal. *)
Example C41_nonvacuous_accept :
  wf_bytes ex_full /\ has_field_6_12 ex_full = true /\ must_reject ex_full = false /\
  extract ex_full = ROk (Some (mkP 2 [] [] [1;2;3;4;5;6;7;8;9;10;11;12;13;14;15;16] 0 0 [97; 46; 98])).
Proof. exact ex_full_ok. Qed.
Example C41_nonvacuous_reject :
  must_reject (ex_full ++ [98; 1; 99]) = true /\ extract (ex_full ++ [98; 1; 99]) = RErr /\
  must_reject (ex_full ++ [96; 1]) = true /\ extract (ex_full ++ [96; 1]) = RErr /\
  must_reject (removelast ex_full) = true /\ extract (removelast ex_full) = RErr /\
  must_reject [48; 2; 98; 1; 99] = true /\ extract [48; 2; 98; 1; 99] = RErr.
Proof. exact ex_rejected. Qed.
Example C41_nonvacuous_v1 : has_field_6_12 [40; 1; 106; 0] = false /\ extract [40; 1; 106; 0] = ROk None.
Proof. exact ex_v1. Qed.
