(* C41 — statements (in progress) *)
From Coq Require Import List NArith ZArith.
From Verif Require Import Base.Hex Base.ProtoWire Model.Principal Proofs.C41.
