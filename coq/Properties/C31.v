(* C31 — Lite forwards the connection unchanged apart from configured rewrites.
   "Once a Lite route is chosen, the backend receives an optional PROXY protocol header carrying the
    client's real address (only if the route enables it), then the client's handshake exactly as sent
    unless virtual-host rewriting or TCPShield real-IP applies, then every further client byte unchanged,
    and the client receives every backend byte unchanged."
   Only statements and `exact`; the proofs are in Proofs/C31.v.  All statements are about
   Model/LiteForward.v: impl_flow is the transcription of the code (ReplaceAll included), spec_flow
   uses the same host-part-only virtual-host rewrite (they coincide since fix d2ccd45; the pre-fix
   ReplaceAll variant survives as old_impl_mvh in clearly labelled historical theorems).

   Reading guide:  frame p = canonical VarInt length ++ p;  classify/lite_flow take the WHOLE client
   byte stream; frame_ok p = 0 < |p| <= 2097151; is_forward_state n = n is 2 (login) or 3 (transfer);
   the "*" route matches every host (since fix 0f43e55 also one containing a line feed). *)
From Coq Require Import List Arith NArith Bool.
From Verif Require Import Base.Hex Base.VarInt Model.LiteForward Proofs.C31.
Import ListNotations.
Open Scope N_scope.

(* Clause "then the client's handshake exactly as sent unless virtual-host rewriting or TCPShield
   real-IP applies, then every further client byte unchanged" (and "optional PROXY header" in front):
   for every route, client address, time, handshake payload p the decoder accepts (left-over bytes
   [extra] included) and every tail [rest]: if no rewrite fires, the backend stream is the PROXY prefix,
   then the client's frame byte for byte, then rest.  Stated for the code (impl_flow). *)
Theorem C31_identity_when_no_rewrite : forall r ca now p h extra rest,
  frame_ok p -> dec_handshake_payload p = Some (h, extra) -> is_forward_state (hs_next h) = true ->
  rewrite_flag impl_mvh r (hs_addr h) = false ->
  impl_flow r ca now (frame p ++ rest) = FlowForward (proxy_prefix r ca ++ frame p ++ rest).
Proof. exact (identity_when_no_rewrite impl_mvh). Qed.
Print Assumptions C31_identity_when_no_rewrite.

(* no route option => no rewrite and no header: the backend sees exactly the client's bytes *)
Theorem C31_plain_route_is_transparent : forall r ca now p h extra rest,
  r_proxy r = false -> r_mvh r = false -> r_realip r = false ->
  frame_ok p -> dec_handshake_payload p = Some (h, extra) -> is_forward_state (hs_next h) = true ->
  impl_flow r ca now (frame p ++ rest) = FlowForward (frame p ++ rest).
Proof.
  intros r ca now p h extra rest Hp Hm Hr Hf Hd Hn.
  unfold impl_flow. rewrite (identity_when_no_rewrite impl_mvh r ca now p h extra rest Hf Hd Hn).
  - rewrite no_proxy_no_prefix by exact Hp. reflexivity.
  - apply no_options_no_rewrite; assumption.
Qed.
Print Assumptions C31_plain_route_is_transparent.

(* Clause "unless virtual-host rewriting or TCPShield real-IP applies": when a rewrite fires the
   backend receives one canonical frame whose payload decodes — with the same decoder, no left-over
   bytes — to the client's protocol, port and next state with ONLY the address replaced by a', followed
   by rest.  (Premises: the new address and payload stay within the decoder's limits.)  For the code. *)
Theorem C31_rewrite_only_address : forall r ca now p h extra rest,
  wf_bytes p -> frame_ok p -> dec_handshake_payload p = Some (h, extra) -> is_forward_state (hs_next h) = true ->
  rewrite_flag impl_mvh r (hs_addr h) = true ->
  let a' := new_address impl_mvh r ca now (hs_addr h) in
  let p' := enc_handshake_payload (set_addr h a') in
  len a' <= max_string -> len p' <= max_frame ->
  impl_flow r ca now (frame p ++ rest) = FlowForward (proxy_prefix r ca ++ frame p' ++ rest) /\
  read_frame (frame p' ++ rest) = FPayload p' rest /\
  dec_handshake_payload p' = Some (mkHs (hs_proto h) a' (hs_port h) (hs_next h), []).
Proof. exact (rewrite_only_address impl_mvh). Qed.
Print Assumptions C31_rewrite_only_address.

(* the same for the specified rewrite *)
Theorem C31_rewrite_only_address_spec : forall r ca now p h extra rest,
  wf_bytes p -> frame_ok p -> dec_handshake_payload p = Some (h, extra) -> is_forward_state (hs_next h) = true ->
  rewrite_flag spec_mvh r (hs_addr h) = true ->
  let a' := new_address spec_mvh r ca now (hs_addr h) in
  let p' := enc_handshake_payload (set_addr h a') in
  len a' <= max_string -> len p' <= max_frame ->
  spec_flow r ca now (frame p ++ rest) = FlowForward (proxy_prefix r ca ++ frame p' ++ rest) /\
  read_frame (frame p' ++ rest) = FPayload p' rest /\
  dec_handshake_payload p' = Some (mkHs (hs_proto h) a' (hs_port h) (hs_next h), []).
Proof. exact (rewrite_only_address spec_mvh). Qed.
Print Assumptions C31_rewrite_only_address_spec.

(* what the new address is: modifyVirtualHost first (when the cleaned host differs from the backend
   host under case folding), then the TCPShield form host///client///unixtime *)
Theorem C31_new_address : forall mvh r ca now addr,
  new_address mvh r ca now addr =
  let a1 := if r_mvh r && mvh_applies (r_backend_host r) addr then mvh (r_backend_host r) addr else addr in
  if r_realip r && is_tcpshield a1
  then tcpshield_apply a1 (addr_text (ep_ip ca) (ep_port ca)) now else a1.
Proof. exact new_address_cases. Qed.
Print Assumptions C31_new_address.

(* The specified virtual-host rewrite changes the host part only: the address is
   dots ++ cleaned host ++ post and becomes dots ++ backend host ++ post. *)
Theorem C31_spec_rewrites_host_part_only : forall backend addr,
  clear_virtual_host addr <> [] ->
  exists pre post,
    addr = pre ++ clear_virtual_host addr ++ post /\
    Forall (fun x => x = dot) pre /\
    spec_mvh backend addr = pre ++ backend ++ post.
Proof. exact spec_mvh_host_part_only. Qed.
Print Assumptions C31_spec_rewrites_host_part_only.

(* The code as it is now (strings.Replace(…, 1), fix d2ccd45) performs exactly the specified rewrite:
   the whole flow of the code equals the specified flow on every input. *)
Theorem C31_impl_eq_spec : forall r ca now cs, impl_flow r ca now cs = spec_flow r ca now cs.
Proof. exact impl_flow_eq_spec. Qed.
Print Assumptions C31_impl_eq_spec.

(* HISTORICAL — facts about the PRE-FIX code (strings.ReplaceAll, finding C31-1, fixed):
   it was not the host-part rewrite … *)
Theorem C31_prefix_code_rewrite_refuted :
  old_impl_mvh b127 fml <> spec_mvh b127 fml /\
  old_impl_mvh b127 [46] <> spec_mvh b127 [46] /\
  old_impl_mvh b127 (a_com ++ [0] ++ a_com ++ [0]) <> spec_mvh b127 (a_com ++ [0] ++ a_com ++ [0]).
Proof. exact old_impl_mvh_refuted. Qed.
Print Assumptions C31_prefix_code_rewrite_refuted.

(* … but differed from it only on the trigger class (cleaned host empty, or its text occurring again
   behind the host part). *)
Theorem C31_prefix_code_eq_spec_off_trigger : forall r ca now p h rest,
  r_mvh r && mvh_trigger (r_backend_host r) (hs_addr h) = false ->
  lite_backend_stream old_impl_mvh r ca now p h rest = lite_backend_stream spec_mvh r ca now p h rest.
Proof. exact old_impl_flow_eq_spec_off_trigger. Qed.
Print Assumptions C31_prefix_code_eq_spec_off_trigger.

(* Clause "then every further client byte unchanged": however the client's stream frame p ++ rest is
   cut into reads (chunks), consuming the frame through the bufio reader leaves some buffered bytes and
   some unread chunks, and emptyReadBuff + pipe deliver exactly rest. *)
Theorem C31_pipe_identity : forall chunks fr rest,
  concat chunks = fr ++ rest ->
  exists buf cs', consume (length fr) [] chunks = Some (buf, cs') /\ forwarded_tail buf cs' = rest.
Proof. exact pipe_identity. Qed.
Print Assumptions C31_pipe_identity.

(* Clause "and the client receives every backend byte unchanged" (io.Copy of the reads, in order). *)
Theorem C31_backend_bytes_reach_client : forall chunks s, concat chunks = s -> piped_back chunks = s.
Proof. exact pipe_back_identity. Qed.
Print Assumptions C31_backend_bytes_reach_client.

(* Clause "optional PROXY protocol header carrying the client's real address": the header the model
   writes, read by the reference v2 parser, gives back the client's IP (IPv4 possibly v4-mapped) and
   port and leaves the bytes behind the header untouched … *)
Theorem C31_proxy_header_carries_client_address : forall sip sport dip dport hdr rest,
  sport < 65536 -> dport < 65536 ->
  proxy_header sip sport dip dport = Some hdr ->
  exists src dst, parse_proxy_v2 (hdr ++ rest) = Some (src, dst, rest) /\
    same_ip (ep_ip src) sip = true /\ ep_port src = sport /\
    same_ip (ep_ip dst) dip = true /\ ep_port dst = dport.
Proof. exact proxy_header_roundtrip. Qed.
Print Assumptions C31_proxy_header_carries_client_address.

(* … "(only if the route enables it)" *)
Theorem C31_no_proxy_header_unless_enabled : forall r ca, r_proxy r = false -> proxy_prefix r ca = [].
Proof. exact no_proxy_no_prefix. Qed.
Print Assumptions C31_no_proxy_header_unless_enabled.

(* Failover (route with several backends, the leading ones refuse the dial): the stream the serving
   backend receives after the failed attempts r_failed r equals the stream of a direct connection to
   it — the configured rewrites are applied once, to the client's original handshake, with the serving
   backend's host; lite_flow (hence every theorem above) is defined through failover_stream. *)
Theorem C31_failover_rewrites_once : forall mvh r ca now p h rest,
  failover_stream mvh r ca now p h rest = lite_backend_stream mvh r ca now p h rest.
Proof. exact failover_rewrites_once. Qed.
Print Assumptions C31_failover_rewrites_once.

Theorem C31_failover_status_rewrites_once : forall mvh r ca now p h q,
  failover_status_stream mvh r ca now p h q =
  proxy_prefix r ca ++ handshake_frame mvh r ca now (r_cache r) p h ++ frame q.
Proof. exact failover_status_rewrites_once. Qed.
Print Assumptions C31_failover_status_rewrites_once.

(* Status pings use the same dialRoute: header, handshake (re-encoded when a rewrite fires or the ping
   cache is on), then the client's status request frame. *)
Theorem C31_status_ping_stream : forall mvh r ca now p h extra q rest0 rest,
  frame_ok p -> frame_ok q -> dec_handshake_payload p = Some (h, extra) -> hs_next h = 1 -> is_status_request q = true ->
  rest0 = frame q ++ rest ->
  lite_flow mvh r ca now (frame p ++ rest0) =
  FlowStatus (proxy_prefix r ca ++ handshake_frame mvh r ca now (r_cache r) p h ++ frame q).
Proof. exact status_flow. Qed.
Print Assumptions C31_status_ping_stream.

(* ---------- non-vacuity: the premises are met by concrete, non-trivial inputs ---------- *)

Definition ex_host : bytes := [109;99;46;101;120;97;109;112;108;101;46;99;111;109].     (* "mc.example.com" *)
Definition ex_hs : handshake := mkHs 763 (ex_host ++ fml) 25565 2.
Definition ex_p : bytes := enc_handshake_payload ex_hs ++ [7; 7].                       (* two left-over bytes *)
Definition ex_client : endpoint := mkEp [203; 0; 113; 9] 54321.
Definition ex_backend : endpoint := mkEp [127; 0; 0; 1] 25566.
Definition r_plain : route := mkRoute true false false false b127 ex_backend [].
Definition r_mvh_shield : route := mkRoute true true true false b127 ex_backend [[108;111;99;97;108;104;111;115;116]; b127].

Example C31_nonvacuous_identity :
  frame_ok ex_p /\ dec_handshake_payload ex_p = Some (ex_hs, [7; 7]) /\
  is_forward_state (hs_next ex_hs) = true /\
  rewrite_flag impl_mvh r_plain (hs_addr ex_hs) = false /\
  proxy_prefix r_plain ex_client <> [].
Proof. repeat split; try (vm_compute; congruence); vm_compute; discriminate. Qed.

Example C31_nonvacuous_rewrite :
  wf_bytes ex_p /\ frame_ok ex_p /\
  rewrite_flag impl_mvh r_mvh_shield (hs_addr ex_hs) = true /\
  new_address impl_mvh r_mvh_shield ex_client 1700000000 (hs_addr ex_hs) = b127 ++ fml /\
  len (new_address impl_mvh r_mvh_shield ex_client 1700000000 (hs_addr ex_hs)) <= max_string /\
  r_mvh r_mvh_shield && mvh_trigger (r_backend_host r_mvh_shield) (hs_addr ex_hs) = false.
Proof.
  repeat split; try (vm_compute; congruence).
  unfold wf_bytes. repeat constructor.
Qed.

Example C31_nonvacuous_tcpshield :
  let addr := ex_host ++ [47;47;47;49;46;50;46;51;46;52;58;53;47;47;47;57] in   (* host///1.2.3.4:5///9 *)
  new_address spec_mvh r_mvh_shield ex_client 1700000000 addr =
  b127 ++ [47;47;47;49;46;50;46;51;46;52;58;53;47;47;47;57] ++
  [47;47;47] ++ [50;48;51;46;48;46;49;49;51;46;57;58;53;52;51;50;49] ++ [47;47;47] ++
  [49;55;48;48;48;48;48;48;48;48].
Proof. vm_compute. reflexivity. Qed.

Example C31_nonvacuous_pipe :
  concat [[1;2;3]; [4]; []; [5;6;7;8]; [9]] = [1;2;3;4;5] ++ [6;7;8;9] /\
  consume 5 [] [[1;2;3]; [4]; []; [5;6;7;8]; [9]] = Some ([6;7;8], [[9]]).
Proof. split; reflexivity. Qed.

Example C31_nonvacuous_trigger :
  mvh_trigger b127 fml = true /\ mvh_trigger b127 (a_com ++ [0] ++ a_com ++ [0]) = true /\
  mvh_trigger b127 (a_com ++ fml) = false.
Proof. repeat split; vm_compute; reflexivity. Qed.

(* the failover theorem is not vacuous: one failed attempt before the serving backend, TCPShield
   address; re-preparing the handshake per attempt (the excluded behaviour) gives a different stream *)
Example C31_nonvacuous_failover :
  r_failed fo_route = [b127] /\
  let p := enc_handshake_payload fo_hs in
  let '(p', h') := fold_left (eager_step spec_mvh fo_route fo_client 1700000000) (r_failed fo_route) (p, fo_hs) in
  lite_backend_stream spec_mvh fo_route fo_client 1700000000 p' h' [1;2;3] <>
  failover_stream spec_mvh fo_route fo_client 1700000000 p fo_hs [1;2;3].
Proof. split; [reflexivity|exact eager_prepare_differs]. Qed.
