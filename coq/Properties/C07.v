(* C07 - Packets the proxy builds decode as intended by an independent vanilla decoder.
   The independent decoder is dec_L of the reference layouts in Model/Vanilla.v (written from the protocol
   specification).  Theorems: for every listed packet whose Go encoder the translator could translate, the vanilla
   decoder inverts gate's encoder at every registered (protocol, direction) - except the recorded deviation
   (1.7 arrays, finding C07-2, shown real below); for player-info updates, whose encoder is outside the
   fragment, the canonical encoder the property demands is inverted for EVERY action list in whatever order, and the
   hand model of the encoder as implemented is refuted on a non-canonical ActionSet (finding C07-1).
   Login start and Disconnect are decided by correspondence only (Check/C07.v). *)
From Coq Require Import List NArith ZArith String Bool.
From Verif Require Import Base.Hex Model.Layout Model.LayoutPrims Model.Vanilla Gen.PacketLayouts
  Proofs.C04_layout Proofs.C04_prims Proofs.GenLemmas Proofs.C07.
Import ListNotations.
Open Scope string_scope.

(* obligation on the regenerated translation: gate's Encode layout = the vanilla reference, resolved at every
   registered context outside the 1.7 deviation, and the reference is well formed; a referenced type that leaves
   the fragment fails it as well.  Names the failing type. *)
Theorem C07_encoders_match_references : c07_failing = [].
Proof. exact C07_layouts. Qed.
Print Assumptions C07_encoders_match_references.

(* handshake, status request/response/ping, keep-alive (int / VarInt / long eras), set compression, transfer,
   login plugin request/response, encryption request/response (1.8+), login success (text / int-array / raw uuid
   eras, properties, strict-error flag, session id), plugin message (1.8+), player-info remove:
   vanilla_decode (gate_encode v) = v, nothing left over, for every value of the reference's domain *)
Theorem C07_vanilla_decodes_gate_encoding :
  forall name enc dec ctxs van, In (Fragment name enc dec ctxs) packets -> find_ref name references = Some van ->
  forall c, In c ctxs -> covered name c = true ->
  forall v, in_dom LP lp_dom (van c) c v ->
  exists bs, enc_L LP enc c v = Ok bs /\ dec_L LP (van c) c bs = Ok (v, []).
Proof. exact C07_vanilla_decodes_lemma. Qed.
Print Assumptions C07_vanilla_decodes_gate_encoding.

(* every reference names a registered type (the table cannot silently go stale) *)
Theorem C07_references_are_registered : refs_present = true.
Proof. exact C07_refs_present. Qed.

(* the excluded contexts are a genuine deviation: a 1.7 plugin message with five data bytes, as gate encodes it,
   is not read back by the reference (one length byte instead of a short) *)
Theorem C07_17_arrays_refuted :
  in_dom LP lp_dom (van_plugin_message (mkctx 4 true)) (mkctx 4 true) pm17_value /\
  exists bs, enc_L LP enc_plugin_Message (mkctx 4 true) pm17_value = Ok bs /\
             dec_L LP (van_plugin_message (mkctx 4 true)) (mkctx 4 true) bs <> Ok (pm17_value, []).
Proof. exact C07_17_refuted_lemma. Qed.
Print Assumptions C07_17_arrays_refuted.

(* "player-info updates list each entry's action data in the protocol's fixed action order regardless of the order
   in which the API supplied the actions": the canonical encoder is inverted by the vanilla reader for EVERY acts *)
Theorem C07_upsert_spec_holds : forall acts c, In c ctxs_playerinfo_Upsert ->
  forall v, in_dom LP lp_dom (van_upsert acts c) c v ->
  exists bs, enc_L LP (spec_upsert acts c) c v = Ok bs /\ dec_L LP (van_upsert acts c) c bs = Ok (v, []).
Proof. exact C07_upsert_spec_lemma. Qed.
Print Assumptions C07_upsert_spec_holds.

Theorem C07_upsert_impl_eq_spec_off_trigger : forall acts c, canonical acts = acts -> impl_upsert acts c = spec_upsert acts c.
Proof. exact C07_upsert_impl_eq_spec_lemma. Qed.

(* the encoder as implemented (hand model of playerinfo.Upsert.Encode: entry data in ActionSet order) violates it:
   ActionSet [UpdateLatency; UpdateListed], latency 300, listed *)
Theorem C07_upsert_refuted :
  canonical [4; 3]%N <> [4; 3]%N /\
  in_dom LP lp_dom (van_upsert [4; 3]%N (mkctx 765 true)) (mkctx 765 true) ups_intended /\
  exists bs, enc_L LP (impl_upsert [4; 3]%N (mkctx 765 true)) (mkctx 765 true) ups_value = Ok bs /\
             van_upsert_decode (mkctx 765 true) bs <> Ok (ups_intended, []).
Proof. exact C07_upsert_refuted_lemma. Qed.
Print Assumptions C07_upsert_refuted.
