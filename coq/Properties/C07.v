(* C07 - Packets the proxy builds decode as intended by an independent vanilla decoder.
   The independent decoder is dec_L of the reference layouts in Model/Vanilla.v (written from the protocol
   specification).  Baseline: the tree with the fix commits d54f770 (player-info action order) and 6e760d1 (two-byte
   1.7 array length); both former findings are repaired, the theorems below are about TODAY's code:
   for every listed packet whose Go encoder the translator translates, the vanilla decoder inverts gate's encoder at
   EVERY registered (protocol, direction); for player-info updates, whose encoder is outside the fragment, the hand
   model impl_upsert of today's encoder is the canonical encoder (impl_is_spec) and is inverted for every action list
   in whatever order.  The defective PRE-FIX variants are kept (prefix_upsert, prefix_plugin_message_17) with their
   refutations stated as facts about the old code.  Login start and Disconnect: correspondence only (Check/C07.v). *)
From Coq Require Import List NArith ZArith String Bool.
From Verif Require Import Base.Hex Model.Layout Model.LayoutPrims Model.Vanilla Gen.PacketLayouts
  Proofs.C04_layout Proofs.C04_prims Proofs.GenLemmas Proofs.C07.
Import ListNotations.
Open Scope string_scope.

(* obligation on the regenerated translation: gate's Encode layout = the vanilla reference, resolved at every
   registered context, and the reference is well formed; a referenced type that leaves the fragment fails it as well.
   Names the failing type. *)
Theorem C07_encoders_match_references : c07_failing = [].
Proof. exact C07_layouts. Qed.
Print Assumptions C07_encoders_match_references.

(* handshake, status request/response/ping, keep-alive (int / VarInt / long eras), set compression, transfer,
   login plugin request/response, encryption request/response (incl. 1.7 framing), login success (text / int-array /
   raw uuid eras, properties, strict-error flag, session id), plugin message (incl. 1.7 framing), player-info remove:
   vanilla_decode (gate_encode v) = v, nothing left over, for every value of the reference's domain *)
Theorem C07_vanilla_decodes_gate_encoding :
  forall name enc dec ctxs van, In (Fragment name enc dec ctxs) packets -> find_ref name references = Some van ->
  forall c, In c ctxs ->
  forall v, in_dom LP lp_dom (van c) c v ->
  exists bs, enc_L LP enc c v = Ok bs /\ dec_L LP (van c) c bs = Ok (v, []).
Proof. exact C07_vanilla_decodes_lemma. Qed.
Print Assumptions C07_vanilla_decodes_gate_encoding.

(* every reference names a registered type (the table cannot silently go stale) *)
Theorem C07_references_are_registered : refs_present = true.
Proof. exact C07_refs_present. Qed.

(* "player-info updates list each entry's action data in the protocol's fixed action order regardless of the order
   in which the API supplied the actions": today's encoder is the canonical one ... *)
Theorem C07_upsert_impl_is_spec : forall acts c, impl_upsert acts c = spec_upsert acts c.
Proof. exact C07_upsert_impl_is_spec_lemma. Qed.

(* ... and is inverted by the vanilla reader for EVERY action list *)
Theorem C07_upsert_impl_holds : forall acts c, In c ctxs_playerinfo_Upsert ->
  forall v, in_dom LP lp_dom (van_upsert acts c) c v ->
  exists bs, enc_L LP (impl_upsert acts c) c v = Ok bs /\ dec_L LP (van_upsert acts c) c bs = Ok (v, []).
Proof. exact C07_upsert_impl_lemma. Qed.
Print Assumptions C07_upsert_impl_holds.

(* ---------- facts about the PRE-FIX code (kept for the record; not the code of today) ---------- *)

(* before d54f770: the encoder wrote the entry data in ActionSet order; equal to the canonical encoder only off the trigger *)
Theorem C07_prefix_upsert_eq_spec_off_trigger : forall acts c, canonical acts = acts -> prefix_upsert acts c = spec_upsert acts c.
Proof. exact C07_prefix_upsert_eq_spec_off_trigger_lemma. Qed.

(* ... and refuted on ActionSet [UpdateLatency; UpdateListed], latency 300, listed *)
Theorem C07_prefix_upsert_refuted :
  canonical [4; 3]%N <> [4; 3]%N /\
  in_dom LP lp_dom (van_upsert [4; 3]%N (mkctx 765 true)) (mkctx 765 true) ups_intended /\
  exists bs, enc_L LP (prefix_upsert [4; 3]%N (mkctx 765 true)) (mkctx 765 true) ups_value = Ok bs /\
             van_upsert_decode (mkctx 765 true) bs <> Ok (ups_intended, []).
Proof. exact C07_prefix_upsert_refuted_lemma. Qed.
Print Assumptions C07_prefix_upsert_refuted.

(* before 6e760d1: a 1.7 plugin message with five data bytes, as gate encoded it (one length byte), was not read back
   by the reference *)
Theorem C07_prefix_17_arrays_refuted :
  in_dom LP lp_dom (van_plugin_message (mkctx 4 true)) (mkctx 4 true) pm17_value /\
  exists bs, enc_L LP prefix_plugin_message_17 (mkctx 4 true) pm17_value = Ok bs /\
             dec_L LP (van_plugin_message (mkctx 4 true)) (mkctx 4 true) bs <> Ok (pm17_value, []).
Proof. exact C07_prefix_17_refuted_lemma. Qed.
Print Assumptions C07_prefix_17_arrays_refuted.
