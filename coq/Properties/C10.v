(* C10 - Offline identities match vanilla and only valid usernames are admitted.
   Only statements and `exact`; proofs are in Proofs/C10.v (and Proofs/C08.v for the login machine). *)
From Coq Require Import List NArith Bool.
From Verif Require Import Base.Hex Base.Md5 Model.OfflineId Proofs.C10 Model.Login Proofs.C08.
Import ListNotations.
Open Scope N_scope.

(* "An offline-mode player's UUID equals vanilla's name-based UUID of "OfflinePlayer:" + name (MD5,
   version 3, RFC 4122 variant) for every name": the model of OfflinePlayerUUID is v3bits of the MD5
   (executable, RFC 1321 vectors in Base/Md5.v) of the prefixed name; v3bits, for EVERY 16-byte value:
   bits 48-51 are 0011 (version 3), bits 64-65 are 10 (RFC 4122 variant), and each of the remaining
   122 bits is the digest's bit. (Bit k counts from the most significant bit of byte 0; this is
   exactly what Java's UUID.nameUUIDFromBytes does to the MD5 digest.) *)
Theorem C10_uuid_bits : forall d, length d = 16%nat ->
  let u := v3bits d in
  length u = 16%nat /\
  (uuid_bit u 48 = false /\ uuid_bit u 49 = false /\ uuid_bit u 50 = true /\ uuid_bit u 51 = true) /\
  (uuid_bit u 64 = true /\ uuid_bit u 65 = false) /\
  (forall k, (k < 128)%nat -> ~ In k [48;49;50;51;64;65]%nat -> uuid_bit u k = uuid_bit d k).
Proof. exact uuid_bits. Qed.
Print Assumptions C10_uuid_bits.

(* the same in numbers for byte strings: byte 6 = 0x3?, byte 8 in 0x80..0xbf, low parts and all other
   bytes untouched, result is again a byte string *)
Theorem C10_uuid_bytes : forall d, length d = 16%nat -> wf_bytes d ->
  let u := v3bits d in
  wf_bytes u /\
  nth 6 u 0 / 16 = 3 /\ nth 6 u 0 mod 16 = nth 6 d 0 mod 16 /\
  nth 8 u 0 / 64 = 2 /\ nth 8 u 0 mod 64 = nth 8 d 0 mod 64 /\
  (forall i, i <> 6%nat -> i <> 8%nat -> nth i u 0 = nth i d 0).
Proof. exact uuid_bytes. Qed.
Print Assumptions C10_uuid_bytes.

Theorem C10_offline_uuid_is_v3_md5 : forall name,
  offline_uuid name = v3bits (md5 (offline_prefix ++ name)) /\
  length (md5 (offline_prefix ++ name)) = 16%nat /\ wf_bytes (md5 (offline_prefix ++ name)).
Proof. exact offline_uuid_spec. Qed.
Print Assumptions C10_offline_uuid_is_v3_md5.

(* "only usernames of 2 to 16 characters from A-Z, a-z, 0-9 and underscore pass the login username
   check": the anchored regular expression ^[A-Za-z0-9_]{2,16}$ (reference matcher by derivatives,
   proved equivalent to the standard denotation `lang` in re_match_spec) accepts exactly those - for
   all byte strings, including newline, NUL and non-ASCII bytes. *)
Theorem C10_name_filter : forall s, name_matches s = true <->
  (2 <= length s <= 16)%nat /\ Forall (fun b => in_class b = true) s.
Proof. exact name_filter. Qed.
Print Assumptions C10_name_filter.

Theorem C10_name_class : forall b, in_class b = true <->
  (65 <= b <= 90 \/ 97 <= b <= 122 \/ 48 <= b <= 57 \/ b = 95).
Proof. exact in_class_spec. Qed.
Print Assumptions C10_name_class.

(* the reference matcher is the standard semantics of the regexp sub-language *)
Theorem C10_matcher_is_regexp_semantics : forall s r, re_match r s = true <-> lang r s.
Proof. exact re_match_spec. Qed.
Print Assumptions C10_matcher_is_regexp_semantics.

(* the login path (decode limits + regexp) admits a name iff it is valid, and then announces vanilla's
   offline UUID and the unchanged name *)
Theorem C10_login_admits_iff_valid : forall name,
  is_accepted (login_result_of name) = name_ok name /\
  (name_ok name = true -> login_result_of name = Accepted (offline_uuid name) name).
Proof. exact login_accepts_iff_valid. Qed.
Print Assumptions C10_login_admits_iff_valid.

Theorem C10_login_model_satisfies_predicate : forall name, holds_login name (login_result_of name) = true.
Proof. exact login_model_holds. Qed.
Print Assumptions C10_login_model_satisfies_predicate.

(* "When forwarding is disabled the backend sees that same offline UUID": in the login machine
   (Model/Login.v, shared with C08) every login success written for a connection in offline mode
   (configured offline, or forced offline by a pre-login handler) announces the offline identity -
   independently of the forwarding mode, "none" included; with "none" the backend derives the same
   UUID from the forwarded name. For all packet sequences. *)
Theorem C10_forwarding_none : forall c, effective_online c = false ->
  forall ops u, In (OSuccess u) (trace c ops) -> u = UOffline.
Proof. exact offline_announces_offline_uuid. Qed.
Print Assumptions C10_forwarding_none.

(* non-vacuity *)
Example C10_offline_login_example :
  effective_online cfg_offline = false /\
  outs cfg_offline [LoginStart true KNone] = [[OSetCompression; ORegister; OSuccess UOffline]].
Proof. exact offline_example. Qed.
Example C10_notch :
  offline_uuid [78;111;116;99;104] = [181;10;211;133;130;157;49;65;162;22;126;125;117;57;186;127].
Proof. exact offline_uuid_notch. Qed.
Example C10_filter_examples :
  name_matches [97;98] = true /\ name_matches [97] = false /\ name_matches [97;98;10] = false /\
  name_matches [97;0;98] = false /\ name_matches [97;195;169] = false /\
  name_matches (repeat 95 16) = true /\ name_matches (repeat 95 17) = false /\ name_matches [] = false.
Proof. exact name_filter_examples. Qed.
