From Coq Require Import List NArith Bool.
From Verif Require Import Base.Text Model.Glob Proofs.C29.
