(* C29 — Lite routes the first route whose host pattern matches the cleaned host.
   Only statements and `exact`; proofs are in Proofs/C29.v, definitions in Model/Glob.v.

   [Matches dot p h gs] is the declarative glob relation over code points ("*" any sequence, "?"
   exactly one, others literal; gs = text matched by each wildcard).  [dot] is the set of code points
   a wildcard may consume: [spec_dot] = all (the property), [impl_dot] = today's code (all: the
   regexp carries (?s) since fix 0f43e55), [old_dot] = the PRE-FIX code (all but U+000A, finding
   C29-1, fixed).  Every theorem about the matcher and the route search holds for any [dot], in
   particular for [impl_dot]; [impl_subst] is today's single-pass substituteBackendParams (fix
   23c72fc), [old_subst] the pre-fix sequential ReplaceAll (findings C29-2, C29-3, fixed). *)
From Coq Require Import List NArith Bool.
From Verif Require Import Base.Text Model.Glob Proofs.C29.
Import ListNotations.
Open Scope N_scope.

(* "'*' matches any sequence of characters and '?' exactly one": the executable matcher accepts
   only what the glob relation allows ... *)
Theorem C29_glob_sound : forall dot p h gs,
  glob_match dot p h = Some gs -> Matches dot p h gs.
Proof. exact glob_sound. Qed.
Print Assumptions C29_glob_sound.

(* ... and everything it allows. *)
Theorem C29_glob_complete : forall dot p h gs,
  Matches dot p h gs -> exists gs', glob_match dot p h = Some gs'.
Proof. exact glob_complete. Qed.
Print Assumptions C29_glob_complete.

(* "the text each wildcard matched": among all admissible splits the matcher returns the one with
   lexicographically least group lengths (earlier wildcards match as little as possible), and a
   split is determined by its lengths, so the returned groups are unique. *)
Theorem C29_glob_lazy_leftmost : forall dot p h gs gs',
  glob_match dot p h = Some gs -> Matches dot p h gs' ->
  lex_le (map (@length N) gs) (map (@length N) gs').
Proof. exact glob_lazy_leftmost. Qed.
Print Assumptions C29_glob_lazy_leftmost.

Theorem C29_groups_determined_by_lengths : forall dot p h gs gs',
  Matches dot p h gs -> Matches dot p h gs' ->
  map (@length N) gs = map (@length N) gs' -> gs = gs'.
Proof. exact matches_lengths_unique. Qed.
Print Assumptions C29_groups_determined_by_lengths.

(* "routed to the first configured route (in configuration order) having a host pattern that
   matches ... compared case-insensitively": the route search returns route i / pattern p only if p
   matches the (lowercased) host with the leftmost-lazy groups and NO earlier pattern - of an
   earlier route or earlier in the same route - matches in any way. *)
Theorem C29_first_route : forall dot h rs i p gsb,
  find_route dot h rs = Some (i, p, gsb) ->
  exists r l1 l2 gs,
    nth_error rs (N.to_nat i) = Some r /\ fst r = l1 ++ p :: l2
    /\ gsb = map utf8_encode gs
    /\ pat_matches dot h p gs
    /\ (forall gs', pat_matches dot h p gs' -> lex_le (map (@length N) gs) (map (@length N) gs'))
    /\ (forall q, In q l1 -> forall gs', ~ pat_matches dot h q gs')
    /\ (forall k r', (k < N.to_nat i)%nat -> nth_error rs k = Some r' ->
          forall q, In q (fst r') -> forall gs', ~ pat_matches dot h q gs').
Proof. exact first_route. Qed.
Print Assumptions C29_first_route.

(* "A host matching no route is closed without dialing any backend": no result means that no
   pattern of any route matches, and the outcome is class 1 with an empty candidate list. *)
Theorem C29_no_route_no_dial : forall dot subst raw rs,
  find_route dot (clean_host raw) rs = None ->
  (forall r q, In r rs -> In q (fst r) -> forall gs, ~ pat_matches dot (clean_host raw) q gs)
  /\ route_outcome dot subst raw rs = (1, None, []).
Proof. exact no_route. Qed.
Print Assumptions C29_no_route_no_dial.

Theorem C29_found_route_candidates : forall dot subst raw rs i p gs b bs,
  find_route dot (clean_host raw) rs = Some (i, p, gs) ->
  snd (nth (N.to_nat i) rs ([], [])) = b :: bs ->
  route_outcome dot subst raw rs = (0, Some (i, p, gs), map (fun t => subst t gs) (b :: bs)).
Proof. exact found_route_outcome. Qed.
Print Assumptions C29_found_route_candidates.

(* "with Forge ... suffixes ... removed": whatever follows the first NUL never influences routing *)
Theorem C29_clean_host_forge : forall h x, ~ In 0 h -> clean_host (h ++ 0 :: x) = clean_host h.
Proof. exact clean_host_forge. Qed.
Print Assumptions C29_clean_host_forge.

(* "the text each wildcard matched replaces $1, $2, ...": spec_subst tokenises the template into
   literals and references ("$" + maximal digit run naming an existing group); nothing else changes
   (rendering the tokens gives the template back), references are in range, and for the text of any
   canonical token list the result is the concatenation of literals and referenced groups -
   simultaneously, whatever the groups contain. *)
Theorem C29_subst_leaves_rest_alone : forall n t, render (parse n t) = t.
Proof. exact parse_render. Qed.
Print Assumptions C29_subst_leaves_rest_alone.

Theorem C29_subst_refs_in_range : forall n t ds,
  In (TRef ds) (parse n t) -> valid_index n ds = true.
Proof. exact parse_refs_valid. Qed.
Print Assumptions C29_subst_refs_in_range.

Theorem C29_subst_simultaneous : forall gs ts,
  canonical (N.of_nat (length gs)) ts ->
  spec_subst (render ts) gs = flat_map (expand gs) ts.
Proof. exact subst_simultaneous. Qed.
Print Assumptions C29_subst_simultaneous.

(* Today's code IS the spec: the matcher by definition of the regexp flags, the substitution for
   every template and fewer than 10^9 groups (paramIndex refuses runs of more than nine digits). *)
Theorem C29_match_impl_is_spec : forall s pattern,
  match_bytes impl_dot s pattern = match_bytes spec_dot s pattern.
Proof. exact match_impl_is_spec. Qed.
Print Assumptions C29_match_impl_is_spec.

Theorem C29_subst_impl_is_spec : forall t gs,
  N.of_nat (length gs) < 1000000000 -> impl_subst t gs = spec_subst t gs.
Proof. exact subst_impl_is_spec. Qed.
Print Assumptions C29_subst_impl_is_spec.

Theorem C29_impl_subst_simultaneous : forall gs ts,
  N.of_nat (length gs) < 1000000000 ->
  canonical (N.of_nat (length gs)) ts ->
  impl_subst (render ts) gs = flat_map (expand gs) ts.
Proof. exact impl_subst_simultaneous. Qed.
Print Assumptions C29_impl_subst_simultaneous.

(* on the three inputs of the fixed findings today's code gives the property's answer *)
Theorem C29_impl_on_former_probes :
  match_bytes impl_dot host_lf pat_lf = Some [[97; 10; 98]]
  /\ impl_subst [36; 50] [[120]; [36; 49]] = [36; 49]
  /\ impl_subst [104; 36; 49; 57] [[120]; [121]] = [104; 36; 49; 57].
Proof. split; [exact impl_match_probe|]. destruct impl_subst_probes as [A [B _]]. split; assumption. Qed.
Print Assumptions C29_impl_on_former_probes.

(* Facts about the PRE-FIX code (history of the fixed findings).
   Finding C29-1 (fixed by 0f43e55): the old matcher equals the spec on every host without a line
   feed and differs on the probe. *)
Theorem C29_old_match_eq_spec_off_trigger : forall s pattern,
  has_lf s = false -> match_bytes old_dot s pattern = match_bytes spec_dot s pattern.
Proof. exact old_match_eq_spec_off_trigger. Qed.
Print Assumptions C29_old_match_eq_spec_off_trigger.

Theorem C29_old_match_refuted :
  has_lf host_lf = true
  /\ match_bytes old_dot host_lf pat_lf = None
  /\ match_bytes spec_dot host_lf pat_lf = Some [[97; 10; 98]].
Proof. exact old_match_refuted. Qed.
Print Assumptions C29_old_match_refuted.

(* Findings C29-2 and C29-3 (fixed by 23c72fc): "$2" with ["x";"$1"] and "h$19" with ["x";"y"] under
   the old sequential ReplaceAll.  (Its agreement with the spec off the two triggers was checked
   exhaustively on a bounded domain only: Proofs.C29.old_subst_eq_spec_off_trigger_bounded.) *)
Theorem C29_old_subst_refuted :
  (let t := [36; 50] in let gs := [[120]; [36; 49]] in
   rescans t gs = true /\ old_subst t gs = [120] /\ spec_subst t gs = [36; 49])
  /\
  (let t := [104; 36; 49; 57] in let gs := [[120]; [121]] in
   ref_then_digit 2 t = true /\ old_subst t gs = [104; 120; 57] /\ spec_subst t gs = t).
Proof. exact old_subst_refuted. Qed.
Print Assumptions C29_old_subst_refuted.

(* non-vacuity: a pattern with two admissible splits, the lazy one is chosen; a route list in which
   the first route does not match, the second route's second pattern does, Forge suffix and dots
   are removed and $1 is substituted *)
Example C29_nonvacuous_matches :
  Matches spec_dot [42; 120; 42] [97; 120; 98; 120; 99] [[97]; [98; 120; 99]]
  /\ Matches spec_dot [42; 120; 42] [97; 120; 98; 120; 99] [[97; 120; 98]; [99]]
  /\ glob_match spec_dot [42; 120; 42] [97; 120; 98; 120; 99] = Some [[97]; [98; 120; 99]].
Proof. exact matches_example. Qed.

Example C29_nonvacuous_route :
  let rs := [([[120]], [[49]]); ([[97; 42]; [42; 46; 101; 120]], [[36; 49; 58; 50]])] in
  route_outcome spec_dot spec_subst [66; 46; 69; 88; 46; 0; 70] rs
  = (0, Some (1, [42; 46; 101; 120], [[98]]), [[98; 58; 50]]).
Proof. exact first_route_example. Qed.
