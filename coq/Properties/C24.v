(* C24 — Early plugin messages are delivered once, in order, with bounded buffering.
   Only statements and `exact`; proofs in Proofs/C24.v, machine in Model/PluginQueue.v
   (one step function for the config-phase queue QConfig and the pre-join queue QPreJoin). *)
From Coq Require Import List NArith Bool Sorted.
From Verif Require Import Base.Conc Model.PluginQueue Proofs.C24.
Import ListNotations.
Open Scope N_scope.

(* "The buffer is bounded by 1024 messages and 4 MiB": after EVERY history of client messages,
   flushes and switches (so in every reachable state) the queue holds at most 1024 messages, its
   byte counter is at most 4 MiB, and the counter is exactly the sum of the buffered body sizes. *)
Theorem bounded : forall k ops,
  let s := fst (run k init ops) in
  N.of_nat (length (q s)) <= 1024 /\ qbytes s <= 4194304 /\ qbytes s = sum_sizes (q s).
Proof. exact bounded_all_histories. Qed.
Print Assumptions bounded.

(* the maxima the harness records over a history obey the same bound *)
Theorem bounded_maxima : forall k ops,
  fst (run_max k init ops) <= 1024 /\ snd (run_max k init ops) <= 4194304.
Proof. intros k ops. exact (run_max_bounded k ops init wf_init). Qed.
Print Assumptions bounded_maxima.

(* "exceeding either disconnects the player instead of buffering further": in any state, a message
   that has to be queued (backend t not ready, latch not set) and would make the queue longer than
   1024 messages or larger than 4 MiB is NOT buffered: the queue is emptied, the latch is set and the
   player is disconnected (once: a connection already closed is not disconnected again) ... *)
Theorem overflow_disconnects : forall k s t size,
  opt_eqb (ready s) t = false -> ovf s = false ->
  (1024 < N.of_nat (length (q s)) + 1 \/ 4194304 < qbytes s + size) ->
  step k s (OMsg (Some t) size) =
    (mkSt [] 0 true (ready s) true (sent s + 1), if dead s then [] else [Disconnect]).
Proof. intros k s t size R O E. apply overflow_step; auto. apply exceeds_spec, E. Qed.
Print Assumptions overflow_disconnects.

(* ... while the latch is set nothing is buffered and nothing is written ... *)
Theorem overflow_latched : forall k s t size,
  opt_eqb (ready s) t = false -> ovf s = true ->
  q (fst (step k s (OMsg (Some t) size))) = q s /\ snd (step k s (OMsg (Some t) size)) = [] /\
  ovf (fst (step k s (OMsg (Some t) size))) = true.
Proof. exact latched_step. Qed.
Print Assumptions overflow_latched.

(* ... and in every history the player has been disconnected iff a Disconnect was emitted, and a set
   latch implies that it was. *)
Theorem overflow_disconnects_all_histories : forall k ops,
  let '(s, es) := run k init ops in
  (dead s = true <-> In Disconnect es) /\ (ovf s = true -> In Disconnect es).
Proof. exact overflow_disconnects_history. Qed.
Print Assumptions overflow_disconnects_all_histories.

(* "delivered to that backend exactly once, in the order sent, before any plugin message sent
   afterwards": for every history of one epoch towards backend t (messages for t, flushes towards
   t; ids = position in the client's stream) the ids written followed by the ids still queued are
   strictly increasing — no id twice, never out of order, nothing queued is overtaken by a later
   message — every write goes to t, and unless an overflow discarded the buffer, written ++ queued
   is exactly 0, 1, ..., sent-1: nothing is lost. *)
Theorem exactly_once_in_order : forall k t ops, Forall (epoch_op t) ops ->
  let '(s, es) := run k init ops in
  StronglySorted N.lt (delivered_ids es ++ ids (q s)) /\
  (ovf s = false -> delivered_ids es ++ ids (q s) = count_up (N.to_nat (sent s)) 0) /\
  Forall (fun e => match e with Deliver s' _ _ => s' = t | Disconnect => True end) es.
Proof. exact exactly_once_history. Qed.
Print Assumptions exactly_once_in_order.

(* "all interleavings of client plugin messages with backend readiness (flush)": the same, plus the
   bound, after ANY schedule (Base/Conc.v: list of goroutine indices) of any number of goroutines
   whose atomic steps are epoch operations — in particular the client read loop against the
   backend login goroutine's flush.  Each step is one critical section of h.mu. *)
Theorem exactly_once_in_order_all_schedules : forall k t (threads : list (list op)) sched,
  Forall (Forall (epoch_op t)) threads ->
  let r := Conc.run (map (map (act k)) threads) sched init in
  let s := fst (fst r) in let es := snd (fst r) in
  StronglySorted N.lt (delivered_ids es ++ ids (q s)) /\
  (ovf s = false -> delivered_ids es ++ ids (q s) = count_up (N.to_nat (sent s)) 0) /\
  Forall (fun e => match e with Deliver s' _ _ => s' = t | Disconnect => True end) es /\
  N.of_nat (length (q s)) <= 1024 /\ qbytes s <= 4194304.
Proof. exact exactly_once_schedules. Qed.
Print Assumptions exactly_once_in_order_all_schedules.

(* Non-vacuity: an epoch history whose queued messages 0,1 are flushed before the later message 2. *)
Example C24_nonvacuous : Forall (epoch_op 1) three_then_flush /\
  snd (run QConfig init three_then_flush) = [Deliver 1 0 10; Deliver 1 1 20; Deliver 1 2 30].
Proof. exact nonvacuous_epoch. Qed.

(* Boundaries: 1024 messages are buffered, the 1025th disconnects; 4 MiB is buffered, 4 MiB + 1 disconnects. *)
Example C24_boundary_1025 :
  let ops := repeat (OMsg (Some 1) 1) 1024 in
  N.of_nat (length (q (fst (run QPreJoin init ops)))) = 1024 /\ snd (run QPreJoin init ops) = [] /\
  snd (run QPreJoin init (ops ++ [OMsg (Some 1) 1; OFlush 1 FOk])) = [Disconnect].
Proof. exact boundary_1025. Qed.

Example C24_boundary_4MiB :
  snd (run QConfig init [OMsg (Some 1) 4194304; OFlush 1 FOk]) = [Deliver 1 0 4194304] /\
  snd (run QConfig init [OMsg (Some 1) 4194304; OMsg (Some 1) 1; OFlush 1 FOk]) = [Disconnect].
Proof. exact boundary_4MiB. Qed.
