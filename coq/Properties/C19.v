(* C19 — Backend handshake keeps the player's host first and forwarding data well-formed.
   Only statements and `exact`; proofs in Proofs/C19.v, C19_json.v, C19_main.v.
   Model: Model/HandshakeAddr.v (handshake_addr = serverConnection.handshakeAddr, server_address =
   the address startHandshake writes, first_part s = nth 0 (split_nul s), json_array = encoding/json
   of the property slice, bungee_parse = reference BungeeCord-side parser). *)
From Coq Require Import List NArith ZArith Bool Arith.
From Verif Require Import Base.Hex Base.Text Model.TryList Model.HandshakeAddr
  Proofs.C19 Proofs.C19_json Proofs.C19_main.
Import ListNotations.
Open Scope N_scope.

(* "The server address the proxy sends to a backend starts with the player's virtual host as its
   first NUL-separated part ... for every client type, Forge marker and custom address hook, unless
   legacy or BungeeGuard forwarding is used."  The hooks (server HandshakeAddresser ha, proxy
   BackendHandshakeAddresser ba) are arbitrary user code: the premises say that they themselves keep
   the first part; everything else is unconstrained (any virtual host string, any connection type,
   any forwarding inputs, either JSON printer). *)
Theorem C19_host_first :
  forall (ha : option (bytes -> bytes)) (ba : option (bytes -> option bytes)),
  (forall f x, ha = Some f -> nth 0 (split_nul (f x)) [] = nth 0 (split_nul x) []) ->
  (forall g x y, ba = Some g -> g x = Some y -> nth 0 (split_nul y) [] = nth 0 (split_nul x) []) ->
  forall pj fw ct c vhost r,
  used_forwarding ha fw = false ->
  handshake_addr ha ba pj fw ct c vhost = Some r ->
  nth 0 (split_nul r) [] = nth 0 (split_nul vhost) [].
Proof. exact host_first_split_thm. Qed.
Print Assumptions C19_host_first.

(* the same for the address startHandshake writes: the host is netutil.Host(player.virtualHost), or the
   backend's own host when that is empty *)
Theorem C19_server_address_host_first :
  forall (ha : option (bytes -> bytes)) (ba : option (bytes -> option bytes)),
  (forall f x, ha = Some f -> first_part (f x) = first_part x) ->
  (forall g x y, ba = Some g -> g x = Some y -> first_part y = first_part x) ->
  forall pj fw ct c r,
  used_forwarding ha fw = false ->
  server_address ha ba pj fw ct c = Some r ->
  nth 0 (split_nul r) [] = nth 0 (split_nul (player_vhost c)) [].
Proof. exact server_address_host_first. Qed.
Print Assumptions C19_server_address_host_first.

(* what the client typed arrives as A ++ ":port"; for A without colon or bracket (NUL parts and Forge
   markers allowed) the host handed on is A itself *)
Theorem C19_client_address_is_host : forall a port,
  has 58 a = false -> has 91 a = false -> has 93 a = false ->
  forallb is_digit port = true ->
  host_str (a ++ 58 :: port) = a.
Proof. exact host_str_port. Qed.
Print Assumptions C19_client_address_is_host.

(* "With legacy or BungeeGuard forwarding the address is exactly the backend address, the player's IP,
   the undashed UUID and a JSON property list (plus the BungeeGuard token property) separated by NULs" *)
Theorem C19_legacy_address : forall (ba : option (bytes -> option bytes)) fw ct c vhost,
  used_forwarding None fw = true ->
  handshake_addr None ba impl_props_json fw ct c vhost
  = Some (srv_addr c ++ [0] ++ host_str (remote c) ++ [0] ++ undashed (uuid c) ++ [0]
          ++ json_array ((match props c with Some l => l | None => [] end) ++ appended fw ct c)).
Proof. exact legacy_address_thm. Qed.
Print Assumptions C19_legacy_address.

(* Go's string escaping leaves no raw NUL in part four: always exactly four parts, whatever bytes the
   property strings contain *)
Theorem C19_four_parts : forall fw ct c,
  nz (srv_addr c) = true -> nz (host_str (remote c)) = true ->
  split_nul (forwarding_address (impl_props_json fw ct c) c)
  = [srv_addr c; host_str (remote c); undashed (uuid c); json_array (props_list fw ct c)].
Proof. exact impl_four_parts_thm. Qed.
Print Assumptions C19_four_parts.

(* "parseable by a BungeeCord backend": the reference parser (exactly four parts; a JSON array of
   {name,value,signature?} objects) returns the four values that went in.  Premise on the property
   strings: json_transparent = Go's encoder neither substitutes U+FFFD (invalid UTF-8) nor escapes
   U+2028/9 in them; quotes, backslashes, control characters (NUL), <>& and valid non-ASCII are covered. *)
Theorem C19_legacy_parse : forall fw ct c,
  nz (srv_addr c) = true -> nz (host_str (remote c)) = true ->
  forallb property_transparent (props_list fw ct c) = true ->
  bungee_parse (forwarding_address (impl_props_json fw ct c) c)
  = Some (srv_addr c, host_str (remote c), undashed (uuid c), props_list fw ct c).
Proof. exact impl_legacy_parse_thm. Qed.
Print Assumptions C19_legacy_parse.

(* the code as it is now (impl_props_json, after fix 5dc4db8) is the demanded behaviour (spec_props_json:
   always a JSON property list), for every hook, mode, client type and input *)
Theorem C19_impl_is_spec : forall ha ba fw ct c vhost,
  handshake_addr ha ba impl_props_json fw ct c vhost = handshake_addr ha ba spec_props_json fw ct c vhost.
Proof. exact address_impl_is_spec. Qed.
Print Assumptions C19_impl_is_spec.

(* facts about the PRE-fix code (prefix_props_json, before commit 5dc4db8; finding C19-1, fixed):
   it agreed with the demanded printer off the trigger ... *)
Theorem C19_prefix_eq_spec_off_trigger : forall ha ba fw ct c vhost,
  trigger_null fw ct c = false ->
  handshake_addr ha ba prefix_props_json fw ct c vhost = handshake_addr ha ba spec_props_json fw ct c vhost.
Proof. exact prefix_spec_address_thm. Qed.
Print Assumptions C19_prefix_eq_spec_off_trigger.

(* ... and on it (legacy forwarding, nil property slice of an offline-mode profile, nothing appended)
   part four was the literal null, which the reference parser rejects; the demanded printer gives [] *)
Theorem C19_prefix_null_refuted :
  trigger_null FwLegacy CtOther null_witness = true /\
  handshake_addr None None prefix_props_json FwLegacy CtOther null_witness [97]
    = Some (forwarding_address json_null null_witness) /\
  bungee_parse (forwarding_address json_null null_witness) = None /\
  bungee_parse (forwarding_address (spec_props_json FwLegacy CtOther null_witness) null_witness)
    = Some ([49;48;46;48;46;48;46;55;58;49], [49;46;50;46;51;46;52],
            undashed [0;1;2;3;4;5;6;7;8;9;10;11;12;13;14;15], []).
Proof. exact prefix_null_refuted. Qed.
Print Assumptions C19_prefix_null_refuted.

(* premises are satisfiable *)
Example C19_host_first_nonvacuous :
  let h := [112;108;97;121] in
  let v := h ++ [0;70;77;76;51;0] in
  let ha := Some (fun y : bytes => y ++ [0; 120]) in
  let ba := Some (fun y : bytes => Some (y ++ [0; 121])) in
  let c := mkCtx [98;58;49] [49;46;50;46;51;46;52;58;53] [] None (v ++ [58;50;53]) in
  used_forwarding ha FwLegacy = false /\
  server_address ha ba impl_props_json FwLegacy CtModernForge c = Some (h ++ [0;70;77;76;51;0]) /\
  player_vhost c = v.
Proof. exact host_first_nonvacuous. Qed.

Example C19_legacy_parse_nonvacuous :
  let p := mkProp [116;101;120;116;117;114;101;115] [101;121;74;48;34;92;60;10] [97;98;61] in
  let c := mkCtx [49;48;46;48;46;48;46;55;58;49] [91;58;58;49;93;58;52] (repeat 171 16) (Some [p])
                 [104;0;70;77;76;50;0;58;49] in
  nz (srv_addr c) = true /\ nz (host_str (remote c)) = true /\
  forallb property_transparent (props_list (FwBungeeGuard [115;0;34]) CtModernForge c) = true /\
  length (props_list (FwBungeeGuard [115;0;34]) CtModernForge c) = 3%nat.
Proof. exact legacy_parse_nonvacuous. Qed.
