From Verif Require Import Model.HandshakeAddr Proofs.C19.
