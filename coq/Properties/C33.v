(* C33 -- statements (in progress) *)
From Coq Require Import List NArith Bool.
From Verif Require Import Base.Hex Base.Ip Model.Trusted Proofs.C33.
