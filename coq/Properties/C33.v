(* C33 -- PROXY protocol headers are honoured only from trusted upstreams.
   Only statements and `exact`; the proofs are in Proofs/C33.v and Base/Ip.v.
   Model: Model/Trusted.v (netutil.ParseTrustedNetworks/Contains/Host, wrapConnTimeout's policy choice,
   go-proxyproto's reaction to the policy) over Base/Ip.v (netip.ParseAddr/ParsePrefix/Contains/Masked/Unmap). *)
From Coq Require Import List NArith Bool String.
From Verif Require Import Base.Hex Base.Ip Model.Trusted Proofs.C33.
Import ListNotations.
Open Scope N_scope.

(* "A PROXY protocol header changes the client address the proxy sees only when the TCP peer's address lies
   in the trusted networks; a header from any other peer makes the connection fail, and peers that send no
   header keep their own address."  For every trusted list, peer (None = nil net.Addr) and first bytes. *)
Theorem C33_header_only_from_trusted : forall t peer fb,
  effect (policy_of t peer) fb = spec_effect (spec_trusted_peer t peer) fb /\
  (fst (effect (policy_of t peer) fb) = RemoteHeaderSource -> contains_peer t peer = true /\ fb = HdrProxy) /\
  (contains_peer t peer = false -> fb <> NoHdr -> effect (policy_of t peer) fb = (RemotePeer, ReadFailsSuperfluous)) /\
  (fb = NoHdr -> effect (policy_of t peer) fb = (RemotePeer, ReadPayload)) /\
  (contains_peer t peer = true -> fb = HdrProxy -> effect (policy_of t peer) fb = (RemoteHeaderSource, ReadPayload)).
Proof. exact header_only_from_trusted. Qed.
Print Assumptions C33_header_only_from_trusted.

(* "CIDR membership": Prefix.Contains as Go computes it (xor/shift/mask) holds iff the address has no zone,
   the prefix's family, and the same leading plen bits (bit i counted from the least significant end). *)
Theorem C33_contains_iff_prefix_bits : forall p a,
  prefix_valid p = true -> wf_addr a -> wf_addr (paddr p) ->
  (contains p a = true <->
   zone a = [] /\ fam a = fam (paddr p) /\
   forall i, bit_len (fam a) - plen p <= i < bit_len (fam a) ->
             N.testbit (abits a) i = N.testbit (abits (paddr p)) i).
Proof. exact contains_iff_bits. Qed.
Print Assumptions C33_contains_iff_prefix_bits.

(* ... and for a whole trusted list produced by the parser (good_trusted, see C33_parsed_list_is_good):
   a host string is trusted iff it parses as an IP whose normal form (Unmap, WithZone("")) shares the
   family and the leading bits of some listed prefix. *)
Theorem C33_trusted_iff_prefix_bits : forall t host,
  good_trusted t ->
  (contains_str t host = true <->
   exists a p, parse_addr host = Some a /\ In p t /\
     fam (norm_peer_ip a) = fam (paddr p) /\
     forall i, bit_len (fam (paddr p)) - plen p <= i < bit_len (fam (paddr p)) ->
               N.testbit (abits (norm_peer_ip a)) i = N.testbit (abits (paddr p)) i).
Proof. exact trusted_iff_prefix_bits. Qed.
Print Assumptions C33_trusted_iff_prefix_bits.

Theorem C33_parsed_list_is_good : forall l t, parse_trusted l = Some t -> good_trusted t.
Proof. exact parse_trusted_good. Qed.
Print Assumptions C33_parsed_list_is_good.

(* "IPv4-mapped addresses normalized": for every dotted quad d that ParseAddr accepts, the peer text
   ::ffff:d (mapped_prefix = "::ffff:"), with or without a zone, is trusted exactly when d is. *)
Theorem C33_mapped_equivalence : forall t d a,
  parse_addr d = Some a -> fam a = V4 ->
  contains_str t (mapped_prefix ++ d) = contains_str t d /\
  forall z, z <> [] -> contains_str t ((mapped_prefix ++ d) ++ 37 :: z) = contains_str t d.
Proof. exact mapped_equivalence. Qed.
Print Assumptions C33_mapped_equivalence.

(* "zones normalized": appending %zone (37 = '%') to an IPv6 text changes nothing. *)
Theorem C33_zone_ignored : forall t s z a,
  mem 37 s = false -> z <> [] -> parse_addr s = Some a -> fam a = V6 ->
  contains_str t (s ++ 37 :: z) = contains_str t s.
Proof. exact zone_ignored. Qed.
Print Assumptions C33_zone_ignored.

(* "non-IP": a nil address, a host that ParseAddr rejects, in particular any host without '.' and ':'
   (unix socket paths, "pipe", "") always gets policy REJECT. *)
Theorem C33_non_ip_never_trusted : forall t,
  policy_of t None = REJECT /\
  (forall s, parse_addr (host_of s) = None -> policy_of t (Some s) = REJECT) /\
  (forall s, mem 46 (host_of s) = false -> mem 58 (host_of s) = false -> policy_of t (Some s) = REJECT).
Proof. exact non_ip_never_trusted. Qed.
Print Assumptions C33_non_ip_never_trusted.

(* "Parsing the trusted list accepts exactly valid IPs and CIDRs and rejects IPv4-mapped forms."
   47 = '/'.  An entry is accepted iff (no slash) ParseAddr accepts it and it is not IPv4-mapped, or
   (slash) ParsePrefix accepts it and its address is not IPv4-mapped; the list iff every trimmed entry is. *)
Theorem C33_parse_accepts_iff : forall s,
  (exists p, parse_network s = Some p) <->
  (mem 47 s = false /\ exists a, parse_addr s = Some a /\ is4in6 a = false) \/
  (mem 47 s = true /\ exists q, parse_prefix s = Some q /\ is4in6 (paddr q) = false).
Proof. exact parse_network_accepts_iff. Qed.
Print Assumptions C33_parse_accepts_iff.

Theorem C33_parse_list_accepts_iff : forall l,
  (exists t, parse_trusted l = Some t) <-> Forall (fun s => exists p, parse_network (trim_space s) = Some p) l.
Proof. exact parse_trusted_accepts_iff. Qed.
Print Assumptions C33_parse_list_accepts_iff.

(* surrounding ASCII space (\t \n \v \f \r ' ') is trimmed and nothing else *)
Theorem C33_trim_space_spec : forall l m r,
  spaces l -> spaces r ->
  (m = [] \/ exists c m' e, (m = c :: m' /\ ascii_space c = false) /\ (exists m'', m = m'' ++ [e] /\ ascii_space e = false)) ->
  trim_space (l ++ m ++ r) = m.
Proof. exact trim_space_spec. Qed.
Print Assumptions C33_trim_space_spec.

(* "results unmapped and masked": a plain IP becomes its full-length prefix without zone; a CIDR becomes
   ParsePrefix's result masked: not IPv4-mapped, host bits zero, and containing exactly the same addresses. *)
Theorem C33_parse_ip_result : forall s p, mem 47 s = false -> parse_network s = Some p ->
  exists a, parse_addr s = Some a /\ is4in6 a = false /\
            p = mkPrefix (strip_zone a) (bit_len (fam a)) /\ zone (paddr p) = [] /\
            prefix_valid p = true /\ wf_addr (paddr p).
Proof. exact parse_network_ip_result. Qed.
Print Assumptions C33_parse_ip_result.

Theorem C33_parse_cidr_result : forall s p, mem 47 s = true -> parse_network s = Some p ->
  exists q, parse_prefix s = Some q /\ is4in6 (paddr q) = false /\ p = masked q /\
            prefix_valid p = true /\ wf_addr (paddr p) /\ zone (paddr p) = [] /\ is4in6 (paddr p) = false /\
            (forall i, i < bit_len (fam (paddr p)) - plen p -> N.testbit (abits (paddr p)) i = false) /\
            (forall a, contains p a = contains q a).
Proof. exact parse_network_cidr_result. Qed.
Print Assumptions C33_parse_cidr_result.

(* Non-vacuity: the default configuration parses to 8 good prefixes; sample peers get the expected policy;
   the premises of the mapped/zone theorems are met by concrete texts. *)
Example C33_nonvacuous_defaults : good_trusted defaults /\
  (exists t, new_proxy_protocol [] = Some t /\ List.length t = 8%nat /\ defaults = t).
Proof. split; [exact defaults_good|exact defaults_parse]. Qed.

Example C33_nonvacuous_premises :
  (exists a, parse_addr (tx "10.1.2.3"%string) = Some a /\ fam a = V4) /\
  (exists a, parse_addr (tx "fe80::1"%string) = Some a /\ fam a = V6 /\ mem 37 (tx "fe80::1"%string) = false).
Proof. split; [exact mapped_premise_met|exact zone_premise_met]. Qed.
