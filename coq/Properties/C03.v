(* C03 — Primitive field codecs are exact inverses and reject truncated input.
   Only statements and `exact`; the proofs are in Proofs/C03*.v.  Model: Model/Prim.v (bytes.Reader
   semantics of ReadByte / one Read / io.ReadFull).  All theorems named roundtrip_T, prefix_rejected_T,
   bad_length_rejected_T, alloc_bounded_T are about the model of the code AS IT IS NOW (impl_X and
   the unprefixed definitions).  Findings C03-1..5 were repaired in /repo; old_X are the clearly
   labelled PRE-FIX variants, and the theorems named old_... are historical facts about them
   (refutation by a concrete input, equality with today's code off the trigger).
   roundtrip_T: decode (encode v ++ rest) = Ok (v, rest), i.e. same value and exactly the written
   bytes consumed.  prefix_rejected_T: every strict prefix p (encode v = p ++ q, q non-empty) is an
   error. *)
From Coq Require Import List NArith ZArith Bool.
From Verif Require Import Base.Hex Model.Prim Proofs.C03_Lib Proofs.C03_Num Proofs.C03_Bytes Proofs.C03.
Import ListNotations.
Open Scope N_scope.


(* VarInt (WriteVarInt / ReadVarInt; ReadVarIntReturnN's byte count).  Clause: "decodes what its
   encoder wrote back to the same value and consumes exactly the bytes written" (rest is returned
   untouched) and "a strict prefix of a valid encoding reports an error". *)

Theorem C03_roundtrip_varint :
  forall v rest, (- 2 ^ 31 <= v < 2 ^ 31)%Z ->
  read_varint (write_varint v ++ rest) = Ok (v, rest).
Proof. exact roundtrip_varint. Qed.

Theorem C03_prefix_rejected_varint :
  forall v p q, (- 2 ^ 31 <= v < 2 ^ 31)%Z -> q <> [] ->
  write_varint v = p ++ q -> exists e, read_varint p = Err e.
Proof. exact prefix_rejected_varint. Qed.

Theorem C03_consumed_varint :
  forall v rest, (- 2 ^ 31 <= v < 2 ^ 31)%Z ->
  read_varint_n (write_varint v ++ rest) = Ok ((v, len (write_varint v)), rest).
Proof. exact consumed_varint. Qed.

Example C03_ex_varint :
  (- 2 ^ 31 <= -2147483648 < 2 ^ 31)%Z /\
  write_varint (-2147483648) = [128; 128; 128; 128] ++ [8] /\
  read_varint (write_varint (-2147483648) ++ [7]) = Ok ((-2147483648)%Z, [7]) /\
  read_varint [128; 128; 128; 128] = Err EEOF.
Proof. exact ex_varint. Qed.

(* one Print Assumptions for all theorems of the section above (a pair is closed iff both components are) *)
Definition C03_section_1 := (C03_roundtrip_varint, C03_prefix_rejected_varint, C03_consumed_varint).
Print Assumptions C03_section_1.


(* Booleans and 8-bit integers (ReadByte based). *)

Theorem C03_roundtrip_bool :
  forall (v : bool) rest, True -> read_bool (write_bool v ++ rest) = Ok (v, rest).
Proof. exact roundtrip_bool. Qed.

Theorem C03_prefix_rejected_bool :
  forall (v : bool) p q, True -> q <> [] ->
  write_bool v = p ++ q -> exists e, read_bool p = Err e.
Proof. exact prefix_rejected_bool. Qed.

Theorem C03_roundtrip_uint8 :
  forall v rest, v < 256 -> read_uint8 (write_uint8 v ++ rest) = Ok (v, rest).
Proof. exact roundtrip_uint8. Qed.

Theorem C03_prefix_rejected_uint8 :
  forall v p q, v < 256 -> q <> [] ->
  write_uint8 v = p ++ q -> exists e, read_uint8 p = Err e.
Proof. exact prefix_rejected_uint8. Qed.

Theorem C03_roundtrip_int8 :
  forall v rest, (-128 <= v < 128)%Z -> read_int8 (write_int8 v ++ rest) = Ok (v, rest).
Proof. exact roundtrip_int8. Qed.

Theorem C03_prefix_rejected_int8 :
  forall v p q, (-128 <= v < 128)%Z -> q <> [] ->
  write_int8 v = p ++ q -> exists e, read_int8 p = Err e.
Proof. exact prefix_rejected_int8. Qed.

(* one Print Assumptions for all theorems of the section above (a pair is closed iff both components are) *)
Definition C03_section_2 := (C03_roundtrip_bool, C03_prefix_rejected_bool, C03_roundtrip_uint8, C03_prefix_rejected_uint8, C03_roundtrip_int8, C03_prefix_rejected_int8).
Print Assumptions C03_section_2.


(* Fixed-width integers of k bytes, k = 2, 4, 8 (uint16/32/64, float32/64 as bit patterns; int16/32/64,
   ReadInt).  impl_read_uint = today's reader (io.ReadFull): the clause "reports an error instead of
   returning a value padded with zeros" holds for it.  HISTORY: old_read_uint is the reader before fix
   commit 2257945 (reader.Read, finding C03-1, fixed): it equalled today's reader unless 0 < available
   < k and is refuted on that class. *)

Theorem C03_roundtrip_uint :
  forall k, (0 < k)%nat -> forall v rest, v < 256 ^ N.of_nat k ->
  impl_read_uint (N.of_nat k) (write_uint k v ++ rest) = Ok (v, rest).
Proof. exact roundtrip_uint. Qed.

Theorem C03_prefix_rejected_uint :
  forall k, (0 < k)%nat -> forall v p q, v < 256 ^ N.of_nat k -> q <> [] ->
  write_uint k v = p ++ q -> exists e, impl_read_uint (N.of_nat k) p = Err e.
Proof. exact prefix_rejected_uint. Qed.

Theorem C03_roundtrip_int :
  forall k, (0 < k)%nat -> forall v rest,
  (- Z.of_N (2 ^ (8 * N.of_nat k - 1)) <= v < Z.of_N (2 ^ (8 * N.of_nat k - 1)))%Z ->
  read_int (N.of_nat k) (write_int k v ++ rest) = Ok (v, rest).
Proof. exact roundtrip_int. Qed.

Theorem C03_prefix_rejected_int :
  forall k, (0 < k)%nat -> forall v p q,
  (- Z.of_N (2 ^ (8 * N.of_nat k - 1)) <= v < Z.of_N (2 ^ (8 * N.of_nat k - 1)))%Z -> q <> [] ->
  write_int k v = p ++ q -> exists e, read_int (N.of_nat k) p = Err e.
Proof. exact prefix_rejected_int. Qed.

Example C03_ex_uint64 :
  (0 < 8)%nat /\ 18446744073709551615 < 256 ^ N.of_nat 8 /\
  impl_read_uint 8 (write_uint 8 18446744073709551615 ++ [1]) = Ok (18446744073709551615, [1]) /\
  (exists e, impl_read_uint 8 [255; 255; 255] = Err e).
Proof. exact ex_uint64. Qed.

Example C03_ex_int32 :
  (- Z.of_N (2 ^ (8 * N.of_nat 4 - 1)) <= -2 < Z.of_N (2 ^ (8 * N.of_nat 4 - 1)))%Z /\
  write_int 4 (-2) = [255; 255; 255; 254] /\
  read_int 4 (write_int 4 (-2)) = Ok ((-2)%Z, []).
Proof. exact ex_int32. Qed.

Theorem C03_old_uint_off_trigger :
  forall w s, 0 < w -> (s = [] \/ w <= len s) ->
  old_read_uint w s = impl_read_uint w s.
Proof. exact old_uint_off_trigger. Qed.

Theorem C03_old_uint_on_trigger :
  forall w s, 0 < len s < w ->
  old_read_uint w s = Ok (be_val (s ++ zeros (w - len s)), []).
Proof. exact old_uint_on_trigger. Qed.

Theorem C03_old_uint16_prefix_accepted :
  sprefix [18] (write_uint 2 4660) /\ old_read_uint 2 [18] = Ok (4608, []) /\
  impl_read_uint 2 [18] = Err EUnexpectedEOF.
Proof. exact old_uint16_prefix_accepted. Qed.

(* one Print Assumptions for all theorems of the section above (a pair is closed iff both components are) *)
Definition C03_section_3 := (C03_roundtrip_uint, C03_prefix_rejected_uint, C03_roundtrip_int, C03_prefix_rejected_int, C03_old_uint_off_trigger, C03_old_uint_on_trigger, C03_old_uint16_prefix_accepted).
Print Assumptions C03_section_3.


(* UUIDs, both layouts (two longs; four ints).  HISTORY: ReadUUIDIntArray inherited finding C03-1
   through ReadInt. *)

Theorem C03_roundtrip_uuid :
  forall u rest, length u = 16%nat /\ wf_bytes u ->
  read_uuid (write_uuid u ++ rest) = Ok (u, rest).
Proof. exact roundtrip_uuid. Qed.

Theorem C03_prefix_rejected_uuid :
  forall u p q, length u = 16%nat /\ wf_bytes u -> q <> [] ->
  write_uuid u = p ++ q -> exists e, read_uuid p = Err e.
Proof. exact prefix_rejected_uuid. Qed.

Theorem C03_roundtrip_uuid_ints :
  forall u rest, length u = 16%nat /\ wf_bytes u ->
  impl_read_uuid_ints (write_uuid_ints u ++ rest) = Ok (u, rest).
Proof. exact roundtrip_uuid_ints. Qed.

Theorem C03_prefix_rejected_uuid_ints :
  forall u p q, length u = 16%nat /\ wf_bytes u -> q <> [] ->
  write_uuid_ints u = p ++ q -> exists e, impl_read_uuid_ints p = Err e.
Proof. exact prefix_rejected_uuid_ints. Qed.

Example C03_ex_uuid :
  let u := [1;2;3;4;5;6;7;8;9;10;11;12;13;14;15;255] in
  (length u = 16%nat /\ wf_bytes u) /\ write_uuid u = u /\ write_uuid_ints u = u /\
  impl_read_uuid_ints (u ++ [9]) = Ok (u, [9]).
Proof. exact ex_uuid. Qed.

Theorem C03_old_uuid_ints_prefix_accepted :
  let u := [1;2;3;4;5;6;7;8;9;10;11;12;13;14;15;16] in
  dom_uuid u /\ sprefix (firstn 13 u) (write_uuid_ints u) /\
  old_read_uuid_ints (firstn 13 u) = Ok ([1;2;3;4;5;6;7;8;9;10;11;12;13;0;0;0], []) /\
  impl_read_uuid_ints (firstn 13 u) = Err EUnexpectedEOF.
Proof. exact old_uuid_ints_prefix_accepted. Qed.

(* one Print Assumptions for all theorems of the section above (a pair is closed iff both components are) *)
Definition C03_section_4 := (C03_roundtrip_uuid, C03_prefix_rejected_uuid, C03_roundtrip_uuid_ints, C03_prefix_rejected_uuid_ints, C03_old_uuid_ints_prefix_accepted).
Print Assumptions C03_section_4.


(* Strings (WriteString / ReadStringMax max; ReadString is max = 65536).  Values are arbitrary byte
   strings (so in particular arbitrary UTF-8) of at most 4*max bytes.  Clause "negative or oversized
   length prefixes are rejected before allocation": len_string is ReadStringMax up to its make(); it
   returns the error, and whenever it returns a size that size is within the limit. *)

Theorem C03_roundtrip_string :
  forall max v rest, (Z.of_N (len v) <= max * 4)%Z /\ (Z.of_N (len v) < 2 ^ 31)%Z ->
  read_string_max max (write_string v ++ rest) = Ok (v, rest).
Proof. exact roundtrip_string. Qed.

Theorem C03_prefix_rejected_string :
  forall max v p q, (Z.of_N (len v) <= max * 4)%Z /\ (Z.of_N (len v) < 2 ^ 31)%Z ->
  q <> [] -> write_string v = p ++ q -> exists e, read_string_max max p = Err e.
Proof. exact prefix_rejected_string. Qed.

Theorem C03_bad_length_rejected_string :
  forall max l tail, (- 2 ^ 31 <= l < 2 ^ 31)%Z -> (l < 0 \/ max * 4 < l)%Z ->
  len_string max (write_varint l ++ tail) = Err (if (l <? 0)%Z then ENegLen else EOverLimit) /\
  read_string_max max (write_varint l ++ tail) = Err (if (l <? 0)%Z then ENegLen else EOverLimit).
Proof. exact bad_length_rejected_string. Qed.

Theorem C03_alloc_bounded_string :
  forall max s n r, len_string max s = Ok (n, r) -> (Z.of_N n <= max * 4)%Z.
Proof. exact alloc_bounded_string. Qed.

Example C03_ex_string :
  let v := [226; 130; 172; 97] in                         
  ((Z.of_N (len v) <= 1 * 4)%Z /\ (Z.of_N (len v) < 2 ^ 31)%Z) /\
  write_string v = [4; 226; 130; 172; 97] /\
  read_string_max 1 (write_string v ++ [0]) = Ok (v, [0]) /\
  read_string_max 1 [4; 226; 130] = Err EUnexpectedEOF.
Proof. exact ex_string. Qed.

Example C03_ex_bad_length :
  len_string 16 (write_varint (-1) ++ [1; 2]) = Err ENegLen /\
  len_string 16 (write_varint 65 ++ [1; 2]) = Err EOverLimit /\
  len_bytes 65536 (write_varint 65537) = Err EOverLimit /\
  len_bytes 65536 (write_varint 2147483647) = Err EOverLimit /\
  len_bytes17 (impl_write_fshort 2097051 ++ [1]) = Err EOverLimit /\
  read_string_array (write_varint (-1)) = Err ENegLen.
Proof. exact ex_bad_length. Qed.

(* one Print Assumptions for all theorems of the section above (a pair is closed iff both components are) *)
Definition C03_section_5 := (C03_roundtrip_string, C03_prefix_rejected_string, C03_bad_length_rejected_string, C03_alloc_bounded_string).
Print Assumptions C03_section_5.


(* Length-prefixed byte arrays (WriteBytes / ReadBytesLen max).  impl_read_bytes_len = today's reader
   (io.ReadFull).  HISTORY: old_read_bytes_len is the reader before fix commit 4d8a5a4 (one rd.Read,
   finding C03-2, fixed), refuted on: empty array at the end of the input, truncated array.  The length
   checks are shared by both. *)

Theorem C03_roundtrip_bytes :
  forall max v rest, (Z.of_N (len v) <= max)%Z /\ (Z.of_N (len v) < 2 ^ 31)%Z ->
  impl_read_bytes_len max (write_bytes v ++ rest) = Ok (v, rest).
Proof. exact roundtrip_bytes. Qed.

Theorem C03_prefix_rejected_bytes :
  forall max v p q, (Z.of_N (len v) <= max)%Z /\ (Z.of_N (len v) < 2 ^ 31)%Z ->
  q <> [] -> write_bytes v = p ++ q -> exists e, impl_read_bytes_len max p = Err e.
Proof. exact prefix_rejected_bytes. Qed.

Theorem C03_bad_length_rejected_bytes :
  forall max l tail, (- 2 ^ 31 <= l < 2 ^ 31)%Z -> (l < 0 \/ max < l)%Z ->
  len_bytes max (write_varint l ++ tail) = Err (if (l <? 0)%Z then ENegLen else EOverLimit) /\
  impl_read_bytes_len max (write_varint l ++ tail) = Err (if (l <? 0)%Z then ENegLen else EOverLimit) /\
  old_read_bytes_len max (write_varint l ++ tail) = Err (if (l <? 0)%Z then ENegLen else EOverLimit).
Proof. exact bad_length_rejected_bytes. Qed.

Theorem C03_alloc_bounded_bytes :
  forall max s n r, len_bytes max s = Ok (n, r) -> (Z.of_N n <= max)%Z.
Proof. exact alloc_bounded_bytes. Qed.

Theorem C03_old_bytes_off_trigger :
  forall max s,
  (forall n r, len_bytes max s = Ok (n, r) -> ~ (n = 0 /\ r = []) /\ ~ (0 < len r < n)) ->
  old_read_bytes_len max s = impl_read_bytes_len max s.
Proof. exact old_bytes_off_trigger. Qed.

Example C03_ex_bytes_empty_at_end :
  impl_read_bytes_len 65536 (write_bytes [] ++ []) = Ok ([], []) /\
  old_read_bytes_len 65536 (write_bytes [] ++ []) = Err EEOF.
Proof. exact ex_bytes_empty_at_end. Qed.

Theorem C03_old_bytes_empty_at_end :
  old_read_bytes_len default_max (write_bytes [] ++ []) = Err EEOF /\
  impl_read_bytes_len default_max (write_bytes [] ++ []) = Ok ([], []).
Proof. exact old_bytes_empty_at_end. Qed.

Theorem C03_old_bytes_prefix_accepted :
  sprefix [5;1;2] (write_bytes [1;2;3;4;5]) /\
  old_read_bytes_len default_max [5;1;2] = Ok ([1;2;0;0;0], []) /\
  impl_read_bytes_len default_max [5;1;2] = Err EUnexpectedEOF.
Proof. exact old_bytes_prefix_accepted. Qed.

(* one Print Assumptions for all theorems of the section above (a pair is closed iff both components are) *)
Definition C03_section_6 := (C03_roundtrip_bytes, C03_prefix_rejected_bytes, C03_bad_length_rejected_bytes, C03_alloc_bounded_bytes, C03_old_bytes_off_trigger, C03_old_bytes_empty_at_end, C03_old_bytes_prefix_accepted).
Print Assumptions C03_section_6.


(* 1.7-style arrays: extended Forge short (2-byte short, optional third byte) + bytes.
   impl_write_fshort / impl_read_fshort transcribe today's bit-operation code; fshort_impl_is_spec
   shows it is the arithmetic Forge / Velocity format spec_*.  HISTORY: old_* is the one-byte short
   before fix commit 6e760d1 (finding C03-3, fixed). *)

Theorem C03_roundtrip_fshort :
  forall n rest, n < 2 ^ 23 ->
  impl_read_fshort (impl_write_fshort n ++ rest) = Ok (n, rest).
Proof. exact roundtrip_fshort. Qed.

Theorem C03_prefix_rejected_fshort :
  forall n p q, n < 2 ^ 23 -> q <> [] ->
  impl_write_fshort n = p ++ q -> exists e, impl_read_fshort p = Err e.
Proof. exact prefix_rejected_fshort. Qed.

Theorem C03_fshort_impl_is_spec :
  (forall n, impl_write_fshort n = spec_write_fshort n) /\
  (forall low r, low < 65536 -> impl_fshort_tail low r = spec_fshort_tail low r) /\
  (forall s, wf_bytes (firstn 2 s) -> impl_read_fshort s = spec_read_fshort s).
Proof. exact fshort_impl_is_spec. Qed.

Theorem C03_roundtrip_bytes17 :
  forall ext v e rest, write_bytes17 ext v = Ok e ->
  impl_read_bytes17 (e ++ rest) = Ok (v, rest).
Proof. exact roundtrip_bytes17. Qed.

Theorem C03_prefix_rejected_bytes17 :
  forall ext v e p q, write_bytes17 ext v = Ok e -> q <> [] ->
  e = p ++ q -> exists er, impl_read_bytes17 p = Err er.
Proof. exact prefix_rejected_bytes17. Qed.

Theorem C03_write_bytes17_domain :
  forall ext v,
  (exists e, write_bytes17 ext v = Ok e) <-> len v <= (if ext then forge_max else 32767).
Proof. exact write_bytes17_domain. Qed.

Theorem C03_bad_length_rejected_bytes17 :
  forall n tail, n < 2 ^ 23 -> forge_max < n ->
  len_bytes17 (impl_write_fshort n ++ tail) = Err EOverLimit /\
  impl_read_bytes17 (impl_write_fshort n ++ tail) = Err EOverLimit.
Proof. exact bad_length_rejected_bytes17. Qed.

Theorem C03_alloc_bounded_bytes17 :
  forall rfs s n r, len_bytes17_with rfs s = Ok (n, r) -> n <= forge_max.
Proof. exact alloc_bounded_bytes17. Qed.

Example C03_ex_bytes17 :
  let v := repeat 7 300 in
  write_bytes17 true v = Ok ([1; 44] ++ v) /\
  impl_read_bytes17 (([1; 44] ++ v) ++ [5]) = Ok (v, [5]) /\
  impl_write_fshort 40000 = [156; 64; 1] /\
  impl_read_fshort [156; 64; 1; 9] = Ok (40000, [9]) /\
  (exists e, impl_read_fshort [156; 64] = Err e).
Proof. exact ex_bytes17. Qed.

Theorem C03_old_bytes17_300 :
  let v := repeat 7 300 in
  old_write_bytes17 true v = Ok (44 :: v) /\
  old_read_bytes17 (44 :: v) = Ok (repeat 7 44, repeat 7 256) /\
  write_bytes17 true v = Ok (1 :: 44 :: v) /\
  impl_read_bytes17 (1 :: 44 :: v) = Ok (v, []).
Proof. exact old_bytes17_300. Qed.

Theorem C03_old_fshort_differs :
  old_write_fshort 5 = [5] /\ spec_write_fshort 5 = [0; 5] /\ impl_write_fshort 5 = [0; 5].
Proof. exact old_fshort_differs. Qed.

(* one Print Assumptions for all theorems of the section above (a pair is closed iff both components are) *)
Definition C03_section_7 := (C03_roundtrip_fshort, C03_prefix_rejected_fshort, C03_fshort_impl_is_spec, C03_roundtrip_bytes17, C03_prefix_rejected_bytes17, C03_write_bytes17_domain, C03_bad_length_rejected_bytes17, C03_alloc_bounded_bytes17, C03_old_bytes17_300, C03_old_fshort_differs).
Print Assumptions C03_section_7.


(* Counted sequences: string arrays, VarInt arrays (ReadVarIntArray = ReadIntArray), profile
   properties.  The model's loop carries fuel 1 + remaining bytes; counted_loop_fuel_irrelevant shows
   that any larger fuel gives the same result (every element read consumes a byte), i.e. it is the
   unbounded Go loop.  Negative counts are rejected by the header before make(), the capacity passed to
   make() is at most MaxPreAllocSize.  HISTORY: before fix commit 94741d1 ReadProperties lacked the
   test and panicked (finding C03-4, fixed). *)

Theorem C03_roundtrip_string_array :
  forall vs rest,
  Forall (fun v => (Z.of_N (len v) <= default_max * 4)%Z /\ (Z.of_N (len v) < 2 ^ 31)%Z) vs /\
  (Z.of_nat (length vs) < 2 ^ 31)%Z ->
  read_string_array (write_strings vs ++ rest) = Ok (vs, rest).
Proof. exact roundtrip_string_array. Qed.

Theorem C03_prefix_rejected_string_array :
  forall vs p q,
  Forall (fun v => (Z.of_N (len v) <= default_max * 4)%Z /\ (Z.of_N (len v) < 2 ^ 31)%Z) vs /\
  (Z.of_nat (length vs) < 2 ^ 31)%Z ->
  q <> [] -> write_strings vs = p ++ q -> exists e, read_string_array p = Err e.
Proof. exact prefix_rejected_string_array. Qed.

Theorem C03_roundtrip_varint_array :
  forall vs rest,
  Forall (fun v => (- 2 ^ 31 <= v < 2 ^ 31)%Z) vs /\ (Z.of_nat (length vs) < 2 ^ 31)%Z ->
  read_varint_array (write_varint_array vs ++ rest) = Ok (vs, rest).
Proof. exact roundtrip_varint_array. Qed.

Theorem C03_prefix_rejected_varint_array :
  forall vs p q,
  Forall (fun v => (- 2 ^ 31 <= v < 2 ^ 31)%Z) vs /\ (Z.of_nat (length vs) < 2 ^ 31)%Z ->
  q <> [] -> write_varint_array vs = p ++ q -> exists e, read_varint_array p = Err e.
Proof. exact prefix_rejected_varint_array. Qed.

Theorem C03_roundtrip_properties :
  forall ps rest,
  Forall dom_property ps /\ (Z.of_nat (length ps) < 2 ^ 31)%Z ->
  impl_read_properties (write_properties ps ++ rest) = Ok (ps, rest).
Proof. exact roundtrip_properties. Qed.

Theorem C03_prefix_rejected_properties :
  forall ps p q,
  Forall dom_property ps /\ (Z.of_nat (length ps) < 2 ^ 31)%Z ->
  q <> [] -> write_properties ps = p ++ q -> exists e, impl_read_properties p = Err e.
Proof. exact prefix_rejected_properties. Qed.

Theorem C03_roundtrip_properties_old :
  forall ps rest,
  Forall dom_property ps /\ (Z.of_nat (length ps) < 2 ^ 31)%Z ->
  old_read_properties (write_properties ps ++ rest) = Ok (ps, rest).
Proof. exact roundtrip_properties_old. Qed.

Theorem C03_negative_count_rejected :
  forall (A : Type) (d : dec_t A) neg l tail, (- 2 ^ 31 <= l < 0)%Z ->
  len_counted neg (write_varint l ++ tail) = Err neg /\
  read_counted neg d (write_varint l ++ tail) = Err neg.
Proof. exact negative_count_rejected. Qed.

Theorem C03_alloc_bounded_counted :
  forall neg s l c r, len_counted neg s = Ok ((l, c), r) ->
  (0 <= c <= max_pre_alloc)%Z /\ (c <= l)%Z.
Proof. exact alloc_bounded_counted. Qed.

Theorem C03_counted_loop_fuel_irrelevant :
  (forall {A} (d : dec_t A), (forall s a r, d s = Ok (a, r) -> (length r < length s)%nat) ->
     forall f1 f2 n s, (length s < f1)%nat -> (length s < f2)%nat -> read_n d f1 n s = read_n d f2 n s) /\
  (forall s a r, read_string s = Ok (a, r) -> (length r < length s)%nat) /\
  (forall s a r, read_varint s = Ok (a, r) -> (length r < length s)%nat) /\
  (forall s a r, read_property s = Ok (a, r) -> (length r < length s)%nat) /\
  (forall s a r, read_key s = Ok (a, r) -> (length r < length s)%nat).
Proof. exact counted_loop_fuel_irrelevant. Qed.

Example C03_ex_properties :
  let ps := [([110], ([118], [])); ([97; 98], ([], [115; 105; 103]))] in
  (Forall dom_property ps /\ (Z.of_nat (length ps) < 2 ^ 31)%Z) /\
  write_properties ps = [2; 1; 110; 1; 118; 0; 2; 97; 98; 0; 1; 3; 115; 105; 103] /\
  impl_read_properties (write_properties ps ++ [4]) = Ok (ps, [4]) /\
  (exists e, impl_read_properties [2; 1; 110; 1; 118; 0] = Err e).
Proof. exact ex_properties. Qed.

Theorem C03_old_properties_negative_panics :
  forall tail, old_read_properties (write_varint (-1) ++ tail) = Err EPanic /\
  impl_read_properties (write_varint (-1) ++ tail) = Err ENegLen.
Proof. exact old_properties_negative_panics. Qed.

(* one Print Assumptions for all theorems of the section above (a pair is closed iff both components are) *)
Definition C03_section_8 := (C03_roundtrip_string_array, C03_prefix_rejected_string_array, C03_roundtrip_varint_array, C03_prefix_rejected_varint_array, C03_roundtrip_properties, C03_prefix_rejected_properties, C03_roundtrip_properties_old, C03_negative_count_rejected, C03_alloc_bounded_counted, C03_counted_loop_fuel_irrelevant, C03_old_properties_negative_panics).
Print Assumptions C03_section_8.


(* UTF strings (WriteUTF / ReadUTF).  HISTORY: the uint16 length goes through ReadUint16, so finding
   C03-1 reached it. *)

Theorem C03_roundtrip_utf :
  forall v rest, len v < 65536 -> impl_read_utf (write_utf v ++ rest) = Ok (v, rest).
Proof. exact roundtrip_utf. Qed.

Theorem C03_prefix_rejected_utf :
  forall v p q, len v < 65536 -> q <> [] ->
  write_utf v = p ++ q -> exists e, impl_read_utf p = Err e.
Proof. exact prefix_rejected_utf. Qed.

Theorem C03_alloc_bounded_utf :
  forall s n r, wf_bytes s ->
  (impl_read_uint 2 s = Ok (n, r) \/ old_read_uint 2 s = Ok (n, r)) -> n < 65536.
Proof. exact alloc_bounded_utf. Qed.

Example C03_ex_utf :
  len [104; 105] < 65536 /\ write_utf [104; 105] = [0; 2; 104; 105] /\
  impl_read_utf (write_utf [104; 105] ++ [1]) = Ok ([104; 105], [1]) /\
  (exists e, impl_read_utf [0] = Err e).
Proof. exact ex_utf. Qed.

Theorem C03_old_utf_prefix_accepted :
  sprefix [0] (write_utf []) /\ old_read_utf [0] = Ok ([], []) /\ impl_read_utf [0] = Err EUnexpectedEOF.
Proof. exact old_utf_prefix_accepted. Qed.

(* one Print Assumptions for all theorems of the section above (a pair is closed iff both components are) *)
Definition C03_section_9 := (C03_roundtrip_utf, C03_prefix_rejected_utf, C03_alloc_bounded_utf, C03_old_utf_prefix_accepted).
Print Assumptions C03_section_9.


(* Resource keys (WriteKey / ReadKey, arrays, minimal keys).  dom_key = valid key (ValidateKey) with a
   non-empty namespace whose text fits a string.  HISTORY: before fix commit 23e030f ReadMinimalKey
   forgot an explicit namespace (finding C03-5, fixed). *)

Theorem C03_roundtrip_key :
  forall k e rest, dom_key k -> write_key k = Ok e -> read_key (e ++ rest) = Ok (k, rest).
Proof. exact roundtrip_key. Qed.

Theorem C03_prefix_rejected_key :
  forall k e p q, dom_key k -> write_key k = Ok e -> q <> [] ->
  e = p ++ q -> exists er, read_key p = Err er.
Proof. exact prefix_rejected_key. Qed.

Theorem C03_write_key_total :
  forall k, dom_key k -> exists e, write_key k = Ok e.
Proof. exact write_key_total. Qed.

Theorem C03_roundtrip_key_array :
  forall ks e rest,
  Forall dom_key ks /\ (Z.of_nat (length ks) < 2 ^ 31)%Z -> write_key_array ks = Ok e ->
  read_key_array (e ++ rest) = Ok (ks, rest).
Proof. exact roundtrip_key_array. Qed.

Theorem C03_prefix_rejected_key_array :
  forall ks e p q,
  Forall dom_key ks /\ (Z.of_nat (length ks) < 2 ^ 31)%Z -> write_key_array ks = Ok e -> q <> [] ->
  e = p ++ q -> exists er, read_key_array p = Err er.
Proof. exact prefix_rejected_key_array. Qed.

Theorem C03_roundtrip_minimal_key :
  forall k rest, dom_key k /\ dom_string0 (key_minimal k) ->
  impl_read_minimal_key (write_minimal_key k ++ rest) = Ok (k, rest).
Proof. exact roundtrip_minimal_key. Qed.

Theorem C03_prefix_rejected_minimal_key :
  forall k p q, dom_key k /\ dom_string0 (key_minimal k) -> q <> [] ->
  write_minimal_key k = p ++ q -> exists e, impl_read_minimal_key p = Err e.
Proof. exact prefix_rejected_minimal_key. Qed.

Example C03_ex_key :
  let k := ([102; 111; 111], [98; 97; 114; 47; 122]) in       
  dom_key k /\ (dom_key k /\ dom_string0 (key_minimal k)) /\
  write_key k = Ok [9; 102; 111; 111; 58; 98; 97; 114; 47; 122] /\
  read_key [9; 102; 111; 111; 58; 98; 97; 114; 47; 122; 1] = Ok (k, [1]) /\
  impl_read_minimal_key (write_minimal_key k) = Ok (k, []) /\
  impl_read_minimal_key (write_minimal_key (minecraft, [120])) = Ok ((minecraft, [120]), []).
Proof. exact ex_key. Qed.

Theorem C03_old_minimal_key_namespace :
  let k := ([102;111;111], [98;97;114]) in          
  dom_minkey k /\
  old_read_minimal_key (write_minimal_key k) = Ok ((minecraft, [102;111;111;58;98;97;114]), []) /\
  impl_read_minimal_key (write_minimal_key k) = Ok (k, []).
Proof. exact old_minimal_key_namespace. Qed.

(* one Print Assumptions for all theorems of the section above (a pair is closed iff both components are) *)
Definition C03_section_10 := (C03_roundtrip_key, C03_prefix_rejected_key, C03_write_key_total, C03_roundtrip_key_array, C03_prefix_rejected_key_array, C03_roundtrip_minimal_key, C03_prefix_rejected_minimal_key, C03_old_minimal_key_namespace).
Print Assumptions C03_section_10.


(* All codecs of the code as it is now at once (codec_ok = exact inverse on the domain /\ every strict
   prefix rejected /\ encodings non-empty; Proofs/C03_Lib.v). *)

Theorem C03_all :
  codec_ok dom_varint write_varint read_varint /\
  codec_ok (fun _ => True) write_bool read_bool /\
  codec_ok (fun x => x < 256) write_uint8 read_uint8 /\
  codec_ok (fun z => (-128 <= z < 128)%Z) write_int8 read_int8 /\
  (forall k, (0 < k)%nat -> codec_ok (fun x => x < 256 ^ N.of_nat k) (write_uint k) (impl_read_uint (N.of_nat k))) /\
  (forall k, (0 < k)%nat ->
     codec_ok (fun z => (- Z.of_N (2 ^ (8 * N.of_nat k - 1)) <= z < Z.of_N (2 ^ (8 * N.of_nat k - 1)))%Z)
              (write_int k) (read_int (N.of_nat k))) /\
  codec_ok dom_uuid write_uuid read_uuid /\
  codec_ok dom_uuid write_uuid_ints (impl_read_uuid_ints) /\
  (forall max, codec_ok (dom_string max) write_string (read_string_max max)) /\
  (forall max, codec_ok (dom_bytes max) write_bytes (impl_read_bytes_len max)) /\
  codec_ok dom_fshort (impl_write_fshort) (impl_read_fshort) /\
  codec_ok (fun v => len v <= forge_max) (fun v => impl_write_fshort (len v) ++ v) (impl_read_bytes17) /\
  codec_ok (dom_list dom_string0) write_strings read_string_array /\
  codec_ok (dom_list dom_varint) write_varint_array read_varint_array /\
  codec_ok (dom_list dom_property) write_properties (impl_read_properties) /\
  codec_ok (fun v => len v < 65536) write_utf (impl_read_utf) /\
  codec_ok dom_key (fun k => write_string (key_string k)) read_key /\
  codec_ok (dom_list dom_key) (write_counted (fun k => write_string (key_string k))) read_key_array /\
  codec_ok dom_minkey write_minimal_key (impl_read_minimal_key).
Proof. exact C03_all_impl. Qed.

Print Assumptions C03_all.
