(* C26 — BungeeCord messaging channel behaves like BungeeCord (as ported by Velocity).
   Only statements and `exact`; proofs in Proofs/C26.v, model in Model/Bungee.v.
   spec_bungee = model all_fixed (BungeeCord/Velocity semantics), impl_bungee = model current (today's code:
   findings 1 and 6 repaired, 2/3/4 open), model none_fixed = the pre-fix variant;
   run_sub F st req oracle s args is the handler of sub-channel s after Process read its name. *)
From Coq Require Import List NArith Bool String.
From Verif Require Import Base.Hex Model.Bungee Check.C26 Proofs.C26.
Import ListNotations.
Open Scope N_scope.

(* "responses go to the right server connection in the expected binary layout": every answer of a query
   sub-channel travels on the requester's connection (owner, channel flavour), is the DataOutput encoding
   of a field list that starts with the sub-channel name, and reading it back with DataInput primitives
   (readUTF / readInt / readShort, all bytes consumed) returns exactly those fields whenever they fit
   their wire types (strings < 65536 bytes, int < 2^32, short < 2^16). *)
Theorem responses_well_formed : forall st req oracle s a o m d,
  s <> SForwardToPlayer ->
  In (EResponse o m d) (run_sub all_fixed st req oracle s a) ->
  exists fs, response_fields all_fixed st req s a = Some fs /\
             d = encode fs /\ o = p_name req /\ m = p_modern req /\
             (exists r, fs = FUtf (sub_name s) :: r) /\
             (Forall field_ok fs -> decode (map kind_of fs) d = Some fs).
Proof. exact responses_well_formed_proof. Qed.
Print Assumptions responses_well_formed.

Theorem decode_encode_roundtrip : forall fs, Forall field_ok fs -> decode (map kind_of fs) (encode fs) = Some fs.
Proof. exact decode_encode. Qed.
Print Assumptions decode_encode_roundtrip.

(* "forwarded payloads are passed on unchanged (channel name length-prefixed)": for every state, target,
   channel and body, each copy handed to a server by Forward and the one sent by ForwardToPlayer is
   byte-for-byte the payload P = UTF(channel) ++ short(len) ++ body that followed the target, and P
   starts with the length-prefixed channel. *)
Theorem forward_unchanged : forall st req oracle tg ch body,
  N.of_nat (List.length tg) < 65536 -> N.of_nat (List.length ch) < 65536 -> N.of_nat (List.length body) < 32768 ->
  let P := write_utf ch ++ write_u16 (N.of_nat (List.length body)) ++ body in
  read_utf P = Some (ch, write_u16 (N.of_nat (List.length body)) ++ body) /\
  (forall sv d, In (EForward sv d) (run_sub all_fixed st req oracle SForward (write_utf tg ++ P)) -> d = P) /\
  (forall o m d, In (EResponse o m d) (run_sub all_fixed st req oracle SForwardToPlayer (write_utf tg ++ P)) -> d = P).
Proof. exact forward_unchanged_proof. Qed.
Print Assumptions forward_unchanged.

(* History-level corollary: in a history of Forward requests through one responder, the bytes forwarded
   for each request are that request's own payload — a function of that request only, whatever came
   before or comes after (the responder keeps no state: model_history = map model). *)
Theorem forward_unchanged_history : forall st req oracle rs,
  Forall fwd_ok rs ->
  Forall2 (fun r o => fst o = true /\ forall sv d, In (EForward sv d) (snd o) -> d = fwd_payload r)
          rs (model_history all_fixed st req oracle s_BungeeCord (map fwd_request rs)).
Proof. exact forward_unchanged_history_proof. Qed.
Print Assumptions forward_unchanged_history.

(* "each target server receives a forwarded payload once" (dispatch layer): with distinct server names
   no server is addressed twice by one Forward, whatever the arguments; and ALL skips the requester's server. *)
Theorem one_per_server : forall st req oracle a,
  NoDup (map s_name (servers st)) ->
  NoDup (forwarded_to (run_sub all_fixed st req oracle SForward a)).
Proof. exact one_per_server_proof. Qed.
Print Assumptions one_per_server.

Theorem forward_all_skips_requesters_server : forall st req oracle tg r sv d,
  read_utf tg = Some (s_ALL, r) ->
  In (EForward sv d) (run_sub all_fixed st req oracle SForward tg) -> p_server req <> Some sv.
Proof. exact requester_server_skipped. Qed.
Print Assumptions forward_all_skips_requesters_server.

(* "player-targeted requests act on the named player": ForwardToPlayer answers on the named player's
   connection, kicks and ConnectOther hit the named player, GetPlayerServer / IPOther / UUIDOther report
   the named player's server / address / UUID. *)
Theorem targets_named_player : forall st req oracle a pn r p,
  read_utf a = Some (pn, r) -> find_player (players st) pn = Some p ->
  (forall o m d, In (EResponse o m d) (run_sub all_fixed st req oracle SForwardToPlayer a) ->
     o = p_name p /\ m = p_modern p) /\
  (forall s e, s = SKickPlayer \/ s = SKickPlayerRaw -> In e (run_sub all_fixed st req oracle s a) ->
     e = EOracleMiss \/ exists t, e = EKick (p_name p) t) /\
  (forall e, In e (run_sub all_fixed st req oracle SConnectOther a) -> exists sv, e = EConnect (p_name p) sv) /\
  (forall fs, response_fields all_fixed st req SGetPlayerServer a = Some fs ->
     exists sn, p_server p = Some sn /\ fs = [FUtf (sub_name SGetPlayerServer); FUtf (p_name p); FUtf sn]) /\
  (forall fs, response_fields all_fixed st req SIPOther a = Some fs ->
     fs = [FUtf (sub_name SIPOther); FUtf (p_name p); FUtf (p_host p); FInt (p_port p)]) /\
  (forall fs, response_fields all_fixed st req SUUIDOther a = Some fs ->
     fs = [FUtf (sub_name SUUIDOther); FUtf (p_name p); FUtf (p_uuid p)]).
Proof. exact targets_named_player_proof. Qed.
Print Assumptions targets_named_player.

Theorem message_targets_named_player : forall st req oracle s a e,
  s = SMessage \/ s = SMessageRaw -> In e (run_sub all_fixed st req oracle s a) ->
  e = EOracleMiss \/ (exists t, e = EMessage TAll t) \/
  (exists tg r p t, read_utf a = Some (tg, r) /\ find_player (players st) tg = Some p /\ e = EMessage (TPlayer (p_name p)) t).
Proof. exact message_targets_player. Qed.
Print Assumptions message_targets_named_player.

(* "unknown players or servers produce no response and no crash" *)
Theorem unknown_player_no_effect : forall st req oracle s a pn r,
  player_targeted s = true -> read_utf a = Some (pn, r) -> find_player (players st) pn = None ->
  run_sub all_fixed st req oracle s a = [].
Proof. exact Proofs.C26.unknown_player_no_effect. Qed.
Print Assumptions unknown_player_no_effect.

Theorem unknown_server_no_effect : forall st req oracle s a sn r,
  server_targeted s = true -> read_utf a = Some (sn, r) -> find_server (servers st) sn = None ->
  run_sub all_fixed st req oracle s a = [].
Proof. exact Proofs.C26.unknown_server_no_effect. Qed.
Print Assumptions unknown_server_no_effect.

Theorem unknown_forward_target_no_effect : forall st req oracle a tg r,
  read_utf a = Some (tg, r) -> eq_fold tg s_ALL = false -> eq_fold tg s_ONLINE = false ->
  find_server (servers st) tg = None -> run_sub all_fixed st req oracle SForward a = [].
Proof. exact Proofs.C26.unknown_forward_target_no_effect. Qed.
Print Assumptions unknown_forward_target_no_effect.

(* total / no crash: the spec is a total function (Coq) and never reaches a panic, on any input bytes *)
Theorem total : forall st req oracle s a, ~ In EPanic (run_sub all_fixed st req oracle s a).
Proof. exact spec_never_panics. Qed.
Print Assumptions total.

(* Today's code (any subset of the recorded defects repaired) equals the spec outside the trigger classes ... *)
Theorem impl_eq_spec_off_trigger : forall F st req oracle s a,
  trigger1 st s a = false -> trigger2 st s a = false -> trigger3 st s a = false ->
  trigger4 oracle s a = false -> trigger6 st s a = false ->
  run_sub F st req oracle s a = run_sub all_fixed st req oracle s a.
Proof. exact impl_eq_spec_off_trigger_proof. Qed.
Print Assumptions impl_eq_spec_off_trigger.

(* truncated argument bytes: an unreadable length prefix or a body shorter than announced is an error, and a
   request whose sub-channel name cannot be read is not handled and has no effect (DataInput: EOFException) *)
Theorem truncated_fields_are_errors : forall bs,
  (N.of_nat (List.length bs) < 2 -> read_utf bs = None) /\
  (forall a b r, bs = a :: b :: r -> N.of_nat (List.length r) < a * 256 + b -> read_utf bs = None).
Proof. exact read_utf_truncated. Qed.
Print Assumptions truncated_fields_are_errors.

Theorem truncated_request_is_ignored : forall F st req oracle ch data,
  read_utf data = None -> model F st req oracle ch data = (false, []).
Proof. exact truncated_request_ignored. Qed.
Print Assumptions truncated_request_is_ignored.

(* ... and differs inside them (witnesses; state st0 = Alice on lobby (requester), Bob on games).
   Findings 1 and 6 are repaired in the code: their lemmas are facts about the pre-fix variant
   (model none_fixed) and state that today's code (impl_bungee) now agrees with the spec on the witness. *)
Theorem C26_1_refuted :
  snd (model none_fixed st0 alice [] s_BungeeCord (req_of "Forward" (write_utf (tx "games") ++ payload0)))
    = [EForward (tx "games") (tx "MyChan" ++ write_u16 3 ++ [1; 2; 3])] /\
  snd (spec_bungee st0 alice [] s_BungeeCord (req_of "Forward" (write_utf (tx "games") ++ payload0)))
    = [EForward (tx "games") payload0] /\
  snd (impl_bungee st0 alice [] s_BungeeCord (req_of "Forward" (write_utf (tx "games") ++ payload0)))
    = [EForward (tx "games") payload0].
Proof. exact refuted_1. Qed.
Print Assumptions C26_1_refuted.

Theorem C26_2_refuted :
  (exists d, snd (impl_bungee st0 alice [] s_BungeeCord (req_of "ForwardToPlayer" (write_utf (tx "Bob") ++ payload0)))
    = [EResponse (tx "Alice") true d]) /\
  snd (spec_bungee st0 alice [] s_BungeeCord (req_of "ForwardToPlayer" (write_utf (tx "Bob") ++ payload0)))
    = [EResponse (tx "Bob") false payload0].
Proof. exact refuted_2. Qed.
Print Assumptions C26_2_refuted.

Theorem C26_3_refuted :
  response_fields none_fixed st0 alice SGetPlayerServer (write_utf (tx "Bob")) =
    Some [FUtf (tx "GetPlayerServer"); FUtf (tx "Bob"); FUtf (tx "lobby")] /\
  response_fields all_fixed st0 alice SGetPlayerServer (write_utf (tx "Bob")) =
    Some [FUtf (tx "GetPlayerServer"); FUtf (tx "Bob"); FUtf (tx "games")].
Proof. exact refuted_3. Qed.
Print Assumptions C26_3_refuted.

Theorem C26_4_refuted :
  snd (impl_bungee st0 alice oracle_hi s_BungeeCord (req_of "Message" (write_utf (tx "Bob") ++ write_utf (tx "hi")))) = [EPanic] /\
  snd (spec_bungee st0 alice oracle_hi s_BungeeCord (req_of "Message" (write_utf (tx "Bob") ++ write_utf (tx "hi"))))
    = [EMessage (TPlayer (tx "Bob")) (tx "hi")] /\
  snd (impl_bungee st0 alice oracle_hi s_BungeeCord (req_of "Message" (write_utf (tx "games") ++ write_utf (tx "hi"))))
    = [EMessage (TServer (tx "games")) (tx "hi")].
Proof. exact refuted_4. Qed.
Print Assumptions C26_4_refuted.

Theorem C26_5_refuted :
  impl_adapter current st0 alice (tx "games") payload0 = [mkW (tx "Bob") true s_BungeeCord payload0] /\
  holds_adapter st0 alice (tx "games") payload0 (impl_adapter current st0 alice (tx "games") payload0) = false /\
  holds_adapter st0 alice (tx "games") payload0 [mkW (tx "Bob") false s_BungeeCord payload0] = true.
Proof. exact refuted_5. Qed.
Print Assumptions C26_5_refuted.

Theorem C26_6_refuted :
  snd (model none_fixed st0 alice [] s_BungeeCord
         (req_of "Forward" (write_utf (tx "games") ++ write_utf (tx "MyChan") ++ [255; 255]))) = [EPanic] /\
  snd (model none_fixed st0 alice [] s_BungeeCord
         (req_of "Forward" (write_utf (tx "games") ++ write_utf (tx "MyChan") ++ [0; 9; 1]))) = [EForward (tx "games") []] /\
  snd (spec_bungee st0 alice [] s_BungeeCord
         (req_of "Forward" (write_utf (tx "games") ++ write_utf (tx "MyChan") ++ [255; 255]))) = [] /\
  snd (impl_bungee st0 alice [] s_BungeeCord
         (req_of "Forward" (write_utf (tx "games") ++ write_utf (tx "MyChan") ++ [255; 255]))) = [] /\
  snd (impl_bungee st0 alice [] s_BungeeCord
         (req_of "Forward" (write_utf (tx "games") ++ write_utf (tx "MyChan") ++ [0; 9; 1]))) = [].
Proof. exact refuted_6. Qed.
Print Assumptions C26_6_refuted.

(* Non-vacuity: a concrete answer decoded field by field; Forward ALL reaching the other server only;
   the adapter predicate accepting one backend copy and rejecting two or none. *)
Example C26_nonvacuous_ip :
  exists d, snd (spec_bungee st0 alice [] s_bungeecord_main (req_of "IP" [])) = [EResponse (tx "Alice") true d] /\
    decode [KUtf; KUtf; KInt] d = Some [FUtf (tx "IP"); FUtf (tx "10.1.1.1"); FInt 50000].
Proof. exact nonvacuous_ip. Qed.

Example C26_nonvacuous_forward_all :
  snd (spec_bungee st0 alice [] s_BungeeCord (req_of "Forward" (write_utf s_ALL ++ payload0))) = [EForward (tx "games") payload0].
Proof. exact nonvacuous_forward_all. Qed.

Example C26_adapter_once_per_server :
  holds_adapter st1 alice s_ALL payload0 [mkW (tx "Carol") false s_bungeecord_main payload0] = true /\
  holds_adapter st1 alice s_ALL payload0
    [mkW (tx "Bob") false s_BungeeCord payload0; mkW (tx "Carol") false s_bungeecord_main payload0] = false /\
  holds_adapter st1 alice s_ALL payload0 [] = false.
Proof. exact adapter_once_per_server. Qed.
