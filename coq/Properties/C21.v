(* C21 — Secure-chat packets keep client order and conserve acknowledgements.
   Only statements and `exact`; proofs are in Proofs/C21.v and Proofs/C21_sched.v.
   Model/ChatQueue.v transcribes ChatState.UpdateFromMessage / AccumulateAckCount, the session
   chat and command handlers (consumeCommand, modifyCommand, forwardCommand, the unsigned
   bypass) and the future chain of chatQueue.  [impl_run] is today's code (finding C21-1 repaired by commit f72099c, C21-2
   still open), [spec_run] the code with both repaired, [prefix_run] the code before the C21-1 repair.  A ops = what the client acknowledged (sum of the
   offsets it sent), F ps = what the backend was told (explicit acknowledgements plus offsets
   carried by forwarded packets). *)
From Coq Require Import List NArith Bool.
From Verif Require Import Base.Conc Model.ChatQueue Proofs.C21 Proofs.C21_sched.
Import ListNotations.
Open Scope N_scope.

(* "for any completion order of the asynchronous command handling, the packets the backend
   receives appear in the client's order": for every history, every number of completions and
   EVERY interleaving of the read loop with them (Base.Conc schedules), what has reached the
   backend is a prefix of the sequential output for the whole history, and its tagged packets
   (chat, commands) are a subsequence of the client's.  Holds for today's code and the repaired. *)
Theorem order_preserved : forall f1 f2 cfg ops nticks sched,
  let q := final_state (Conc.run (q_threads f1 f2 cfg ops nticks) sched q_init) in
  q_visible f1 f2 cfg q = firstn (q_nvis q) (out (run f1 f2 cfg ops)) /\
  subseq (bp_ids (q_visible f1 f2 cfg q)) (op_ids ops) = true.
Proof. intros. apply visible_prefix. apply q_inv_all_schedules. Qed.
Print Assumptions order_preserved.

(* ... and once the client's packets are all in and the queue is idle, the backend has received
   exactly the sequential output - so the accounting theorems below speak about every schedule *)
Theorem quiescent_output : forall f1 f2 cfg ops nticks sched,
  let q := final_state (Conc.run (q_threads f1 f2 cfg ops nticks) sched q_init) in
  length (q_sent q) = length ops -> q_busy q = false ->
  q_visible f1 f2 cfg q = out (run f1 f2 cfg ops).
Proof. intros. apply quiescent_complete; [apply q_inv_all_schedules|assumption|assumption]. Qed.
Print Assumptions quiescent_output.

(* sequential order statement (any history, both models) *)
Theorem order_preserved_seq : forall f1 f2 cfg ops,
  subseq (bp_ids (out (run f1 f2 cfg ops))) (op_ids ops) = true.
Proof. exact run_order. Qed.
Print Assumptions order_preserved_seq.

(* conservation, today's code: whatever the client acknowledged has reached the backend, is held
   back (fewer than 40), or was dropped by one of the two recorded defects *)
Theorem acks_accounted : forall f1 f2 cfg ops,
  disc (run f1 f2 cfg ops) = false ->
  A ops = F (out (run f1 f2 cfg ops)) + delayed (run f1 f2 cfg ops)
          + lost1 (run f1 f2 cfg ops) + lost2 (run f1 f2 cfg ops)
  /\ delayed (run f1 f2 cfg ops) < 40.
Proof. intros f1 f2 cfg ops H. exact (run_conserved f1 f2 cfg ops H). Qed.
Print Assumptions acks_accounted.

(* "never exceeds what the client acknowledged": today's code, every history *)
Theorem F_le_A : forall cfg ops,
  disc (impl_run cfg ops) = false -> F (out (impl_run cfg ops)) <= A ops.
Proof.
  intros cfg ops H. destruct (run_conserved true false cfg ops H) as [Ha _]. unfold impl_run.
  rewrite Ha. rewrite <- !N.add_assoc. apply N.le_add_r.
Qed.
Print Assumptions F_le_A.

(* "lags it by fewer than 40": the repaired code on every history; today's code on every history
   that hits neither defect (next theorem) *)
Theorem lag_lt_40 : forall cfg ops,
  disc (spec_run cfg ops) = false ->
  A ops = F (out (spec_run cfg ops)) + delayed (spec_run cfg ops) /\ delayed (spec_run cfg ops) < 40.
Proof. exact spec_conserved. Qed.
Print Assumptions lag_lt_40.

Theorem impl_eq_spec_off_trigger : forall cfg ops,
  hit2 (impl_run cfg ops) = false -> impl_run cfg ops = spec_run cfg ops.
Proof. exact impl_eq_spec_lemma. Qed.
Print Assumptions impl_eq_spec_off_trigger.

(* "catches up completely with the next forwarded packet that carries a last-seen update":
   right after a chat message or session command has been processed nothing is held; what is
   missing from F is exactly what the two defects dropped (zero for the repaired code) *)
Theorem catch_up : forall f1 f2 cfg ops x,
  carries_update x = true -> disc (run f1 f2 cfg (ops ++ [x])) = false ->
  A (ops ++ [x]) = F (out (run f1 f2 cfg (ops ++ [x])))
                   + lost1 (run f1 f2 cfg (ops ++ [x])) + lost2 (run f1 f2 cfg (ops ++ [x])).
Proof. exact catch_up_gen. Qed.
Print Assumptions catch_up.

Theorem catch_up_spec : forall cfg ops x,
  carries_update x = true -> disc (spec_run cfg (ops ++ [x])) = false ->
  A (ops ++ [x]) = F (out (spec_run cfg (ops ++ [x]))).
Proof.
  intros cfg ops x Hc Hd. pose proof (catch_up_gen true true cfg ops x Hc Hd) as H.
  destruct (spec_no_loss cfg (ops ++ [x])) as [H1 H2]. unfold spec_run in *. rewrite H1, H2 in H.
  now rewrite !N.add_0_r in H.
Qed.
Print Assumptions catch_up_spec.

(* "unsigned commands neither carry nor flush held acknowledgements": one step with an
   UnsignedPlayerCommand, whatever its outcome, leaves the held count, F and the loss counters alone *)
Theorem unsigned_neutral : forall f1 f2 cfg s id o,
  delayed (step f1 f2 cfg s (UCmd id o)) = delayed s /\
  F (out (step f1 f2 cfg s (UCmd id o))) = F (out s) /\
  disc (step f1 f2 cfg s (UCmd id o)) = disc s /\
  lost1 (step f1 f2 cfg s (UCmd id o)) = lost1 s /\ lost2 (step f1 f2 cfg s (UCmd id o)) = lost2 s.
Proof. exact unsigned_neutral_lemma. Qed.
Print Assumptions unsigned_neutral.

(* the decidable predicate the judge evaluates on observations (order, F <= A, lag < 40,
   conservation, catch-up at every packet with a last-seen update) holds for the repaired model on
   every history with distinct tags *)
Theorem C21_spec_holds : forall cfg ops, NoDup (op_ids ops) ->
  holds_C21 ops (out (spec_run cfg ops)) (delayed (spec_run cfg ops)) (disc (spec_run cfg ops)) = true.
Proof. exact spec_holds_lemma. Qed.
Print Assumptions C21_spec_holds.

(* since the C21-1 repair today's code drops nothing on the consumed-signed-command path: the only
   loss term left is C21-2's *)
Theorem impl_loses_only_by_C21_2 : forall cfg ops,
  disc (impl_run cfg ops) = false ->
  A ops = F (out (impl_run cfg ops)) + delayed (impl_run cfg ops) + lost2 (impl_run cfg ops)
  /\ delayed (impl_run cfg ops) < 40.
Proof.
  intros cfg ops H. destruct (run_conserved true false cfg ops H) as [Ha Hl]. unfold impl_run in *.
  rewrite (fix1_no_loss1 false cfg ops) in Ha. rewrite N.add_0_r in Ha. split; [exact Ha|exact Hl].
Qed.
Print Assumptions impl_loses_only_by_C21_2.

(* finding C21-1, fixed by commit f72099c - a fact about the model of the code BEFORE that repair:
   3 held acknowledgements + a signed command with offset 2 that the event denies,
   ForceKeyAuthentication off: the backend is told nothing, nothing is held, the next chat message
   carries offset 0 - five acknowledgements are gone for good.  Today's model sends them. *)
Theorem catch_up_refuted_signed_consumed_before_fix : exists cfg ops,
  c_fka cfg = false /\ disc (prefix_run cfg ops) = false /\ delayed (prefix_run cfg ops) = 0 /\
  A ops = 5 /\ F (out (prefix_run cfg ops)) = 0 /\ lost1 (prefix_run cfg ops) = 5 /\
  holds_C21 ops (out (prefix_run cfg ops)) (delayed (prefix_run cfg ops)) false = false /\
  out (impl_run cfg ops) = [PAck 5; PChat 2 0] /\
  holds_C21 ops (out (impl_run cfg ops)) (delayed (impl_run cfg ops)) false = true.
Proof.
  exists cfg_off, w1. destruct refuted_1 as (H1 & H2 & H3 & H4 & H5 & H6 & H7).
  repeat split; try assumption; vm_compute; reflexivity.
Qed.
Print Assumptions catch_up_refuted_signed_consumed_before_fix.

(* finding C21-2 (open): 3 held acknowledgements + a command with offset 2 that the event rewrites: the
   rebuilt command carries offset 0 *)
Theorem catch_up_refuted_rewritten : exists cfg ops,
  disc (impl_run cfg ops) = false /\ delayed (impl_run cfg ops) = 0 /\
  out (impl_run cfg ops) = [PCmd 1 0] /\ A ops = 5 /\ F (out (impl_run cfg ops)) = 0 /\
  holds_C21 ops (out (impl_run cfg ops)) (delayed (impl_run cfg ops)) false = false.
Proof.
  exists cfg_off, w2. destruct refuted_2 as (H1 & H2 & H3 & H4 & H5 & H6 & H7).
  repeat split; assumption.
Qed.
Print Assumptions catch_up_refuted_rewritten.

(* premises are satisfiable: a history crossing the 40 threshold, with an unsigned command, chat
   and a consumed command, on which today's code and the repaired code agree *)
Example C21_nonvacuous :
  let ops := [Ack 19; Ack 22; UCmd 1 OForward; Chat 2 1 false; Cmd 3 4 false OConsumed] in
  out (spec_run (mkCfg false true) ops) = [PAck 21; PUCmd 1; PChat 2 21; PAck 4] /\
  delayed (spec_run (mkCfg false true) ops) = 0 /\ A ops = 46 /\ F (out (spec_run (mkCfg false true) ops)) = 46 /\
  NoDup (op_ids ops) /\ impl_run (mkCfg false true) ops = spec_run (mkCfg false true) ops.
Proof. exact accounting_example. Qed.
