(* C36 — Config edits via JSON Merge Patch follow RFC 7396.
   Only statements and `exact`; proofs are in Proofs/C36.v, definitions in Model/MergePatch.v
   (impl_merge = applyMergePatch, merge_rfc = RFC 7396 section 2 pseudocode) and Base/Json.v. *)
From Coq Require Import List NArith Bool Permutation String.
From Verif Require Import Base.Hex Base.Json Model.MergePatch Proofs.C36.
Import ListNotations.
Local Open Scope string_scope.

(* "yields the configuration RFC 7396 defines": for ALL targets and patches (any nesting, nulls,
   arrays, scalars, even duplicate member names) the code's algorithm equals the RFC's
   pseudocode, where an absent target member is "undefined" (None). *)
Theorem C36_impl_is_rfc7396 : forall p t, impl_merge t p = merge_rfc (Some t) p.
Proof. exact impl_eq_rfc. Qed.
Print Assumptions C36_impl_is_rfc7396.

(* the same for documents as they arrive (parsed with last-duplicate-wins like encoding/json) *)
Theorem C36_documents : forall t p, go_apply t p = spec_apply t p.
Proof. exact go_apply_eq_spec. Qed.
Print Assumptions C36_documents.

(* C36_spec, clause "any non-object value replaces the target" *)
Theorem C36_spec_nonobject_replaces : forall t p, is_obj p = false -> impl_merge t p = p.
Proof. exact nonobject_patch_replaces. Qed.
Print Assumptions C36_spec_nonobject_replaces.

(* C36_spec, clauses "null removes a member", "absent members are untouched", "objects merge
   recursively" in one member-wise equation: for an object patch with unique member names the
   result is an object whose member k is
     - the target's member            when the patch does not mention k,
     - absent                         when the patch says null,
     - merge (target's member or nothing) v   when the patch says v. *)
Theorem C36_spec_object_members : forall t ps k, NoDup (keys ps) ->
  is_obj (impl_merge t (JObj ps)) = true /\
  obj_get k (members_of (impl_merge t (JObj ps))) =
  match obj_get k ps with
  | None => obj_get k (members_of t)
  | Some JNull => None
  | Some v => Some (impl_merge (get_or_null k (members_of t)) v)
  end.
Proof. intros t ps k H. split; [reflexivity | now apply object_patch_members]. Qed.
Print Assumptions C36_spec_object_members.

Theorem C36_spec_null_deletes : forall t ps k, NoDup (keys ps) ->
  obj_get k ps = Some JNull -> obj_get k (members_of (impl_merge t (JObj ps))) = None.
Proof. exact null_member_deletes. Qed.
Print Assumptions C36_spec_null_deletes.

Theorem C36_spec_absent_untouched : forall t ps k, NoDup (keys ps) ->
  obj_get k ps = None ->
  obj_get k (members_of (impl_merge t (JObj ps))) = obj_get k (members_of t).
Proof. exact absent_member_untouched. Qed.
Print Assumptions C36_spec_absent_untouched.

Theorem C36_spec_recursion : forall t ps k v, NoDup (keys ps) ->
  obj_get k ps = Some v -> v <> JNull ->
  obj_get k (members_of (impl_merge t (JObj ps))) =
  Some (impl_merge (get_or_null k (members_of t)) v).
Proof. exact present_member_recurses. Qed.
Print Assumptions C36_spec_recursion.

(* member names are matched exactly (no case folding, no Unicode equivalence): a patch member
   named k2 leaves every other name k1 alone *)
Theorem C36_member_names_exact : forall t k1 k2 v, k1 <> k2 ->
  obj_get k1 (members_of (impl_merge t (JObj [(k2, v)]))) = obj_get k1 (members_of t).
Proof. exact member_names_exact. Qed.
Print Assumptions C36_member_names_exact.

Example C36_bind_vs_Bind :
  impl_merge (o [("bind", s "0.0.0.0:25565")]) (o [("Bind", JNull)]) = o [("bind", s "0.0.0.0:25565")] /\
  impl_merge (o [("bind", s "0.0.0.0:25565")]) (o [("Bind", s "x")])
  = o [("bind", s "0.0.0.0:25565"); ("Bind", s "x")] /\
  impl_merge (o [("a", o [("x", n "1")])]) (o [("A", o [("y", n "2")])])
  = o [("a", o [("x", n "1")]); ("A", o [("y", n "2")])].
Proof. exact bind_vs_Bind. Qed.

(* a member named by the patch is never null in the result *)
Theorem C36_no_null_members_from_patch : forall t ps k v, NoDup (keys ps) ->
  obj_get k ps = Some v ->
  obj_get k (members_of (impl_merge t (JObj ps))) <> Some JNull.
Proof. exact no_null_members_from_patch. Qed.
Print Assumptions C36_no_null_members_from_patch.

(* unique member names are preserved (the result is again a proper Go map tree) *)
Theorem C36_result_wellformed : forall p t, wf_json t -> wf_json p -> wf_json (impl_merge t p).
Proof. exact merge_wf. Qed.
Print Assumptions C36_result_wellformed.

(* applying the same patch twice = applying it once *)
Theorem C36_merge_idempotent : forall p t,
  wf_json p -> impl_merge (impl_merge t p) p = impl_merge t p.
Proof. exact merge_idempotent. Qed.
Print Assumptions C36_merge_idempotent.

(* the code ranges over a Go map in unspecified order; the model ranges in list order.  The
   result, read as a tree of maps, is the same for every order, at every nesting level, and for
   equivalent targets (json_equiv = equal as trees of finite maps, decided by json_eqb). *)
Theorem C36_order_irrelevant : forall p p' t t',
  wf_json p -> wf_json p' -> json_equiv p p' -> json_equiv t t' ->
  json_equiv (impl_merge t p) (impl_merge t' p').
Proof. exact merge_respects_equiv. Qed.
Print Assumptions C36_order_irrelevant.

Theorem C36_iteration_order_irrelevant : forall t ps ps',
  wf_json (JObj ps) -> Permutation ps ps' ->
  json_eqb (impl_merge t (JObj ps)) (impl_merge t (JObj ps')) = true.
Proof. exact iteration_order_irrelevant. Qed.
Print Assumptions C36_iteration_order_irrelevant.

(* what json_eqb (used by the judge to compare Go's output with the model) means *)
Theorem C36_json_eqb_decides_map_equality : forall a b, json_eqb a b = true <-> json_equiv a b.
Proof. exact json_eqb_equiv. Qed.
Print Assumptions C36_json_eqb_decides_map_equality.

(* non-vacuity: one patch that deletes, recurses, adds; premises hold; order matters for the
   list but not for the map *)
Example C36_nonvacuous :
  let t := o [("a", o [("x", n "1"); ("y", n "2")]); ("b", s "keep"); ("c", a [JNull])] in
  let ps := [(tx "a", o [("x", JNull); ("z", n "3")]); (tx "c", JNull); (tx "d", o [("q", JNull)]); (tx "e", n "5")] in
  wf_json (JObj ps) /\ NoDup (keys ps) /\
  impl_merge t (JObj ps) = o [("a", o [("y", n "2"); ("z", n "3")]); ("b", s "keep"); ("d", o []); ("e", n "5")] /\
  json_eqb (impl_merge t (JObj (rev ps))) (impl_merge t (JObj ps)) = true /\
  json_beq (impl_merge t (JObj (rev ps))) (impl_merge t (JObj ps)) = false.
Proof. exact nonvacuous. Qed.
(* The 15 examples of RFC 7396 Appendix A are Examples rfc_A01 .. rfc_A15 in Proofs/C36.v
   (through impl_merge) and rfc_table_by_pseudocode (through merge_rfc). *)
