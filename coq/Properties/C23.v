(* C23 — The command tree sent to a player only shows proxy commands it may use.
   Only statements and `exact`; the proofs are in Proofs/C23.v.  Model/CmdTree.v transcribes
   filterNode (one unit of fuel = one Go stack frame) and the merge loop of
   handleAvailableCommands.  A [graph] maps node ids to (kind, requirement result for this
   player, has executor, redirect target, children in registration order); node 0 is the root. *)
From Coq Require Import List NArith Bool.
From Verif Require Import Model.CmdTree Proofs.C23.
Import ListNotations.
Open Scope N_scope.

(* "every proxy command node the player receives (at any depth) is one the player passes the
   requirement for": whenever filterNode returns a copy, every node of the copy - through children
   and through redirect targets - is a copy of a node the player may use.  No premise on the graph. *)
Theorem C23_only_usable : forall fuel g id t,
  filter_node fuel g id = Done (Some t) -> all_usable g t = true /\ o_id t = id.
Proof. exact filter_node_usable. Qed.
Print Assumptions C23_only_usable.

(* ... and a node the player may use is never filtered away (nil only for unusable nodes) *)
Theorem C23_nil_only_unusable : forall fuel g id,
  filter_node fuel g id = Done None -> usable g id = false.
Proof. exact filter_node_nil. Qed.
Print Assumptions C23_nil_only_unusable.

(* "proxy nodes replace backend nodes of the same name": after the merge loop the proxy's nodes are
   all there, in order, and the backend children left are exactly those whose name no proxy node has *)
Theorem C23_replace : forall backend proxy, NoDup (map o_id proxy) ->
  proxy_part (merge backend proxy) = proxy /\
  forall b, In b (backend_part (merge backend proxy)) -> mem (b_name b) (map o_id proxy) = false.
Proof.
  intros backend proxy H. split; [exact (merge_proxy backend proxy H)|].
  intros b Hb. rewrite (merge_backend backend proxy H) in Hb. apply filter_In in Hb.
  destruct Hb as [_ Hb]. now apply negb_true_iff in Hb.
Qed.
Print Assumptions C23_replace.

(* "all other backend nodes are kept unchanged": same nodes (name and subtree fingerprint), same order *)
Theorem C23_others_kept : forall backend proxy, NoDup (map o_id proxy) ->
  backend_part (merge backend proxy) = filter (fun b => negb (mem (b_name b) (map o_id proxy))) backend.
Proof. exact merge_backend. Qed.
Print Assumptions C23_others_kept.

(* the three clauses together, as the decidable predicate the judge evaluates on the observed
   packet: whenever the recursion ends, the merged root satisfies it *)
Theorem C23_announce_holds : forall fuel g backend ms,
  wf_root g -> announce fuel g backend = Some ms -> holds_C23 g backend ms = true.
Proof. exact announce_holds. Qed.
Print Assumptions C23_announce_holds.

(* several AvailableCommands packets on one backend session (backends resend their tree; the
   player's permissions and the registered commands change in between): the merged tree of the
   k-th packet is a function of the graph and requirement outcomes AT THAT MOMENT and of that
   packet's backend root only - whatever came before - and therefore satisfies the property
   predicate for the current outcomes *)
Theorem C23_merge_uses_current_outcomes : forall fuel pkts pkts' k g backend,
  nth_error pkts k = Some (g, backend) -> nth_error pkts' k = Some (g, backend) ->
  nth_error (announce_session fuel pkts) k = Some (announce fuel g backend) /\
  nth_error (announce_session fuel pkts') k = nth_error (announce_session fuel pkts) k /\
  (wf_root g -> forall ms, announce fuel g backend = Some ms -> holds_C23 g backend ms = true).
Proof.
  intros fuel pkts pkts' k g backend H H'. rewrite (session_nth fuel pkts k g backend H), (session_nth fuel pkts' k g backend H').
  split; [reflexivity|]. split; [reflexivity|]. intros Hwf ms Hms. exact (announce_holds fuel g backend ms Hwf Hms).
Qed.
Print Assumptions C23_merge_uses_current_outcomes.

(* what this excludes: a handler that keeps the filtered view of the first packet of the session.
   Witness: the player loses command 1 between two packets - the cached view still shows it
   (with its usable child), i.e. proxy nodes the player does not pass the requirement for *)
Theorem C23_cached_view_refuted : exists pkts g backend ms,
  nth_error pkts 1 = Some (g, backend) /\
  nth_error (announce_cached_session 4 pkts) 1 = Some (Some ms) /\
  holds_C23 g backend ms = false /\ forallb (all_usable g) (proxy_part ms) = false /\
  (exists ms', nth_error (announce_session 4 pkts) 1 = Some (Some ms') /\ holds_C23 g backend ms' = true).
Proof.
  exists [(g_ex, [mkB 9 99]); (g_ex_revoked, [mkB 9 99])], g_ex_revoked, [mkB 9 99].
  destruct cached_view_refuted as [H1 [ms [H2 [H3 H4]]]]. exists ms.
  split; [reflexivity|]. split; [exact H2|]. split; [exact H3|]. split; [exact H4|].
  eexists. split; [exact H1|]. vm_compute. reflexivity.
Qed.
Print Assumptions C23_cached_view_refuted.

(* acyclicity premise: if children and redirect edges strictly decrease some rank, the recursion ends
   within rank+1 frames, and more fuel does not change the result *)
Theorem C23_terminates_when_acyclic : forall g rank, ranked g rank ->
  forall fuel id, (rank id < fuel)%nat -> filter_node fuel g id <> OutOfFuel.
Proof. exact filter_node_terminates. Qed.
Print Assumptions C23_terminates_when_acyclic.

Theorem C23_fuel_irrelevant : forall f f' g id r, (f <= f')%nat ->
  filter_node f g id = Done r -> filter_node f' g id = Done r.
Proof. exact filter_node_mono. Qed.
Print Assumptions C23_fuel_irrelevant.

(* finding C23-1, fixed by commit 1985bf6 (memoised copies) - facts about the plain recursion, i.e. the
   code BEFORE the repair, which is why the acyclicity premise above was needed and why the repair was:
   a redirect cycle exhausts every fuel.  General form: any usable child of the root
   whose redirect is the root itself (brigadier's standard `redirect(root)` idiom) ... *)
Theorem C23_redirect_to_root_diverged_before_fix : forall g r c n,
  lookup g 0 = Some r -> g_kind r = KRoot -> In c (g_children r) ->
  lookup g c = Some n -> g_kind n <> KRoot -> g_req n = true -> g_redirect n = Some 0 ->
  forall fuel, filter_node fuel g 0 = OutOfFuel.
Proof. intros g r c n H0 H1 H2 H3 H4 H5 H6 fuel. exact (proj1 (redirect_to_root_diverges g r c n H0 H1 H2 H3 H4 H5 H6 fuel)). Qed.
Print Assumptions C23_redirect_to_root_diverged_before_fix.

(* ... and the confirmed instance d.Register(Literal("run").Redirect(&d.Root)): the graph has the
   cycle 0 -> 1 -> 0 and filter_node returns OutOfFuel for every fuel, so announce never answers *)
Theorem filter_node_diverged_before_fix : exists g,
  (exists r n, lookup g 0 = Some r /\ In 1 (g_children r) /\ lookup g 1 = Some n /\ g_redirect n = Some 0) /\
  forall fuel, filter_node fuel g 0 = OutOfFuel /\ forall backend, announce fuel g backend = None.
Proof.
  exists g_cyclic. split.
  - exists (mkG KRoot true false None [1]), (mkG KLit true true (Some 0) []). repeat split; try reflexivity. now left.
  - intros fuel. split; [exact (g_cyclic_diverges fuel)|]. intros backend. unfold announce. now rewrite g_cyclic_diverges.
Qed.
Print Assumptions filter_node_diverged_before_fix.

(* premises are satisfiable: a ranked graph with unusable nodes, a redirect and a name clash *)
Example C23_nonvacuous :
  ranked g_ex rank_ex /\
  announce 4 g_ex [mkB 4 77; mkB 9 99] =
    Some [MBackend (mkB 9 99);
          MProxy (ONode 1 KLit true None [ONode 3 KArg true (Some (ONode 4 KLit true None [])) []]);
          MProxy (ONode 4 KLit true None [])].
Proof. split; [exact g_ex_ranked|exact (proj1 g_ex_announce)]. Qed.
