(* C25 — Plugin channel events fire for forwarded messages with the real message body.
   Only statements and `exact`; the proofs are in Proofs/C25.v, the model in Model/PluginMsg.v
   (spec_handle = the four handlePluginMessage functions with the two recorded defects repaired,
    impl_handle = the code as it exists today). *)
From Coq Require Import List NArith Bool.
From Verif Require Import Base.Hex Model.PluginMsg Proofs.C25.
Import ListNotations.
Open Scope N_scope.

(* Clause "every channel registration a client sends that the proxy forwards to its backend raises
   exactly one channel-register event": for every environment and every registration message, the
   client play handler's event list is exactly [one register event with getChannels' identifiers]
   when the message was successfully written to the backend, and empty when it was not. *)
Theorem C25_register_event_iff_forwarded : forall e m,
  classify (m_ch m) = KRegister ->
  let o := spec_handle HClientPlay e m in
  (forwarded m o = true ->
     o_events o = [ERegister (parse_channels (e_ver13 e) (e_existing e) (m_data m))]) /\
  (forwarded m o = false -> o_events o = []).
Proof. exact register_event_iff_forwarded. Qed.
Print Assumptions C25_register_event_iff_forwarded.

(* ... and no other handler, phase or message kind raises a register event. *)
Theorem C25_register_event_only_for_client_registrations : forall h e m chs,
  In (ERegister chs) (o_events (spec_handle h e m)) ->
  h = HClientPlay /\ classify (m_ch m) = KRegister.
Proof. exact register_event_only_for_client_registrations. Qed.
Print Assumptions C25_register_event_only_for_client_registrations.

(* Clause "every plugin-message event, in any connection phase and either direction, exposes exactly
   the plugin message's body (not the raw packet)": all four handlers, every environment. *)
Theorem C25_event_body : forall h e m id d,
  In (EPM id d) (o_events (spec_handle h e m)) -> id = m_ch m /\ d = m_data m.
Proof. exact event_body. Qed.
Print Assumptions C25_event_body.

(* Register histories: one player sends several registrations (and unregistrations); the set of channels
   already known for the player grows and shrinks.  At EVERY step, whatever is already known — new
   channels, all known, a subset, none valid, over the cap — a registration that was forwarded raises
   exactly one register event (carrying getChannels' identifiers for the channel count of that moment) and
   one that was not forwarded raises none. *)
Theorem C25_register_event_history : forall known e ms,
  Forall2 (fun m eo => classify (m_ch m) = KRegister ->
             (forwarded m (snd eo) = true ->
                exists n, o_events (snd eo) = [ERegister (parse_channels (e_ver13 e) n (m_data m))]) /\
             (forwarded m (snd eo) = false -> o_events (snd eo) = []))
          ms (reg_history true true known e ms).
Proof. exact register_event_history. Qed.
Print Assumptions C25_register_event_history.

(* The same for histories: several plugin messages back to back through the same handler instance
   (the events run asynchronously, so an earlier event may still be in flight when a later message is
   handled): every event exposes the body of ITS OWN message, and what is written for a message is that
   message — nothing depends on a later message. *)
Theorem C25_event_body_history : forall h e ms,
  Forall2 (fun m o => forall id d, In (EPM id d) (o_events o) -> id = m_ch m /\ d = m_data m)
          ms (spec_history h e ms).
Proof. exact event_body_history. Qed.
Print Assumptions C25_event_body_history.

Theorem C25_written_history : forall h e ms,
  Forall2 (fun m o => forall w, In w (o_writes o) ->
             match w with
             | WPkt _ _ ch d => ch = m_ch m /\ d = m_data m
             | WRaw _ p => p = m_payload m
             | WBrand _ ch => ch = m_ch m /\ classify (m_ch m) = KBrand
             end) ms (spec_history h e ms).
Proof. exact written_history. Qed.
Print Assumptions C25_written_history.

(* the judge's per-message test of a history observation (Data() when the subscriber starts, Data() when
   it is released after the next message was handled) means exactly: both equal that message's body *)
Theorem C25_history_observation_means_own_body : forall h e m x id d,
  hist_matches (spec_handle h e m) x = true -> o_events (spec_handle h e m) = [EPM id d] ->
  h_start x = m_data m /\ h_end x = m_data m.
Proof. exact hist_matches_body. Qed.
Print Assumptions C25_history_observation_means_own_body.

(* Clause "the data a handler sees is the data forwarded": whatever a handler writes is the message
   itself — the decoded (channel, body), the raw packet it arrived in, or the rewritten brand. *)
Theorem C25_written_is_message : forall h e m w,
  In w (o_writes (spec_handle h e m)) ->
  match w with
  | WPkt _ _ ch d => ch = m_ch m /\ d = m_data m
  | WRaw _ p => p = m_payload m
  | WBrand _ ch => ch = m_ch m /\ classify (m_ch m) = KBrand
  end.
Proof. exact written_is_message. Qed.
Print Assumptions C25_written_is_message.

(* The decidable predicate the judge evaluates on the implementation's observed output holds for the spec. *)
Theorem C25_spec_holds : forall h e m, holds_P h e m (spec_handle h e m) = true.
Proof. exact spec_holds. Qed.
Print Assumptions C25_spec_holds.

(* Today's code equals the spec outside the trigger classes of the two recorded findings ... *)
Theorem C25_impl_eq_spec_off_trigger : forall h e m,
  trigger1 h e m = false -> trigger2 h e m = false -> impl_handle h e m = spec_handle h e m.
Proof. exact impl_eq_spec_off_trigger. Qed.
Print Assumptions C25_impl_eq_spec_off_trigger.

(* ... and violates the property on EVERY input inside them (finding C25-1: register event fired iff the
   write failed; finding C25-2: backend CONFIG handler hands pc.Payload to the event). *)
Theorem C25_1_refuted_everywhere_in_trigger : forall e m,
  trigger1 HClientPlay e m = true -> holds_P HClientPlay e m (impl_handle HClientPlay e m) = false.
Proof. exact impl_violates_1. Qed.
Print Assumptions C25_1_refuted_everywhere_in_trigger.

Theorem C25_2_refuted_everywhere_in_trigger : forall e m,
  trigger2 HBackendConfig e m = true -> m_payload m <> m_data m ->
  holds_P HBackendConfig e m (impl_handle HBackendConfig e m) = false.
Proof. exact impl_violates_2. Qed.
Print Assumptions C25_2_refuted_everywhere_in_trigger.

(* Witnesses: minecraft:register "a:b" is written to the backend and no event fires;
   a backend CONFIG message on known channel "my:c" with body de ad yields event data 18 04 "my:c" de ad. *)
Theorem C25_1_refuted : exists e m, trigger1 HClientPlay e m = true /\
  impl_handle HClientPlay e m = mkOut [] [WPkt 1 true (m_ch m) (m_data m)] false /\
  holds_P HClientPlay e m (impl_handle HClientPlay e m) = false.
Proof. exists env0, reg_msg. exact refuted_1. Qed.
Print Assumptions C25_1_refuted.

Theorem C25_2_refuted : exists e m, trigger2 HBackendConfig e m = true /\
  o_events (impl_handle HBackendConfig e m) = [EPM (m_ch m) (m_payload m)] /\
  holds_P HBackendConfig e m (impl_handle HBackendConfig e m) = false.
Proof. exists env0, custom_msg. exact refuted_2. Qed.
Print Assumptions C25_2_refuted.

(* Non-vacuity of the implications above. *)
Example C25_nonvacuous_register :
  classify (m_ch reg_msg) = KRegister /\ forwarded reg_msg (spec_handle HClientPlay env0 reg_msg) = true /\
  o_events (spec_handle HClientPlay env0 reg_msg) = [ERegister [[97;58;98]]].
Proof. exact nonvacuous_register. Qed.

Example C25_nonvacuous_event :
  In (EPM [109;121;58;99] [222;173]) (o_events (spec_handle HBackendPlay env0 custom_msg)).
Proof. exact nonvacuous_event. Qed.

Example C25_nonvacuous_history :
  map o_events (spec_history HBackendPlay env0 two_msgs) = [[EPM [109;121;58;99] [222;173]]; [EPM [109;121;58;99] [1;2]]].
Proof. exact nonvacuous_history. Qed.

(* a re-registration of an already known channel is forwarded and raises its event again *)
Example C25_nonvacuous_register_history :
  map (fun eo => o_events (snd eo)) (reg_history true true [] reg_env [reg_ab; reg_ab]) =
    [[ERegister [[97;58;98]]]; [ERegister [[97;58;98]]]] /\
  map (fun eo => e_existing (fst eo)) (reg_history true true [] reg_env [reg_ab; reg_ab]) = [0; 1].
Proof. exact nonvacuous_register_history. Qed.
