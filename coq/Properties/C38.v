(* C38 — Config file reload fires once for the final content despite lost fs events.
   Only statements and `exact`; proofs are in Proofs/C38.v, the model (one step = one `select` case of
   runWatchLoop, or one action of the file system / fsnotify / a timer) in Model/Reload.v.

   All theorems quantify over ALL step lists: any order of writes, atomic replacements, deletions,
   re-creations, reconcile ticks, debounce expiries, delivered / duplicated / late watcher events ([Event] may
   occur any number of times anywhere), lost ones ([Dropped], or simply no [Event]) and watcher loss.

   impl_step is the loop as written; spec_step differs only in taking the fingerprint at the debounce expiry
   instead of using the one observed when the debounce was armed (finding C38-1). *)
From Coq Require Import List NArith Bool.
From Verif Require Import Model.Reload Proofs.C38.
Import ListNotations.

(* "never for content equal to what was last evaluated" — for the loop's own notion of evaluated (the
   fingerprint it passes to runCallback): in the sequence  initial :: candidates of all callbacks  no two
   neighbours are equal. *)
Theorem never_same_as_evaluated : forall f0 tr,
  no_adjacent_dup (f0 :: map cand (snd (run impl_step (init f0) tr))) = true.
Proof. exact Proofs.C38.never_same_as_evaluated. Qed.
Print Assumptions never_same_as_evaluated.

(* "at most once per distinct content": from any reachable state, in any stretch without a file operation the
   callback runs at most once with the file's content as candidate, and at most twice at all (the other run is
   for a stale fingerprint observed before the last change). *)
Theorem at_most_once_per_stable_content : forall f0 pre tr, stable tr = true ->
  let s := fst (run impl_step (init f0) pre) in
  count_fp (file s) (map cand (snd (run impl_step s tr))) <= 1 /\ length (snd (run impl_step s tr)) <= 2.
Proof. exact C38_at_most_once. Qed.
Print Assumptions at_most_once_per_stable_content.

(* "once the file content stays unchanged the callback runs for that content within the reconciliation interval
   plus debounce": from any reachable state, any stretch without a file operation that contains a tick followed
   (anywhere later) by a debounce expiry ends with evaluated = file.  No [Event] is needed and [alive] may be
   false throughout: this is what the reconciliation ticker is for. *)
Theorem eventually_final : forall f0 pre t1 b t2 t3,
  stable (t1 ++ Tick b :: t2 ++ Expire :: t3) = true ->
  let s := fst (run impl_step (init f0) pre) in
  evaluated (fst (run impl_step s (t1 ++ Tick b :: t2 ++ Expire :: t3))) = file s.
Proof. exact C38_eventually_final. Qed.
Print Assumptions eventually_final.

(* The same three clauses for what the callback actually READS ([loaded], [readc]) hold for the repaired loop ... *)
Theorem spec_never_same_content : forall f0 tr,
  no_adjacent_dup (f0 :: map readc (snd (run spec_step (init f0) tr))) = true.
Proof. exact C38_spec_never_same. Qed.
Print Assumptions spec_never_same_content.

Theorem spec_at_most_once : forall f0 pre tr, stable tr = true ->
  length (snd (run spec_step (fst (run spec_step (init f0) pre)) tr)) <= 1.
Proof. exact C38_spec_at_most_once. Qed.
Print Assumptions spec_at_most_once.

Theorem spec_eventually_final_content : forall f0 pre t1 b t2 t3,
  stable (t1 ++ Tick b :: t2 ++ Expire :: t3) = true ->
  let s := fst (run spec_step (init f0) pre) in
  loaded (fst (run spec_step s (t1 ++ Tick b :: t2 ++ Expire :: t3))) = file s.
Proof. exact C38_spec_eventually_final. Qed.
Print Assumptions spec_eventually_final_content.

(* ... and, as one statement about the judge's predicate: every observable trace of the repaired loop
   (file operations, callback reads, IQuiet after tick-then-expiry) satisfies holds_C38. *)
Theorem spec_holds_C38 : forall f0 tr, holds_C38 f0 (observe spec_step (init f0) 0 tr) = true.
Proof. exact spec_satisfies_holds_C38. Qed.
Print Assumptions spec_holds_C38.

(* ... but NOT for the loop as written (finding C38-1): there is a run with a debounce expiry on a file changed
   since it was observed, whose observable trace falsifies holds_C38, and which ends — after two further
   tick/expiry rounds on an unchanged file — with the callback never having read the final content. *)
Theorem C38_refuted : exists f0 tr,
  stale_expiry (init f0) tr = true /\
  holds_C38 f0 (observe impl_step (init f0) 0 tr) = false /\
  (exists t, tr = t ++ [Tick false; Expire; Tick false; Expire] /\
             file (fst (run impl_step (init f0) t)) = file (fst (run impl_step (init f0) tr))) /\
  loaded (fst (run impl_step (init f0) tr)) <> file (fst (run impl_step (init f0) tr)).
Proof. exact Proofs.C38.C38_refuted. Qed.
Print Assumptions C38_refuted.

(* Off the trigger (no debounce expiry on a file that changed after it was observed) both loops are equal. *)
Theorem impl_eq_spec_off_trigger : forall tr s,
  stale_expiry s tr = false -> run impl_step s tr = run spec_step s tr.
Proof. exact impl_eq_spec_off_trigger_gen. Qed.
Print Assumptions impl_eq_spec_off_trigger.

(* Non-vacuity: a reachable state and a stable stretch (watcher lost, no event delivered before the tick)
   in which the premises hold and the callback does run, once, for the final content. *)
Example C38_nonvacuous :
  let s := fst (run impl_step (init (Some 0%N)) [File (Replace 1%N); Dropped]) in
  stable [WatcherLost; Tick false; Event; Expire; Tick true] = true /\
  run impl_step s [WatcherLost; Tick false; Event; Expire; Tick true]
  = (mkst (Some 1%N) (Some 1%N) (Some 1%N) false true (Some 1%N), [Callback (Some 1%N) (Some 1%N)]).
Proof. exact Proofs.C38.C38_nonvacuous. Qed.
