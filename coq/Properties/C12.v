(* C12 — Listing players and servers is safe during concurrent joins and leaves.
   Only statements and `exact`; proofs in Proofs/C12.v; the facts in Gen/LockFacts.v are regenerated
   from the Go sources by translator/lockfacts.go on every run. *)
From Coq Require Import List NArith Bool String.
From Verif Require Import Base.Conc Model.LockDiscipline Model.Listing Gen.LockFacts Proofs.C12.
Import ListNotations.
Open Scope N_scope.
Open Scope list_scope.

(* (i) "without ... racing on shared memory": every syntactic use of Proxy.playerNames / playerIDs /
   servers / configServers and of players.list — including uses of a local that was assigned the map
   (an alias ranged over after RUnlock is an UNGUARDED use) — happens with the field's mutex held
   (write mode for writes).  The list of tolerated functions (Model.LockDiscipline.c12_known_sites)
   is EMPTY now that findings C12-1..3 are repaired in /repo, so ANY unguarded site fails this. *)
Theorem C12_guarded : forallb (fun a => guarded a || match known_site a with Some _ => true | None => false end)
                              accesses = true.
Proof. exact guarded_forallb. Qed.
Print Assumptions C12_guarded.

(* with the empty list the obligation is plainly "every site is guarded" *)
Theorem C12_every_site_guarded : forallb guarded accesses = true.
Proof. exact every_site_guarded. Qed.
Print Assumptions C12_every_site_guarded.

(* the same obligation in the form whose failure prints the offending sites *)
Theorem C12_no_unrecorded_unguarded_site : unguarded_unknown accesses = [].
Proof. exact guarded_or_recorded. Qed.
Print Assumptions C12_no_unrecorded_unguarded_site.

(* non-vacuity: every configured map has read and write sites, every listing function of the property
   has sites, and the lockset walk modelled every function it had to (nothing fell back to KUnknown) *)
Theorem C12_sites_present : sites_present = true /\ untranslated = 0.
Proof. exact (conj sites_present_ok untranslated_zero). Qed.
Print Assumptions C12_sites_present.

(* (ii) "without ... returning a list that mixes entries from different moments": for every program of
   joins, leaves and ATOMIC listers (the granularity a fully guarded listing function has) and every
   schedule, each returned list is exactly the map's content at the moment of that listing action. *)
Theorem C12_snapshot_atomic :
  forall (ts : list (list lact)) (sched : list nat) (r0 : list N),
    atomic_prog ts = true ->
    forall l1 t l l2,
      events (run (lcompile ts) sched (mkLS r0 [])) = l1 ++ EvList t l :: l2 ->
      l = content r0 l1.
Proof. intros ts sched r0 H. exact (snapshot_atomic_all_schedules ts sched r0 H). Qed.
Print Assumptions C12_snapshot_atomic.

(* every listing function of the property is fully guarded in today's source, i.e. has the atomic
   granularity to which C12_snapshot_atomic applies *)
Theorem C12_guarded_listings_are_atomic :
  granularity "Proxy.Servers" = Atomic /\ granularity "Proxy.PlayerCount" = Atomic
  /\ granularity "players.Len" = Atomic /\ granularity "Proxy.Players" = Atomic
  /\ granularity "Proxy.DisconnectAll" = Atomic /\ granularity "players.Range" = Atomic.
Proof. exact servers_listing_atomic. Qed.
Print Assumptions C12_guarded_listings_are_atomic.

(* PRE-FIX code (findings C12-1..3, repaired): per-element granularity (reference copied under RLock,
   iterated after RUnlock): snapshot atomicity was FALSE — a lister and one leave, schedule lister,
   lister, leave, lister, lister *)
Theorem C12_prefix_snapshot_atomic_refuted :
  exists (ts : list (list lact)) (sched : list nat) (r0 : list N) (t : N) (l : list N),
    let evs := events (run (lcompile ts) sched (mkLS r0 [])) in
    In (EvList t l) evs /\ existsb (list_eqbN l) (contents r0 evs) = false.
Proof. exists ts_torn, sched_torn, [1; 2], 0, [1]. exact torn_witness. Qed.
Print Assumptions C12_prefix_snapshot_atomic_refuted.
