(* C37 — Validation accepts exactly the documented configuration space.
   Only statements and `exact`; proofs in Proofs/C37.v, the model (Config.Validate of gate/config, java/config,
   lite/config and the reference predicates for host:port and qualified names) in Model/ConfigValidate.v.

   `validate` = `impl_validate` is the transcription of the code as it is now, i.e. after the fix commits d6c5881
   (`!(quota.OPS > 0)`) and ad3d3c8 (forced-host keys distinct ignoring case); it coincides with the specified
   validator (C37_impl_is_spec).  `prefix_validate` is the code before those commits, kept for the record.  `Broken` is written from the property text and the shipped config documentation: it is the
   disjunction printed by the second command below.  The round-trip half of the property (YAML/JSON marshal,
   loader, equality) has no Coq model — yaml.v3, encoding/json and viper are not modelled — and is decided by
   differential testing in the harness only. *)
From Coq Require Import List NArith ZArith Bool.
From Verif Require Import Base.Hex Model.ConfigValidate Proofs.C37 Proofs.C37_shape.
From Verif Require Model.ConfigShape Gen.ConfigShape.
Import ListNotations.

(* "reports an error exactly when a documented constraint is broken", for every configuration *)
Theorem C37_iff : forall c : cfg, validate c <> [] <-> Broken c.
Proof. exact Proofs.C37.C37_iff. Qed.
Print Assumptions C37_iff.

(* the statement above with Broken and its parts unfolded, so that nothing is hidden behind a name *)
Theorem C37_iff_unfolded : forall c : cfg, validate c <> [] <->
  (health_enabled c = true /\ valid_host_port (health_bind c) = false)
  \/ all_space (bind c) = true
  \/ valid_host_port (bind c) = false
  \/ (q_enabled (q_conn c) = true /\
        (f32_gt_zero (q_ops (q_conn c)) = false \/ (q_burst (q_conn c) < 1)%Z \/ (q_max (q_conn c) < 1)%Z))
  \/ (q_enabled (q_login c) = true /\
        (f32_gt_zero (q_ops (q_login c)) = false \/ (q_burst (q_login c) < 1)%Z \/ (q_max (q_login c) < 1)%Z))
  \/ trusted_ok c = false
  \/ (bf_enabled c = true /\
        (bedrock_enabled c = false
         \/ bf_allowed c = []
         \/ (exists n, In n (bf_allowed c) /\ valid_name n = false)
         \/ ~ NoDup (map lower_ascii (filter valid_name (bf_allowed c)))
         \/ (exists k, In k (map lower_ascii (filter valid_name (bf_allowed c))) /\
                       ~ In k (map lower_ascii (server_names c)))
         \/ ~ (fwd_mode c = s_none \/ fwd_mode c = s_velocity)
         \/ bf_key_ok c = false))
  \/ (lite_enabled c = true /\
        (routes c = [] \/
         exists r, In r (routes c) /\
           (r_hosts r = [] \/ r_backends r = []
            \/ (~ In (r_strategy r) strategies /\ r_strategy r <> [])
            \/ (exists a, In a (r_backends r) /\ lite_parse_fails a = true /\ contains_params a = false))))
  \/ (lite_enabled c = false /\
        ((via_enabled c = true /\
            (~ In (via_mode c) [[]; s_embedded; s_subprocess]
             \/ (via_bind c <> [] /\ valid_host_port (via_bind c) = false)))
         \/ ~ In (fwd_mode c) [s_none; s_legacy; s_velocity; s_bungeeguard]
         \/ (exists n a, In (n, a) (servers c) /\ (valid_name n = false \/ valid_host_port a = false))
         \/ (exists n, In n (try c) /\ ~ In n (server_names c))
         \/ (exists h ns n, In (h, ns) (forced c) /\ In n ns /\ ~ In n (server_names c))
         \/ ~ NoDup (map lower_ascii (map fst (forced c)))
         \/ (level c < -1 \/ level c > 9)%Z
         \/ (threshold c < -1)%Z)).
Proof. exact Proofs.C37.C37_iff. Qed.
Print Assumptions C37_iff_unfolded.

(* accepted (no error) exactly when no documented constraint is broken *)
Theorem C37_accepts_exactly : forall c : cfg, validate c = [] <-> ~ Broken c.
Proof. exact Proofs.C37.C37_accepts_exactly. Qed.
Print Assumptions C37_accepts_exactly.

(* today's code is the specified validator *)
Theorem C37_impl_is_spec : forall c : cfg, impl_validate c = spec_validate c.
Proof. exact Proofs.C37.C37_impl_is_spec. Qed.
Print Assumptions C37_impl_is_spec.

(* Facts about the PRE-FIX code (findings C37-1 and C37-2, both fixed): it differed from the specified validator
   only on the two triggers ... *)
Theorem prefix_eq_spec_off_trigger : forall c : cfg,
  nan_quota c = false -> forced_dup_trigger c = false -> prefix_validate c = spec_validate c.
Proof. exact Proofs.C37.prefix_eq_spec_off_trigger. Qed.
Print Assumptions prefix_eq_spec_off_trigger.

(* ... and on them it accepted a configuration with a broken constraint, which today's code rejects:
   C37-1 (fixed by d6c5881): an enabled quota whose ops is NaN (`quota.OPS <= 0` is false for NaN) *)
Theorem C37_prefix_refuted : exists c : cfg,
  nan_quota c = true /\ Broken c /\ prefix_validate c = [] /\ impl_validate c = [QuotaOps].
Proof. exact Proofs.C37.C37_prefix_refuted. Qed.
Print Assumptions C37_prefix_refuted.

(* C37-2 (fixed by ad3d3c8): two forcedHosts keys that differ only in letter case *)
Theorem C37_prefix_refuted_forced : exists c : cfg,
  forced_dup_trigger c = true /\ Broken c /\ prefix_validate c = [] /\ impl_validate c = [ForcedCaseDup].
Proof. exact Proofs.C37.C37_prefix_refuted_forced. Qed.
Print Assumptions C37_prefix_refuted_forced.

(* Non-vacuity: the shipped defaults with two servers are accepted; a configuration with level 10 and
   threshold -2 is rejected with exactly those two clauses. *)
Example C37_nonvacuous :
  ~ Broken base_cfg /\ (exists c, Broken c /\ validate c = [CompressionLevel; CompressionThreshold]).
Proof. exact Proofs.C37.C37_nonvacuous. Qed.

(* Translator obligations (Gen/ConfigShape.v is regenerated from /repo before every build):
   the validators' source has exactly the error sites, warning sites, validator calls, returns and continues,
   under the same guard conditions and in the same order, as the text the model was transcribed from
   (today's code: both fix commits present) ... *)
Theorem C37_source_shape :
  Verif.Gen.ConfigShape.sites = Verif.Model.ConfigShape.expected_sites true true.
Proof. exact shape_matches. Qed.
Print Assumptions C37_source_shape.

(* ... and every clause id the transcription of the code can report names one of those error sites
   (known cl := the name of cl occurs among the ids of the "e" sites of expected_sites true true; both
   definitions are printed below). *)
Theorem C37_clauses_are_sites : forall c : cfg, forallb known (impl_validate c) = true.
Proof. exact impl_clauses_are_sites. Qed.
Print Assumptions C37_clauses_are_sites.
Print known.
Print site_ids.
