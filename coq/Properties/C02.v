(* C02 — Frame decoding matches the vanilla acceptance rules on hostile byte streams.
   Only statements and `exact`; proofs are in Proofs/C02.v.  All theorems quantify over every byte string,
   both directions and every threshold; zlib (inflate / lazy_close_ok) is universally quantified without
   any premise.
     impl_     = today's decoder.go (with commits 7de81ff and 9119697),
     velocity_ = the reference written from the property text (Varint21 length prefix, claimed-size rules,
                 exact inflation),
     prefix_   = decoder.go BEFORE those two commits, kept only to state what was wrong (findings C02-1 and
                 C02-2, both "fixed" in known_findings.jsonl). *)
From Coq Require Import List NArith ZArith Bool.
From Verif Require Import Base.Hex Base.VarInt Model.Codec Proofs.C01 Proofs.C02.
Import ListNotations.
Open Scope N_scope.

(* "never panics": every function of the model is total (Coq accepts only total functions), the result is one
   of FOk / FErr / FNeedMore.
   "never blocks once the bytes are available": the decoder asks for more input exactly when the length
   prefix is incomplete (no terminating byte yet; then at most five bytes were available) or the announced
   frame of admissible length is not complete yet ... *)
Theorem C02_total : forall (inflate : bytes -> zres) (lazy_close_ok : bytes -> N -> bool) (c : cfg) (s : bytes),
  (snd (impl_decode_frame inflate lazy_close_ok c s) = FNeedMore <->
     read_varint s = VShort \/
     exists l n rest, read_varint s = VVal l n rest /\ (0 < l <= MAXFRAME)%Z /\ len rest < Z.to_N l) /\
  (read_varint s = VShort -> (length s <= 5)%nat).
Proof.
  intros inflate lz c s. split.
  - exact (needmore_iff inflate lz true true c s).
  - exact (read_varint_short_len s).
Qed.
Print Assumptions C02_total.

(* ... and once it has decided (payload or error) the decision does not depend on anything that arrives
   later: more input only extends the undecoded remainder. *)
Theorem C02_decision_stable : forall (inflate : bytes -> zres) (lazy_close_ok : bytes -> N -> bool) (c : cfg) (s more : bytes),
  snd (impl_decode_frame inflate lazy_close_ok c s) <> FNeedMore ->
  impl_decode_frame inflate lazy_close_ok c (s ++ more) =
  (fst (impl_decode_frame inflate lazy_close_ok c s), extend (snd (impl_decode_frame inflate lazy_close_ok c s)) more).
Proof. exact (fun inflate lz c s more => decided_stable inflate lz true true c s more). Qed.
Print Assumptions C02_decision_stable.

(* "never allocates a frame larger than 2^21-1 bytes": the sizes passed to make([]byte, n) while decoding one
   frame are at most the frame buffer (<= 2^21-1) followed by the inflate buffer (<= the direction cap);
   for a whole Decode call (up to 12 frames when empty ones are skipped) every allocation is within
   max(2^21-1, cap). *)
Theorem C02_alloc_bound : forall (inflate : bytes -> zres) (lazy_close_ok : bytes -> N -> bool) (c : cfg) (s : bytes),
  match fst (impl_decode_frame inflate lazy_close_ok c s) with
  | [] => True
  | [n] => (Z.of_N n <= MAXFRAME)%Z
  | [n; m] => (Z.of_N n <= MAXFRAME)%Z /\ (Z.of_N m <= cap (c_dir c))%Z
  | _ => False
  end /\
  Forall (fun n => (Z.of_N n <= Z.max MAXFRAME (cap (c_dir c)))%Z)
         (fst (read_packet (impl_decode_frame inflate lazy_close_ok) c s)).
Proof.
  intros inflate lz c s. split.
  - exact (frame_alloc_bound inflate lz read_varint true true c s).
  - exact (packet_alloc_bound inflate lz read_varint true true c 12 0 s).
Qed.
Print Assumptions C02_alloc_bound.

(* How the agreement is obtained: today's decoder IS the reference's code behind a different length-prefix
   reader (both are decode_frame_with _ true true), and the two prefix readers decide alike on a minimal prefix. *)
Theorem C02_impl_is_spec : forall (inflate : bytes -> zres) (lazy_close_ok : bytes -> N -> bool),
  impl_decode_frame inflate lazy_close_ok = decode_frame_with inflate lazy_close_ok read_varint true true /\
  velocity_decode_frame inflate lazy_close_ok = decode_frame_with inflate lazy_close_ok read_varint21 true true /\
  forall f1 f2 c s, minimal_prefix s = true ->
    same_decision (snd (decode_frame_with inflate lazy_close_ok read_varint f1 f2 c s))
                  (snd (decode_frame_with inflate lazy_close_ok read_varint21 f1 f2 c s)) = true.
Proof.
  intros inflate lz. split; [reflexivity|split; [reflexivity|]].
  exact (prefix_readers_agree inflate lz).
Qed.
Print Assumptions C02_impl_is_spec.

(* "on streams with minimally encoded length prefixes it yields exactly the payloads the Velocity frame decoder
   yields and rejects where it rejects" — today's code, one frame, no further premise: negative / too small /
   too large claimed sizes, bodies not inflating to exactly the claimed size, uncompressed bodies above the
   threshold are rejected by both; a body of exactly the threshold is accepted by both. *)
Theorem C02_agrees_with_velocity : forall (inflate : bytes -> zres) (lazy_close_ok : bytes -> N -> bool) (c : cfg) (s : bytes),
  minimal_prefix s = true ->
  same_decision (snd (impl_decode_frame inflate lazy_close_ok c s))
                (snd (velocity_decode_frame inflate lazy_close_ok c s)) = true.
Proof. exact impl_agrees_velocity. Qed.
Print Assumptions C02_agrees_with_velocity.

(* the same for whole streams: successive Decode calls (empty frames skipped, the 12th in a row refused, packet
   id required) return the same payloads in the same order and stop the same way. *)
Theorem C02_stream_agrees_with_velocity : forall (inflate : bytes -> zres) (lazy_close_ok : bytes -> N -> bool) (c : cfg) (s : bytes),
  minimal_stream inflate lazy_close_ok c s = true ->
  stream_same (decode_stream_flat (impl_decode_frame inflate lazy_close_ok) c s)
              (decode_stream_flat (velocity_decode_frame inflate lazy_close_ok) c s) = true.
Proof. exact impl_stream_agrees_velocity. Qed.
Print Assumptions C02_stream_agrees_with_velocity.

(* ---------- facts about the PRE-FIX decoder (before commits 7de81ff and 9119697) ---------- *)

(* The agreement was FALSE for the pre-fix code on two input classes:
   (1) a negative claimed size was taken for an uncompressed frame,
   (2) a body inflating to more than the claimed size was accepted, cut to the claimed size.
   Both inputs have minimal prefixes; the reference and today's decoder reject them. *)
Theorem C02_prefix_refuted_negative_claimed :
  exists (c : cfg) (s : bytes), minimal_prefix s = true /\ trigger1 c s = true /\
    (exists p, snd (prefix_decode_frame ex_inflate ex_lazy c s) = FOk p []) /\
    snd (velocity_decode_frame ex_inflate ex_lazy c s) = FErr ENegClaimed /\
    snd (impl_decode_frame ex_inflate ex_lazy c s) = FErr ENegClaimed.
Proof.
  exists (mkcfg 256 ServerBound), ex_negative.
  destruct refuted_negative_claimed as (H1 & H2 & H3 & H4 & H5). repeat split; try assumption. eexists; exact H3.
Qed.
Print Assumptions C02_prefix_refuted_negative_claimed.

Theorem C02_prefix_refuted_overlong_body :
  exists (c : cfg) (s : bytes), minimal_prefix s = true /\ trigger2 ex_inflate ex_lazy c s = true /\
    (exists p, snd (prefix_decode_frame ex_inflate ex_lazy c s) = FOk p []) /\
    snd (velocity_decode_frame ex_inflate ex_lazy c s) = FErr EInflate /\
    snd (impl_decode_frame ex_inflate ex_lazy c s) = FErr EInflate.
Proof.
  exists (mkcfg 2 ServerBound), ex_overlong.
  destruct refuted_overlong_body as (H1 & H2 & H3 & H4 & H5). repeat split; try assumption. eexists; exact H3.
Qed.
Print Assumptions C02_prefix_refuted_overlong_body.

(* Off the two triggers the pre-fix decoder took the same decision as today's (so the repairs changed nothing
   else), and hence agreed with the reference there, per frame and per stream. *)
Theorem C02_prefix_eq_impl_off_trigger : forall (inflate : bytes -> zres) (lazy_close_ok : bytes -> N -> bool) (c : cfg) (s : bytes),
  trigger1 c s = false -> trigger2 inflate lazy_close_ok c s = false ->
  same_decision (snd (prefix_decode_frame inflate lazy_close_ok c s))
                (snd (impl_decode_frame inflate lazy_close_ok c s)) = true.
Proof. exact prefix_impl_off_trigger. Qed.
Print Assumptions C02_prefix_eq_impl_off_trigger.

Theorem C02_prefix_agrees_off_trigger : forall (inflate : bytes -> zres) (lazy_close_ok : bytes -> N -> bool) (c : cfg) (s : bytes),
  (minimal_prefix s = true -> trigger1 c s = false -> trigger2 inflate lazy_close_ok c s = false ->
     same_decision (snd (prefix_decode_frame inflate lazy_close_ok c s))
                   (snd (velocity_decode_frame inflate lazy_close_ok c s)) = true) /\
  (minimal_stream inflate lazy_close_ok c s = true -> untriggered_stream inflate lazy_close_ok c s = true ->
     stream_same (decode_stream_flat (prefix_decode_frame inflate lazy_close_ok) c s)
                 (decode_stream_flat (velocity_decode_frame inflate lazy_close_ok) c s) = true).
Proof.
  intros inflate lz c s. split.
  - exact (prefix_agrees_velocity_off_trigger inflate lz c s).
  - exact (prefix_stream_agrees_velocity_off_trigger inflate lz c s).
Qed.
Print Assumptions C02_prefix_agrees_off_trigger.

(* Non-vacuity of the agreement premises, and the threshold boundary of the property text
   ("uncompressed frames larger than the threshold are rejected, one of exactly the threshold size is tolerated"). *)
Example C02_premises_satisfiable :
  let c := mkcfg 4 ClientBound in
  minimal_stream ex_inflate6 ex_lazy c ex_good = true /\
  untriggered_stream ex_inflate6 ex_lazy c ex_good = true /\
  decode_stream_flat (impl_decode_frame ex_inflate6 ex_lazy) c ex_good = ([[7; 8]; [9; 65; 65; 65; 65; 65]], TNeedMore) /\
  decode_stream_flat (velocity_decode_frame ex_inflate6 ex_lazy) c ex_good = ([[7; 8]; [9; 65; 65; 65; 65; 65]], TNeedMore).
Proof. exact agreement_nonvacuous. Qed.

Example C02_threshold_boundary :
  let c := mkcfg 2 ServerBound in
  snd (impl_decode_frame ex_inflate ex_lazy c [3; 0; 7; 8]) = FOk [7; 8] [] /\
  snd (velocity_decode_frame ex_inflate ex_lazy c [3; 0; 7; 8]) = FOk [7; 8] [] /\
  snd (impl_decode_frame ex_inflate ex_lazy c [4; 0; 7; 8; 9]) = FErr EOverThreshold /\
  snd (velocity_decode_frame ex_inflate ex_lazy c [4; 0; 7; 8; 9]) = FErr EOverThreshold.
Proof. exact threshold_boundary. Qed.
