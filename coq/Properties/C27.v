(* C27 - Resource-pack prompts never block and follow the client-version rules.
   Only statements and `exact`; the proofs are in Proofs/C27*.v.

   Baseline: /repo after fix commit c3c83c0 (findings C27-1..3 repaired).
   [impl_run proto hb h] is the record (events, result, applied and pending packs per call) of the
   history h on the handler resourcepack.NewHandler returns for a client of protocol [proto]
   ([hb]: a backend connection is in flight), computed by the handlers written in the lock language
   of Model/ResourcePack.v with the lock nesting of the code as it is now.  It is what the property
   demands ([impl_is_spec]).  [old_run] is the same for the legacy handlers BEFORE the fix; the
   refutations at the end are facts about that pre-fix code. *)
From Coq Require Import List NArith Bool.
From Verif Require Import Model.ResourcePack Proofs.C27_Lang Proofs.C27_Legacy Proofs.C27_Modern Proofs.C27.
Import ListNotations.
Open Scope N_scope.

(* today's code is the demanded behaviour (both are the lock-language handlers with the current nesting
   and all repairs present) *)
Theorem impl_is_spec : forall proto hb h, impl_run proto hb h = spec_run proto hb h.
Proof. exact impl_is_spec_proof. Qed.
Print Assumptions impl_is_spec.

(* "never deadlocks for any client version (each call returns ...)": for every protocol and every
   history, every call of the history has a record and none is stuck (a non-reentrant lock taken
   twice), out of fuel or an error. *)
Theorem never_stuck : forall proto hb h,
  length (impl_run proto hb h) = length h /\
  Forall (fun x => s_ret x <> RStuck /\ s_ret x <> ROutOfFuel /\ s_ret x <> RErr) (impl_run proto hb h).
Proof. exact never_stuck_proof. Qed.
Print Assumptions never_stuck.

(* ... and the only call that panics is Remove on a client below 1.20.3 (documented: "Cannot remove a
   ResourcePack from a legacy client"). *)
Theorem panic_only_remove_on_legacy : forall proto hb h k x,
  nth_error (impl_run proto hb h) k = Some x -> s_ret x = RPanic ->
  is_legacy proto = true /\ exists id, nth_error h k = Some (Remove id).
Proof. exact panic_only_remove_proof. Qed.
Print Assumptions panic_only_remove_on_legacy.

(* the lock-language handlers compute the pure state machines the remaining theorems are proved on *)
Theorem lock_language_refines_pure_legacy : forall e c h s,
  run_lang (l_exec CurrentNesting e c) l_papp l_ppend Free s h = run_lpure e c s h.
Proof. exact run_legacy_pure. Qed.
Print Assumptions lock_language_refines_pure_legacy.
Theorem lock_language_refines_pure_modern : forall e h s,
  run_lang (m_exec e) m_papp m_ppend Free s h = run_mpure e s h.
Proof. exact run_modern_pure. Qed.
Print Assumptions lock_language_refines_pure_modern.

(* "For clients before 1.20.3 at most one prompt is outstanding": after every call of every history
   the number of requests sent minus final responses received is at most one. *)
Theorem single_outstanding : forall proto hb h,
  is_legacy proto = true -> Forall (fun c => c <= 1) (outstanding 0 h (impl_run proto hb h)).
Proof. exact single_outstanding_proof. Qed.
Print Assumptions single_outstanding.

(* "packs are prompted in queue order": the serial numbers (= order of the queue calls) of all
   requests of a history are strictly increasing, so no pack is prompted twice or out of order. *)
Theorem fifo_prompts : forall proto hb h,
  is_legacy proto = true -> increasing (prompt_uids (all_events (impl_run proto hb h))) = true.
Proof. exact fifo_prompts_proof. Qed.
Print Assumptions fifo_prompts.

(* "queued packs are auto-declined only after the client has declined one (forced packs on 1.17+ are
   still prompted)": whenever the k-th call declines a pack p on the client's behalf, the client's last
   accept/decline answer up to and including call k was a decline, and p is not a forced pack on a
   1.17+ (protocol 755+) client. *)
Theorem auto_decline_only_after_decline : forall proto hb h k x p,
  is_legacy proto = true ->
  nth_error (impl_run proto hb h) k = Some x -> In (GAuto p) (s_events x) ->
  last_decision None (firstn (S k) h) = Some false /\ (force p && (755 <=? proto) = false).
Proof. exact auto_decline_proof. Qed.
Print Assumptions auto_decline_only_after_decline.

(* the observable side of the same clause: a pack queued while no prompt is outstanding is prompted by
   that very call unless the client's last answer was a decline and the pack is not forced-on-1.17+. *)
Theorem idle_queue_is_prompted : forall proto hb h,
  is_legacy proto = true ->
  idle_queue_prompted (env_of proto hb) 0 None h (impl_run proto hb h) = true.
Proof. exact idle_prompted_proof. Qed.
Print Assumptions idle_queue_is_prompted.

(* "for 1.20.3+ packs are tracked per id": for every id at most one prompt is outstanding. *)
Theorem per_id_tracking : forall proto hb h id,
  is_legacy proto = false -> Forall (fun c => c <= 1) (outstanding_id id 0 h (impl_run proto hb h)).
Proof. exact per_id_proof. Qed.
Print Assumptions per_id_tracking.

(* "Responses to backend-originated packs are reported to the backend, responses to proxy-originated
   packs are not": in every call the responses written to the backend are exactly, in order, those of
   the resolutions (client answers GOwn, declines on the client's behalf GAuto) whose pack came from
   the backend or that match no pack; nothing is written without a backend in flight. *)
Theorem report_iff_backend_origin : forall proto hb h,
  Forall (fun x => reports (s_events x) = flat_map (expected_report hb) (s_events x)) (impl_run proto hb h).
Proof. exact report_proof. Qed.
Print Assumptions report_iff_backend_origin.

(* the predicate the judge evaluates on the implementation's record holds for every spec run *)
Theorem impl_holds_P : forall proto hb h, holds_P proto hb h (impl_run proto hb h) = true.
Proof. exact spec_holds_P_proof. Qed.
Print Assumptions impl_holds_P.

(* ---------- the PRE-FIX legacy handlers (findings C27-1..3, fixed by c3c83c0) ---------- *)

(* C27-1 (fixed): before the fix, on every client below 1.20.3 the first QueueResourcePack never returned *)
Theorem old_first_queue_always_stuck : forall proto hb id hash f be,
  is_legacy proto = true -> old_run proto hb [Queue id hash f be] = [mkStep [] RStuck [] []].
Proof. exact old_first_queue_stuck. Qed.
Print Assumptions old_first_queue_always_stuck.
Theorem old_never_stuck_refuted : exists proto hb h, In RStuck (map s_ret (old_run proto hb h)).
Proof. exact never_stuck_refuted_proof. Qed.
Print Assumptions old_never_stuck_refuted.

(* C27-2 (fixed): before the fix a response while nothing was queued panicked *)
Theorem old_response_on_empty_queue_panics : forall proto hb b,
  is_legacy proto = true -> old_run proto hb [Response b] = [mkStep [] RPanic [] []].
Proof. exact old_response_panics. Qed.
Print Assumptions old_response_on_empty_queue_panics.

(* C27-3 (fixed): the bool prevResourceResponse of the pre-fix code: with only the locking repaired a
   pack is declined on the client's behalf although the client never declined *)
Theorem old_auto_decline_refuted : exists proto hb h k x p,
  nth_error (run_handler CurrentNesting (mkCfg false true) proto hb h) k = Some x /\
  In (GAuto p) (s_events x) /\ last_decision None (firstn (S k) h) <> Some false.
Proof. exact auto_decline_refuted_proof. Qed.
Print Assumptions old_auto_decline_refuted.

(* off the triggers (histories of Clear / Remove only, or any history on 1.20.3+) the pre-fix handlers
   already behaved as demanded *)
Theorem old_eq_spec_off_trigger : forall proto hb h,
  forallb quiet h = true -> old_run proto hb h = spec_run proto hb h.
Proof. exact old_eq_spec_off_trigger_proof. Qed.
Print Assumptions old_eq_spec_off_trigger.
Theorem old_eq_spec_modern : forall proto hb h,
  is_legacy proto = false -> old_run proto hb h = spec_run proto hb h.
Proof. exact old_eq_spec_modern_proof. Qed.
Print Assumptions old_eq_spec_modern.

(* premises are met: a 1.20.2 history in which a decline makes tick decline one pack and prompt a forced one *)
Example nonvacuous_auto_decline :
  exists x p, nth_error (impl_run 764 true h_demo) 4 = Some x /\ In (GAuto p) (s_events x) /\ uid p = 1 /\
              prompt_uids (s_events x) = [2].
Proof. exact demo_auto_decline. Qed.
