(* C13 — Login plugin messages are answered exactly once by the matching consumer.
   Only statements and `exact`; the proofs are in Proofs/C13.v.

   Model/LoginInbound.v has two variants: Impl = the code as it is (fix commit 7206740: the
   completion callback is taken out of the struct inside the critical section that decides to run
   it) and Prefix = the PRE-fix code of finding C13-1 (the callback was never cleared).  The
   theorems about the completion are stated for Impl; the last one records the defect as a fact
   about Prefix.  The other theorems hold for both variants (v is quantified).
   Atomic actions = the critical sections and unlocked effects of SendLoginPluginMessage
   (s_alloc, s_register, s_write), handleLoginPluginResponse (r_lookup, r_consume, r_check,
   r_complete), loginEventFired (f_fire, f_flush) and clearOnAllMessagesHandled.  "All schedules" =
   Base.Conc.run over ANY threads made of these actions (on any local slots, in any order, sends
   from any number of goroutines, responses even from several) and ANY schedule.  Events: EReg id k
   (consumer k registered under id), EResp id a (a client response for id with argument a entered
   the handler), ECons id k a (k invoked with a), EBackend id bid a (LoginPluginResponse{bid, a}
   written to the backend by the Forge relay consumer), EFire, ECompletion. *)
From Coq Require Import List ZArith NArith Bool Arith.
From Verif Require Import Base.Conc Model.LoginInbound Proofs.C13.
Import ListNotations.

(* "delivered ... at most once": for both variants and every schedule, the consumer invocations for
   a message id never outnumber the registrations under that id (ids come from an atomic counter,
   so each id is registered once and hence answered to its consumer at most once). *)
Theorem C13_consumer_at_most_once :
  forall v pok n (ts : list (@thread state event)) sched id,
  (forall a, In a (concat ts) -> is_action v a) ->
  let evs := events (run ts sched (init pok n)) in
  count_cons id evs <= count_reg id evs.
Proof. exact consumer_at_most_once_all. Qed.
Print Assumptions C13_consumer_at_most_once.

(* "delivered only to the consumer registered for that message id": whoever is invoked for id was
   registered under id, and receives exactly the argument of a client response for id. *)
Theorem C13_id_correlation :
  forall v pok n (ts : list (@thread state event)) sched id k a,
  (forall a, In a (concat ts) -> is_action v a) ->
  let evs := events (run ts sched (init pok n)) in
  In (ECons id k a) evs -> In (EReg id k) evs /\ In (EResp id a) evs.
Proof. exact id_correlation_all. Qed.
Print Assumptions C13_id_correlation.

(* "responses with unknown ids are ignored" (whole call, both variants): nothing is invoked, written
   or completed and the connection's fields are unchanged. *)
Theorem C13_unknown_ignored :
  forall v s id ok data,
  locals s <> [] -> mfind id (outstanding s) = None ->
  let r := step_op v s (OResponse id ok data) in
  snd r = [EResp id (resp_arg ok data)]
  /\ seqc (fst r) = seqc s /\ outstanding (fst r) = outstanding s /\ queue (fst r) = queue s
  /\ fired (fst r) = fired s /\ on_all (fst r) = on_all s /\ locals (fst r) <> [].
Proof. exact unknown_ignored_seq. Qed.
Print Assumptions C13_unknown_ignored.

(* "backend Forge login messages relayed through the client are each answered to the backend exactly
   once with the client's reply for that message".  Every schedule: at most one backend write per
   relayed message, it carries the backend's message id and the argument of a client response for
   the id the relay sent to the client ... *)
Theorem C13_relay_at_most_once :
  forall v pok n (ts : list (@thread state event)) sched id,
  (forall a, In a (concat ts) -> is_action v a) ->
  let evs := events (run ts sched (init pok n)) in
  count_backend id evs <= count_reg id evs
  /\ forall bid a, In (EBackend id bid a) evs -> In (EReg id (CRelay bid)) evs /\ In (EResp id a) evs.
Proof. exact relay_all. Qed.
Print Assumptions C13_relay_at_most_once.

(* ... and a whole response call for an outstanding id invokes its consumer exactly once with the
   reply; for a relay consumer it writes exactly one response with that reply to the backend.  The
   same statement says when the completion runs (code as it is): iff nothing is outstanding after the
   consumer ran and a callback is kept, which is then dropped. *)
Theorem C13_answered_exactly_once :
  forall s id k ok data,
  locals s <> [] -> mfind id (outstanding s) = Some k ->
  let r := step_op Impl s (OResponse id ok data) in
  let done := is_nil (outstanding (fst r)) in
  fired (fst r) = fired s
  /\ on_all (fst r) = (if done then false else on_all s)
  /\ count_completion (snd r) = (if done && on_all s then 1 else 0)
  /\ count_cons id (snd r) = 1
  /\ In (ECons id k (resp_arg ok data)) (snd r)
  /\ (forall bid, k = CRelay bid -> In (EBackend id bid (resp_arg ok data)) (snd r)
                                    /\ count_backend id (snd r) = 1)
  /\ locals (fst r) <> [] /\ proto_ok (fst r) = proto_ok s.
Proof. exact response_hit_seq. Qed.
Print Assumptions C13_answered_exactly_once.

(* "The login-completion step runs exactly once ..." — the code as it is (Impl), every schedule:
   never more often than the pre-login event fired. *)
Theorem C13_completion_at_most_once :
  forall pok n (ts : list (@thread state event)) sched,
  (forall a, In a (concat ts) -> is_action Impl a) ->
  let evs := events (run ts sched (init pok n)) in
  count_completion evs <= count_fire evs.
Proof. exact completion_at_most_once_all. Qed.
Print Assumptions C13_completion_at_most_once.

(* "... after the pre-login event and after every outstanding message has been answered" — the
   code as it is (Impl), every history (consumers of every kind, CFail = a consumer that returns
   an error included: what a consumer returns does not matter) of whole calls in which the event fires at most once, the client answers only
   after it and the callback is not cleared ([adm]): the completion has run at most once; not at
   all before the event; exactly once as soon as the event has fired and nothing is outstanding;
   and while something is outstanding and it has not run, the callback is still kept. *)
Theorem C13_completion_exactly_once :
  forall pok n os,
  0 < n -> adm false os = true ->
  let r := run_ops Impl (init pok n) os in
  let c := count_completion (concat (snd r)) in
  c <= 1
  /\ (fired (fst r) = false -> c = 0)
  /\ (fired (fst r) = true -> outstanding (fst r) = [] -> c = 1)
  /\ (fired (fst r) = true -> outstanding (fst r) <> [] -> c = 0 -> on_all (fst r) = true).
Proof. exact completion_exactly_once_impl. Qed.
Print Assumptions C13_completion_exactly_once.

(* Finding C13-1 (fixed by commit 7206740), recorded as a fact about the PRE-fix code: it REFUTED
   exactly-once — one fire, two completions.  The event fires with nothing queued (the completion
   runs), then a handler sends a message and the client answers it: the callback was never
   cleared and ran again.  Today's code (Impl) runs it once on the same history. *)
Theorem C13_completion_exactly_once_prefix_refuted :
  let h := [OFire; OSend (CPlain 1) [1%N]; OResponse 1 true []] in
  let evs := concat (snd (run_ops Prefix (init true 1) h)) in
  count_fire evs = 1 /\ count_completion evs = 2
  /\ count_completion (concat (snd (run_ops Impl (init true 1) h))) = 1.
Proof. exact prefix_completion_refuted_witness. Qed.
Print Assumptions C13_completion_exactly_once_prefix_refuted.

(* ---------- the premises are met ---------- *)

(* One send, one response for its id and the event, as three goroutines: over ALL 1260 interleavings
   of their 3+4+2 atomic steps (Impl) the consumer ran at most once and the completion at most
   once; schedules in which both happened exist.
   (Proofs.C13.nv_threads Impl = [send_thread 0 (CPlain 1) [1]; response_thread Impl 1 1 (Some []);
   fire_thread Impl 2]; Proofs.C13.nv_check = forallb over Base.Conc.outcomes from init true 3 of
   count_cons 1 <=? 1, count_completion <=? 1, count_reg 1 =? 1, count_fire =? 1, an existsb of both
   = 1, and length = 1260.  Stated through the constants so that re-checking this file does not
   re-evaluate them.) *)
Example C13_nonvacuous_all_schedules :
  (forall a, In a (concat (nv_threads Impl)) -> is_action Impl a) /\ nv_check = true.
Proof. exact (conj (nv_threads_actions Impl) nv_check_ok). Qed.

(* An admissible history with a consumer that sends two more messages, a relayed backend message, a
   failed, a duplicate and an unknown response: everything answered, one completion, the backend got
   the client's reply for the relayed message. *)
Example C13_nonvacuous_history :
  let h := [OSend (CSendMore 1 2) [1%N]; ORelay 7 []; OFire;
            OResponse 2 true [9%N]; OResponse 1 false []; OResponse 3 true []; OResponse 3 true [];
            OResponse 4 true [5%N]; OResponse 99 true []] in
  adm false h = true
  /\ let r := run_ops Impl (init true 1) h in
     fired (fst r) = true /\ outstanding (fst r) = []
     /\ count_completion (concat (snd r)) = 1
     /\ In (EBackend 2 7 (Some [9%N])) (concat (snd r))
     /\ count_cons 3 (concat (snd r)) = 1.
Proof. exact nv_history_ok. Qed.

(* Consumers that return an error (CFail): on the last answered message, on a middle one, on all —
   everything counts as answered and the completion runs exactly once. *)
Example C13_nonvacuous_failing_consumers :
  let run h := run_ops Impl (init true 1) h in
  let c h := count_completion (concat (snd (run h))) in
  let h_last := [OSend (CPlain 1) [1%N]; OSend (CFail 2) [2%N]; OFire; OResponse 1 true []; OResponse 2 true []] in
  let h_mid := [OSend (CFail 1) [1%N]; OSend (CPlain 2) [2%N]; OFire; OResponse 1 false []; OResponse 2 true []] in
  let h_all := [OSend (CFail 1) [1%N]; OSend (CFail 2) [2%N]; OFire; OResponse 2 true []; OResponse 1 true []] in
  adm false h_last = true /\ adm false h_mid = true /\ adm false h_all = true
  /\ outstanding (fst (run h_last)) = [] /\ c h_last = 1
  /\ outstanding (fst (run h_mid)) = [] /\ c h_mid = 1
  /\ outstanding (fst (run h_all)) = [] /\ c h_all = 1.
Proof. exact nv_failing_ok. Qed.
