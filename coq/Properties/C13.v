(* C13 (under construction) *)
From Verif Require Import Base.Conc Model.LoginInbound Proofs.C13.
