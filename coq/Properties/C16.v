(* C16 - statements (under construction). *)
From Coq Require Import List Arith Bool.
From Verif Require Import Base.Conc Base.Lin Model.Switch Proofs.C16.
Import ListNotations.
