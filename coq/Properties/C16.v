(* C16 - Server switches keep exactly one live backend and consistent server player lists.
   Only statements and `exact`; the proofs are in Proofs/C16.v, the model is Model/Switch.v.

   Vocabulary (Model/Switch.v): [run strict e n ops] is the list of observations (results, current
   server, per-server player-list membership, per-server open backend connections, player active) after
   the login and after each operation of a sequential history.  [impl_run] = run true is today's code
   (/repo after the fixes e5fee55 and 8f6edb6), [spec_run] the specification (the same function),
   [prefix_run] = run false the code before fix 8f6edb6.  [history_ok] is the property's own predicate on such a list:
   [state_ok] for every observation (exactly one open backend connection iff connected, and it is the
   current server's; the player is in the list of exactly its current server; a player that is gone has
   no server) and [op_ok] for every operation (success => on the destination; AlreadyConnected /
   InProgress => reported as such and nothing changed; failure => previous server, a server of the try
   list, or player disconnected - for a raw Connect of a 1.20.2+ client that already entered the
   configuration phase: no server, still connected). *)
From Coq Require Import List Arith Bool.
From Verif Require Import Base.Conc Base.Lin Model.Switch Proofs.C16.
Import ListNotations.

(* --- sequential histories: every client family, try list, fault script, operation sequence --- *)

(* today's code is the specification on sequential histories (the repaired connect() has no reset) *)
Lemma C16_seq_impl_is_spec : impl_run = spec_run.
Proof. exact seq_impl_is_spec. Qed.

(* "For any sequence of connection requests ... to healthy, refusing, kicking or slow backends": the
   code's model satisfies the whole predicate. *)
Theorem C16_impl_satisfies_property :
  forall (e : env) (n : nat) (ops : list op), history_ok e n ops (impl_run e n ops) = true.
Proof. exact spec_history_ok. Qed.
Print Assumptions C16_impl_satisfies_property.

(* "a player has ... one current backend; ... the previous backend connection is closed, and the player
   appears in the player list of exactly its current server" - at_most_one_current and
   lists_match_current for every observation of every history. *)
Theorem C16_one_live_backend_and_lists_match :
  forall (e : env) (n : nat) (ops : list op),
    Forall (fun o => state_ok n o = true) (impl_run e n ops).
Proof. exact spec_histories_state_ok. Qed.
Print Assumptions C16_one_live_backend_and_lists_match.

(* "requests to the current server or while one is in flight are reported as such without side
   effects": a refused request returns the state unchanged. *)
Theorem C16_refusal_no_side_effect :
  forall (e : env) (t : nat) (s : st) (r : res),
    check_server s t = Some r ->
    connect_raw true e t s = (s, r) /\ connect_ind e t s = (s, RFalse).
Proof. exact spec_refusal_no_side_effect. Qed.
Print Assumptions C16_refusal_no_side_effect.

(* Stale request objects: a ConnectionRequest carries a snapshot of the player's server at the time
   CreateConnectionRequest ran ([prev], None before the first join).  What executing it does depends
   only on the player's state when it runs: any two snapshots, and a freshly created request, give the
   same step ... *)
Theorem C16_request_outcome_independent_of_creation_time :
  forall (strict : bool) (e : env) (prev prev' : option nat) (t : nat) (s : st),
    step strict e (OConnectSnap prev t) s = step strict e (OConnectSnap prev' t) s /\
    step strict e (OConnectSnap prev t) s = step strict e (OConnect t) s.
Proof. exact outcome_independent_of_creation_time. Qed.
Print Assumptions C16_request_outcome_independent_of_creation_time.

(* ... so C16_impl_satisfies_property covers histories with stale requests (OConnectSnap is one of the
   operations it quantifies over).  A variant that keys handleJoinGame's tear-down on the snapshot -
   not the code - would depend on it: from the same state the same switch is fine with a fresh
   snapshot and leaves two live backends and two lists with a snapshot taken before the first join. *)
Theorem C16_snapshot_keyed_variant_refuted :
  let fresh_snap := connect_keyed (Some 0) 1 start_st in
  let stale_snap := connect_keyed None 1 start_st in
  snd fresh_snap = RSuccess /\ state_ok 3 (observe 3 [RSuccess] (fst fresh_snap)) = true /\
  snd stale_snap = RSuccess /\ state_ok 3 (observe 3 [RSuccess] (fst stale_snap)) = false /\
  map c_srv (opened (fst stale_snap)) = [1; 0] /\ lists (fst stale_snap) = [1; 0] /\
  fst fresh_snap = fst (connect_raw true (mkEnv FamA [0] []) 1 start_st).
Proof. exact keyed_refuted. Qed.
Print Assumptions C16_snapshot_keyed_variant_refuted.

(* Facts about the code BEFORE fix 8f6edb6 (finding C16-2, fixed): it equalled today's code on every
   history without requests issued during a flight ... *)
Theorem C16_prefix_equals_impl_off_trigger :
  forall (e : env) (n : nat) (ops : list op),
    Forall (fun o => match o with ODuring _ _ => False | _ => True end) ops ->
    prefix_run e n ops = impl_run e n ops.
Proof. exact prefix_eq_impl_off_trigger. Qed.
Print Assumptions C16_prefix_equals_impl_off_trigger.

(* ... and differed there: while Connect(s3) to a backend that never answers was in flight, Connect(s1)
   was reported InProgress and cleared the slot, the following Connect(s2) was let in and switched the
   player; the property predicate is false on the pre-fix history and true on today's. *)
Theorem C16_prefix_refusal_no_side_effect_refuted :
  map o_res (run false ex_env 4 ex_ops) = [[RNone]; [RInProgress; RSuccess; RErr]] /\
  history_ok ex_env 4 ex_ops (run false ex_env 4 ex_ops) = false /\
  map o_res (run true ex_env 4 ex_ops) = [[RNone]; [RInProgress; RInProgress; RErr]] /\
  history_ok ex_env 4 ex_ops (run true ex_env 4 ex_ops) = true.
Proof. exact prefix_refusal_side_effect_refuted. Qed.
Print Assumptions C16_prefix_refusal_no_side_effect_refuted.

(* --- concurrent requests: every number of requests, every target list, EVERY schedule --- *)

(* Today's code (two unlocked checkServer calls, then checkAndSetInFlight: check and set in one critical
   section), family A, healthy backends, started from the quiescent state "logged in on server 0":
   at_most_one_in_flight, the player is in at most one list, at most two open connections (current +
   in flight) at any point of any schedule; and whenever no request is in flight the state is
   consistent: nothing in the slot, the only open connection is the current one, the player is in the
   list of exactly its current server. *)
Theorem C16_impl_all_schedules :
  forall (ts : list nat) (sched : list nat),
    let c := fst (fst (Conc.run (requests impl_request 0 ts) sched start_cst)) in
    length (c_active c) <= 1 /\
    length (lists (c_st c)) <= 1 /\
    length (opened (c_st c)) <= 2 /\
    (c_active c = [] ->
     flight (c_st c) = None /\
     opened (c_st c) = match cur (c_st c) with Some x => [x] | None => [] end /\
     lists (c_st c) = match cur (c_st c) with Some x => [c_srv x] | None => [] end).
Proof.
  intros ts sched c.
  pose proof (impl_invariant_all_schedules ts sched start_cst cinv_start) as H. fold c in H.
  split; [exact (cinv_one_in_flight c H)|].
  split; [exact (proj1 (cinv_lists c H))|].
  split; [exact (proj2 (cinv_lists c H))|].
  intros H0. destruct (cinv_quiescent c H H0) as (A & B & C).
  split; [exact A|]. split.
  - rewrite B. destruct (cur (c_st c)); reflexivity.
  - rewrite C. destruct (cur (c_st c)); reflexivity.
Qed.
Print Assumptions C16_impl_all_schedules.

(* the same for the specification threads (admission in a single step) *)
Theorem C16_spec_all_schedules :
  forall (ts : list nat) (sched : list nat),
    let c := fst (fst (Conc.run (requests spec_request 0 ts) sched start_cst)) in
    length (c_active c) <= 1 /\
    length (lists (c_st c)) <= 1 /\
    length (opened (c_st c)) <= 2 /\
    (c_active c = [] ->
     flight (c_st c) = None /\
     opened (c_st c) = match cur (c_st c) with Some x => [x] | None => [] end /\
     lists (c_st c) = match cur (c_st c) with Some x => [c_srv x] | None => [] end).
Proof.
  intros ts sched c.
  pose proof (spec_invariant_all_schedules ts sched start_cst cinv_start) as H. fold c in H.
  split; [exact (cinv_one_in_flight c H)|].
  split; [exact (proj1 (cinv_lists c H))|].
  split; [exact (proj2 (cinv_lists c H))|].
  intros H0. destruct (cinv_quiescent c H H0) as (A & B & C).
  split; [exact A|]. split.
  - rewrite B. destruct (cur (c_st c)); reflexivity.
  - rewrite C. destruct (cur (c_st c)); reflexivity.
Qed.
Print Assumptions C16_spec_all_schedules.

(* Facts about the code BEFORE the fixes e5fee55 / 8f6edb6 (finding C16-1, fixed): checkServer, then
   setInFlightConnection in a second critical section - refuted by schedule.
   proj = (requests in flight, current server, lists, servers of the open connections, results).
   Two requests interleaved between check and set were both in flight ... *)
Theorem C16_prefix_at_most_one_in_flight_refuted :
  proj (Conc.run [prefix_request 0 1; prefix_request 1 2] [0; 0; 1; 1; 0; 1] start_cst)
  = ([1; 0], Some 0, [0], [2; 1; 0], []).
Proof. exact prefix_two_in_flight_refuted. Qed.
Print Assumptions C16_prefix_at_most_one_in_flight_refuted.

(* ... run to completion: both report Success, two backend connections stay open and the player is in
   two lists (was observed on the real proxy) ... *)
Theorem C16_prefix_one_live_backend_refuted :
  proj (Conc.run [prefix_request 0 1; prefix_request 1 2] [0; 0; 1; 1; 0; 1; 0; 1; 0; 1; 0; 1] start_cst)
  = ([], Some 2, [2; 1], [2; 1], [(0, RSuccess); (1, RSuccess)]).
Proof. exact prefix_two_live_refuted. Qed.
Print Assumptions C16_prefix_one_live_backend_refuted.

(* ... and a request refused as InProgress cleared the slot of the running one, so a third request was
   let in next to it. *)
Theorem C16_prefix_refusal_starts_next_refuted :
  proj (Conc.run [prefix_request 0 1; prefix_request 1 2; prefix_request 2 2]
                 [0; 0; 0; 1; 1; 1; 1; 2; 2; 2] start_cst)
  = ([2; 0], Some 0, [0], [2; 1; 0], [(1, RInProgress)]).
Proof. exact prefix_refusal_starts_next_refuted. Qed.
Print Assumptions C16_prefix_refusal_starts_next_refuted.

(* Non-vacuity: the start state satisfies the invariant's premises; the interleaving that broke the
   pre-fix code is harmless for today's code (the second request is refused at checkAndSetInFlight); a
   concrete schedule of the specification threads; a concrete 1.20.2+ history (kick in configuration
   after the old server was left, fallback walk over a server that kicks in login, a switch, a kick
   from the current server, a refusal) satisfies the predicate. *)
Example C16_impl_schedule_example :
  proj (Conc.run [impl_request 0 1; impl_request 1 2] [0; 0; 1; 1; 0; 1; 0; 1; 0; 1] start_cst)
  = ([], Some 1, [1], [1], [(1, RInProgress); (0, RSuccess)]).
Proof. exact impl_same_schedule. Qed.

Example C16_spec_schedule_example :
  proj (Conc.run [spec_request 0 1; spec_request 1 2] [0; 1; 0; 1; 0; 1] start_cst)
  = ([], Some 1, [1], [1], [(1, RInProgress); (0, RSuccess)]).
Proof. exact spec_same_schedule. Qed.

Example C16_history_example :
  let e := mkEnv FamB [0; 1] [[BAccept; BKickLogin]; [BAccept; BAccept]; [BKickConfig; BAccept]] in
  let ops := [OConnect 1; OConnectInd 2; OConnect 0; OKick; OConnect 1] in
  map (fun o => (o_res o, o_cur o)) (impl_run e 3 ops)
  = [([RNone], Some 0); ([RSuccess], Some 1); ([RFalse], Some 1); ([RSuccess], Some 0);
     ([RNone], Some 1); ([RAlready], Some 1)]
  /\ history_ok e 3 ops (impl_run e 3 ops) = true.
Proof. vm_compute. split; reflexivity. Qed.
