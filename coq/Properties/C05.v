(* C05 - Decoding untrusted packets never crashes, hangs or blows up memory.
   The theorems cover the decoders INSIDE the translator's layout fragment (the same regenerated
   Gen.PacketLayouts as C04): for every payload they terminate (the fuel that bounds the counted loops
   of the model is never exhausted; every loop iteration consumes at least one byte) and the allocation
   units they request (bytes of make / string copies, elements of pre-sized slices) are bounded by
   a * len + b with constants computed from the layout.  Totality ("a packet or an error") is the
   type of dec_L.  Decoders outside the fragment, process-level crashes, hangs and real heap growth
   are decided by the child-process runs of harness/cmd/c05 (Check/C05.v). *)
From Coq Require Import List NArith ZArith String Bool.
From Verif Require Import Base.Hex Model.Layout Model.LayoutPrims Gen.PacketLayouts
  Proofs.C04_layout Proofs.C04_prims Proofs.GenLemmas Proofs.C05_layout Proofs.C05_prims Proofs.C05.
Import ListNotations.
Open Scope N_scope.

(* generic: any primitive family with the stated premises, any well-formed layout, any input *)
Theorem C05_dec_L_terminates_generic :
  forall (F : pfam) (dom : prim F -> atom -> Prop) (ka : N), pfam_ok F dom -> pfam_alloc_ok F ka ->
  forall (l : layout F) (c : ctx) (bs : bytes), wf F l c = true -> dec_L F l c bs <> Err EFuel.
Proof. exact dec_T_terminates. Qed.
Print Assumptions C05_dec_L_terminates_generic.

Theorem C05_dec_L_alloc_generic :
  forall (F : pfam) (dom : prim F -> atom -> Prop) (ka : N), pfam_ok F dom -> pfam_alloc_ok F ka ->
  forall (l : layout F) (c : ctx) (bs : bytes), wf F l c = true ->
    alloc_L F l c bs <= kcost F ka l c * lenN bs + ucost F l c.
Proof. exact dec_T_alloc. Qed.
Print Assumptions C05_dec_L_alloc_generic.

(* the premises hold for the concrete primitives with ka = 4 *)
Theorem C05_primitives_alloc_ok : pfam_alloc_ok LP lp_ka.
Proof. exact lp_alloc_ok. Qed.
Print Assumptions C05_primitives_alloc_ok.

(* obligation on the regenerated translation: every fragment decoder's layout is well formed *)
Theorem C05_decoder_layouts_well_formed : not_wf = [].
Proof. exact C05_wf. Qed.

(* "for any payload ... decoding finishes": every fragment decoder, every registered context, every byte string *)
Theorem C05_fragment_terminates :
  forall name enc dec ctxs, In (Fragment name enc dec ctxs) packets ->
  forall c, In c ctxs -> forall bs, dec_L LP dec c bs <> Err EFuel.
Proof. exact C05_terminates_lemma. Qed.
Print Assumptions C05_fragment_terminates.

(* "... never allocates memory out of proportion to the payload size (beyond fixed small caps)":
   per decoder, constants kcost / ucost of its layout *)
Theorem C05_fragment_alloc :
  forall name enc dec ctxs, In (Fragment name enc dec ctxs) packets ->
  forall c, In c ctxs -> forall bs,
    alloc_L LP dec c bs <= kcost LP lp_ka dec c * lenN bs + ucost LP dec c.
Proof. exact C05_alloc_lemma. Qed.
Print Assumptions C05_fragment_alloc.

(* ... and with ONE pair of constants for all fragment decoders of the current tree: 48 * len + 4194260
   (tagged choices add up the constants of their branches) *)
Theorem C05_fragment_alloc_uniform :
  forall name enc dec ctxs, In (Fragment name enc dec ctxs) packets ->
  forall c, In c ctxs -> forall bs,
    alloc_L LP dec c bs <= max_kcost * lenN bs + max_ucost.
Proof. exact C05_alloc_uniform_lemma. Qed.
Print Assumptions C05_fragment_alloc_uniform.

(* non-vacuity / the constants are what the comment says (recomputed against the regenerated layouts;
   a decoder that starts to pre-allocate by an unchecked count changes them) *)
Example C05_constants : (max_kcost <=? 64) && (max_ucost <=? 8388608) = true.
Proof. vm_compute. reflexivity. Qed.
