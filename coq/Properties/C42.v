(* C42 — Futures complete once and run every callback exactly once.
   Only statements and `exact`; the proofs are in Proofs/C42.v.

   Setting of every theorem: [nfut] futures, goroutine i is to perform the API calls [progs_i]
   (ThenAccept / Complete / ThenCompose of Model/Future.v) one after the other; [ts] is ANY list of
   threads all of whose atomic actions are [tick t] for some goroutine t (one step of that
   goroutine's call stack: enter a critical section, invoke one callback, unlock; a step that
   needs a held mutex does nothing), and [sched] is ANY schedule of them (Base.Conc.run).  This
   covers every interleaving of the calls at the granularity of single critical-section entries,
   which is finer than "each method is one atomic action". *)
From Coq Require Import List NArith Arith Bool.
From Verif Require Import Base.Conc Model.Future Proofs.C42.
Import ListNotations.

(* "A future's value is fixed by its first completion": for every future, the completions that
   took effect are exactly one (carrying the final value) if it is completed and none otherwise —
   later Complete calls change nothing — and every log callback that ran saw that value. *)
Theorem C42_first_wins :
  forall nfut progs (ts : list (@thread state event)) sched f,
  (forall a, In a (concat ts) -> exists t, a = tick t) ->
  let r := run ts sched (init nfut progs) in
  completions f (events r) = match value_of (final_state r) f with Some v => [v] | None => [] end
  /\ forall c w, In (ERun f c w) (events r) -> value_of (final_state r) f = Some w.
Proof. exact first_wins_all. Qed.
Print Assumptions C42_first_wins.

(* ... and the value, once set, survives whatever runs afterwards, from any state. *)
Theorem C42_value_stable :
  forall (ts : list (@thread state event)) sched s f v,
  (forall a, In a (concat ts) -> exists t, a = tick t) ->
  value_of s f = Some v -> value_of (final_state (run ts sched s)) f = Some v.
Proof. exact value_stable_all. Qed.
Print Assumptions C42_value_stable.

(* "every callback registered before or after completion runs exactly once with that value":
   at any moment a callback (f, c) has run at most as often as the programs register it; when all
   goroutines have returned it has run exactly that often if f is completed (and not at all if f
   is not).  "With that value" is the second half of C42_first_wins. *)
Theorem C42_callback_exactly_once :
  forall nfut progs (ts : list (@thread state event)) sched f c,
  (forall a, In a (concat ts) -> exists t, a = tick t) ->
  let r := run ts sched (init nfut progs) in
  runs_count f c (events r) <= registrations f c progs
  /\ (quiescent (final_state r) = true ->
      match value_of (final_state r) f with
      | Some _ => runs_count f c (events r) = registrations f c progs
      | None => runs_count f c (events r) = 0
      end).
Proof. exact callback_exactly_once_all. Qed.
Print Assumptions C42_callback_exactly_once.

(* "a chain of composed futures completes in chain order": if the futures returned by ThenCompose
   are completed by nobody else (they are distinct, no program calls Complete on one, no composed
   user function completes one), then for every out = ThenCompose(f, u) the completion of out
   comes after the completion of f and after the completion of the future u returned, and
   carries that future's value. *)
Theorem C42_chain_order :
  forall nfut progs (ts : list (@thread state event)) sched,
  (forall a, In a (concat ts) -> exists t, a = tick t) ->
  NoDup (outs progs)
  /\ (forall f v, In (Complete f v) (concat progs) -> ~ In f (outs progs))
  /\ (forall f g add o, In (ThenCompose f (UCompleting g add) o) (concat progs) -> ~ In g (outs progs)) ->
  let evs := events (run ts sched (init nfut progs)) in
  forall f u out, In (ThenCompose f u out) (concat progs) ->
  forall n w, nth_error evs n = Some (ESet out w) ->
    (exists m v, m < n /\ nth_error evs m = Some (ESet f v))
    /\ (exists m, m < n /\ nth_error evs m = Some (ESet (inner u) w)).
Proof. exact chain_order_all. Qed.
Print Assumptions C42_chain_order.

(* Two links: f0 -> f1 = ThenCompose(f0, _) -> f2 = ThenCompose(f1, _) complete in that order. *)
Theorem C42_chain_of_two :
  forall nfut progs (ts : list (@thread state event)) sched,
  (forall a, In a (concat ts) -> exists t, a = tick t) ->
  NoDup (outs progs)
  /\ (forall f v, In (Complete f v) (concat progs) -> ~ In f (outs progs))
  /\ (forall f g add o, In (ThenCompose f (UCompleting g add) o) (concat progs) -> ~ In g (outs progs)) ->
  let evs := events (run ts sched (init nfut progs)) in
  forall f0 u1 f1 u2 f2,
  In (ThenCompose f0 u1 f1) (concat progs) -> In (ThenCompose f1 u2 f2) (concat progs) ->
  forall n2 w2, nth_error evs n2 = Some (ESet f2 w2) ->
    exists n1 w1 n0 w0, n0 < n1 /\ n1 < n2
      /\ nth_error evs n1 = Some (ESet f1 w1) /\ nth_error evs n0 = Some (ESet f0 w0).
Proof. exact chain_of_two_all. Qed.
Print Assumptions C42_chain_of_two.

(* Outside the property, recorded: a callback that calls into the future whose callbacks are
   being run blocks for ever (sync.Mutex is not re-entrant); the goroutine makes no step. *)
Theorem C42_reentrant_stuck :
  forall t s f rest fu fr,
  nth_error (stacks s) t = Some (fr :: rest) ->
  (exists k, fr = FAccept f k) \/ (exists v, fr = FComplete f v) ->
  In (FUnlock f) rest ->
  nth_error (heap s) f = Some fu -> locked fu = true ->
  tick t s = (s, []).
Proof. exact reentrant_no_progress. Qed.
Print Assumptions C42_reentrant_stuck.

(* ---------- the premises are met: concrete programs ---------- *)

(* Two goroutines race to complete future 0 (values 5 and 6), one registers a callback before, the
   other after.  Over ALL 924 schedules of 6+6 ticks: at most one completion took effect and each
   callback ran at most once; in every schedule in which both goroutines have returned, exactly
   one completion took effect and both callbacks ran exactly once; such schedules exist.
   (Proofs.C42.nv_check: programs [[ThenAccept 0 1; Complete 0 5]; [Complete 0 6; ThenAccept 0 2]],
   threads [repeat (tick 0) 6; repeat (tick 1) 6] from init 1 progs, forallb over Base.Conc.outcomes
   of the conditions above, existsb quiescent, length = 924.  Stated through the constant so that
   re-checking this file does not re-evaluate it.) *)
Example C42_nonvacuous_all_schedules : nv_check = true.
Proof. exact nv_check_ok. Qed.

(* A two-link chain 0 -> 2 -> 4 (inner futures 1 and 3) that satisfies the premises of
   C42_chain_order and whose links do complete, in order, with the inner futures' values. *)
Example C42_nonvacuous_chain :
  let progs := [[ThenCompose 0 (UExisting 1) 2; ThenCompose 2 (UCompleting 3 10%N) 4; Complete 1 7%N];
                [Complete 0 3%N]] in
  (NoDup (outs progs)
   /\ (forall f v, In (Complete f v) (concat progs) -> ~ In f (outs progs))
   /\ (forall f g add o, In (ThenCompose f (UCompleting g add) o) (concat progs) -> ~ In g (outs progs)))
  /\ events (run [repeat (tick 0) 6; repeat (tick 1) 20] (repeat 0 6 ++ repeat 1 20) (init 5 progs))
     = [ESet 1 7%N; ESet 0 3%N; ESet 2 7%N; ESet 3 17%N; ESet 4 17%N].
Proof. exact chain_example_ok. Qed.
