(* C42 — futures (under construction) *)
From Coq Require Import List NArith.
From Verif Require Import Base.Conc Model.Future Proofs.C42.
