From Verif Require Import Model.TryList Proofs.C17.
