(* C17 — Initial and fallback server choice follows forced hosts, then the try list.
   Only statements and `exact`; the proofs are in Proofs/C17.v and Proofs/C17_main.v.
   Model: Model/TryList.v (next = connectedPlayer.nextServerToTry, clean = getVirtualHostname,
   candidates = forced[clean vhost] if non-empty else try, find_server = Proxy.Server).
   Premise `consistent reg cands`: a listed name and a registered name that are equal up to case are
   equal — true for loaded configurations (validation requires every listed name to be a key of
   `servers`, the registry is filled from those keys); see C17_case_variant_outside_premise. *)
From Coq Require Import List NArith Bool Arith.
From Verif Require Import Base.Hex Base.Text Model.TryList Proofs.C17 Proofs.C17_main Proofs.C17_kick.
Import ListNotations.
Open Scope N_scope.

(* "the next server chosen is the next listed server that is registered and is neither the server that
   failed, the current server nor the in-flight one": the result sits at a position i >= cursor of
   forced[clean vhost] (else try), is registered, is none of the three excluded servers, and every
   listed entry between the cursor and i is unregistered or one of the excluded servers. *)
Theorem C17_first_eligible : forall cfg vhost reg current in_flight failed c i s,
  consistent reg (candidates cfg vhost) = true ->
  next_server cfg vhost reg current in_flight failed c = Some (i, s) ->
  (c <= i)%nat /\
  nth_error (candidates cfg vhost) i = Some s /\
  find_server reg s = Some s /\
  current <> Some s /\ in_flight <> Some s /\ failed <> Some s /\
  (forall j m t, (c <= j < i)%nat -> nth_error (candidates cfg vhost) j = Some m ->
     find_server reg m = Some t ->
     current = Some t \/ in_flight = Some t \/ failed = Some t).
Proof. exact first_eligible_thm. Qed.
Print Assumptions C17_first_eligible.

(* "when none remains the player is disconnected": nil is returned exactly when no listed entry at or
   after the cursor is eligible (handleConnectionErr2 turns nil into DisconnectPlayerKickResult with
   the kick reason; that step is covered by the correspondence only). *)
Theorem C17_none_iff : forall cfg vhost reg current in_flight failed c,
  consistent reg (candidates cfg vhost) = true ->
  (next_server cfg vhost reg current in_flight failed c = None <->
   forall j m t, (c <= j)%nat -> nth_error (candidates cfg vhost) j = Some m ->
     find_server reg m = Some t ->
     current = Some t \/ in_flight = Some t \/ failed = Some t).
Proof. exact none_iff_thm. Qed.
Print Assumptions C17_none_iff.

(* "A joining player is first sent to the first registered server listed for its virtual host, or to
   the try list when none is configured". *)
Theorem C17_initial_choice : forall cfg vhost reg i s,
  consistent reg (candidates cfg vhost) = true ->
  next_server cfg vhost reg None None None 0 = Some (i, s) ->
  nth_error (match lookup_forced (clean vhost) (forced cfg) with [] => try_list cfg | l => l end) i = Some s /\
  find_server reg s = Some s /\
  (forall j m, (j < i)%nat ->
     nth_error (match lookup_forced (clean vhost) (forced cfg) with [] => try_list cfg | l => l end) j = Some m ->
     find_server reg m = None).
Proof. exact initial_choice_thm. Qed.
Print Assumptions C17_initial_choice.

(* cursor: never moves backwards in nextServerToTry, reset by a successful connect *)
Theorem C17_cursor_monotone : forall cfg vhost reg st failed,
  (cursor st <= cursor (fst (next cfg vhost reg st failed)))%nat.
Proof. exact cursor_monotone_thm. Qed.
Print Assumptions C17_cursor_monotone.

Theorem C17_cursor_reset : forall cfg vhost st s,
  cursor (fst (step cfg vhost st (OConnected s))) = 0%nat /\
  cursor (fst (step cfg vhost st OPromote)) = 0%nat.
Proof. exact cursor_reset_thm. Qed.
Print Assumptions C17_cursor_reset.

(* sequences of failures: a server that was chosen and then fails is not chosen again; the next choice
   lies strictly further down the list, so a run of failures ends in a disconnect after at most
   length(list) redirects *)
Theorem C17_failed_not_retried : forall cfg vhost reg reg' st st1 st2 failed0 i s j s',
  wf_state cfg vhost st ->
  consistent reg (candidates cfg vhost) = true ->
  consistent reg' (candidates cfg vhost) = true ->
  next cfg vhost reg st failed0 = (st1, Some (i, s)) ->
  next cfg vhost reg' st1 (Some s) = (st2, Some (j, s')) ->
  (i < j)%nat /\ s' <> s.
Proof. exact failed_not_retried_thm. Qed.
Print Assumptions C17_failed_not_retried.

(* all histories (by induction over the operation list): every observation the model produces from
   the initial state satisfies the per-step predicate the judge evaluates on the implementation's
   observations (Check/C17.v: holds_history with first_eligible) *)
Theorem C17_all_histories : forall cfg vhost ops,
  consistent_ops (candidates cfg vhost) ops = true ->
  holds_history (candidates cfg vhost) (mkS None None) 0 ops (run cfg vhost init_state ops) = true.
Proof. exact history_thm. Qed.
Print Assumptions C17_all_histories.

(* kick result selection (handleConnectionErr2) after any history: when the player is kicked from its
   current server (or has none) the KickedFromServerEvent carries a redirect to the first eligible
   entry at or after the cursor, and a disconnect when there is none — the predicate the judge
   evaluates on the observed event result (Check/C17.v: holds_kick). *)
Theorem C17_kick_after_any_history : forall cfg vhost ops reg rs safe,
  consistent reg (candidates cfg vhost) = true ->
  holds_kick (candidates cfg vhost) (s_run (mkS None None) ops)
             (last_cursor (run cfg vhost init_state ops)) reg rs safe
             (snd (kick cfg vhost reg (run_state cfg vhost init_state ops) rs safe)) = true.
Proof. exact history_then_kick_thm. Qed.
Print Assumptions C17_kick_after_any_history.

(* "host compared case-insensitively with port, Forge and TCPShield suffixes removed": for a plain host
   name h (no NUL, '/', ':', '[', ']'; no dot at either end) followed by nothing, ":digits", a NUL tail
   (Forge marker, forwarding data, the ":port" appended by the handshake handler) or a "///" tail
   (TCPShield, possibly followed by all of the former), the lookup key is lower(h). *)
Theorem C17_clean_removes_suffixes : forall h rest,
  plain_host h = true -> removable_suffix rest = true -> clean (h ++ rest) = go_to_lower h.
Proof. exact clean_removes_suffixes. Qed.
Print Assumptions C17_clean_removes_suffixes.

Theorem C17_clean_case_insensitive : forall h h' rest rest',
  plain_host h = true -> plain_host h' = true ->
  removable_suffix rest = true -> removable_suffix rest' = true ->
  go_to_lower h = go_to_lower h' ->
  clean (h ++ rest) = clean (h' ++ rest').
Proof. exact clean_case_insensitive_thm. Qed.
Print Assumptions C17_clean_case_insensitive.

(* idempotence holds for ASCII hosts of that shape ... *)
Theorem C17_clean_idempotent_ascii : forall h rest,
  is_ascii h = true -> plain_host h = true -> removable_suffix rest = true ->
  clean (clean (h ++ rest)) = clean (h ++ rest).
Proof. exact clean_idempotent_ascii_thm. Qed.
Print Assumptions C17_clean_idempotent_ascii.

(* ... but not for every string: strings.Trim(".") runs before the port is split off, so
   "a.:1" -> "a." -> "a" (a trailing dot in front of the port survives; not part of the property text) *)
Theorem C17_clean_not_idempotent_in_general : exists s, clean (clean s) <> clean s.
Proof. exact clean_not_idempotent_thm. Qed.
Print Assumptions C17_clean_not_idempotent_in_general.

(* premises are satisfiable / what lies outside them *)
Example C17_nonvacuous_run :
  let cfg := mkConfig [] [[97]; [98]; [99]] in
  let reg := [[97]; [98]; [99]] in
  consistent reg (candidates cfg []) = true /\
  run cfg [] init_state
    [ONext reg None; OConnected (Some [97]); ONext reg (Some [97]); ONext reg (Some [98]); ONext reg (Some [99])]
  = [mkObs (Some [97]) 0; mkObs None 0; mkObs (Some [98]) 1; mkObs (Some [99]) 2; mkObs None 2].
Proof. exact nonvacuous_run. Qed.

Example C17_nonvacuous_clean :
  let h := [80;108;97;121;46;69;120;97;109;112;108;101;46;99;111;109] in
  plain_host h = true /\
  clean (h ++ [0;70;77;76;0;58;50;53;53;54;53]) = [112;108;97;121;46;101;120;97;109;112;108;101;46;99;111;109].
Proof. exact nonvacuous_clean. Qed.

Example C17_case_variant_outside_premise :
  let cfg := mkConfig [] [[76;111;98;98;121]] in
  let reg := [[108;111;98;98;121]] in
  consistent reg (candidates cfg []) = false /\
  next_server cfg [] reg None None (Some [108;111;98;98;121]) 0 = Some (0%nat, [108;111;98;98;121]).
Proof. exact case_variant_retried. Qed.
