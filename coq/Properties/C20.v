(* C20 — Velocity modern forwarding data is authentic and negotiated like Velocity.
   Only statements and `exact`; proofs in Proofs/C20.v and Proofs/C20_parse.v.
   Model: Model/Forwarding.v (find_version = findForwardingVersion, velocity_choice = Velocity's choice,
   impl_requested / spec_requested = reading of the request byte (gate today: int(int8(b)); Velocity:
   readByte, signed; prefix_requested = gate before fix 63b6e75: unsigned), body / forwarding_data = CreateForwardingData, paper_check_integrity / paper_parse = Paper's
   side, login_run = the backend login fragment), Base/Hmac.v + Base/Sha256.v executable. *)
From Coq Require Import List NArith ZArith Bool.
From Verif Require Import Base.Hex Base.Sha256 Base.Hmac Model.Prim Model.Forwarding
  Proofs.C03_Bytes Proofs.C20 Proofs.C20_parse.
Import ListNotations.
Open Scope Z_scope.

(* "The forwarding version chosen equals Velocity's choice for every requested version, client protocol
   and key revision": the version function itself, for every requested int (not only 0..255), every
   protocol number and every key kind. *)
Theorem C20_version : forall r p k, find_version r p k = velocity_choice r p k.
Proof. exact version_eq. Qed.
Print Assumptions C20_version.

(* ... and at the level of the request the backend sends (one byte, 0..255): the code as it is now
   (impl_requested = int(int8(b)), after fix 63b6e75) chooses what Velocity chooses (spec_requested =
   ByteBuf.readByte, signed) for every request, and its whole answer is the demanded one. *)
Theorem C20_version_request_impl_is_spec : forall data p k,
  Forall (fun b => (b < 256)%N) data ->
  find_version (requested_of_data impl_requested data) p k
  = velocity_choice (requested_of_data spec_requested data) p k.
Proof. exact choice_impl_is_spec. Qed.
Print Assumptions C20_version_request_impl_is_spec.

Theorem C20_answer_impl_is_spec : forall data i,
  Forall (fun b => (b < 256)%N) data ->
  impl_forwarding_data data i = spec_forwarding_data data i.
Proof. exact answer_impl_is_spec. Qed.
Print Assumptions C20_answer_impl_is_spec.

(* the code's answer to a request: authentic, Velocity's version, exactly the player's data *)
Theorem C20_impl_answer : forall data i d,
  Forall (fun b => (b < 256)%N) data ->
  dom_input i ->
  impl_forwarding_data data i = Some d ->
  paper_check_integrity (f_secret i) d = true /\
  paper_parse (skipn 32 d)
  = Ok (expected_parsed (velocity_choice (requested_of_data spec_requested data) (f_protocol i)
                                         (kind_of (f_key i))) i, []).
Proof. exact impl_answer_thm. Qed.
Print Assumptions C20_impl_answer.

(* facts about the PRE-fix code (prefix_requested = int(p.Data[0]), unsigned; finding C20-1, fixed by
   63b6e75): off the trigger it chose what Velocity chooses; on it (byte >= 0x80 with a 1.19.3+ client
   or a keyed player) the two always differed. *)
Theorem C20_prefix_version_request_off_trigger : forall data p k,
  Forall (fun b => (b < 256)%N) data ->
  trigger_unsigned data p k = false ->
  find_version (requested_of_data prefix_requested data) p k
  = velocity_choice (requested_of_data spec_requested data) p k.
Proof. exact prefix_choice_off_trigger. Qed.
Print Assumptions C20_prefix_version_request_off_trigger.

Theorem C20_prefix_version_request_on_trigger : forall data p k,
  Forall (fun b => (b < 256)%N) data ->
  trigger_unsigned data p k = true ->
  find_version (requested_of_data prefix_requested data) p k
  <> velocity_choice (requested_of_data spec_requested data) p k.
Proof. exact prefix_choice_on_trigger. Qed.
Print Assumptions C20_prefix_version_request_on_trigger.

Theorem C20_prefix_unsigned_byte_refuted :
  trigger_unsigned [128%N] 761 KNone = true /\
  find_version (requested_of_data prefix_requested [128%N]) 761 KNone = 4 /\
  velocity_choice (requested_of_data spec_requested [128%N]) 761 KNone = 1 /\
  find_version (requested_of_data impl_requested [128%N]) 761 KNone = 1.
Proof. exact prefix_unsigned_refuted. Qed.
Print Assumptions C20_prefix_unsigned_byte_refuted.

Theorem C20_prefix_eq_spec_off_trigger : forall data i,
  Forall (fun b => (b < 256)%N) data ->
  trigger_unsigned data (f_protocol i) (kind_of (f_key i)) = false ->
  prefix_forwarding_data data i = spec_forwarding_data data i.
Proof. exact prefix_eq_spec_off_trigger. Qed.
Print Assumptions C20_prefix_eq_spec_off_trigger.

(* "the forwarding payload ... is authenticated with HMAC-SHA256 under the configured secret": the
   payload is mac ++ body with mac = HMAC-SHA256(secret, body), and Paper's integrity check accepts it. *)
Theorem C20_mac : forall requested i d,
  forwarding_data requested i = Some d ->
  exists b, body requested i = Some b /\
            d = hmac_sha256 (f_secret i) b ++ b /\
            firstn 32 d = hmac_sha256 (f_secret i) (skipn 32 d) /\
            paper_check_integrity (f_secret i) d = true.
Proof. exact mac_thm. Qed.
Print Assumptions C20_mac.

(* a payload is always produced (the "player auth key missing" error cannot occur: versions 2 and 3 are
   only chosen for a player that has a key) *)
Theorem C20_always_answered : forall requested i, exists b, body requested i = Some b.
Proof. exact body_total. Qed.
Print Assumptions C20_always_answered.

(* "when parsed the way a Paper backend parses it, yields exactly the player's IP, UUID, name and profile
   properties (and key data for the versions that carry it)", nothing left over.  dom_input: the
   length limits of the readers (address <= 32767 chars, name <= 16 chars, key <= 512 and signature
   <= 4096 bytes, int64 expiry) and a 16-byte uuid. *)
Theorem C20_parse : forall requested i b,
  dom_input i ->
  body requested i = Some b ->
  paper_parse b = Ok (expected_parsed (find_version requested (f_protocol i) (kind_of (f_key i))) i, []).
Proof. exact parse_body_thm. Qed.
Print Assumptions C20_parse.

(* the demanded answer to a request: authentic, Velocity's version, the player's data *)
Theorem C20_spec_answer : forall data i d,
  dom_input i ->
  spec_forwarding_data data i = Some d ->
  paper_check_integrity (f_secret i) d = true /\
  paper_parse (skipn 32 d)
  = Ok (expected_parsed (velocity_choice (requested_of_data spec_requested data) (f_protocol i)
                                         (kind_of (f_key i))) i, []).
Proof. exact spec_answer_thm. Qed.
Print Assumptions C20_spec_answer.

(* "a backend that completes login without requesting forwarding is refused": in velocity mode, any
   run of login-phase packets in which no velocity:player_info request precedes the login success ends
   in the disconnect result (and nothing is processed after it) *)
Theorem C20_required : forall pre post,
  Forall (fun e => e = EvPluginRequest false) pre ->
  login_run true false (pre ++ EvLoginSuccess :: post) = map (fun _ => OutIgnored) pre ++ [OutRefused].
Proof. exact required_thm. Qed.
Print Assumptions C20_required.

(* non-vacuity / the other direction *)
Theorem C20_answered_then_proceeds : forall post,
  login_run true false (EvPluginRequest true :: EvLoginSuccess :: post)
  = OutAnswered :: OutProceed :: login_run true true post.
Proof. exact answered_then_proceeds. Qed.

Theorem C20_other_modes_never_refuse : forall es forwarded, ~ In OutRefused (login_run false forwarded es).
Proof. exact other_modes_never_refuse. Qed.

(* every run of the model satisfies the predicate the judge evaluates on observed runs *)
Theorem C20_required_all_runs : forall vm es forwarded,
  required_holds vm forwarded es (login_run vm forwarded es) = true.
Proof. exact required_holds_model. Qed.
Print Assumptions C20_required_all_runs.

Example C20_parse_nonvacuous :
  let key := mkKey KV2 1700000000000 [1%N;2%N;3%N] [4%N;5%N] (Some (repeat 7%N 16)) in
  let i := mkIn [115%N] [49%N;46%N;50%N] 760 (repeat 9%N 16) [80%N;108%N]
                [([116%N], ([118%N;0%N], [115%N]))] (Some key) in
  find_version 3 760 KV2 = 3 /\
  match forwarding_data 3 i with
  | Some d => paper_check_integrity [115%N] d = true /\
              (match paper_parse (skipn 32 d) with Ok (p, []) => pr_version p =? 3 | _ => false end) = true
  | None => False
  end.
Proof. exact parse_nonvacuous. Qed.
