From Verif Require Import Model.Forwarding Proofs.C20.
