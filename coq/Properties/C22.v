(* C22 — Commands run on the proxy or reach the backend exactly once.
   Only statements and `exact`; the proofs are in Proofs/C22.v.  The model (Model/CmdDispatch.v)
   transcribes handleLegacyCommand / handleKeyedCommand / handleSessionCommand / executeCommand
   and brigodier's parseNodes/Execute for literal trees; [impl_decide] is today's code,
   which since commit 0268c73 (repair of finding C22-1) is the specification model [spec_decide];
   [prefix_decide] is the code before that repair.  An [input] is: protocol family,
   ForceKeyAuthentication, key revision, signedness, the client's command line, the
   CommandExecuteEvent outcome (denied / forward / command line) and the registered tree with
   the per-node requirement results for this player. *)
From Coq Require Import List NArith Bool.
From Verif Require Import Base.Hex Model.CmdDispatch Proofs.C22.
Import ListNotations.
Open Scope N_scope.

(* "executed by the proxy exactly when it names a registered proxy command the player may use and
   the command event neither denied nor forwarded it": for today's code and for every input, the
   proxy invokes executor [id] iff the event allowed it, did not forward it, and brigodier's
   dispatch of the event's command line ends on executor [id]. *)
Theorem C22_iff : forall i id,
  r_ran (impl_decide i) = Some id <->
  i_denied i = false /\ i_forward i = false /\ snd (dispatch (i_roots i) (i_cmd i)) = Some id.
Proof. exact (C22_iff_lemma true). Qed.
Print Assumptions C22_iff.

(* ... and what the dispatcher runs is an executor on a path of nodes that all pass the player's
   requirement, starting at a registered root literal equal to the first word of the line. *)
Theorem C22_executed_is_usable : forall roots line id,
  snd (dispatch roots line) = Some id ->
  (exists c, resolve_root roots line = Some c /\ In c roots /\ cn_name c = take_word line /\ cn_use c = true) /\
  (exists m, reaches roots m /\ cn_id m = id /\ cn_exec m <> None).
Proof.
  intros roots line id H. split.
  - destruct (dispatch_ran_resolves _ _ _ H) as [c Hc]. exists c. split; [exact Hc|]. exact (resolve_root_spec _ _ _ Hc).
  - exact (dispatch_ran_reaches _ _ _ H).
Qed.
Print Assumptions C22_executed_is_usable.

(* a line whose first word is not a registered root the player may use is never handled by the
   proxy: the dispatcher answers "unknown command" and runs nothing *)
Theorem C22_unusable_is_unknown : forall roots line,
  resolve_root roots line = None -> dispatch roots line = (Unknown, None).
Proof. exact dispatch_unresolved. Qed.
Print Assumptions C22_unusable_is_unknown.

(* "otherwise, unless the event denied it, the backend receives it exactly once (unchanged, or
   rewritten as the event requested)": not denied, not kept by the proxy (event forwarded it, or
   the dispatcher answered unknown / ErrForward), player not disconnected => exactly one command
   packet; it carries the event's command line, except that the legacy handler sends the client's
   original message when the dispatcher does not know the (possibly rewritten) command.
   Today's code, every input. *)
Theorem C22_exactly_once : forall i,
  i_denied i = false -> kept_by_proxy i = false -> r_disc (impl_decide i) = false ->
  exists c, cmd_packets (r_backend (impl_decide i)) = [c] /\
    (c = i_cmd i \/ (c = i_line i /\ i_fam i = Legacy /\ i_forward i = false)).
Proof. intros i. exact (exactly_once_gen true i (or_introl eq_refl)). Qed.
Print Assumptions C22_exactly_once.

(* the only way out of "exactly once": the player is disconnected, which happens only for a signed
   command under ForceKeyAuthentication, and then nothing is forwarded *)
Theorem C22_disconnect_only_signed_forced : forall i,
  r_disc (impl_decide i) = true ->
  i_signed i = true /\ i_fka i = true /\ cmd_packets (r_backend (impl_decide i)) = [].
Proof.
  intros i H. destruct (disc_only_signed_fka true i H) as [H1 H2].
  split; [exact H1|split; [exact H2|exact (disc_nothing true i H)]].
Qed.
Print Assumptions C22_disconnect_only_signed_forced.

(* "A denied command never reaches the backend." *)
Theorem C22_denied_never_forwarded : forall i,
  i_denied i = true -> cmd_packets (r_backend (impl_decide i)) = [].
Proof. exact (denied_never_forwarded true). Qed.
Print Assumptions C22_denied_never_forwarded.

(* a command the proxy kept (ran it, or answered a syntax / execution error) is not forwarded too *)
Theorem C22_kept_never_forwarded : forall i,
  kept_by_proxy i = true -> cmd_packets (r_backend (impl_decide i)) = [].
Proof. exact (kept_not_forwarded true). Qed.
Print Assumptions C22_kept_never_forwarded.

(* the decidable predicate the judge evaluates on observed behaviour (holds_C22) is satisfied by
   today's model on every input *)
Theorem C22_impl_holds : forall i, holds_C22 i (impl_decide i) = true.
Proof. exact spec_holds_lemma. Qed.
Print Assumptions C22_impl_holds.

(* finding C22-1, fixed by commit 0268c73 - facts about the model of the code BEFORE the repair:
   it equals today's model off the trigger, and on the trigger it dropped a forwarded, rewritten,
   signed 1.19.1 command when ForceKeyAuthentication is off (not denied, not kept, not
   disconnected, yet zero packets); today's model forwards that command once *)
Theorem C22_prefix_eq_spec_off_trigger : forall i, trigger1 i = false -> prefix_decide i = spec_decide i.
Proof. exact prefix_eq_spec_off_trigger_lemma. Qed.
Print Assumptions C22_prefix_eq_spec_off_trigger.

Theorem C22_exactly_once_refuted_before_fix : exists i,
  trigger1 i = true /\ i_denied i = false /\ kept_by_proxy i = false /\
  r_disc (prefix_decide i) = false /\ cmd_packets (r_backend (prefix_decide i)) = [] /\
  holds_C22 i (prefix_decide i) = false /\
  cmd_packets (r_backend (impl_decide i)) = [i_cmd i].
Proof.
  exists c22_witness. destruct C22_refuted_lemma as (H1 & H2 & H3 & H4 & H5 & H6).
  repeat split; try assumption; vm_compute; reflexivity.
Qed.
Print Assumptions C22_exactly_once_refuted_before_fix.
