(* C30 — Lite backend selection tries each backend once per attempt, in strategy order, and counts
   connections exactly.  Only statements and `exact`; proofs are in Proofs/C30.v and
   Proofs/C30_Count.v, definitions in Model/Strategy.v.

   [drain remove st rh fuel l s] is the per-attempt iterator of findRoute called at most [fuel]
   times (every dial fails) on the route's backend list [l] with strategy [st]; [remove] is the
   removal step: [spec_remove] (drop every entry naming the selected backend) is what the property
   demands; [impl_remove] is today's code (fix 426c657), proved equal to it; [old_remove] (drop the
   first entry whose normalised string equals the selected one's) is the PRE-FIX code, kept for
   the record of the fixed findings C30-1 / C30-2.  [canon] is strategy.go's
   canonicalBackendAddress.  Findings C30-3 (round-robin lost updates, fix 3b8fde0) and C30-4 (rng
   data race, fix 968926e) are fixed as well; the judge excuses nothing any more. *)
From Coq Require Import List NArith Bool.
From Verif Require Import Base.Hex Base.Conc Base.Lin Model.Strategy Proofs.C30 Proofs.C30_Count.
Import ListNotations.
Open Scope N_scope.

(* "For one connection attempt each distinct backend of the route is tried at most once ... and
   the attempt fails only after every backend failed": for every strategy, list and state the
   yielded addresses are pairwise different backends, all come from the route, once the iterator
   reports exhaustion every backend of the route has been tried, and it reports exhaustion after
   at most |l| dials. *)
Theorem C30_each_distinct_once : forall st rh fuel l s ys ended s',
  drain impl_remove st rh fuel l s = (ys, ended, s') ->
  NoDup (map canon ys)
  /\ (forall y, In y ys -> In y l)
  /\ (ended = true -> forall b, In b l -> In (canon b) (map canon ys))
  /\ ((length l < fuel)%nat -> ended = true).
Proof. exact each_distinct_once_impl. Qed.
Print Assumptions C30_each_distinct_once.

Theorem C30_attempt_bounded : forall st rh fuel l s ys ended s',
  drain impl_remove st rh fuel l s = (ys, ended, s') -> (length ys <= length l)%nat.
Proof. exact attempt_bounded_impl. Qed.
Print Assumptions C30_attempt_bounded.

(* how the two theorems above are obtained: today's loop is the spec's loop *)
Theorem C30_remove_impl_is_spec : forall sel l, impl_remove sel l = spec_remove sel l.
Proof. exact impl_remove_is_spec. Qed.
Print Assumptions C30_remove_impl_is_spec.

Theorem C30_drain_impl_is_spec : forall st rh fuel l s,
  drain impl_remove st rh fuel l s = drain spec_remove st rh fuel l s.
Proof. exact drain_impl_is_spec. Qed.
Print Assumptions C30_drain_impl_is_spec.

Theorem C30_each_distinct_once_spec : forall st rh fuel l s ys ended s',
  drain spec_remove st rh fuel l s = (ys, ended, s') ->
  NoDup (map canon ys)
  /\ (forall y, In y ys -> In y l)
  /\ (ended = true -> forall b, In b l -> In (canon b) (map canon ys))
  /\ ((length l < fuel)%nat -> ended = true).
Proof. exact each_distinct_once. Qed.
Print Assumptions C30_each_distinct_once_spec.

(* today's code on the inputs of the fixed findings *)
Theorem C30_impl_on_former_probes :
  fst (fst (drain impl_remove 0 [] 5 ex_aliases init_state)) = [hd [] ex_aliases]
  /\ drain impl_remove 0 [] 5 [ex_unparsable] init_state = ([ex_unparsable], true, init_state).
Proof. exact impl_on_former_probes. Qed.
Print Assumptions C30_impl_on_former_probes.

(* Facts about the PRE-FIX loop.  Finding C30-1 (fixed by 426c657): three spellings of one backend
   were all dialled in one attempt (the spec, and today's code, dial one). *)
Theorem C30_old_each_distinct_once_refuted :
  has_alias ex_aliases = true
  /\ fst (fst (drain old_remove 0 [] 5 ex_aliases init_state)) = ex_aliases
  /\ map canon ex_aliases = repeat (canon (hd [] ex_aliases)) 3
  /\ fst (fst (drain spec_remove 0 [] 5 ex_aliases init_state)) = [hd [] ex_aliases].
Proof. exact old_each_distinct_once_refuted. Qed.
Print Assumptions C30_old_each_distinct_once_refuted.

(* Finding C30-2 (fixed by 426c657): an address netutil.Parse rejects ("a:b.int") was never removed
   - the old iterator yielded it on every call and never reported exhaustion. *)
Theorem C30_old_attempt_never_ends_refuted : forall fuel s,
  drain old_remove 0 [] fuel [ex_unparsable] s = (repeat ex_unparsable fuel, false, s).
Proof. exact old_attempt_never_ends_refuted. Qed.
Print Assumptions C30_old_attempt_never_ends_refuted.

(* "sequential: config order" - the attempt yields the configured list with later aliases dropped;
   without aliases that is the list itself. *)
Theorem C30_order_sequential : forall rh fuel l s,
  fst (fst (drain impl_remove 0 rh fuel l s)) = dedup fuel l.
Proof. exact order_sequential_impl. Qed.
Print Assumptions C30_order_sequential.

Theorem C30_order_sequential_no_alias : forall l fuel,
  NoDup (map canon l) -> (length l <= fuel)%nat -> dedup fuel l = l.
Proof. exact dedup_no_alias. Qed.
Print Assumptions C30_order_sequential_no_alias.

(* "round-robin: rotating across connections" - one selection returns position (index mod n) and
   advances the route's index by one, touching nothing else; m successive connections are served
   by positions i, i+1, ..., i+m-1 modulo n. *)
Theorem C30_order_round_robin_step : forall rh l s,
  let i := lookup0 (rr s) rh in
  fst (select 2 rh l s) = nth (N.to_nat (i mod N.of_nat (length l))) l []
  /\ lookup0 (rr (snd (select 2 rh l s))) rh = i + 1
  /\ lc (snd (select 2 rh l s)) = lc s /\ active (snd (select 2 rh l s)) = active s
  /\ lat (snd (select 2 rh l s)) = lat s.
Proof. exact order_round_robin_step. Qed.
Print Assumptions C30_order_round_robin_step.

Theorem C30_order_round_robin_rotation : forall m rh l s,
  first_picks m rh l s
  = map (fun k => nth (N.to_nat ((lookup0 (rr s) rh + N.of_nat k) mod N.of_nat (length l))) l [])
        (seq 0 m).
Proof. exact order_round_robin_rotation. Qed.
Print Assumptions C30_order_round_robin_rotation.

(* "least-connections: fewest active" - the selected backend has the minimal open count and is the
   first such entry. *)
Theorem C30_order_least_connections : forall rh l s,
  l <> [] -> ~ In [] l -> (forall x, In x l -> lookup0 (lc s) x < max_u32) ->
  let b := fst (select 3 rh l s) in
  snd (select 3 rh l s) = s
  /\ exists pre post, l = pre ++ b :: post
       /\ (forall x, In x pre -> lookup0 (lc s) b < lookup0 (lc s) x)
       /\ (forall x, In x post -> lookup0 (lc s) b <= lookup0 (lc s) x).
Proof. exact order_least_connections. Qed.
Print Assumptions C30_order_least_connections.

(* "lowest-latency: unmeasured first, then lowest" *)
Theorem C30_order_lowest_latency_unmeasured : forall rh pre b post s,
  b <> [] -> (forall x, In x pre -> lookup (lat s) x <> None) -> lookup (lat s) b = None ->
  select 4 rh (pre ++ b :: post) s = (b, s).
Proof. exact order_lowest_latency_unmeasured. Qed.
Print Assumptions C30_order_lowest_latency_unmeasured.

Theorem C30_order_lowest_latency_measured : forall rh l s,
  l <> [] -> ~ In [] l ->
  (forall x, In x l -> exists v, lookup (lat s) x = Some v /\ 0 < v) ->
  let b := fst (select 4 rh l s) in
  snd (select 4 rh l s) = s
  /\ exists pre post, l = pre ++ b :: post
       /\ (forall x, In x pre -> latv (lat s) b < latv (lat s) x)
       /\ (forall x, In x post -> latv (lat s) b <= latv (lat s) x).
Proof. exact order_lowest_latency_measured. Qed.
Print Assumptions C30_order_lowest_latency_measured.

(* "Active-connection counts equal the number of open forwarded connections at all times and
   return to zero when they close, also under concurrent connections": every connection is a
   thread of the four critical sections of TrackConnection and its release closure ([prog]); after
   ANY schedule prefix (Base.Conc.run, arbitrary list of thread indices) ActiveConnections() is the
   number of connections between their first and last step, and 0 once all threads are done.
   Backends that are aliases share one key; nothing is assumed about the connections. *)
Theorem C30_count_eq_open : forall (cs : list conn) (sched : list nat),
  let r := run (map prog cs) sched init_state in
  active_total (final_state r) = N.of_nat (open_threads (remaining r)).
Proof. exact count_eq_open. Qed.
Print Assumptions C30_count_eq_open.

Theorem C30_count_zero_at_quiescence : forall (cs : list conn) (sched : list nat),
  let r := run (map prog cs) sched init_state in
  complete (remaining r) = true -> active_total (final_state r) = 0.
Proof. exact count_zero_at_quiescence. Qed.
Print Assumptions C30_count_zero_at_quiescence.

(* lite.Forward itself: it leaves through one of four exit paths (no route / all dials failed /
   hand-over of the client's buffered bytes failed / piped until one side closed); only the last
   one executes TrackConnection and it defers the release right behind it, so a Forward contributes
   [prog c] or nothing ([fwd_thread]).  Every path that tracks releases afterwards, and for any
   number of Forwards leaving through any paths, under any schedule, the count equals the number
   of Forwards currently piping and is 0 when all have returned. *)
Theorem C30_forward_tracks_then_releases : forall x c pre post,
  fwd_thread (x, c) = pre ++ a_track c :: post -> In (a_release c) post.
Proof. exact fwd_tracks_then_releases. Qed.
Print Assumptions C30_forward_tracks_then_releases.

Theorem C30_forward_count_eq_open : forall (fs : list (fwd_exit * conn)) (sched : list nat),
  let r := run (map fwd_thread fs) sched init_state in
  active_total (final_state r) = N.of_nat (open_threads (remaining r)).
Proof. exact forward_count_eq_open. Qed.
Print Assumptions C30_forward_count_eq_open.

Theorem C30_forward_count_zero_at_quiescence : forall (fs : list (fwd_exit * conn)) (sched : list nat),
  let r := run (map fwd_thread fs) sched init_state in
  complete (remaining r) = true -> active_total (final_state r) = 0.
Proof. exact forward_count_zero_at_quiescence. Qed.
Print Assumptions C30_forward_count_zero_at_quiescence.

(* the thread steps are the sequential model the judge replays *)
Theorem C30_prog_is_track_release : forall c s,
  fst (l_inc c (fst (a_track c s))) = track (fst c) (snd c) s
  /\ fst (a_release c (fst (l_dec c s))) = release (fst c) (snd c) s.
Proof. exact prog_is_track_release. Qed.
Print Assumptions C30_prog_is_track_release.

(* what the judge's acceptance of a concurrent history means (Base.Lin): the recorded calls can be
   ordered consistently with real time so that the sequential counter / the atomic rotation
   reproduces every returned value *)
Theorem C30_counter_history_linearizable : forall fuel h,
  check_history cstep N.eqb fuel 0 h = true -> Linearizable cstep N.eqb 0 h.
Proof. intros fuel h. exact (check_history_sound cstep N.eqb fuel 0 h). Qed.
Print Assumptions C30_counter_history_linearizable.

Theorem C30_round_robin_history_linearizable : forall n fuel h,
  check_history (rstep n) N.eqb fuel 0 h = true -> Linearizable (rstep n) N.eqb 0 h.
Proof. intros n fuel h. exact (check_history_sound (rstep n) N.eqb fuel 0 h). Qed.
Print Assumptions C30_round_robin_history_linearizable.

(* non-vacuity: concrete selections for every strategy, and all 70 interleavings of two
   connections to aliases of one backend end with an empty map *)
Example C30_nonvacuous_orders :
  let a := [97] in let b := [98] in let c := [99] in
  let s := mkS [] [(a, 2); (b, 1); (c, 1)] [] [(a, 30); (b, 7); (c, 7)] in
  fst (select 3 [] [a; b; c] s) = b
  /\ fst (select 4 [] [a; b; c] s) = b
  /\ fst (select 4 [] [a; [100]; c] s) = [100]
  /\ first_picks 4 [] [a; b; c] s = [a; b; c; a]
  /\ dedup 9 ex_aliases = [hd [] ex_aliases].
Proof. exact order_examples. Qed.

Example C30_nonvacuous_counts :
  let c1 : conn := ([104], [97]) in
  let c2 : conn := ([72], [65; 58; 50; 53; 53; 54; 53]) in
  length (all_schedules (map prog [c1; c2])) = 70%nat
  /\ check_all_schedules (map prog [c1; c2]) init_state
       (fun s _ => (active_total s =? 0) && match active s with [] => true | _ => false end) = true
  /\ active_total (final_state (run (map prog [c1; c2]) [0; 1; 1; 0]%nat init_state)) = 2
  /\ active (final_state (run (map prog [c1; c2]) [0; 1]%nat init_state))
     = [([104; 0; 97; 58; 50; 53; 53; 54; 53], 2)].
Proof. exact count_examples. Qed.
