(* C08 - Online-mode players are admitted only after verified encryption and session auth.
   Only statements and `exact`; proofs are in Proofs/C08.v, the machine in Model/Login.v.
   trace c ops = everything the proxy does (packets written, encryption switched on, hasJoined call,
   registration) for configuration c when the client sends the packets ops; final = the phase
   afterwards. All theorems are for ALL packet sequences and ALL configurations/outcomes. *)
From Coq Require Import List Bool.
From Verif Require Import Model.Login Proofs.C08 Check.C08 Proofs.C08_judge.
Import ListNotations.

(* "In online mode, unless a pre-login handler forces offline mode, a client is never sent login
   success nor registered as a player unless it returned the exact verify token (or a valid key
   signature over it), the shared secret decrypted, encryption was enabled with that secret, and the
   session server confirmed the join":
   effective_online c = online mode and not forced offline; provider c = false excludes transports
   that bring their own profile (Connect tunnel). If an admission (OSuccess or ORegister) occurs
   anywhere in the trace then the chain events occurred exactly once each, in this order, the
   session server returned a profile, and before the admission the client sent exactly one
   acceptable login start, later one encryption response with token_ok, secret_ok and keylen_ok all
   true, and otherwise only plugin responses (so: each in order and exactly once). The machine includes
   the waiting state in which a PreLogin subscriber's login plugin messages (cfg field pre_msgs) are
   outstanding: a login start arriving then is out of order (in_order = false there). *)
Theorem admitted_implies_chain : forall c ops,
  effective_online c = true -> provider c = false ->
  admitted (trace c ops) = true ->
  outcome c = SProfile /\
  chain_of (trace c ops) = [OEncRequest; OEncEnabled; OJoin; ORegister; OSuccess USession] /\
  exists pre ls mid er post,
    ops = pre ++ ls :: mid ++ er :: post /\ good_login c ls = true /\ good_enc er = true /\
    Forall (fun o => is_plugin_resp o = true) pre /\ Forall (fun o => is_plugin_resp o = true) mid.
Proof. exact admitted_implies_chain_thm. Qed.
Print Assumptions admitted_implies_chain.

(* "Any login packet that arrives out of order or twice closes the connection without admitting the
   client": if the packet is not the one the phase expects (in_order = false; unknown packets always,
   plugin responses never when the version has them) the proxy emits exactly one thing, the close,
   and nothing whatsoever afterwards. *)
Theorem out_of_order_closes : forall c pre o post,
  final c pre <> PClosed -> in_order c (final c pre) o = false ->
  trace c (pre ++ o :: post) = trace c pre ++ [OClose] /\ final c (pre ++ o :: post) = PClosed.
Proof. exact out_of_order_closes_run. Qed.
Print Assumptions out_of_order_closes.

(* "or twice": after one login start, every further login start is out of order, whatever came between *)
Theorem repeated_login_start_is_out_of_order : forall c pre nv key mid nv' key',
  in_order c (final c (pre ++ LoginStart nv key :: mid)) (LoginStart nv' key') = false.
Proof. exact repeated_login_start_out_of_order. Qed.
Print Assumptions repeated_login_start_is_out_of_order.

(* nothing is admitted (or emitted at all) after the connection was closed *)
Theorem closed_is_absorbing : forall c pre post,
  final c pre = PClosed ->
  trace c (pre ++ post) = trace c pre /\ final c (pre ++ post) = PClosed.
Proof. exact closed_absorbing_run. Qed.
Print Assumptions closed_is_absorbing.

(* The judge's own property predicate (Check/C08.v holds_from: an independent tracker of which packet
   the client may send next, with the chain conditions at every admission) accepts the machine's
   behaviour for every configuration without a profile-providing transport and every sequence: a
   VIOLATION verdict can only stem from the implementation, not from the predicate. *)
Theorem judge_predicate_accepts_model : forall c ops, provider c = false ->
  holds_from c (mkT XLogin true false 0 false) ops (map obs_of (outs c ops)) = true.
Proof. exact model_satisfies_predicate. Qed.
Print Assumptions judge_predicate_accepts_model.

(* non-vacuity: a run that is admitted through the whole chain; out-of-order packets on an open
   connection; an offline admission *)
Example C08_chain_example :
  effective_online cfg_online = true /\ provider cfg_online = false /\
  admitted (trace cfg_online [LoginStart true KNone; PluginResp 7; EncResp true true true; LoginAck]) = true /\
  outs cfg_online [LoginStart true KNone; PluginResp 7; EncResp true true true; LoginAck]
  = [[OEncRequest]; []; [OEncEnabled; OJoin; OSetCompression; ORegister; OSuccess USession]; [OPost; OClose]].
Proof. exact chain_example. Qed.
(* with outstanding pre-login plugin messages: a second login start closes; answers in any order,
   duplicates and unknown ids are tolerated and the login continues after the last real answer *)
Example C08_waiting_example :
  outs cfg_online_msgs [LoginStart true KNone; LoginStart true KNone; PluginResp 1; PluginResp 2; EncResp true true true]
  = [[OPluginMsg 1; OPluginMsg 2]; [OClose]; []; []; []] /\
  in_order cfg_online_msgs (final cfg_online_msgs [LoginStart true KNone]) (LoginStart true KNone) = false /\
  outs cfg_online_msgs [LoginStart true KNone; PluginResp 2; PluginResp 2; PluginResp 9; PluginResp 1; EncResp true true true]
  = [[OPluginMsg 1; OPluginMsg 2]; []; []; []; [OEncRequest]; [OEncEnabled; OJoin; OSetCompression; ORegister; OSuccess USession]].
Proof. exact waiting_example. Qed.
Example C08_out_of_order_example :
  final cfg_online [LoginStart true KNone] <> PClosed /\
  in_order cfg_online (final cfg_online [LoginStart true KNone]) (LoginStart true KNone) = false /\
  in_order cfg_online (final cfg_online [LoginStart true KNone]) LoginAck = false /\
  outs cfg_online [LoginStart true KNone; LoginStart true KNone; EncResp true true true]
  = [[OEncRequest]; [OClose]; []].
Proof. exact out_of_order_example. Qed.
