(* C04 - Every packet type round-trips losslessly in every supported protocol version.
   Only statements and `exact`; proofs are in Proofs/C04_layout.v (generic, any primitive family),
   Proofs/C04_prims.v (the concrete primitives) and Proofs/C04.v (the regenerated layouts).

   Scope: the theorems cover the packet types INSIDE the translator's layout fragment
   (Gen.PacketLayouts.packets: `Fragment` entries; the list is regenerated from the Go source on every
   run, [C04_translated_layouts_agree] and [C04_pinned_types_in_fragment] are re-proved against it).
   Types reported `Opaque` are decided by the differential run only (Check/C04.v).
   Baseline: the tree with the fix commits 84c239a, 4d8a5a4, 6e760d1, a6ee6ec - the four findings once recorded for C04 are
   repaired; the layouts below are translated from today's source (Handshake.Port is read unsigned, 1.7 arrays carry a
   two-byte length, TabCompleteResponse is inside the fragment), so the theorems are statements about today's code. *)
From Coq Require Import List NArith ZArith String Bool.
From Verif Require Import Base.Hex Model.Layout Model.LayoutPrims Gen.PacketLayouts
  Proofs.C04_layout Proofs.C04_prims Proofs.C04.
From Verif Require Import Model.AvailCmds Proofs.C04_cmds.
Import ListNotations.
Open Scope string_scope.

(* Generic, for ANY family of primitive codecs F with domain dom satisfying pfam_ok (premises visible):
   if the layout extracted from Encode equals the layout extracted from Decode once the version tests are
   resolved at context c, and Decode's layout is well formed (io.ReadAll only last, loop bodies consume >= 1 byte),
   then decoding the encoding of any value of the domain returns that value and exactly the bytes that
   followed it ("consumes all bytes": rest = [] gives nothing left). *)
Theorem C04_layout_roundtrip_generic :
  forall (F : pfam) (dom : prim F -> atom -> Prop), pfam_ok F dom ->
  forall (enc dec : layout F) (c : ctx) (v : value) (rest : bytes),
    layout_eqb_at F c enc dec = true -> wf F dec c = true ->
    in_dom F dom dec c v -> (norest F dec c = false -> rest = []) ->
    exists bs, enc_L F enc c v = Ok bs /\ dec_L F dec c (bs ++ rest)%list = Ok (v, rest).
Proof. exact pair_roundtrip. Qed.
Print Assumptions C04_layout_roundtrip_generic.

(* The premises hold for the concrete primitives (VarInt, bool, fixed ints, strings, byte arrays, UUID,
   UUID text, keys, nameless NBT, 1.7 arrays in today's two-byte form for vanilla lengths < 32768 - and the PRE-FIX
   one-byte form PBytes17Old for lengths < 256, which no layout of today's code uses): no assumption about primitives remains. *)
Theorem C04_primitives_ok : pfam_ok LP lp_dom.
Proof. exact lp_ok. Qed.
Print Assumptions C04_primitives_ok.

(* Obligation on the regenerated translation: for every fragment type and every (protocol, direction) it is
   registered for, Encode's and Decode's layouts agree and Decode's is well formed.  A field added to one of the
   two methods, a swapped order or a changed version guard makes [failing] non-empty and names the type. *)
Theorem C04_translated_layouts_agree : failing = [].
Proof. exact C04_fragment. Qed.
Print Assumptions C04_translated_layouts_agree.

(* Obligation: the types listed in Proofs.C04.pinned are still inside the fragment. *)
Theorem C04_pinned_types_in_fragment : left_fragment = [].
Proof. exact C04_pinned. Qed.
Print Assumptions C04_pinned_types_in_fragment.

(* "For every packet type [of the fragment] registered for any state, both directions and every supported
   protocol version [c in ctxs = the contexts the registry lists for the type], decoding the proxy's encoding
   consumes all bytes and yields the same values for every field that exists in that version [v is exactly the
   tuple of fields the layout carries at c] - for all field values the protocol permits [in_dom: the decoder's
   own limits]". *)
Theorem C04_fragment_roundtrip :
  forall name enc dec ctxs, In (Fragment name enc dec ctxs) packets ->
  forall c, In c ctxs ->
  forall v rest, in_dom LP lp_dom dec c v -> (norest LP dec c = false -> rest = []) ->
  exists bs, enc_L LP enc c v = Ok bs /\ dec_L LP dec c (bs ++ rest)%list = Ok (v, rest).
Proof. exact C04_fragment_roundtrip_lemma. Qed.
Print Assumptions C04_fragment_roundtrip.

(* "... and re-encodes to identical bytes." *)
Theorem C04_fragment_reencode :
  forall name enc dec ctxs, In (Fragment name enc dec ctxs) packets ->
  forall c, In c ctxs ->
  forall v, in_dom LP lp_dom dec c v ->
  exists bs v', enc_L LP enc c v = Ok bs /\ dec_L LP dec c bs = Ok (v', []) /\ enc_L LP enc c v' = Ok bs.
Proof. exact C04_reencode_lemma. Qed.
Print Assumptions C04_fragment_reencode.

(* Non-vacuity: the premises are met by a concrete Handshake value at protocol 47. *)
Example C04_nonvacuous :
  In (Fragment "packet.Handshake" enc_packet_Handshake dec_packet_Handshake ctxs_packet_Handshake) packets /\
  In (mkctx 47 false) ctxs_packet_Handshake /\
  in_dom LP lp_dom dec_packet_Handshake (mkctx 47 false) hs_value /\
  enc_L LP enc_packet_Handshake (mkctx 47 false) hs_value = Ok (hx "2f096c6f63616c686f737463dd02").
Proof. exact C04_nonvacuous_handshake. Qed.
Print Assumptions C04_nonvacuous.

(* AvailableCommands node tables (Model/AvailCmds.v; the type itself is outside the layout fragment).  For the node subset
   the reference decoder covers (root / literal / argument nodes, parsers bool / integer / string, executable flag,
   redirects, no custom suggestions), for every protocol version number and every well-formed table of ANY size
   (indices and counts below 2^31, names at most 262144 bytes, property bytes of the shape the parser prescribes):
   the reference decoder inverts the reference encoder, equal bytes mean equal tables, and the canonical graph of the
   decoded table is the canonical graph of the encoded one.  Statements about the model; the Go encoder / decoder are tied
   to it by the differential run only (Check/C04.v, judge_cmds). *)
Theorem C04_cmds_table_roundtrip :
  forall ver tbl root, wf_table tbl root = true -> decode_wire ver (encode_table ver tbl root) = Some (tbl, root).
Proof. exact decode_encode_table. Qed.
Print Assumptions C04_cmds_table_roundtrip.

Theorem C04_cmds_bytes_equal_graph_equal :
  forall ver fuel t1 r1 t2 r2, wf_table t1 r1 = true -> wf_table t2 r2 = true ->
  encode_table ver t1 r1 = encode_table ver t2 r2 -> canon fuel t1 r1 = canon fuel t2 r2.
Proof. exact bytes_equal_graph_equal. Qed.
Print Assumptions C04_cmds_bytes_equal_graph_equal.

Theorem C04_cmds_decoded_graph :
  forall ver fuel tbl root t' r', wf_table tbl root = true ->
  decode_wire ver (encode_table ver tbl root) = Some (t', r') -> canon fuel t' r' = canon fuel tbl root.
Proof. exact decoded_graph_is_encoded_graph. Qed.
Print Assumptions C04_cmds_decoded_graph.

(* Non-vacuity: a well-formed table whose node 2 ("target", with an integer argument below it) is reachable only through
   the redirect of node 1 ("alias") and is not a descendant of the root; it round-trips at 1.20.4 (numeric parser ids)
   and at 1.8 (parser names). *)
Example C04_cmds_nonvacuous :
  wf_table sample_table 0%N = true /\
  decode_wire 765%Z (encode_table 765%Z sample_table 0%N) = Some (sample_table, 0%N) /\
  decode_wire 47%Z (encode_table 47%Z sample_table 0%N) = Some (sample_table, 0%N).
Proof. exact sample_ok. Qed.
Print Assumptions C04_cmds_nonvacuous.
