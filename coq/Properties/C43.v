(* C43 - Server list pings get one well-formed response and an exact echo.
   Only statements and `exact`; proofs are in Proofs/C43.v, the machine in Model/Status.v.
   Notation: outs adv online ops = per operation the list of things the proxy emits;
   trace = their concatenation; final = the state after the operations. All theorems quantify over
   ALL operation sequences (pre, post arbitrary) and all protocol numbers / player counts. *)
From Coq Require Import List NArith ZArith Bool.
From Verif Require Import Base.Hex Model.Status Proofs.C43.
Import ListNotations.
Open Scope Z_scope.

(* "a status request receives exactly one status response": never more than one in any session ... *)
Theorem one_response : forall adv online ops, (count_resp (trace adv online ops) <= 1)%nat.
Proof. exact Proofs.C43.one_response. Qed.
Print Assumptions one_response.

(* ... and the first request (preceded by nothing but up to 11 skipped empty frames) is answered at
   once with exactly [OResp adv online]; no further response follows. *)
Theorem one_response_first_request : forall adv online pre post, quiet pre = true ->
  exists rest, outs adv online (pre ++ Req :: post) = map (fun _ => []) pre ++ [OResp adv online] :: rest
            /\ count_resp (concat rest) = 0%nat.
Proof. exact first_request_answered. Qed.
Print Assumptions one_response_first_request.

(* "the ping that follows is answered with a byte-identical payload and the connection is closed":
   a well-formed ping (body of 8 bytes or more) reaching an open connection is answered by exactly [echo of the same bytes; close] and
   nothing is emitted afterwards, whatever else the client sends. *)
Theorem echo_identical : forall adv online pre p post,
  closed (final adv online pre) = false -> (8 <= length p)%nat ->
  exists rest, outs adv online (pre ++ Ping p :: post) = outs adv online pre ++ [OEcho p; OClose] :: rest
            /\ concat rest = [].
Proof. exact Proofs.C43.echo_identical. Qed.
Print Assumptions echo_identical.

(* no echo is ever invented: every echoed payload is the body of a ping of that session *)
Theorem echo_only_of_received_pings : forall adv online ops p,
  In (OEcho p) (trace adv online ops) -> In (Ping p) ops.
Proof. exact echo_only_of_pings. Qed.
Print Assumptions echo_only_of_received_pings.

(* "any other or repeated request closes the connection": after a closing operation (a ping, an
   unknown packet, a request when one was already received, the 12th empty frame in a row) the
   operation's own output ends with the close, and NOTHING follows for any continuation. *)
Theorem close_rules : forall adv online pre o post,
  closed (final adv online pre) = false -> closing (final adv online pre) o = true ->
  trace adv online (pre ++ o :: post) = trace adv online pre ++ snd (step adv online (final adv online pre) o)
  /\ last (snd (step adv online (final adv online pre) o)) OClose = OClose
  /\ snd (step adv online (final adv online pre) o) <> []
  /\ closed (final adv online (pre ++ o :: post)) = true.
Proof. exact Proofs.C43.close_rules. Qed.
Print Assumptions close_rules.

(* a request after an earlier request is such a closing operation *)
Theorem repeated_request_closes : forall adv online pre mid,
  closed (final adv online (pre ++ Req :: mid)) = false ->
  closing (final adv online (pre ++ Req :: mid)) Req = true.
Proof. exact second_request_closing. Qed.
Print Assumptions repeated_request_closes.

(* "whose advertised protocol is the client's when the proxy supports it and the proxy's newest
   otherwise and whose player count equals the online player count" - for the behaviour the
   property demands (spec_advertised); newest is a member of, and an upper bound for, the list. *)
Theorem advertised_protocol : forall sup p online pre post,
  sup <> [] -> quiet pre = true ->
  (exists rest, outs (spec_advertised sup p) online (pre ++ Req :: post)
                = map (fun _ => []) pre ++ [OResp (if memZ p sup then p else newest sup) online] :: rest)
  /\ In (newest sup) sup /\ Forall (fun v => v <= newest sup) sup.
Proof. exact advertised_protocol_spec. Qed.
Print Assumptions advertised_protocol.

(* The code (impl_advertised: handshake protocol looked up in ProtocolToVersion, else MaximumVersion)
   makes exactly the demanded choice, for every protocol number. *)
Theorem advertised_protocol_impl_eq_spec : forall sup p, impl_advertised sup p = spec_advertised sup p.
Proof. exact impl_eq_spec. Qed.
Print Assumptions advertised_protocol_impl_eq_spec.

(* HISTORICAL, about the code BEFORE fix c892351 (finding C43-1, fixed): the old choice
   (decoder-registry fallback to the oldest version, then the "not Unknown" test) agreed with the
   demanded one for supported protocols ... *)
Theorem prefix_advertised_protocol_eq_spec_off_trigger : forall sup p,
  ~ In (-1) sup -> trigger_unsupported sup p = false -> prefix_impl_advertised sup p = spec_advertised sup p.
Proof. exact prefix_impl_eq_spec_off_trigger. Qed.
Print Assumptions prefix_advertised_protocol_eq_spec_off_trigger.

(* ... and was refuted otherwise: for gate's version list and protocol 999999 it advertised 4
   instead of 776, and the property predicate is false on that output. *)
Theorem prefix_advertised_protocol_refuted :
  exists sup p, trigger_unsupported sup p = true /\
    prefix_impl_advertised sup p <> spec_advertised sup p /\
    holds_C43 (spec_advertised sup p) 0 [Req] (outs (prefix_impl_advertised sup p) 0 [Req]) = false.
Proof. exact prefix_advertised_refuted. Qed.
Print Assumptions prefix_advertised_protocol_refuted.

(* the model with the demanded protocol satisfies the judge's property predicate on every sequence *)
Theorem spec_satisfies_predicate : forall want online ops, holds_C43 want online ops (outs want online ops) = true.
Proof. exact spec_model_holds. Qed.
Print Assumptions spec_satisfies_predicate.

(* non-vacuity: premises are met by concrete sessions *)
Example C43_nonvacuous :
  outs 763 2 [Empty; Req; Req] = [[]; [OResp 763 2]; [OClose]] /\
  outs 763 2 [Req; Ping [1;2;3;4;5;6;7;8]%N; Req] = [[OResp 763 2]; [OEcho [1;2;3;4;5;6;7;8]%N; OClose]; []] /\
  quiet [Empty; Empty] = true /\
  closing (final 763 2 [Req]) Req = true /\ closed (final 763 2 [Req]) = false /\
  spec_advertised gate_supported 763 = 763 /\ spec_advertised gate_supported 999999 = 776 /\
  impl_advertised gate_supported 999999 = 776 /\ prefix_impl_advertised gate_supported 999999 = 4.
Proof. exact c43_example. Qed.
