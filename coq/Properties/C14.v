(* C14 - Packets sent during configuration are delivered after it, in order, without loss.
   Only statements and `exact`; proofs are in Proofs/C14.v and Proofs/C14_order.v.

   Vocabulary (Model/PlayQueue.v): a program is [pss] (one packet list per writer goroutine) and [fs]
   (one list of state changes per goroutine that calls SetState/SetOutboundState); [run ... sched init]
   executes ANY schedule (list of goroutine indices) from a fresh connection in PLAY.
     acc evs   packets a write took responsibility for (queued or encoded), in that order
     wire evs  packets whose frame entered the write buffer = order on the wire
     po / cv   the play-only / config-valid packets of a list, order kept
     live s    contents of the queue c.playPacketQueue points to
   spec_write = pointer read and queue-or-encode in one critical section (what the property needs);
   impl_write = today's bufferPacket (since fix commit 4cea635) = spec_write, see C14_impl_is_spec;
   old_write  = the PRE-FIX bufferPacket: read the pointer under c.mu, use it after unlocking
                (finding C14-1, reproduced on the real code, fixed; kept as a fact about the old code). *)
From Coq Require Import List NArith Bool Arith.
From Verif Require Import Base.Conc Base.ConcExec Model.PlayQueue Proofs.C14 Proofs.C14_order.
Import ListNotations.
Local Open Scope nat_scope.

(* today's code is the one-critical-section write the theorems below are about *)
Theorem C14_impl_is_spec : impl_write = spec_write.
Proof. reflexivity. Qed.
Print Assumptions C14_impl_is_spec.

(* "held back and, once it returns to play, delivered in the order they were written, none lost or
   duplicated, before any play packet written later; packets valid in configuration are written
   immediately" - for every number of writers and state changers and EVERY schedule:
   the play-only packets on the wire are, in order, exactly the accepted ones minus those still in the
   live queue (so a play-only packet accepted later is later on the wire, nothing is lost, nothing twice);
   config-valid packets are on the wire in acceptance order with none pending; once back in PLAY nothing
   is pending; every frame was produced by a registry that knows the packet (play-only: PLAY only). *)
Theorem C14_fifo_no_loss_no_dup : forall pss fs sched,
  let r := run (threads_of (program impl_write pss fs)) sched init in
  let s := final_state r in
  let evs := events r in
  s_closed s = false ->
  po (acc evs) = po (wire evs) ++ live s
  /\ cv (acc evs) = cv (wire evs)
  /\ (s_phase s = Play -> live s = [])
  /\ wire_wellformed evs = true.
Proof. exact fifo_no_loss_no_dup. Qed.
Print Assumptions C14_fifo_no_loss_no_dup.

(* the same without the premise: even on a connection that got closed the wire is a prefix of the
   acceptance order *)
Theorem C14_wire_is_prefix_always : forall pss fs sched,
  let r := run (threads_of (program impl_write pss fs)) sched init in
  let evs := events r in
  (exists rest, po (acc evs) = po (wire evs) ++ rest) /\ cv (acc evs) = cv (wire evs).
Proof. exact wire_is_prefix_always. Qed.
Print Assumptions C14_wire_is_prefix_always.

(* "none ... duplicated": distinct packets in the programs give distinct packets on the wire *)
Theorem C14_wire_no_duplicates : forall pss fs sched,
  NoDup (concat pss) ->
  let r := run (threads_of (program impl_write pss fs)) sched init in
  NoDup (acc (events r)) /\ NoDup (wire (events r)).
Proof. exact wire_no_duplicates. Qed.
Print Assumptions C14_wire_no_duplicates.

(* "the holding queue is bounded (overflow closes the connection rather than dropping silently)":
   the live queue never exceeds 1024; ErrQueueFull implies the connection is closed; on an open
   connection a write that returned nil is on the wire or in the live queue *)
Theorem C14_overflow_closes : forall pss fs sched,
  let r := run (threads_of (program impl_write pss fs)) sched init in
  let s := final_state r in
  let evs := events r in
  length (live s) <= 1024
  /\ (forall t p, In (ERes t p RErrQueueFull) evs -> s_closed s = true)
  /\ (s_closed s = false -> forall t p, In (ERes t p ROk) evs -> In p (wire evs) \/ In p (live s)).
Proof. exact overflow_closes. Qed.
Print Assumptions C14_overflow_closes.

(* the bound is exactly 1024: one write of a play-only packet on a live queue *)
Theorem C14_bound_exact : forall t p s i,
  s_closed s = false -> is_po p = true -> s_cur s = Some i -> i < length (s_heap s) ->
  (length (live s) < 1024 ->
     snd (a_spec_write t p s) = [EAcc p; ERes t p ROk]
     /\ live (fst (a_spec_write t p s)) = live s ++ [p]
     /\ s_closed (fst (a_spec_write t p s)) = false)
  /\ (1024 <= length (live s) ->
     snd (a_spec_write t p s) = [EClose; ERes t p RErrQueueFull]
     /\ s_closed (fst (a_spec_write t p s)) = true).
Proof. exact bound_exact. Qed.
Print Assumptions C14_bound_exact.

(* acceptance order is each goroutine's own order (this is what the goroutine stress harness checks):
   in a complete run ending open and in PLAY, the packets of writer t on the wire are its play-only
   packets in the order written and its config-valid packets in the order written, and every call
   returned nil *)
Theorem C14_each_writer_in_order : forall pss fs sched,
  NoDup (concat pss) ->
  let r := run (threads_of (program impl_write pss fs)) sched init in
  let s := final_state r in
  let evs := events r in
  complete (remaining r) = true -> s_closed s = false -> s_phase s = Play ->
  forall t,
    owned (nth t pss []) (po (wire evs)) = po (nth t pss [])
    /\ owned (nth t pss []) (cv (wire evs)) = cv (nth t pss [])
    /\ oks_t t evs = nth t pss [].
Proof. exact each_writer_in_order. Qed.
Print Assumptions C14_each_writer_in_order.

(* at any point of any run, closed or not: never reordered *)
Theorem C14_each_writer_never_reordered : forall pss fs sched,
  NoDup (concat pss) ->
  let r := run (threads_of (program impl_write pss fs)) sched init in
  let evs := events r in
  forall t,
    subseq (owned (nth t pss []) (po (wire evs))) (po (nth t pss []))
    /\ subseq (owned (nth t pss []) (cv (wire evs))) (cv (nth t pss [])).
Proof. exact each_writer_never_reordered. Qed.
Print Assumptions C14_each_writer_never_reordered.

(* PRE-FIX code (finding C14-1, reproduced on the real code at the time, fixed by 4cea635): REFUTED for the
   two-step write.  One writer, one goroutine entering and leaving CONFIG, schedule
   [enter; W.read_ptr; release; W.push]: the write returns nil, the run is complete, the connection open
   and in PLAY, and the packet is neither on the wire nor in the live queue - it sits in the queue object
   that was released before it was pushed *)
Theorem C14_fifo_refuted_for_old_write :
  exists pss fs sched,
    let r := run (threads_of (program old_write pss fs)) sched init in
    let s := final_state r in
    let evs := events r in
    complete (remaining r) = true /\ s_closed s = false /\ s_phase s = Play
    /\ In (ERes 0 witness_pkt ROk) evs
    /\ wire evs = [] /\ live s = []
    /\ po (acc evs) <> po (wire evs) ++ live s.
Proof. exact fifo_refuted_for_old_write. Qed.
Print Assumptions C14_fifo_refuted_for_old_write.

(* PRE-FIX code, second window: pointer read in PLAY, encode after CONFIG was entered: the encoder refuses
   the packet and the connection is closed although no queue overflowed *)
Theorem C14_old_write_closes_without_overflow :
  exists pss fs sched,
    let r := run (threads_of (program old_write pss fs)) sched init in
    complete (remaining r) = true
    /\ s_closed (final_state r) = true
    /\ events r = [EClose; ERes 0 witness_pkt RErrEncode].
Proof. exact old_write_closes_without_overflow. Qed.
Print Assumptions C14_old_write_closes_without_overflow.

(* PRE-FIX code on sequential histories: run alone, the two-step write behaves like the property's - which
   is why single-threaded tests never saw the defect *)
Theorem C14_seq_old_eq_spec : forall ops a b, obs_eq a b ->
  seq_run old_write ops a = seq_run spec_write ops b.
Proof. exact seq_old_eq_spec. Qed.
Print Assumptions C14_seq_old_eq_spec.

(* non-vacuity: a program with two writers and a state changer; all 30 schedules of today's write
   satisfy the equations, one of the 420 schedules of the pre-fix write does not; 1024 packets fit, the 1025th
   closes *)
Example C14_nonvacuous_small :
  check_all_schedules (threads_of (program impl_write small_pss small_fs)) init trace_ok = true
  /\ check_all_schedules (threads_of (program old_write small_pss small_fs)) init trace_ok = false.
Proof. split; [exact (proj1 small_spec_all_schedules)|exact (proj1 small_old_some_schedule_fails)]. Qed.

Example C14_nonvacuous_overflow :
  let rs := seq_run impl_write (burst 1025) init in
  forallb (fun x => negb (snd x)) (firstn 1025 rs) = true
  /\ map (fun x => result_of (fst x)) (skipn 1024 rs) = [ROk; RErrQueueFull]
  /\ map snd (skipn 1024 rs) = [false; true].
Proof. exact overflow_at_1025. Qed.
