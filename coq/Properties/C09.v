(* C09 — Session-server id equals Java's signed SHA-1 hex digest.
   Only statements and `exact`; the proofs are in Proofs/C09.v. *)
From Coq Require Import List NArith ZArith.
From Verif Require Import Base.Hex Base.Sha1 Model.ServerId Proofs.C09.
Import ListNotations.
Open Scope N_scope.

(* For every secret and key: the model of GenerateServerID equals BigInteger(sha1(secret ++ key)).toString(16).
   The guard excludes exactly one digest (all twenty bytes zero), see C09_zero_digest. *)
Theorem C09_server_id_is_java_digest : forall secret key,
  be_val (sha1 (secret ++ key)) <> 0 ->
  server_id secret key = reference_server_id secret key.
Proof. exact C09_server_id. Qed.
Print Assumptions C09_server_id_is_java_digest.

(* The formatting step alone, for digests of every length (not only SHA-1's twenty bytes). *)
Theorem C09_format_any_length : forall d, wf_bytes d -> d <> [] -> be_val d <> 0 ->
  format_digest d = java_hex (signed_be d).
Proof. exact format_digest_correct. Qed.
Print Assumptions C09_format_any_length.

(* The one digest on which the code and Java differ: all zero prints "" instead of "0".
   Reaching it needs a SHA-1 preimage of zero; stated, not a finding. *)
Theorem C09_zero_digest : forall n, format_digest (repeat 0 (S n)) = [] /\ java_hex 0 = [48].
Proof. intro n. split; [exact (format_digest_zero n) | exact java_hex_zero]. Qed.
Print Assumptions C09_zero_digest.

(* Premises are satisfiable: vanilla's "Notch" vector. *)
Example C09_nonvacuous_notch :
  be_val (sha1 [78;111;116;99;104]) <> 0 /\
  server_id [78;111;116;99;104] [] = reference_server_id [78;111;116;99;104] [].
Proof. exact C09_nonvacuous. Qed.
