(* C06 — Packet id tables: per state / direction / version the id <-> type maps are a bijection, unknown
   protocols fall back to the lowest supported version's table, ids agree with the reference where one exists.
   Only statements and `exact`; the proofs are in Proofs/C06.v.

   `config`, `fallback_settings`, `registrations` are Gen/Registry.v, regenerated from version.go and register.go
   on every run; `build` is the model of package initialisation (NewPacketRegistry + every PacketRegistry.Register
   call, `Err` where the Go code panics); `tbl` is the table `build` returns (Proofs.C06.tbl: the `Ok` payload). *)
From Coq Require Import List ZArith String.
From Verif Require Import Model.Registry Model.RegistryReference Gen.Registry Proofs.C06.
Import ListNotations.
Open Scope Z_scope.

(* General lemma (any version list, any registrations): one successful Register call keeps, for every protocol
   of the registry, the id->type and type->id maps mutually inverse.  Induction over the mappings and, inside,
   over the version list walked by versionRange. *)
Theorem C06_register_preserves_bij : forall vs maxp pg t ms pg',
  bij_preg pg -> register vs maxp pg t ms = Ok pg' -> bij_preg pg'.
Proof. exact register_preserves_bij. Qed.
Print Assumptions C06_register_preserves_bij.

(* Hence for ANY source text: if package init does not panic, all ten registries are bijective everywhere. *)
Theorem C06_build_bij : forall c fbs rs tb, build c fbs rs = Ok tb -> bij tb.
Proof. exact build_bij. Qed.
Print Assumptions C06_build_bij.

(* Clause 1 for the code as it is now.  Only `= Ok tbl` (init does not panic) is by evaluation of the regenerated
   list; the bijection is by the lemma above, not by a sweep over the tables. *)
Theorem C06_bijective : build config fallback_settings registrations = Ok tbl /\ bij tbl.
Proof. exact C06_bijective_proof. Qed.
Print Assumptions C06_bijective.

(* The same, in terms of what a caller sees: for EVERY state, direction and protocol number (supported or not:
   unknown ones go through the fallback), CreatePacket's id->type and PacketID's type->id are inverse partial
   functions ... *)
Theorem C06_ids_and_types_are_inverse : forall s d p id t,
  type_of tbl s d p id = Some t <-> id_of tbl s d p t = Some id.
Proof. exact C06_inverse_proof. Qed.
Print Assumptions C06_ids_and_types_are_inverse.

(* ... so an id belongs to at most one type and a type has at most one id. *)
Theorem C06_id_names_one_type : forall s d p t1 t2 id,
  id_of tbl s d p t1 = Some id -> id_of tbl s d p t2 = Some id -> t1 = t2.
Proof. exact C06_id_unique_proof. Qed.
Print Assumptions C06_id_names_one_type.

Theorem C06_type_has_one_id : forall s d p id1 id2 t,
  type_of tbl s d p id1 = Some t -> type_of tbl s d p id2 = Some t -> id1 = id2.
Proof. exact C06_type_unique_proof. Qed.
Print Assumptions C06_type_has_one_id.

(* Every supported version has its own table in every registry. *)
Theorem C06_supported_version_has_own_table : forall s d p, In p (supported config) ->
  exists r, lookup tbl s d p = RFound r /\ pr_protocol r = p.
Proof. exact C06_own_table_proof. Qed.
Print Assumptions C06_supported_version_has_own_table.

(* Clause 3 (fallback), for every protocol number that is not a supported version.  Reading: Handshake, Status,
   Login and Config fall back to MinimumVersion's table; Play has the fallback switched off in register.go
   (as the reference implementation does for PLAY — cited from memory) and yields no registry at all.
   fallback_policy s = (s is not Play). *)
Theorem C06_fallback : forall s d p, ~ In p (supported config) ->
  lookup tbl s d p = if fallback_policy s then lookup tbl s d (t_min tbl) else RNil.
Proof. exact C06_fallback_proof. Qed.
Print Assumptions C06_fallback.

(* ... and MinimumVersion really is the lowest supported protocol. *)
Theorem C06_minimum_is_lowest :
  In (t_min tbl) (supported config) /\ forall v, In v (supported config) -> t_min tbl <= v.
Proof. exact C06_minimum_is_lowest_proof. Qed.
Print Assumptions C06_minimum_is_lowest.

(* Clause 2 (reference ids).  PARTIAL with respect to the property text: the reference is not Velocity's
   StateRegistry (no Velocity source offline) but Model/RegistryReference.v: go-mc v1.20.2 for protocol 764,
   the ids asserted by gate's register_test.go, and the stable handshake/status/login ids.  For every such
   entry and every supported protocol in its range the type is registered with exactly the reference id.
   Entries written from memory (`unverified`) are not part of this theorem. *)
Theorem C06_reference : forall e p,
  In e alarmed -> In p (supported config) -> in_range e p = true ->
  id_of tbl (e_state e) (e_dir e) p (e_type e) = Some (e_id e).
Proof. exact C06_reference_proof. Qed.
Print Assumptions C06_reference.

Theorem C06_reference_forallb : forallb (agrees tbl (supported config)) alarmed = true.
Proof. exact C06_reference_forallb_proof. Qed.
Print Assumptions C06_reference_forallb.

(* The judge's decidable predicate on observed maps implies the bijection the theorems are about. *)
Theorem C06_bijb_sound : forall r, bijb r = true -> bij_pr r.
Proof. exact bijb_sound. Qed.
Print Assumptions C06_bijb_sound.

(* Non-vacuity: a populated table, a real fallback, a nil Play registry, a non-empty reference. *)
Example C06_nonvacuous_keepalive :
  id_of tbl Play ClientBound 764 "packet.KeepAlive" = Some 36 /\
  type_of tbl Play ClientBound 764 36 = Some "packet.KeepAlive"%string.
Proof. exact ex_keepalive_764. Qed.

Example C06_nonvacuous_fallback :
  ~ In 999999 (supported config) /\
  (exists r, lookup tbl Login ServerBound 999999 = RFound r /\ pr_protocol r = 4 /\ pr_ids r <> []) /\
  lookup tbl Play ClientBound 3 = RNil.
Proof. exact ex_fallback_login. Qed.

Example C06_nonvacuous_reference : List.length alarmed = 110%nat /\ In 764 (supported config).
Proof. exact ex_reference_nonempty. Qed.

(* Evidence only, never an obligation: reference entries written from memory (unverified) that do not agree
   with the table, as (entry, protocol) pairs.  Printed into the evidence file by the driver. *)
Compute ("C06 unverified reference entries that disagree (reported, never alarmed on):"%string, C06_unverified_report).
