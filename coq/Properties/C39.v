(* C39 — statements (in progress) *)
From Coq Require Import List NArith ZArith.
From Verif Require Import Base.Hex Base.Base64 Base.Decimal Model.Floodgate Proofs.C39.
