(* C39 — Floodgate identity data is authentic and interoperable with Floodgate.
   Only statements and `exact`; the proofs are in Proofs/C39.v.
   AES-GCM is abstract: [seal]/[open] are universally quantified and constrained by the stated premises
   (correctness on byte strings; authenticity as a cryptographic assumption). The model functions are in
   Model/Floodgate.v: impl_read_hostname = today's ReadHostname (nonce length checked since commit 6b22eb8),
   spec_read_hostname = what the property demands (the same function, C39_impl_is_spec), prefix_read_hostname = the
   code before that commit (panicked on a nonce that is not 12 bytes: finding C39-1, fixed); floodgate_encode / floodgate_decode = Floodgate's
   own (Java) encoder and decoder. *)
From Coq Require Import List NArith ZArith.
From Verif Require Import Base.Hex Base.Base64 Base.Decimal Model.Floodgate Proofs.C39.
Import ListNotations.
Open Scope N_scope.

(* what "field values" means below: the typed record gate can hold, strings are byte strings without NUL *)
Theorem C39_valid_data_def : forall d, valid_data d <->
  b_username d <> [] /\ b_xuid d <> 0%Z /\ in_int64 (b_xuid d) /\
  (0 <= b_device d <= 15)%Z /\ in_int64 (b_ui d) /\ in_int64 (b_input d) /\
  contains 0 (b_version d) = false /\ contains 0 (b_username d) = false /\ contains 0 (b_language d) = false /\
  contains 0 (b_ip d) = false /\ contains 0 (b_linked d) = false /\ contains 0 (b_subscribe d) = false /\
  contains 0 (b_verify d) = false /\
  wf_bytes (b_version d) /\ wf_bytes (b_username d) /\ wf_bytes (b_language d) /\ wf_bytes (b_ip d) /\
  wf_bytes (b_linked d) /\ wf_bytes (b_subscribe d) /\ wf_bytes (b_verify d).
Proof. exact (fun d => iff_refl _). Qed.

(* "data produced by Floodgate's own encoder ... is decoded by the proxy to the same fields":
   every key, every 12-byte nonce, every valid record, every NUL-free original host, with or without a
   ":port" tail (port_suffix sfx: sfx = [] or sfx = 58 :: port with port NUL-free). *)
Theorem C39_roundtrip_in :
  forall (seal : bytes -> bytes -> bytes -> bytes) (open : bytes -> bytes -> bytes -> option bytes),
  (forall k iv p, wf_bytes p -> open k iv (seal k iv p) = Some p) ->
  (forall k iv p, wf_bytes p -> wf_bytes (seal k iv p)) ->
  forall k iv d h sfx,
  wf_bytes iv -> length iv = 12%nat -> valid_data d -> contains 0 h = false -> port_suffix sfx ->
  impl_read_hostname open k (floodgate_encode seal k iv h (bedrock_fields d) ++ sfx) = Ok (h, d).
Proof. intros seal open H1 H2. exact (roundtrip_in seal open H1 H2 true). Qed.
Print Assumptions C39_roundtrip_in.

(* "data the proxy encodes is decoded by Floodgate's decoder to the same fields": WriteHostname emits
   byte for byte what Floodgate's encoder emits for the same nonce, and Floodgate's decoder (Java Base64
   decoder, String.split semantics: the last field must not be empty) reads back the twelve strings. *)
Theorem C39_roundtrip_out :
  forall (seal : bytes -> bytes -> bytes -> bytes) (open : bytes -> bytes -> bytes -> option bytes),
  (forall k iv p, wf_bytes p -> open k iv (seal k iv p) = Some p) ->
  (forall k iv p, wf_bytes p -> wf_bytes (seal k iv p)) ->
  forall k iv d h,
  wf_bytes iv -> length iv = 12%nat -> valid_data d -> b_verify d <> [] -> contains 0 h = false ->
  write_hostname seal k iv h d = Some (floodgate_encode seal k iv h (bedrock_fields d)) /\
  floodgate_decode open k (floodgate_encode seal k iv h (bedrock_fields d)) = Some (h, bedrock_fields d).
Proof. exact roundtrip_out. Qed.
Print Assumptions C39_roundtrip_out.

(* "data produced under another key or altered ... is rejected": whatever ReadHostname accepts carries a
   (nonce, ciphertext) pair that was issued under the key — [issued] is the set of triples produced by key
   holders, the premise is ciphertext integrity (INT-CTXT) of AES-GCM, a cryptographic assumption. *)
Theorem C39_tamper :
  forall (open : bytes -> bytes -> bytes -> option bytes) (issued : bytes -> bytes -> bytes -> Prop),
  (forall k iv c p, open k iv c = Some p -> issued k iv c) ->
  forall k x h d, impl_read_hostname open k x = Ok (h, d) ->
  exists iv c, envelope_of x = Some (iv, c) /\ length iv = 12%nat /\ issued k iv c.
Proof. intros open issued A. exact (tamper open issued A true). Qed.
Print Assumptions C39_tamper.

(* the same with the premise in the form "only sealed ciphertexts open" *)
Theorem C39_tamper_seal_form :
  forall (seal : bytes -> bytes -> bytes -> bytes) (open : bytes -> bytes -> bytes -> option bytes),
  (forall k iv c p, open k iv c = Some p -> c = seal k iv p) ->
  forall k x h d, impl_read_hostname open k x = Ok (h, d) ->
  exists iv p, envelope_of x = Some (iv, seal k iv p) /\ length iv = 12%nat.
Proof. intros seal open A. exact (tamper_seal_form seal open A true). Qed.
Print Assumptions C39_tamper_seal_form.

(* altered: if (iv0, c0) is the only pair issued under k, a hostname whose DECODED nonce or ciphertext
   differs is never accepted *)
Theorem C39_altered_rejected :
  forall (open : bytes -> bytes -> bytes -> option bytes) (issued : bytes -> bytes -> bytes -> Prop),
  (forall k iv c p, open k iv c = Some p -> issued k iv c) ->
  forall k iv0 c0 x iv c,
  (forall iv' c', issued k iv' c' -> iv' = iv0 /\ c' = c0) ->
  envelope_of x = Some (iv, c) -> (iv <> iv0 \/ c <> c0) ->
  forall r, impl_read_hostname open k x <> Ok r.
Proof. intros open issued A. exact (tamper_single open issued A true). Qed.
Print Assumptions C39_altered_rejected.

(* another key: nothing was issued under k' *)
Theorem C39_other_key_rejected :
  forall (open : bytes -> bytes -> bytes -> option bytes) (issued : bytes -> bytes -> bytes -> Prop),
  (forall k iv c p, open k iv c = Some p -> issued k iv c) ->
  forall k' x, (forall iv c, ~ issued k' iv c) -> forall r, impl_read_hostname open k' x <> Ok r.
Proof. intros open issued A. exact (other_key open issued A true). Qed.
Print Assumptions C39_other_key_rejected.

(* why "altered in any byte" is read as "altering the decoded nonce or ciphertext": Base64 decoding (Go's
   and Java's alike) is not injective — the unused bits of the last letter are ignored *)
Theorem C39_b64_malleable : exists x x' : bytes, x <> x' /\ b64_decode x = b64_decode x' /\ b64_decode x <> None
  /\ b64_decode_java x = b64_decode_java x'.
Proof. exact b64_malleable. Qed.
Print Assumptions C39_b64_malleable.

(* "rejected without crashing": today's code never panics, whatever the hostname, key and cipher *)
Theorem C39_impl_is_spec : forall open k x, impl_read_hostname open k x = spec_read_hostname open k x.
Proof. exact read_hostname_impl_is_spec. Qed.
Theorem C39_no_crash : forall open k x, impl_read_hostname open k x <> Panic.
Proof. exact impl_never_panics. Qed.
Print Assumptions C39_no_crash.

(* about the PRE-fix code (finding C39-1, repaired by commit 6b22eb8): a 3-byte nonce made gcm.Open panic,
   whatever the key and whatever AES-GCM does; today's code returns an error on the same input *)
Theorem C39_prefix_no_crash_refuted : forall open k,
  trigger_bad_iv crash_hostname = true /\ prefix_read_hostname open k crash_hostname = Panic /\
  impl_read_hostname open k crash_hostname = Err.
Proof. exact prefix_panics_refuted. Qed.
Print Assumptions C39_prefix_no_crash_refuted.

(* the pre-fix trigger was exact, and off the trigger the pre-fix code already was the specification *)
Theorem C39_prefix_panics_iff : forall open k x, prefix_read_hostname open k x = Panic <-> trigger_bad_iv x = true.
Proof. exact prefix_panics_iff. Qed.
Theorem C39_prefix_eq_spec_off_trigger : forall open k x, trigger_bad_iv x = false ->
  prefix_read_hostname open k x = spec_read_hostname open k x.
Proof. exact prefix_eq_spec_off_trigger. Qed.
Print Assumptions C39_prefix_eq_spec_off_trigger.

(* Non-vacuity: the AEAD premises are satisfiable (toy AEAD whose tag is the key), the record premises
   are met by a concrete record, and on it the model decodes to the record / rejects another key. *)
Example C39_premises_satisfiable :
  (forall k iv p, toy_open k iv (toy_seal k iv p) = Some p) /\
  (forall k iv c p, toy_open k iv c = Some p -> c = toy_seal k iv p) /\
  valid_data ex_data /\ wf_bytes ex_iv /\ wf_bytes ex_key.
Proof. exact (conj toy_open_seal (conj toy_authentic ex_valid)). Qed.
Example C39_nonvacuous :
  impl_read_hostname toy_open ex_key (floodgate_encode toy_seal ex_key ex_iv ex_host (bedrock_fields ex_data)) = Ok (ex_host, ex_data)
  /\ impl_read_hostname toy_open (repeat 8 16) (floodgate_encode toy_seal ex_key ex_iv ex_host (bedrock_fields ex_data)) = Err.
Proof. exact ex_roundtrip. Qed.
