(* C44 - Connections tear down exactly once and survive handler panics.
   Only statements and `exact`; proofs are in Proofs/C44.v.

   Vocabulary (Model/ConnClose.v): a program is the read loop with a [script] (what HandlePacket does with
   each incoming packet: return, or panic with an error / string / runtime.Error / other value) plus any
   list [gs] of goroutines (Close or CloseUnknown, CloseWith, WritePacket - which closes the connection
   when its flush fails -, the peer closing its end, the PARENT context given to NewMinecraftConn being
   cancelled); the read loop ends with the blocked read failing.
   [run ... sched cinit] executes ANY schedule.  impl_cfg = the code as it is (closeOnce and recover).
     n_disc evs     number of SessionHandler.Disconnected() calls
     n_first evs    number of closeKnown calls that ran the teardown (did not answer ErrClosedConn)
     has_closed pre a Disconnected() call or a cancellation of the parent context occurred in the prefix pre
                    (that is when netmc.Closed(c) answers true)
     handled evs    numbers of the incoming packets for which HandlePacket was entered, in order
   [dops] is what the installed handler's Disconnected() does with ITS OWN connection while the teardown
   runs (WritePacket/Write/BufferPacket/BufferPayload, CloseWith, a close guarded by "if !Closed(c)" - the
   last also stands for the player/backend pairing, where the other connection's teardown comes back to
   this one); [guarded] excludes only an unguarded Close() from there.
     dop_results evs  what those calls answered;  stuck_ev / c_stuck  a goroutine re-entered closeOnce.Do
                      from inside its own body and blocks forever (so the teardown never finishes) *)
From Coq Require Import List Bool Arith.
From Verif Require Import Base.Conc Model.ConnClose Proofs.C44.
Import ListNotations.

(* "However many times and from however many goroutines a connection is closed (explicitly, by a write
   error, or by its read loop ending), its session teardown runs exactly once": never more than once;
   exactly once iff the teardown's own cancelCtx ran; exactly one closeKnown call is the one that ran it;
   and as soon as any closeKnown call (Close, CloseUnknown, closeOnWriteErr, the read loop's deferred
   close, CloseWith's deferred Close) has returned it has run - also when the parent context was
   cancelled first, which makes Closed(c) true without any teardown. *)
Theorem C44_teardown_exactly_once : forall script gs dops sched,
  forallb guarded dops = true ->
  let r := run (program impl_cfg script gs) sched (cinit_d dops) in
  let s := final_state r in
  let evs := events r in
  n_disc evs <= 1
  /\ n_disc evs = (if c_closed s then 1 else 0)
  /\ n_first evs = n_disc evs
  /\ ((exists t r0, In (ECloseRet t r0) evs) -> n_disc evs = 1 /\ c_closed s = true).
Proof. exact teardown_exactly_once. Qed.
Print Assumptions C44_teardown_exactly_once.

(* "later writes report the connection as closed": wherever a write starts in the trace, its Closed(c)
   check sees "closed" exactly when the teardown (or a parent-context cancel) happened before it, and then the very next event is that
   write returning ErrClosedConn (nothing is sent, nothing else happens in between) *)
Theorem C44_writes_after_close_fail : forall script gs dops sched,
  forallb guarded dops = true ->
  let r := run (program impl_cfg script gs) sched (cinit_d dops) in
  let evs := events r in
  forall pre t b post, evs = pre ++ EWStart t b :: post ->
    b = has_closed pre /\ (b = true -> exists post', post = EWRes t WClosed :: post').
Proof. exact writes_after_close_fail. Qed.
Print Assumptions C44_writes_after_close_fail.

(* "a panic inside a packet handler is contained without ending the process": no schedule ends the
   process; packets are handled in order without gaps (a panic does not skip or repeat one); every panic
   raised by a handler was recovered by the loop's recover frame *)
Theorem C44_panic_contained : forall script gs dops sched,
  forallb guarded dops = true ->
  let r := run (program impl_cfg script gs) sched (cinit_d dops) in
  let s := final_state r in
  let evs := events r in
  died evs = false /\ c_died s = false
  /\ handled evs = seq 0 (c_next s)
  /\ recovered evs = panics evs.
Proof. exact panic_contained. Qed.
Print Assumptions C44_panic_contained.

(* "closed ... however many times": the teardown handler may itself touch its connection.  Because the
   context is cancelled BEFORE the socket is closed and Disconnected() runs, every such call sees
   Closed(c) = true: writes and CloseWith answer ErrClosedConn, guarded closes are skipped; none re-enters
   the once-body, nothing ever gets stuck, and every closeKnown call returns *)
Theorem C44_teardown_reentrancy_safe : forall script gs dops sched,
  forallb guarded dops = true ->
  let r := run (program impl_cfg script gs) sched (cinit_d dops) in
  let s := final_state r in
  let evs := events r in
  c_stuck s = false /\ stuck_ev evs = false
  /\ dop_results evs = (if c_closed s then map res_of dops else [])
  /\ n_first evs = n_disc evs.
Proof. exact teardown_reentrancy_safe. Qed.
Print Assumptions C44_teardown_reentrancy_safe.

(* model fact: with the cancel moved AFTER the teardown (defer c.cancelCtx() in the once-body) a CloseWith
   from Disconnected() does not see "closed", writes to the closed socket, fails and calls Close():
   closeOnce.Do is re-entered from inside its body - no Close call ever returns *)
Theorem C44_with_cancel_after_teardown_reentrant_close_never_returns :
  exists script gs dops sched,
    forallb guarded dops = true /\
    let r := run (program (mkCfg true true false false) script gs) sched (cinit_d dops) in
    c_stuck (final_state r) = true /\ stuck_ev (events r) = true
    /\ has_ret (events r) = false
    /\ dop_results (events r) = [].
Proof. exact with_cancel_after_teardown_reentrant_close_never_returns. Qed.
Print Assumptions C44_with_cancel_after_teardown_reentrant_close_never_returns.

(* model fact about the code as it is (observed on the real code too): an UNGUARDED Close() - or Flush(),
   which has no Closed check - called by Disconnected() on its own connection blocks on sync.Once forever;
   this is why the premise [guarded dops] is there and why real handlers guard with "if !Closed(c)" *)
Theorem C44_unguarded_close_from_teardown_never_returns :
  exists script gs sched,
    let r := run (program impl_cfg script gs) sched (cinit_d [DWrite; DRawClose]) in
    c_stuck (final_state r) = true /\ has_ret (events r) = false
    /\ dop_results (events r) = [DClosed].
Proof. exact unguarded_close_from_teardown_never_returns. Qed.
Print Assumptions C44_unguarded_close_from_teardown_never_returns.

(* what the two guards are needed for (model facts; the harness mutants "remove closeOnce" and "drop the
   recover" show the same on the real code) *)
Theorem C44_without_once_teardown_runs_twice :
  exists script gs sched,
    n_disc (events (run (program (mkCfg false true false true) script gs) sched cinit)) = 2.
Proof. exact without_once_teardown_runs_twice. Qed.
Print Assumptions C44_without_once_teardown_runs_twice.

Theorem C44_without_recover_the_process_dies :
  exists script gs sched,
    let r := run (program (mkCfg true false false true) script gs) sched cinit in
    died (events r) = true /\ c_died (final_state r) = true
    /\ handled (events r) = [0; 1]
    /\ n_disc (events r) = 0.
Proof. exact without_recover_the_process_dies. Qed.
Print Assumptions C44_without_recover_the_process_dies.

(* non-vacuity: panics of every kind, three closers, a CloseWith, the peer going away and a write that
   starts after the teardown *)
Example C44_nonvacuous_demo :
  let r := run (program impl_cfg demo_script demo_gs) demo_sched cinit in
  complete (remaining r) = true
  /\ handled (events r) = [0; 1; 2; 3; 4; 5] /\ recovered (events r) = [0; 2; 3; 4]
  /\ n_disc (events r) = 1 /\ n_first (events r) = 1
  /\ skipn 10 (events r) =
     [EDisc; ECloseRet 1 CFirst; ECwSkip 2; ECloseRet 3 CAlready;
      EWStart 5 true; EWRes 5 WClosed; ELoopExit; ECloseRet 0 CAlready].
Proof. exact demo_run. Qed.

(* a closeKnown with a "Closed(c)? then ErrClosedConn" fast path in front of closeOnce (not in the code):
   once the parent context is cancelled no close path runs the teardown any more *)
Theorem C44_with_early_exit_teardown_never_runs :
  exists script gs sched,
    let r := run (program (mkCfg true true true true) script gs) sched cinit in
    complete (remaining r) = true /\ n_disc (events r) = 0 /\ c_closed (final_state r) = false.
Proof. exact with_early_exit_teardown_never_runs. Qed.
Print Assumptions C44_with_early_exit_teardown_never_runs.
