(* C18 — Keep-alive replies reach only the backend that asked, once.
   Only statements and `exact`; the proofs are in Proofs/C18.v.

   Model/KeepAlive.v: every serverConnection has a pending-id LRU of capacity 64 (Base/Lru.v, the
   behaviour of github.com/dboslee/lru) and a connection status; the player has a connected and an
   in-flight slot.  Atomic actions: a backend keep-alive (recordBackendKeepAlive, one critical
   section), and the six steps of forwardKeepAlive (read connected server / consume = Get+Delete in
   one critical section / look at the backend's state and write / read in-flight / consume /
   write), plus status and slot changes.  "All schedules" = Base.Conc.run over ANY threads made of
   these actions (replies may even be cut into pieces or run out of order) and ANY schedule. *)
From Coq Require Import List ZArith Bool Arith.
From Verif Require Import Base.Conc Base.Lru Model.KeepAlive Proofs.C18.
Import ListNotations.

(* "forwarded to a backend only if that backend sent a keep-alive with the same id that has not
   been answered yet and the backend is in configuration or play": at every moment (every prefix
   of the event trace) the keep-alives with id [id] written to backend c are at most as many as
   the times backend c made [id] pending (ERec c id true: it was not pending when it arrived), and
   every write found the backend open in CONFIG or PLAY. *)
Theorem C18_forward_only_if_pending :
  forall stats cur inf n (ts : list (@thread state event)) sched,
  (forall a, In a (concat ts) -> is_action a) ->
  let evs := events (run ts sched (init stats cur inf n)) in
  (forall k c id, count_writes c id (firstn k evs) <= count_fresh c id (firstn k evs))
  /\ (forall c id st, In (EWrite c id st) evs -> st = PConfig \/ st = PPlay).
Proof. exact forward_accounting_all. Qed.
Print Assumptions C18_forward_only_if_pending.

(* "each such id is forwarded at most once even under concurrent handling": however many replies
   race, an id that became pending once on backend c is written to c at most once. *)
Theorem C18_at_most_once :
  forall stats cur inf n (ts : list (@thread state event)) sched c id,
  (forall a, In a (concat ts) -> is_action a) ->
  let evs := events (run ts sched (init stats cur inf n)) in
  count_fresh c id evs <= 1 -> count_writes c id evs <= 1.
Proof. exact at_most_once_all. Qed.
Print Assumptions C18_at_most_once.

(* "replies matching no pending id are dropped": a whole forwardKeepAlive call for an id pending
   neither on the connected nor on the in-flight connection writes nothing and changes no
   connection (not even the LRU order). *)
Theorem C18_unmatched_dropped :
  forall s id,
  locals s <> [] ->
  (forall c, current s = Some c -> pending s c id = false) ->
  (forall c, inflight s = Some c -> pending s c id = false) ->
  snd (step_op s (ClientReply id)) = [] /\ conns (fst (step_op s (ClientReply id))) = conns s.
Proof. exact unmatched_dropped_seq. Qed.
Print Assumptions C18_unmatched_dropped.

(* "> 64 pending": after backend c sent distinct ids (nothing pending before), exactly the 64 most
   recent are pending ... *)
Theorem C18_only_last_64_pending :
  forall c ids s sc id,
  nth_error (conns s) c = Some sc -> pend sc = [] -> NoDup ids ->
  pending (record_all c ids s) c id = true <-> In id (firstn 64 (rev ids)).
Proof. exact evicted_pending. Qed.
Print Assumptions C18_only_last_64_pending.

(* ... and a reply to any other id — in particular to the ones pushed out — is dropped. *)
Theorem C18_evicted_dropped :
  forall c ids s sc id,
  nth_error (conns s) c = Some sc -> pend sc = [] -> NoDup ids ->
  locals s <> [] -> current s = Some c -> inflight s = None ->
  ~ In id (firstn 64 (rev ids)) ->
  snd (step_op (record_all c ids s) (ClientReply id)) = [].
Proof. exact evicted_dropped_seq. Qed.
Print Assumptions C18_evicted_dropped.

(* "the current server is tried before the in-flight one": an id pending on the connected server is
   consumed there; it is written to that backend exactly when it is open in CONFIG or PLAY (and is
   consumed either way); no other connection — the in-flight one included — is touched. *)
Theorem C18_current_first :
  forall s id c sc,
  locals s <> [] ->
  current s = Some c -> nth_error (conns s) c = Some sc -> Lru.mem Z.eqb id (pend sc) = true ->
  snd (step_op s (ClientReply id)) =
    match forwardable (stat sc) with Some st => [EWrite c id st] | None => [] end
  /\ pending (fst (step_op s (ClientReply id))) c id = false
  /\ forall c', c' <> c -> nth_error (conns (fst (step_op s (ClientReply id)))) c' = nth_error (conns s) c'.
Proof. exact current_first_seq. Qed.
Print Assumptions C18_current_first.

(* ---------- the premises are met ---------- *)

(* Backend 0 sends id 5 once; two forwardKeepAlive(5) calls race with it and with each other.
   Over ALL 12012 interleavings of the 1+6+6 atomic steps: id 5 became pending exactly once and
   was written to backend 0 at most once; schedules with exactly one write and with none (both
   replies came too early) exist.
   (The boolean is Proofs.C18.nv_check: threads [[a_record 0 5]; reply_thread 0 5; reply_thread 1 5]
   from init [COpen PPlay; COpen PConfig] (Some 0) (Some 1) 2; forallb over Base.Conc.outcomes of
   (count_writes 0 5 <=? 1) && (count_fresh 0 5 =? 1), existsb of = 1 and of = 0, length = 12012.
   Stated through the constant so that re-checking this file does not re-evaluate it.) *)
Example C18_nonvacuous_all_schedules :
  (forall a, In a (concat nv_threads) -> is_action a) /\ nv_check = true.
Proof. exact (conj nv_threads_actions nv_check_ok). Qed.
