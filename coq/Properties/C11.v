(* C11 — Player registry stays unique and consistent under any login/logout interleaving.
   Only statements and `exact`; proofs are in Proofs/C11.v, definitions in Model/PlayerRegistry.v.

   Reading of the quantifier: a program is ANY list of goroutines, each ANY list of the model's atomic
   actions (act: canRegister / register pass / begin-disconnect / close / teardown / bare unregister),
   so in particular any number of logins (login_thread), rejected logins and disconnects
   (disconnect_thread) over any names, case variants and UUIDs; [sched] is ANY list of goroutine
   indices, complete or not, so the state after [run ... sched] is every reachable moment.
   [c : cfg] carries the mode (online, kick) and two switches that select the code variant:
     v_unreg c = false  unregisterConnection removes only entries holding that very player,
     v_leak  c = false  registerConnection unlocks muP on its failure path
   — this is the code AS IT IS NOW (impl_cfg = spec_cfg, see C11_impl_is_spec), and
     v_unreg c = true / v_leak c = true  the code BEFORE the `fix:` commits of findings C11-1 / C11-2
   (prefix_cfg), kept only so that the old defects stay stated and refuted below. *)
From Coq Require Import List NArith Bool String.
From Verif Require Import Base.Conc Model.PlayerRegistry Proofs.C11 Proofs.C11_LockFacts.
Import ListNotations.
Open Scope N_scope.
Open Scope list_scope.

(* "At every moment at most one registered player exists per UUID": two entries under one UUID are the
   same player and every entry sits under its own UUID.  Holds for every variant and mode. *)
Theorem C11_ids_unique :
  forall (c : cfg) (ts : list (list act)) (sched : list nat) (s0 : state),
    maps_wf s0 ->
    let s := final_state (run (compile c ts) sched s0) in
    (forall i p q, In (i, p) (ids s) -> In (i, q) (ids s) -> p = q)
    /\ (forall i p, In (i, p) (ids s) -> p_id p = i).
Proof. intros c ts sched s0 H. exact (wf_ids_unique _ (wf_all_schedules c ts sched s0 H)). Qed.
Print Assumptions C11_ids_unique.

(* "...and the player count equals the number of registered UUIDs" (PlayerCount = len(playerIDs)). *)
Theorem C11_count_eq :
  forall (c : cfg) (ts : list (list act)) (sched : list nat) (s0 : state),
    maps_wf s0 ->
    let s := final_state (run (compile c ts) sched s0) in
    player_count s = List.length (nodup N.eq_dec (registered_uuids s)).
Proof. intros c ts sched s0 H. exact (wf_count_eq _ (wf_all_schedules c ts sched s0 H)). Qed.
Print Assumptions C11_count_eq.

(* "with kicking of existing players disabled there is also at most one per case-insensitive username
   and name and UUID lookups describe the same set" — for the specified unregister. *)
Theorem C11_indices_agree :
  forall (c : cfg) (ts : list (list act)) (sched : list nat) (s0 : state),
    kick c = false -> v_unreg c = false ->
    maps_wf s0 -> indices_agree s0 ->
    let s := final_state (run (compile c ts) sched s0) in
    (forall p, In (lname p, p) (names s) <-> In (p_id p, p) (ids s))
    /\ (forall n p q, In (n, p) (names s) -> In (n, q) (names s) -> p = q)
    /\ (forall n p, In (n, p) (names s) -> lname p = n).
Proof.
  intros c ts sched s0 Hk Hv H A. split.
  - exact (agree_all_schedules c ts sched s0 Hk Hv H A).
  - exact (wf_names_unique _ (wf_all_schedules c ts sched s0 H)).
Qed.
Print Assumptions C11_indices_agree.

(* "A registered player stays findable until its own disconnect (by name too, unless kick mode ...):
   a rejected, duplicate or failed login, or the teardown of any other connection, never removes
   another player's registration" — for the specified unregister, from the empty registry:
   whoever the trace shows as registered (EvReg p) and not removed by ITS OWN teardown or its own
   bare unregister (live p) is found by UUID, and with kick off by name. *)
Theorem C11_findable_until_own_disconnect :
  forall (c : cfg) (ts : list (list act)) (sched : list nat),
    v_unreg c = false ->
    let r := run (compile c ts) sched init in
    forall p, live p (events r) ->
      get_id (p_id p) (final_state r) = Some p
      /\ (kick c = false -> get_name (lname p) (final_state r) = Some p).
Proof. intros c ts sched Hv. exact (findable_all_schedules c ts sched init Hv). Qed.
Print Assumptions C11_findable_until_own_disconnect.

(* "In kick mode an older session with the same UUID is disconnected before the new one is
   registered" (in fact in every mode): whenever p is registered, every other player q of the same
   UUID registered earlier has had its own teardown / unregister earlier. *)
Theorem C11_older_session_removed_first :
  forall (c : cfg) (ts : list (list act)) (sched : list nat),
    v_unreg c = false ->
    forall l1 p l2, events (run (compile c ts) sched init) = l1 ++ EvReg p :: l2 ->
    forall q, q <> p -> p_id q = p_id p -> In (EvReg q) l1 -> own_removal q l1.
Proof. intros c ts sched Hv. exact (reg_order_all_schedules c ts sched init Hv). Qed.
Print Assumptions C11_older_session_removed_first.

(* No login, rejection or disconnect leaves the registry lock held (so lookups keep answering) —
   for the specified registerConnection. *)
Theorem C11_lock_never_leaked :
  forall (c : cfg) (ts : list (list act)) (sched : list nat) (s0 : state),
    v_leak c = false -> leaked s0 = false ->
    leaked (final_state (run (compile c ts) sched s0)) = false.
Proof. exact noleak_all_schedules. Qed.
Print Assumptions C11_lock_never_leaked.

(* the code as it is now is the specified variant, so every theorem above applies to it *)
Theorem C11_impl_is_spec : forall on kk,
  impl_cfg on kk = spec_cfg on kk /\ v_unreg (impl_cfg on kk) = false /\ v_leak (impl_cfg on kk) = false.
Proof. intros on kk. repeat split. Qed.
Print Assumptions C11_impl_is_spec.

(* the judge's walk over an OBSERVED event log (Model.order_ok) implies the ordering clause on that log *)
Theorem C11_observed_log_walk_sound : forall evs, order_ok [] evs = true ->
  forall l1 p l2, evs = l1 ++ EvReg p :: l2 ->
  forall q, q <> p -> p_id q = p_id p -> In (EvReg q) l1 -> own_removal q l1.
Proof. exact order_ok_sound. Qed.
Print Assumptions C11_observed_log_walk_sound.

(* ---- the PRE-FIX code (prefix_cfg): findings C11-1 and C11-2, repaired in /repo; historical facts ---- *)

(* Finding C11-1 (fixed): with the PRE-FIX unconditional unregister the findable clause was FALSE: two login
   goroutines ("Alice", then a rejected duplicate "alice" with the same UUID), run one after the other. *)
Theorem C11_prefix_findable_until_own_disconnect_refuted :
  exists (ts : list (list act)) (sched : list nat) (p : player),
    let c := prefix_cfg false false in
    let r := run (compile c ts) sched init in
    live p (events r) /\ get_id (p_id p) (final_state r) = None /\ player_count (final_state r) = 0%nat.
Proof.
  exists (ts_dup alice_dup_same_uuid (prefix_cfg false false)), sched_seq, alice.
  destruct findable_refuted_witness as [H1 [H2 [H3 [H4 H5]]]].
  split; [|split; assumption]. split; [exact H1|].
  intros [[st Ht]|Hu]; [apply H2 in Ht; discriminate|exact (H3 _ Hu)].
Qed.
Print Assumptions C11_prefix_findable_until_own_disconnect_refuted.

(* Finding C11-1 (fixed), offline flavour (other spelling = other UUID): the indices disagreed afterwards. *)
Theorem C11_prefix_indices_agree_refuted :
  exists (ts : list (list act)) (sched : list nat) (p : player),
    let c := prefix_cfg false false in
    let s := final_state (run (compile c ts) sched init) in
    get_id (p_id p) s = Some p /\ get_name (lname p) s = None.
Proof.
  exists (ts_dup alice_dup_other_uuid (prefix_cfg false false)), sched_seq, alice.
  exact agree_refuted_witness.
Qed.
Print Assumptions C11_prefix_indices_agree_refuted.

(* Finding C11-2 (fixed): two logins of one name that both pass canRegisterConnection: the loser's
   PRE-FIX registerConnection returned with muP locked. *)
Theorem C11_prefix_lock_never_leaked_refuted :
  exists (ts : list (list act)) (sched : list nat),
    let c := prefix_cfg false false in
    let r := run (compile c ts) sched init in
    leaked (final_state r) = true /\ In EvBlocked (events r).
Proof.
  exists (ts_dup alice_dup_same_uuid (prefix_cfg false false)), sched_race.
  exact leak_refuted_witness.
Qed.
Print Assumptions C11_prefix_lock_never_leaked_refuted.

(* Off the recorded triggers the pre-fix functions equalled the specified (= present) ones. *)
Theorem C11_unregister_prefix_eq_spec_off_trigger :
  forall on kk p s, trigger_unreg p s = false ->
    unregister (prefix_cfg on kk) p s = unregister (spec_cfg on kk) p s.
Proof. exact unregister_off_trigger. Qed.
Print Assumptions C11_unregister_prefix_eq_spec_off_trigger.

Theorem C11_register_prefix_eq_spec_off_trigger :
  forall on p s, trigger_leak (prefix_cfg on false) p s = false ->
    register_nokick (prefix_cfg on false) p s = register_nokick (spec_cfg on false) p s.
Proof. exact register_off_trigger. Qed.
Print Assumptions C11_register_prefix_eq_spec_off_trigger.

(* Atomicity premise of the model, re-proved from today's source text on every run (translator
   lockfacts): every access of playerNames / playerIDs inside canRegisterConnection,
   registerConnection, unregisterConnection and the lookups happens with muP held, those sites exist,
   and NO function returns with a registry mutex held (no lock leak; none is tolerated any more). *)
(* In particular the granularity the all-schedules theorems rely on: registerConnection's taken-checks
   and its two inserts (and unregisterConnection's pointer checks and deletes) lie in ONE critical
   section of muP, so "check and update" is one atomic action as in Model.sem (AReg / ATear). *)
Theorem C11_register_check_insert_atomic :
  register_check_insert_atomic = true /\ unregister_check_delete_atomic = true.
Proof. exact (conj register_check_insert_atomic_ok unregister_check_delete_atomic_ok). Qed.
Print Assumptions C11_register_check_insert_atomic.

Theorem C11_registry_sections_locked : registry_sections_locked = true.
Proof. exact registry_sections_locked_ok. Qed.
Print Assumptions C11_registry_sections_locked.
