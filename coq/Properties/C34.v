(* C34 statements (in progress) *)
From Verif Require Import Base.Hex Base.Ip Model.Limiter Proofs.C34.
