(* C34 -- Rate limiters enforce exactly their configured windows and buckets.
   Only statements and `exact`; the proofs are in Proofs/C34.v.
   Model: Model/Limiter.v (addrquota.ipKey; token bucket in exact arithmetic; packetlimiter's counter ring
   buffer, limiter and float comparison) over Base/Ip.v. *)
From Coq Require Import List ZArith NArith Bool String QArith.
From Verif Require Import Base.Hex Base.Ip Base.Conc Model.Limiter Proofs.C34 Proofs.C34_float Proofs.C34_conc.
Import ListNotations.
Open Scope Z_scope.

(* ---------- (c) "A connection's packet limiter closes it exactly when the packets or bytes counted in the
   trailing window exceed the configured per-second rate times the window, matching a straightforward
   sliding-window count for any sequence of timestamps and sizes." ---------- *)

(* The running sum of the ring buffer (counter.sum, with head/tail wrap-around and any number of resizes)
   equals the sliding-window sum, for EVERY history the ring accepts: hist is the whole history, newest first,
   of any length and with any counts; good_hist = window and times in (0, 2^62), times non-decreasing. *)
Theorem C34_ring_refines_window : forall iv now cnt hist,
  good_hist iv ((now, cnt) :: hist) ->
  sum (run_hist iv ((now, cnt) :: hist)) = window_sum iv now ((now, cnt) :: hist).
Proof. exact ring_refines_window. Qed.
Print Assumptions C34_ring_refines_window.

(* The invariant behind it: after any accepted history the live segment of the ring, read from head to
   tail, is exactly the list of points not older than the window (qfilter), the rest of counts is zero
   and total is their sum (Inv). *)
Theorem C34_ring_invariant : forall iv hist, good_hist iv hist ->
  Inv (run_hist iv hist) /\ live (run_hist iv hist) = qfilter iv hist /\ interval (run_hist iv hist) = iv.
Proof. exact run_hist_ok. Qed.
Print Assumptions C34_ring_invariant.

(* The limiter (New + Account with the clock as an argument, packets checked first, bytes second) decides
   like the straightforward sliding-window count up to and including the first refusal (where the
   connection is closed), for every rate comparison exc, both dimensions, and every sequence in range
   (window, times in (0, 2^62), sizes in [0, 2^40), times non-decreasing). *)
Theorem C34_limiter_refines_window : forall exc pps bps iv evs,
  in_range iv evs = true ->
  prefix_agrees (spec_run exc pps bps iv [] evs)
                (map snd (run_limiter exc (new_limiter pps bps iv) evs)) = true.
Proof. exact limiter_refines_window. Qed.
Print Assumptions C34_limiter_refines_window.

(* The comparison Account really makes, float64(total) / (float64(interval) * 1e-9) > float64(limit), is
   modelled bit-exactly (IEEE-754 binary64 via Coq.Floats.SpecFloat) as exceeds_float; the property's
   comparison is exceeds_exact (limit * interval < total * 10^9).

   OUTSIDE THE BAND.  With u = 2^-53, c = the binary64 constant 1e-9 = 10^-9 * (1 + 301175296 * 2^-82),
   P = interval * c, the band is   T*(1-u) <= L*P*(1+u)  and  L*P*(1-u) < T*(1+u)   (outside_band is its
   complement).  For EVERY total >= 0, interval > 0, limit > 0 whose float run obeys the standard model of
   floating-point arithmetic (float_run_ok: conversions exact, each of the two roundings within relative
   error 2^-53 of the exact product / quotient, float comparison = comparison of the denoted rationals --
   a decidable predicate that the judge evaluates on every decision it replays), outside the band the float
   decision equals the exact one.  What remains assumed: that float_run_ok holds for all admissible inputs
   (the textbook bound |fl(x) - x| <= 2^-53 |x| for normal results; Coq's SpecFloat has no such lemma and
   it is not proved here); it is checked bit by bit on the tables below and on every judged case.  Inside
   the band (|T*10^9 - L*iv| * 2^51 <= L*iv at the widest) the bit-exact model decides. *)
Theorem C34_float_decision_exact_outside_band : forall tot iv limit,
  0 <= tot -> 0 < iv -> 0 < limit ->
  float_run_ok tot iv limit = true -> outside_band tot iv limit = true ->
  exceeds_float tot iv limit = exceeds_exact tot iv limit.
Proof. exact float_decision_exact_outside_band. Qed.
Print Assumptions C34_float_decision_exact_outside_band.

(* the band is thin: |T*10^9 - L*iv| * 2^51 > L*iv already puts a total outside *)
Theorem C34_far_from_equality_outside_band : forall tot iv limit,
  0 < iv -> 0 < limit ->
  far_from_equality tot iv limit = true -> outside_band tot iv limit = true.
Proof. exact far_from_equality_outside_band. Qed.
Print Assumptions C34_far_from_equality_outside_band.

(* the arithmetic core, for ANY computed product d and quotient q within relative error u (no floats) *)
Theorem C34_band_arithmetic : forall u c0 dl : Q,
  (0 < u /\ u < 1)%Q -> (0 < c0)%Q -> (0 < dl /\ dl < u)%Q ->
  forall T iv L : Q, (0 <= T)%Q -> (0 < iv)%Q -> (0 < L)%Q ->
  forall d q : Q,
  ((1 - u) * (iv * (c0 * (1 + dl))) <= d /\ d <= (1 + u) * (iv * (c0 * (1 + dl))))%Q ->
  ((1 - u) * T <= q * d /\ q * d <= (1 + u) * T)%Q ->
  (L * (iv * (c0 * (1 + dl))) * (1 + u) < T * (1 - u))%Q -> (L < q /\ L * iv * c0 < T)%Q.
Proof. exact above_band. Qed.
Print Assumptions C34_band_arithmetic.

(* the standard model checked bit by bit: 8 windows (1 ms .. 1 h) x 8 limits x 7 totals around the threshold *)
Theorem C34_float_run_ok_table : run_ok_table = true.
Proof. exact float_run_ok_table. Qed.
Print Assumptions C34_float_run_ok_table.

(* default 7 s / 500 pps: a total far from the band (theorem applies) and one inside it (bit-exact model decides) *)
Example C34_float_default_far_from_band :
  float_run_ok 100 7000000000 500 = true /\ far_from_equality 100 7000000000 500 = true /\
  outside_band 100 7000000000 500 = true /\
  exceeds_float 100 7000000000 500 = exceeds_exact 100 7000000000 500 /\
  float_run_ok 3501 7000000000 500 = true /\ outside_band 3501 7000000000 500 = true /\
  exceeds_float 3501 7000000000 500 = true.
Proof. exact float_default_far_from_band. Qed.

Example C34_float_default_inside_band :
  float_run_ok 3500 7000000000 500 = true /\ outside_band 3500 7000000000 500 = false /\
  exceeds_float 3500 7000000000 500 = false /\ exceeds_exact 3500 7000000000 500 = false.
Proof. exact float_default_inside_band. Qed.

(* TABLE (kept): float = exact, inside the band included, on 14 windows x 20 limits at the totals within 2
   of the threshold (and 0, 2t+1), and for the default configuration on every total up to 8099. *)
Theorem C34_float_decision_exact_partial :
  (forall iv limit, In iv float_table_windows -> In limit float_table_limits ->
     let t := limit * iv / 1000000000 in
     forall tot, In tot [Z.max 0 (t - 2); Z.max 0 (t - 1); t; t + 1; t + 2; 0; 2 * t + 1] ->
     exceeds_float tot iv limit = exceeds_exact tot iv limit) /\
  (forall a b, (a <= 80)%nat -> (b < 100)%nat ->
     let n := Z.of_nat (100 * a + b) in
     exceeds_float n 7000000000 500 = exceeds_exact n 7000000000 500).
Proof. exact float_decision_exact_partial. Qed.
Print Assumptions C34_float_decision_exact_partial.

(* ---------- (b) "allow each group at most burst plus rate-times-elapsed events" ---------- *)
(* Token bucket with rate rnum/rden per time unit and capacity burst, tokens scaled by rden; for every
   state within capacity, every non-decreasing sequence of event times and every interval [t0, t1]:
   granted * rden <= burst * rden + rnum * (t1 - t0). *)
Theorem C34_bucket_bound : forall burst rnum rden,
  0 <= rnum -> 0 < rden -> 0 <= burst ->
  forall t0 t1, t0 <= t1 -> forall ts b, binv burst rden b -> sorted_ge (last b) ts ->
  granted_in t0 t1 ts (bucket_run burst rnum rden b ts) * rden <= burst * rden + rnum * (t1 - t0).
Proof. exact bucket_bound. Qed.
Print Assumptions C34_bucket_bound.

(* ... and an event is granted exactly when a whole token is there after the refill *)
Theorem C34_bucket_allow_iff : forall burst rnum rden b t,
  snd (bucket_allow burst rnum rden b t) = true <->
  rden <= Z.min (burst * rden) (tok b + rnum * (Z.max t (last b) - last b)).
Proof. exact bucket_allow_iff. Qed.
Print Assumptions C34_bucket_allow_iff.

(* ... lifted to EVERY interleaving (Base/Conc.v).  Any number of goroutines cs, each any number of
   Blocked calls (group, dt >= 0 = time passed since the previous step, so timestamps are non-decreasing in
   schedule order); one call = ONE atomic step (lookup-or-create of the group's bucket + Allow, as today's
   code does under q.mu) on the shared cache group -> bucket.  For every schedule sched, every group g and
   every interval [t0, t1], what g was granted obeys the bound of C34_bucket_bound. *)
Theorem C34_quota_bound_all_schedules : forall burst rnum rden,
  0 <= rnum -> 0 < rden -> 0 <= burst ->
  forall (cs : list (list (N * Z))) (sched : list nat) tstart g t0 t1,
  t0 <= t1 ->
  let evs := snd (fst (run (caller_threads burst rnum rden cs) sched (mkQ tstart []))) in
  granted_in t0 t1 (map fst (gtrace g evs)) (map snd (gtrace g evs)) * rden <= burst * rden + rnum * (t1 - t0).
Proof. exact quota_bound_all_schedules. Qed.
Print Assumptions C34_quota_bound_all_schedules.

(* The split variant (seeded change C34-3: lookup under the lock, then create + add + Allow on a private
   bucket) is refuted: burst 2, three first-contact callers of group 7, all lookups before all allows --
   three granted at one instant. *)
Theorem C34_quota_split_refuted : exists sched,
  let evs := snd (fst (run (split_threads 2 1 1000000000000 7 3) sched (mkQ2 0 [] []))) in
  map snd (gtrace 7 evs) = [true; true; true] /\
  ~ (granted_in 0 0 (map fst (gtrace 7 evs)) (map snd (gtrace 7 evs)) * 1000000000000 <= 2 * 1000000000000 + 1 * (0 - 0)).
Proof. exact quota_split_refuted. Qed.
Print Assumptions C34_quota_split_refuted.

(* non-vacuity: the same three callers (plus one of another group) with the atomic step: in each of the 24
   complete schedules group 7 is granted exactly 2 and group 9 is served *)
Example C34_quota_atomic_nonvacuous :
  let cs := [[(7%N, 0)]; [(7%N, 0)]; [(7%N, 0)]; [(9%N, 5)]] in
  forallb (fun sched =>
     let evs := snd (fst (run (caller_threads 2 1 1000000000000 cs) sched (mkQ 0 []))) in
     (List.length (filter (fun x => x) (map snd (gtrace 7 evs))) =? 2)%nat && (List.length (gtrace 9 evs) =? 1)%nat)
    (all_schedules (caller_threads 2 1 1000000000000 cs)) = true /\
  List.length (all_schedules (caller_threads 2 1 1000000000000 cs)) = 24%nat.
Proof. exact quota_atomic_nonvacuous. Qed.

(* ---------- (a) "group addresses by IPv4 /24 (including IPv4-mapped IPv6) and IPv6 /64" ---------- *)
(* bits are numbered from the least significant end: /24 of an IPv4 address = bits 8..31, /64 = bits 64..127;
   fam (unmap a) = V4 says: IPv4 or IPv4-mapped IPv6 *)
Theorem C34_ip_key_eq_iff : forall a b, wf_addr a -> wf_addr b ->
  (key_of_addr a = key_of_addr b <->
   (fam (unmap a) = V4 /\ fam (unmap b) = V4 /\
    forall i, (8 <= i < 32)%N -> N.testbit (abits a) i = N.testbit (abits b) i) \/
   (fam (unmap a) = V6 /\ fam (unmap b) = V6 /\
    forall i, (64 <= i < 128)%N -> N.testbit (abits a) i = N.testbit (abits b) i)).
Proof. exact ip_key_eq_iff. Qed.
Print Assumptions C34_ip_key_eq_iff.

(* stated for the code's key function (impl_ip_key = ipKey as it is after fix commit 2006028) *)
Theorem C34_ip_key_on_texts : forall s1 s2 a1 a2,
  parse_addr s1 = Some a1 -> parse_addr s2 = Some a2 ->
  (impl_ip_key s1 = impl_ip_key s2 <-> key_of_addr (strip_zone a1) = key_of_addr (strip_zone a2)) /\
  impl_ip_key s1 <> None.
Proof. exact impl_ip_key_groups. Qed.
Print Assumptions C34_ip_key_on_texts.

Theorem C34_ip_key_impl_is_spec : forall s, impl_ip_key s = spec_ip_key s.
Proof. exact ip_key_impl_is_spec. Qed.
Print Assumptions C34_ip_key_impl_is_spec.

Theorem C34_unparsable_never_limited : forall s, parse_addr s = None -> spec_ip_key s = None /\ impl_ip_key s = None.
Proof. exact spec_ip_key_none. Qed.
Print Assumptions C34_unparsable_never_limited.

(* Finding C34-1 (FIXED by commit 2006028), kept as facts about the PRE-FIX code prefix_ip_key
   (net.ParseIP): it gave no key to an address with a zone, so such a peer was never limited; off that
   trigger it was what the property demands.  The judge treats a recurrence as a violation. *)
Theorem C34_prefix_ip_key_zone_refuted : exists s,
  zone_trigger s = true /\ prefix_ip_key s = None /\ spec_ip_key s <> None /\
  spec_ip_key s = spec_ip_key [102; 101; 56; 48; 58; 58; 49]%N.
Proof. exact prefix_ip_key_zone_refuted. Qed.
Print Assumptions C34_prefix_ip_key_zone_refuted.

Theorem C34_prefix_ip_key_eq_spec_off_trigger : forall s, zone_trigger s = false -> prefix_ip_key s = spec_ip_key s.
Proof. exact prefix_ip_key_eq_spec_off_trigger. Qed.
Print Assumptions C34_prefix_ip_key_eq_spec_off_trigger.

(* ---------- non-vacuity ---------- *)
(* 45 points, 5 of which expire first (head = 5 when the ring fills), three resizes (cap 64), sum 0+..+39 *)
Example C34_ring_nonvacuous :
  good_hist 7000000000 (rev sample_events ++ []) /\
  cap (run_hist 7000000000 (rev sample_events)) = 64%nat /\
  sum (run_hist 7000000000 (rev sample_events)) = 780 /\
  head (run_hist 7000000000 (rev (firstn 12 sample_events))) = 5%nat.
Proof. exact ring_nonvacuous. Qed.

Example C34_limiter_nonvacuous :
  in_range 7000000000 sample_events = true /\
  map snd (run_limiter exceeds_float (new_limiter 5 (-1) 7000000000) (firstn 8 sample_events))
    = [true; true; true; true; true; true; true; true] /\
  existsb negb (map snd (run_limiter exceeds_float (new_limiter 5 (-1) 7000000000) sample_events)) = true.
Proof. exact limiter_nonvacuous. Qed.

(* the premise "times non-decreasing" is needed: with a clock that steps back the ring over-counts *)
Example C34_ring_clock_steps_back_differs :
  let hist := [(25, 1); (5, 1); (20, 1)] in
  sum (run_hist 10 hist) = 3 /\ window_sum 10 25 hist = 2.
Proof. exact ring_clock_steps_back_differs. Qed.

Example C34_bucket_nonvacuous :
  let ts := [0; 0; 0; 0; 0; 1000000000; 1000000001; 2500000000; 2500000000; 10000000000; 10000000000; 10000000000; 10000000000] in
  let oks := bucket_run 3 1 1000000000 (bucket_new 3 1000000000 0) ts in
  oks = [true; true; true; false; false; true; false; true; false; true; true; true; false] /\
  granted_in 0 2500000000 ts oks = 5.
Proof. exact bucket_nonvacuous. Qed.
