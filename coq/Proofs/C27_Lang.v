(* C27 - the repaired legacy handlers and the modern handler, written in the lock language,
   never get stuck and compute the pure step functions [lstep] / [mstep]. *)
From Coq Require Import List NArith Bool Lia.
From Verif Require Import Model.ResourcePack.
Import ListNotations.
Import LangNotations.
Open Scope N_scope.

Lemma set_queue_same s : set_queue s (l_queue s) = s.
Proof. destruct s; reflexivity. Qed.

Lemma app_nil_end' {A} (l : list A) : l ++ [] = l.
Proof. apply app_nil_r. Qed.

(* ---------- onResourcePackResponseLocked ---------- *)

Definition resp_state (s : lstate) (b : bundle) : lstate :=
  apply_status (if intermediate (bstatus b) then s else set_queue s (tl (l_queue s)))
               (hd_error (l_queue s)) (bstatus b).

Lemma body_unfold e c tickf ghost b l s ev :
  (l_queue s <> [] \/ nilguard c = true) ->
  on_response_body e c tickf ghost b (mkW l s ev) =
  ((if intermediate (bstatus b) then ret_ tt else tickf) ;;;
   emit (ghost (hd_error (l_queue s))) ;;;
   m_handle_result e (hd_error (l_queue s)) b) (mkW l (resp_state s b) ev).
Proof.
  intros H. unfold on_response_body, resp_state.
  unfold bind at 1. unfold get at 1. cbn [st].
  destruct (l_queue s) as [|p t] eqn:Q.
  - destruct (nilguard c); [|destruct H; congruence].
    destruct (intermediate (bstatus b)); reflexivity.
  - destruct (intermediate (bstatus b)); reflexivity.
Qed.

Lemma body_panics e c tickf ghost b l s ev :
  l_queue s = [] -> nilguard c = false ->
  on_response_body e c tickf ghost b (mkW l s ev) = Panicked (mkW l s ev).
Proof.
  intros Q G. unfold on_response_body. unfold bind, get. cbn [st]. rewrite Q, G. reflexivity.
Qed.

Lemma tail_after_tick {S} e q b l (s : S) ev :
  (emit (GOwn q b) ;;; m_handle_result e q b) (mkW l s ev) =
  Done (handled_of q) (mkW l s (ev ++ GOwn q b :: report_events e q b)).
Proof.
  unfold m_handle_result, bind, emit, emits, ret_. cbn [lk st evs].
  rewrite <- app_assoc. reflexivity.
Qed.

(* ---------- tickResourcePackQueueLocked ---------- *)

Definition auto_respond e c :=
  fun b => spec_on_response_locked e c (ret_ tt)
             (fun q => match q with Some p => GAuto p | None => GOwn q b end) b.

Lemma loop_ok e c : forall q s ev,
  l_queue s = q -> l_prev s = Some false ->
  tick_loop (length q) e (auto_respond e c) (mkW WLocked s ev) =
  Done tt (mkW WLocked (set_queue s (snd (flush e q)))
               (ev ++ fst (flush e q) ++ match snd (flush e q) with [] => [] | f :: _ => [req f] end)).
Proof.
  induction q as [|p t IH]; intros s ev Q P.
  - cbn [length tick_loop flush fst snd]. unfold bind, get. cbn [st]. rewrite Q.
    unfold ret_. rewrite <- Q, set_queue_same. cbn [app]. rewrite app_nil_r. reflexivity.
  - cbn [length tick_loop]. unfold bind at 1. unfold get at 1. cbn [st]. rewrite Q.
    cbn [flush]. destruct (force p && is117 e) eqn:F.
    + cbn [fst snd app]. unfold m_send, emit. cbn [lk st evs].
      rewrite <- Q, set_queue_same. reflexivity.
    + destruct (flush e t) as [es r] eqn:FL. cbn [fst snd].
      unfold bind at 1. unfold auto_respond at 1. unfold spec_on_response_locked.
      rewrite body_unfold by (left; rewrite Q; discriminate).
      rewrite Q. cbn [hd_error decline_bundle bstatus intermediate].
      unfold bind at 1. unfold ret_ at 1.
      unfold bind at 1. unfold emit at 1. cbn [lk st evs].
      unfold m_handle_result. unfold bind at 1. unfold emits at 1. cbn [lk st evs].
      unfold ret_ at 1.
      set (s2 := resp_state s _).
      assert (Q2 : l_queue s2 = t).
      { unfold s2, resp_state. cbn [bstatus intermediate]. rewrite Q. cbn [tl hd_error apply_status l_queue set_queue]. reflexivity. }
      assert (P2 : l_prev s2 = Some false).
      { unfold s2, resp_state. cbn [bstatus intermediate apply_status l_prev]. reflexivity. }
      rewrite (IH s2 _ Q2 P2). cbn [fst snd].
      f_equal. f_equal.
      * unfold s2, resp_state. cbn [bstatus intermediate]. rewrite Q.
        cbn [tl hd_error apply_status set_queue l_next l_prev l_queue l_pending l_applied].
        unfold set_queue. rewrite P. reflexivity.
      * repeat rewrite <- app_assoc. cbn [app]. repeat rewrite <- app_assoc. reflexivity.
Qed.

Lemma spec_tick_ok e c s ev :
  spec_tick_locked e c (mkW WLocked s ev) =
  Done tt (mkW WLocked (fst (tick e s)) (ev ++ snd (tick e s))).
Proof.
  unfold spec_tick_locked, tick_body, tick.
  unfold bind at 1. unfold get at 1. cbn [st].
  unfold bind at 1. unfold get at 1. cbn [st].
  destruct (l_queue s) as [|q t] eqn:Q.
  - unfold ret_. cbn [fst snd]. rewrite app_nil_r. reflexivity.
  - destruct (prev_declined s) eqn:PD.
    + assert (P : l_prev s = Some false).
      { unfold prev_declined in PD. destruct (l_prev s) as [[|]|]; congruence. }
      change (fun b : bundle => spec_on_response_locked e c (ret_ tt)
                (fun q0 => match q0 with Some p => GAuto p | None => GOwn q0 b end) b)
        with (auto_respond e c).
      rewrite <- Q at 1. rewrite (loop_ok e c (l_queue s) s ev eq_refl P).
      rewrite Q. destruct (flush e (q :: t)) as [es r]. cbn [fst snd].
      rewrite app_assoc. reflexivity.
    + unfold m_send, emit. cbn [lk st evs fst snd]. reflexivity.
Qed.

(* ---------- one call ---------- *)

Definition outcome_of (x : lstate * list event * ret) : outcome lstate ret :=
  let '(s, es, r) := x in
  match r with
  | RPanic => Panicked (mkW Free s es)
  | _ => Done r (mkW Free s es)
  end.

Lemma ld_unfold {A} (body : M lstate A) s ev :
  locked_defer body (mkW Free s ev) =
  match body (mkW WLocked s ev) with
  | Done a w2 => match release w2 with
                 | Done _ w3 => Done a w3
                 | Stuck w3 => Stuck w3
                 | Panicked w3 => Panicked w3
                 | OutOfFuel => OutOfFuel
                 end
  | Panicked w2 => match release w2 with
                   | Done _ w3 => Panicked w3
                   | _ => Panicked w2
                   end
  | Stuck w2 => Stuck w2
  | OutOfFuel => OutOfFuel
  end.
Proof. reflexivity. Qed.

Lemma spec_exec_refines e c s o :
  l_exec CurrentNesting e c o (mkW Free s []) = outcome_of (lstep e c s o).
Proof.
  destruct o as [id hash f be|b|id|].
  - (* Queue *)
    cbn [l_exec lstep]. unfold bind at 1. unfold spec_queue. rewrite ld_unfold.
    unfold bind at 1. unfold get at 1. cbn [st].
    unfold bind at 1. unfold put at 1. cbn [lk st evs].
    unfold bind at 1. unfold get at 1. cbn [st].
    destruct (Nat.eqb (length (l_queue (push_pack s id hash f be))) 1).
    + rewrite spec_tick_ok. destruct (tick e (push_pack s id hash f be)) as [s2 es]. cbn [fst snd app].
      unfold release. cbn [lk st evs]. reflexivity.
    + unfold ret_, release. cbn [lk st evs]. reflexivity.
  - (* Response *)
    cbn [l_exec lstep]. unfold bind at 1. unfold spec_on_response. rewrite ld_unfold.
    unfold spec_on_response_locked.
    assert (NP : (l_queue s <> [] \/ nilguard c = true) ->
      match
        match on_response_body e c (spec_tick_locked e c) (fun q => GOwn q b) b (mkW WLocked s []) with
        | Done a w2 => match release w2 with
                       | Done _ w3 => Done a w3 | Stuck w3 => Stuck w3
                       | Panicked w3 => Panicked w3 | OutOfFuel => OutOfFuel end
        | Stuck w2 => Stuck w2
        | Panicked w2 => match release w2 with Done _ w3 => Panicked w3 | _ => Panicked w2 end
        | OutOfFuel => OutOfFuel
        end
      with
      | Done a w' => ret_ (RHandled a) w'
      | Stuck w' => Stuck w' | Panicked w' => Panicked w' | OutOfFuel => OutOfFuel
      end = outcome_of (lresp e s b)).
    { intros H. rewrite body_unfold by exact H. unfold lresp, resp_state.
      destruct (intermediate (bstatus b)) eqn:I.
      - unfold bind at 1. unfold ret_ at 1. rewrite tail_after_tick.
        unfold release. cbn [lk st evs app outcome_of]. reflexivity.
      - unfold bind at 1. rewrite spec_tick_ok.
        destruct (tick e (apply_status (set_queue s (tl (l_queue s))) (hd_error (l_queue s)) (bstatus b))) as [s3 es].
        cbn [fst snd app]. rewrite tail_after_tick. unfold release. cbn [lk st evs outcome_of]. reflexivity. }
    destruct (l_queue s) as [|p t] eqn:Q; [destruct (nilguard c) eqn:G|].
    + apply NP. right. reflexivity.
    + rewrite body_panics by assumption. unfold release. cbn [lk st evs outcome_of]. reflexivity.
    + apply NP. left. discriminate.
  - reflexivity.
  - reflexivity.
Qed.

(* whole histories: the lock-language run of the repaired handlers IS the pure run; in particular
   no call of it is ever stuck and the lock is free again after every call *)
Lemma run_legacy_pure e c : forall h s,
  run_lang (l_exec CurrentNesting e c) l_papp l_ppend Free s h = run_lpure e c s h.
Proof.
  induction h as [|o r IH]; intros s; [reflexivity|].
  cbn [run_lang run_lpure]. rewrite spec_exec_refines.
  destruct (lstep e c s o) as [[s' es] a]. cbn [outcome_of].
  destruct a; cbn [lk st evs]; rewrite IH; reflexivity.
Qed.

(* ---------- modern handler ---------- *)

Lemma mod_tick_free id s ev :
  mod_tick id (mkW Free s ev) =
  Done tt (mkW Free s (ev ++ match mget id (m_out s) with p :: _ => [req p] | [] => [] end)).
Proof.
  unfold mod_tick, bind, try_rlock, get. cbn [lk st evs].
  destruct (mget id (m_out s)) as [|p t].
  - unfold runlock. cbn [lk st evs]. rewrite app_nil_r. reflexivity.
  - unfold runlock, m_send, emit. cbn [lk st evs]. reflexivity.
Qed.

Lemma mod_tick_wlocked id s ev :
  mod_tick id (mkW WLocked s ev) =
  Done tt (mkW WLocked s (ev ++ match mget id (m_out s) with p :: _ => [req p] | [] => [] end)).
Proof.
  unfold mod_tick, bind, try_rlock, get. cbn [lk st evs].
  destruct (mget id (m_out s)) as [|p t].
  - unfold ret_. rewrite app_nil_r. reflexivity.
  - unfold ret_, m_send, emit. cbn [lk st evs]. reflexivity.
Qed.

Lemma aget_aset_same {V} (k : N) (v : V) m : aget k (aset k v m) = Some v.
Proof.
  induction m as [|[k' v'] m IHm]; cbn [aset aget].
  - rewrite N.eqb_refl. reflexivity.
  - destruct (k =? k') eqn:E1.
    + cbn [aget]. rewrite N.eqb_refl. reflexivity.
    + destruct (k <? k'); cbn [aget].
      * rewrite N.eqb_refl. reflexivity.
      * rewrite N.eqb_sym, E1. exact IHm.
Qed.

Lemma mget_aset_same k l m : mget k (aset k l m) = l.
Proof. unfold mget. rewrite aget_aset_same. reflexivity. Qed.

Definition m_outcome_of (x : mstate * list event * ret) : outcome mstate ret :=
  let '(s, es, r) := x in Done r (mkW Free s es).

Lemma m_exec_refines e s o :
  m_exec e o (mkW Free s []) = m_outcome_of (mstep e s o).
Proof.
  destruct o as [id hash f be|b|id|].
  - cbn [m_exec mstep]. unfold bind at 1. unfold mod_queue.
    unfold bind at 1. unfold acquire at 1. cbn [lk st evs].
    unfold bind at 1. unfold get at 1. cbn [st].
    unfold bind at 1. unfold put at 1. cbn [lk st evs].
    destruct (Nat.eqb (length (mget id (m_out s) ++ [mkPack (m_next s) id hash f be])) 1) eqn:L.
    + unfold bind at 1. unfold release at 1. cbn [lk st evs].
      rewrite mod_tick_free. cbn [m_out].
      rewrite mget_aset_same.
      destruct (mget id (m_out s)) as [|x t]; [|destruct t; discriminate L].
      cbn [app m_outcome_of]. reflexivity.
    + unfold release. cbn [lk st evs m_outcome_of]. reflexivity.
  - cbn [m_exec mstep]. unfold bind at 1. unfold mod_on_response.
    unfold locked_defer. unfold acquire at 1. cbn [lk st evs].
    unfold bind at 1. unfold get at 1. cbn [st].
    set (queued := hd_error (mget (bid b) (m_out s))).
    set (s1 := match queued with
               | Some _ => if intermediate (bstatus b) then s
                           else mkMS (m_next s) (mremove_first (bid b) (m_out s)) (m_pending s) (m_applied s)
               | None => s end).
    assert (E1 : forall (k : unit -> M mstate bool),
       bind (match queued with
             | Some _ => if intermediate (bstatus b) then ret_ tt
                         else put (mkMS (m_next s) (mremove_first (bid b) (m_out s)) (m_pending s) (m_applied s))
             | None => ret_ tt end) k (mkW WLocked s []) = k tt (mkW WLocked s1 [])).
    { intros k. unfold bind, s1. destruct queued; [destruct (intermediate (bstatus b))|]; reflexivity. }
    rewrite E1. clear E1.
    unfold bind at 1. unfold get at 1. cbn [st].
    destruct (m_apply_status s1 queued (bid b) (bstatus b)) as [s2 early] eqn:AS.
    unfold bind at 1. unfold put at 1. cbn [lk st evs].
    destruct early as [a|].
    + rewrite tail_after_tick. unfold release. cbn [lk st evs app m_outcome_of]. reflexivity.
    + destruct (intermediate (bstatus b)) eqn:I.
      * unfold bind at 1. unfold ret_ at 1. rewrite tail_after_tick.
        unfold release. cbn [lk st evs app m_outcome_of]. reflexivity.
      * unfold bind at 1. rewrite mod_tick_wlocked. rewrite tail_after_tick.
        unfold release. cbn [lk st evs app m_outcome_of]. reflexivity.
  - cbn [m_exec mstep]. unfold bind at 1. unfold mod_remove, locked_defer, acquire. cbn [lk st evs].
    unfold bind, get, put, ret_, release. cbn [lk st evs m_outcome_of]. reflexivity.
  - cbn [m_exec mstep]. unfold bind at 1. unfold mod_clear, locked_defer, acquire. cbn [lk st evs].
    unfold bind, get, put, ret_, release. cbn [lk st evs m_outcome_of]. reflexivity.
Qed.

Lemma run_modern_pure e : forall h s,
  run_lang (m_exec e) m_papp m_ppend Free s h = run_mpure e s h.
Proof.
  induction h as [|o r IH]; intros s; [reflexivity|].
  cbn [run_lang run_mpure]. rewrite m_exec_refines.
  destruct (mstep e s o) as [[s' es] a]. cbn [m_outcome_of lk st evs]. rewrite IH. reflexivity.
Qed.
