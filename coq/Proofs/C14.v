(* C14 - proofs about Model/PlayQueue.v.
   Part A: the invariant of spec_ programs under every schedule (Conc.trace_inv_all_schedules).
   Part B: the same statement refuted for impl_ programs (today's two-step write) by a schedule.
   Part C: sequential histories cannot tell old_write from spec_write. *)
From Coq Require Import List NArith Bool Arith Lia.
From Verif Require Import Base.Conc Base.Hex Base.VarInt Model.PlayQueue.
Import ListNotations.
Local Open Scope nat_scope.
Local Opaque cap.

(* ---------- projections distribute over append ---------- *)

Lemma acc_app a b : acc (a ++ b) = acc a ++ acc b.
Proof. unfold acc. apply flat_map_app. Qed.
Lemma wire_app a b : wire (a ++ b) = wire a ++ wire b.
Proof. unfold wire. apply flat_map_app. Qed.
Lemma po_app a b : po (a ++ b) = po a ++ po b.
Proof. unfold po. apply filter_app. Qed.
Lemma cv_app a b : cv (a ++ b) = cv a ++ cv b.
Proof. unfold cv. apply filter_app. Qed.
Lemma wwf_app a b : wire_wellformed (a ++ b) = wire_wellformed a && wire_wellformed b.
Proof. unfold wire_wellformed. apply forallb_app. Qed.

Lemma wire_map_EWire ph q : wire (map (EWire ph) q) = q.
Proof.
  induction q as [|x q IH]; [reflexivity|].
  change (wire (map (EWire ph) (x :: q))) with (x :: wire (map (EWire ph) q)). now rewrite IH.
Qed.
Lemma acc_map_EWire ph q : acc (map (EWire ph) q) = [].
Proof.
  induction q as [|x q IH]; [reflexivity|].
  change (acc (map (EWire ph) (x :: q))) with (acc (map (EWire ph) q)). exact IH.
Qed.

Lemma is_cv_po p : is_cv p = negb (is_po p).
Proof. reflexivity. Qed.

Lemma encodable_play p : encodable Play p = true.
Proof. unfold encodable. destruct (pk_kind p); reflexivity. Qed.
Lemma encodable_cv ph p : is_cv p = true -> encodable ph p = true.
Proof.
  unfold is_cv, is_po, encodable. destruct ph, (pk_kind p); simpl; congruence.
Qed.

Lemma wwf_map_play q : wire_wellformed (map (EWire Play) q) = true.
Proof.
  unfold wire_wellformed. rewrite forallb_forall. intros e He.
  apply in_map_iff in He. destruct He as [p [<- _]]. apply encodable_play.
Qed.

Lemma po_all q : Forall (fun p => is_po p = true) q -> po q = q /\ cv q = [].
Proof.
  induction 1 as [|x q Hx _ [IH1 IH2]]; [split; reflexivity|].
  unfold po, cv in *. simpl. rewrite is_cv_po, Hx. simpl. rewrite IH1, IH2. split; reflexivity.
Qed.

(* a suffix of a filtered list satisfies the filter *)
Lemma filter_suffix_all {A} (f : A -> bool) l a b : filter f l = a ++ b -> Forall (fun x => f x = true) b.
Proof.
  intros H. apply Forall_forall. intros x Hx.
  assert (Hin : In x (filter f l)) by (rewrite H; apply in_or_app; now right).
  apply filter_In in Hin. tauto.
Qed.

(* ---------- upd / nth ---------- *)

Lemma nth_upd_same {A} (d : A) i x l : i < length l -> nth i (upd d i x l) d = x.
Proof.
  revert l. induction i as [|i IH]; intros [|y l] H; simpl in *; try lia; [reflexivity|].
  apply IH. lia.
Qed.

Lemma length_upd {A} (d : A) i x l : i < length l -> length (upd d i x l) = length l.
Proof.
  revert l. induction i as [|i IH]; intros [|y l] H; simpl in *; try lia.
  rewrite IH; lia.
Qed.

(* ---------- the invariant ---------- *)

Definition wf (s : st) : Prop :=
  match s_cur s with
  | Some i => i < length (s_heap s) /\ s_phase s = Config
  | None => s_phase s = Play
  end.

Definition Inv (s : st) (evs : list event) : Prop :=
  wf s
  /\ wire_wellformed evs = true
  /\ cv (acc evs) = cv (wire evs)
  /\ (exists rest, po (acc evs) = po (wire evs) ++ rest /\ (s_closed s = false -> rest = live s))
  /\ length (live s) <= cap
  /\ (forall t p, In (ERes t p RErrQueueFull) evs -> s_closed s = true)
  /\ (forall t p, In (ERes t p ROk) evs -> In p (acc evs)).

Lemma Inv_intro s evs :
  wf s -> wire_wellformed evs = true -> cv (acc evs) = cv (wire evs) ->
  (exists rest, po (acc evs) = po (wire evs) ++ rest /\ (s_closed s = false -> rest = live s)) ->
  length (live s) <= cap ->
  (forall t p, In (ERes t p RErrQueueFull) evs -> s_closed s = true) ->
  (forall t p, In (ERes t p ROk) evs -> In p (acc evs)) ->
  Inv s evs.
Proof. unfold Inv. tauto. Qed.

Lemma Inv_init : Inv init [].
Proof.
  apply Inv_intro; try reflexivity; try (intros; contradiction).
  - exists []. split; reflexivity.
  - apply Nat.le_0_l.
Qed.

(* a step that neither accepts nor sends anything *)
Lemma step_quiet s evs s' es :
  Inv s evs ->
  wf s' -> acc es = [] -> wire es = [] -> wire_wellformed es = true ->
  (s_closed s' = false -> s_closed s = false /\ live s' = live s) ->
  length (live s') <= cap ->
  (forall t p, In (ERes t p RErrQueueFull) es -> s_closed s' = true) ->
  (s_closed s = true -> s_closed s' = true) ->
  (forall t p, ~ In (ERes t p ROk) es) ->
  Inv s' (evs ++ es).
Proof.
  intros (Hwf & Hww & Hcv & (rest & Hpo & Hrest) & Hlen & Hfull & Hok)
         Hwf' Hacc Hwire Hwwes Hlive Hlen' Hfull' Hmono Hnook.
  apply Inv_intro.
  - assumption.
  - now rewrite wwf_app, Hww, Hwwes.
  - now rewrite acc_app, wire_app, Hacc, Hwire, !app_nil_r.
  - exists rest. rewrite acc_app, wire_app, Hacc, Hwire, !app_nil_r. split; [assumption|].
    intros Hc. destruct (Hlive Hc) as [Hc0 ->]. auto.
  - assumption.
  - intros t p Hin. apply in_app_or in Hin. destruct Hin as [Hin|Hin]; [|eauto].
    apply Hmono. eauto.
  - intros t p Hin. apply in_app_or in Hin. rewrite acc_app. apply in_or_app.
    destruct Hin as [Hin|Hin]; [left; eauto|]. exfalso. eapply Hnook; eauto.
Qed.

(* a packet encoded at once (the state does not change) *)
Lemma step_direct s evs t p ph :
  Inv s evs -> s_closed s = false -> encodable ph p = true ->
  (is_po p = true -> live s = []) ->
  Inv s (evs ++ [EAcc p; EWire ph p; ERes t p ROk]).
Proof.
  intros (Hwf & Hww & Hcv & (rest & Hpo & Hrest) & Hlen & Hfull & Hok) Hc Hen Hlive.
  specialize (Hrest Hc). subst rest.
  apply Inv_intro.
  - assumption.
  - rewrite wwf_app, Hww. simpl. now rewrite Hen.
  - rewrite acc_app, wire_app, !cv_app, Hcv. reflexivity.
  - rewrite acc_app, wire_app, !po_app. cbn [acc wire flat_map app po filter].
    destruct (is_po p) eqn:Hp.
    + exists []. rewrite Hpo, (Hlive eq_refl), !app_nil_r. split; reflexivity.
    + exists (live s). rewrite Hpo, !app_nil_r. split; [reflexivity|auto].
  - assumption.
  - intros t0 p0 Hin. apply in_app_or in Hin. destruct Hin as [Hin|Hin]; [eauto|].
    simpl in Hin. destruct Hin as [Hin|[Hin|[Hin|[]]]]; discriminate.
  - intros t0 p0 Hin. apply in_app_or in Hin. rewrite acc_app. apply in_or_app.
    destruct Hin as [Hin|Hin]; [left; eauto|right].
    simpl in Hin. destruct Hin as [Hin|[Hin|[Hin|[]]]]; try discriminate.
    inversion Hin; subst. now left.
Qed.

(* a play-only packet pushed on the live queue *)
Lemma step_push s evs s' t p :
  Inv s evs -> s_closed s = false -> is_po p = true ->
  wf s' -> s_closed s' = false -> live s' = live s ++ [p] -> length (live s') <= cap ->
  Inv s' (evs ++ [EAcc p; ERes t p ROk]).
Proof.
  intros (Hwf & Hww & Hcv & (rest & Hpo & Hrest) & Hlen & Hfull & Hok) Hc Hp Hwf' Hc' Hlive' Hlen'.
  specialize (Hrest Hc). subst rest.
  apply Inv_intro.
  - assumption.
  - rewrite wwf_app, Hww. reflexivity.
  - rewrite acc_app, wire_app, !cv_app, Hcv. cbn [acc wire flat_map app cv filter].
    rewrite is_cv_po, Hp. reflexivity.
  - exists (live s ++ [p]). rewrite acc_app, wire_app, !po_app. cbn [acc wire flat_map app po filter].
    rewrite Hp, Hpo, !app_nil_r, app_assoc. split; [reflexivity|]. intros _. now rewrite Hlive'.
  - assumption.
  - intros t0 p0 Hin. apply in_app_or in Hin. destruct Hin as [Hin|Hin].
    + rewrite (Hfull _ _ Hin) in Hc. discriminate.
    + simpl in Hin. destruct Hin as [Hin|[Hin|[]]]; discriminate.
  - intros t0 p0 Hin. apply in_app_or in Hin. rewrite acc_app. apply in_or_app.
    destruct Hin as [Hin|Hin]; [left; eauto|right].
    simpl in Hin. destruct Hin as [Hin|[Hin|[]]]; try discriminate.
    inversion Hin; subst. now left.
Qed.

(* the live queue released to the wire *)
Lemma step_release s evs s' :
  Inv s evs -> s_closed s = false ->
  wf s' -> s_closed s' = false -> live s' = [] ->
  Inv s' (evs ++ map (EWire Play) (live s)).
Proof.
  intros (Hwf & Hww & Hcv & (rest & Hpo & Hrest) & Hlen & Hfull & Hok) Hc Hwf' Hc' Hlive'.
  specialize (Hrest Hc). subst rest.
  pose proof (filter_suffix_all is_po _ _ _ Hpo) as Hall.
  destruct (po_all _ Hall) as [Hpoq Hcvq].
  apply Inv_intro.
  - assumption.
  - rewrite wwf_app, Hww, wwf_map_play. reflexivity.
  - rewrite acc_app, wire_app, acc_map_EWire, wire_map_EWire, app_nil_r, cv_app, Hcvq, app_nil_r. assumption.
  - exists []. rewrite acc_app, wire_app, acc_map_EWire, wire_map_EWire, !app_nil_r, po_app, Hpoq.
    split; [assumption|]. intros _. now rewrite Hlive'.
  - rewrite Hlive'. apply Nat.le_0_l.
  - intros t0 p0 Hin. apply in_app_or in Hin. destruct Hin as [Hin|Hin].
    + rewrite (Hfull _ _ Hin) in Hc. discriminate.
    + apply in_map_iff in Hin. destruct Hin as [x [Hx _]]. discriminate.
  - intros t0 p0 Hin. apply in_app_or in Hin. rewrite acc_app. apply in_or_app.
    destruct Hin as [Hin|Hin]; [left; eauto|].
    apply in_map_iff in Hin. destruct Hin as [x [Hx _]]. discriminate.
Qed.

Lemma Inv_wf s evs : Inv s evs -> wf s.
Proof. unfold Inv. tauto. Qed.
Lemma Inv_len s evs : Inv s evs -> length (live s) <= cap.
Proof. unfold Inv. tauto. Qed.

Ltac fin :=
  try assumption;
  try solve [intros; congruence];
  try solve [simpl; discriminate];
  try solve [intros ? ? Hin; simpl in Hin; intuition discriminate].

Lemma spec_write_preserves t p s evs :
  Inv s evs -> Inv (fst (a_spec_write t p s)) (evs ++ snd (a_spec_write t p s)).
Proof.
  intros HI. pose proof (Inv_wf _ _ HI) as Hwf. pose proof (Inv_len _ _ HI) as Hlen.
  unfold a_spec_write.
  destruct (s_closed s) eqn:Hc.
  { (* already closed: ErrClosedConn, nothing else *)
    cbn [fst snd]. apply (step_quiet s evs s); auto; fin. }
  unfold do_queue_or_encode. unfold wf in Hwf.
  destruct (s_cur s) as [i|] eqn:Hcur.
  - destruct Hwf as [Hi Hph].
    assert (Hlive : live s = queue_at i s) by (unfold live; now rewrite Hcur).
    destruct (is_cv p) eqn:Hcvp.
    + (* config-valid while in CONFIG: encoded at once *)
      unfold do_encode. rewrite Hc, Hph, (encodable_cv Config p Hcvp). cbn [fst snd].
      apply step_direct; auto using encodable_cv.
      intros Hp. rewrite is_cv_po, Hp in Hcvp. discriminate.
    + rewrite Hc.
      assert (Hp : is_po p = true) by (rewrite is_cv_po in Hcvp; now destruct (is_po p)).
      destruct (Nat.leb cap (length (queue_at i s))) eqn:Hfullq.
      * (* overflow: close *)
        cbn [fst snd]. apply (step_quiet s evs (set_closed s)); auto; fin.
        unfold wf. simpl. rewrite Hcur. auto.
      * (* pushed on the live queue *)
        apply Nat.leb_gt in Hfullq. cbn [fst snd].
        assert (Hlive' : live (set_heap (upd [] i (queue_at i s ++ [p]) (s_heap s)) s) = live s ++ [p]).
        { unfold live, set_heap, queue_at. simpl. rewrite Hcur. rewrite nth_upd_same by assumption.
          reflexivity. }
        apply (step_push s evs); auto; fin.
        -- unfold wf, set_heap. simpl. rewrite Hcur. split; [|assumption]. rewrite length_upd; assumption.
        -- rewrite Hlive', app_length, Hlive. simpl. lia.
  - (* no queue: PLAY, everything is encodable *)
    unfold do_encode. rewrite Hc, Hwf, encodable_play. cbn [fst snd].
    apply step_direct; auto using encodable_play. intros _. unfold live. now rewrite Hcur.
Qed.

Lemma set_preserves ph s evs :
  Inv s evs -> Inv (fst (a_set ph s)) (evs ++ snd (a_set ph s)).
Proof.
  intros HI. pose proof (Inv_wf _ _ HI) as Hwf. pose proof (Inv_len _ _ HI) as Hlen.
  unfold a_set. unfold wf in Hwf.
  destruct ph.
  - (* enter CONFIG *)
    destruct (s_cur s) as [i|] eqn:Hcur; cbn [fst snd].
    + apply (step_quiet s evs); auto; fin.
      * unfold wf. simpl. tauto.
      * simpl. intros Hc. split; [assumption|]. unfold live, queue_at. simpl. now rewrite Hcur.
      * unfold live, queue_at in *. simpl. now rewrite Hcur in Hlen.
    + apply (step_quiet s evs); auto; fin.
      * unfold wf. simpl. split; [|reflexivity]. rewrite app_length. simpl. lia.
      * simpl. intros Hc. split; [assumption|]. unfold live, queue_at. simpl. rewrite Hcur.
        rewrite app_nth2 by lia. rewrite Nat.sub_diag. reflexivity.
      * unfold live, queue_at. simpl. rewrite app_nth2 by lia. rewrite Nat.sub_diag. apply Nat.le_0_l.
  - (* leave CONFIG *)
    destruct (s_cur s) as [i|] eqn:Hcur.
    + destruct Hwf as [Hi Hph].
      assert (Hq : live s = queue_at i s) by (unfold live; now rewrite Hcur).
      destruct (s_closed s) eqn:Hc; cbn [fst snd].
      * apply (step_quiet s evs); auto; fin.
        -- unfold wf. reflexivity.
        -- unfold live. simpl. apply Nat.le_0_l.
      * rewrite <- Hq. apply (step_release s evs); auto; fin.
        unfold wf. reflexivity.
    + cbn [fst snd]. apply (step_quiet s evs); auto; fin.
      * unfold wf. reflexivity.
      * simpl. intros Hc. split; [assumption|]. unfold live. simpl. now rewrite Hcur.
      * unfold live. simpl. apply Nat.le_0_l.
Qed.

(* ---------- the actions of a spec_ program ---------- *)

Lemma concat_map_map {A B} (f : A -> B) (l : list (list A)) :
  concat (map (map f) l) = map f (concat l).
Proof. induction l as [|x l IH]; simpl; [reflexivity|]. now rewrite map_app, IH. Qed.

Lemma in_writers_from w t pss l :
  In l (concat (writers_from w t pss)) -> exists t' p, In l (w t' p).
Proof.
  revert t. induction pss as [|ps pss IH]; intros t H; simpl in H; [contradiction|].
  apply in_app_or in H. destruct H as [H|H]; [|eauto].
  unfold writer in H. apply in_flat_map in H. destruct H as [p [_ Hp]]. eauto.
Qed.

Lemma in_spec_program pss fs l :
  In l (concat (program spec_write pss fs)) -> (exists t p, l = LSpecW t p) \/ (exists ph, l = LSet ph).
Proof.
  unfold program. rewrite concat_app. intros H. apply in_app_or in H. destruct H as [H|H].
  - left. destruct (in_writers_from _ _ _ _ H) as [t [p [Hl|[]]]]. eauto.
  - right. rewrite concat_map_map in H. apply in_map_iff in H. destruct H as [ph [<- _]]. eauto.
Qed.

Lemma spec_step pss fs a :
  In a (concat (threads_of (program spec_write pss fs))) ->
  forall s evs, Inv s evs -> Inv (fst (a s)) (evs ++ snd (a s)).
Proof.
  intros Ha s evs HI.
  unfold threads_of in Ha. rewrite concat_map_map in Ha. apply in_map_iff in Ha.
  destruct Ha as [l [<- Hl]].
  destruct (in_spec_program _ _ _ Hl) as [[t [p ->]]|[ph ->]]; cbn [sem].
  - now apply spec_write_preserves.
  - now apply set_preserves.
Qed.

Theorem spec_invariant pss fs sched :
  let r := run (threads_of (program spec_write pss fs)) sched init in
  Inv (final_state r) (events r).
Proof.
  cbv zeta. unfold final_state, events.
  exact (trace_inv_all_schedules Inv (threads_of (program spec_write pss fs))
           (spec_step pss fs) sched init [] Inv_init).
Qed.

(* ---------- the statements of Properties/C14.v ---------- *)

Theorem fifo_no_loss_no_dup pss fs sched :
  let r := run (threads_of (program spec_write pss fs)) sched init in
  let s := final_state r in
  let evs := events r in
  s_closed s = false ->
  po (acc evs) = po (wire evs) ++ live s
  /\ cv (acc evs) = cv (wire evs)
  /\ (s_phase s = Play -> live s = [])
  /\ wire_wellformed evs = true.
Proof.
  cbv zeta. intros Hc.
  destruct (spec_invariant pss fs sched) as (Hwf & Hww & Hcv & (rest & Hpo & Hrest) & _).
  rewrite (Hrest Hc) in Hpo. repeat split; auto.
  intros Hph. unfold wf in Hwf. unfold live.
  destruct (s_cur _) as [i|]; [|reflexivity]. destruct Hwf as [_ Hcfg]. congruence.
Qed.

(* also when the connection got closed: the wire never shows anything out of order or invented *)
Theorem wire_is_prefix_always pss fs sched :
  let r := run (threads_of (program spec_write pss fs)) sched init in
  let evs := events r in
  (exists rest, po (acc evs) = po (wire evs) ++ rest) /\ cv (acc evs) = cv (wire evs).
Proof.
  cbv zeta.
  destruct (spec_invariant pss fs sched) as (_ & _ & Hcv & (rest & Hpo & _) & _).
  split; [exists rest|]; assumption.
Qed.

Theorem overflow_closes pss fs sched :
  let r := run (threads_of (program spec_write pss fs)) sched init in
  let s := final_state r in
  let evs := events r in
  length (live s) <= 1024
  /\ (forall t p, In (ERes t p RErrQueueFull) evs -> s_closed s = true)
  /\ (s_closed s = false -> forall t p, In (ERes t p ROk) evs -> In p (wire evs) \/ In p (live s)).
Proof.
  cbv zeta.
  destruct (spec_invariant pss fs sched) as (_ & _ & Hcv & (rest & Hpo & Hrest) & Hlen & Hfull & Hok).
  repeat split; auto.
  intros Hc t p Hin. specialize (Hok _ _ Hin). rewrite (Hrest Hc) in Hpo.
  destruct (is_po p) eqn:Hp.
  - assert (H : In p (po (acc (events (run (threads_of (program spec_write pss fs)) sched init)))))
      by (unfold po; apply filter_In; split; assumption).
    rewrite Hpo in H. apply in_app_or in H. destruct H as [H|H]; [left|now right].
    unfold po in H. apply filter_In in H. tauto.
  - assert (H : In p (cv (acc (events (run (threads_of (program spec_write pss fs)) sched init))))).
    { unfold cv. apply filter_In. split; [assumption|]. now rewrite is_cv_po, Hp. }
    rewrite Hcv in H. unfold cv in H. apply filter_In in H. left. tauto.
Qed.

(* the bound is exactly 1024: one step of the property's write on a live queue *)
Lemma bound_exact t p s i :
  s_closed s = false -> is_po p = true -> s_cur s = Some i -> i < length (s_heap s) ->
  (length (live s) < 1024 ->
     snd (a_spec_write t p s) = [EAcc p; ERes t p ROk]
     /\ live (fst (a_spec_write t p s)) = live s ++ [p]
     /\ s_closed (fst (a_spec_write t p s)) = false)
  /\ (1024 <= length (live s) ->
     snd (a_spec_write t p s) = [EClose; ERes t p RErrQueueFull]
     /\ s_closed (fst (a_spec_write t p s)) = true).
Proof.
  intros Hc Hp Hcur Hi.
  assert (Hlive : live s = queue_at i s) by (unfold live; now rewrite Hcur).
  unfold a_spec_write, do_queue_or_encode. rewrite Hc, Hcur, is_cv_po, Hp. simpl negb. cbv iota.
  rewrite <- Hlive. split; intros Hlen.
  - assert (Hleb : Nat.leb cap (length (live s)) = false) by (apply Nat.leb_gt; exact Hlen).
    rewrite Hleb. simpl. repeat split; auto.
    unfold live, set_heap, queue_at. simpl. rewrite Hcur, nth_upd_same by assumption.
    unfold live, queue_at in Hlive. rewrite Hcur in Hlive. reflexivity.
  - assert (Hleb : Nat.leb cap (length (live s)) = true) by (apply Nat.leb_le; exact Hlen).
    rewrite Hleb. simpl. split; reflexivity.
Qed.

(* ---------- Part B: the PRE-FIX two-step write (finding C14-1, fixed by 4cea635) ---------- *)

Definition witness_pkt : pkt := mkPkt TTimes 7.
Definition witness_pss : list (list pkt) := [[witness_pkt]].
Definition witness_fs : list (list phase) := [[Config; Play]].
(* flipper: enter CONFIG ; writer: read pointer ; flipper: release ; writer: push on the released queue *)
Definition witness_sched : list nat := [1; 0; 1; 0].

Theorem fifo_refuted_for_old_write :
  exists pss fs sched,
    let r := run (threads_of (program old_write pss fs)) sched init in
    let s := final_state r in
    let evs := events r in
    complete (remaining r) = true /\ s_closed s = false /\ s_phase s = Play
    /\ In (ERes 0 witness_pkt ROk) evs
    /\ wire evs = [] /\ live s = []
    /\ po (acc evs) <> po (wire evs) ++ live s.
Proof.
  exists witness_pss, witness_fs, witness_sched.
  cbv zeta. repeat split; try (vm_compute; reflexivity).
  - vm_compute. auto.
  - vm_compute. discriminate.
Qed.

(* the second window: pointer read in PLAY, encode after CONFIG was entered: the encoder refuses the
   packet and the connection is closed *)
Theorem old_write_closes_without_overflow :
  exists pss fs sched,
    let r := run (threads_of (program old_write pss fs)) sched init in
    complete (remaining r) = true
    /\ s_closed (final_state r) = true
    /\ events r = [EClose; ERes 0 witness_pkt RErrEncode].
Proof.
  exists witness_pss, [[Config]], [0; 1; 0]. vm_compute. repeat split; reflexivity.
Qed.

(* exhaustively, on a small program: two writers (one packet each, play-only and config-valid) and a
   goroutine entering and leaving CONFIG: the property's write passes every interleaving, today's fails *)
Definition small_pss : list (list pkt) := [[mkPkt TTimes 1; mkPkt TKeepAlive 2]; [mkPkt TBoss 3]].
Definition small_fs : list (list phase) := [[Config; Play]].

Example small_spec_all_schedules :
  check_all_schedules (threads_of (program spec_write small_pss small_fs)) init trace_ok = true
  /\ length (all_schedules (threads_of (program spec_write small_pss small_fs))) = 30.
Proof. vm_compute. split; reflexivity. Qed.

Example small_old_some_schedule_fails :
  check_all_schedules (threads_of (program old_write small_pss small_fs)) init trace_ok = false
  /\ length (all_schedules (threads_of (program old_write small_pss small_fs))) = 420.
Proof. vm_compute. split; reflexivity. Qed.

(* 1024 play-only packets fit into the queue, the 1025th write closes the connection *)
Definition burst (n : nat) : list op :=
  OSet Config :: map (fun i => OWrite (mkPkt TTimes (N.of_nat i))) (seq 0 n).

Example overflow_at_1025 :
  let rs := seq_run spec_write (burst 1025) init in
  forallb (fun x => negb (snd x)) (firstn 1025 rs) = true        (* CONFIG + 1024 writes: still open *)
  /\ map (fun x => result_of (fst x)) (skipn 1024 rs) = [ROk; RErrQueueFull]
  /\ map snd (skipn 1024 rs) = [false; true].
Proof. vm_compute. repeat split; reflexivity. Qed.

(* ---------- Part C: sequential histories ---------- *)

(* the connection without the goroutine-local registers *)
Definition obs_eq (a b : st) : Prop :=
  s_phase a = s_phase b /\ s_cur a = s_cur b /\ s_heap a = s_heap b /\ s_closed a = s_closed b.

Lemma obs_eq_refl a : obs_eq a a.
Proof. unfold obs_eq. tauto. Qed.

Lemma nth_upd_any {A} (d : A) i x l : nth i (upd d i x l) d = x.
Proof.
  revert l. induction i as [|i IH]; intros [|y l]; simpl; try reflexivity; apply IH.
Qed.

Lemma do_encode_obs t p a b :
  obs_eq a b ->
  snd (do_encode t p a) = snd (do_encode t p b) /\ obs_eq (fst (do_encode t p a)) (fst (do_encode t p b)).
Proof.
  intros (H1 & H2 & H3 & H4). unfold do_encode. rewrite H1, H4.
  destruct (s_closed b) eqn:Hb; simpl; [split; [reflexivity|unfold obs_eq; repeat split; congruence]|].
  destruct (encodable (s_phase b) p); simpl;
    (split; [reflexivity|unfold obs_eq; simpl; repeat split; congruence]).
Qed.

Lemma dqe_obs t p q a b :
  obs_eq a b ->
  snd (do_queue_or_encode t p q a) = snd (do_queue_or_encode t p q b)
  /\ obs_eq (fst (do_queue_or_encode t p q a)) (fst (do_queue_or_encode t p q b)).
Proof.
  intros H. pose proof H as (H1 & H2 & H3 & H4). unfold do_queue_or_encode.
  destruct q as [i|]; [|now apply do_encode_obs].
  destruct (is_cv p); [now apply do_encode_obs|].
  rewrite H4. destruct (s_closed b) eqn:Hb; simpl; [split; [reflexivity|assumption]|].
  unfold queue_at. rewrite H3.
  destruct (Nat.leb cap (length (nth i (s_heap b) []))); simpl;
    (split; [reflexivity|unfold obs_eq; simpl; repeat split; congruence]).
Qed.

Lemma set_reg_obs t r a : obs_eq (set_reg t r a) a.
Proof. unfold obs_eq, set_reg. simpl. tauto. Qed.

Lemma obs_eq_trans a b c : obs_eq a b -> obs_eq b c -> obs_eq a c.
Proof. unfold obs_eq. intuition congruence. Qed.
Lemma obs_eq_sym a b : obs_eq a b -> obs_eq b a.
Proof. unfold obs_eq. intuition congruence. Qed.

(* one call of the pre-fix write, run alone, is the property's write *)
Lemma write_seq t p a b :
  obs_eq a b ->
  snd (exec (old_write t p) a) = snd (exec (spec_write t p) b)
  /\ obs_eq (fst (exec (old_write t p) a)) (fst (exec (spec_write t p) b)).
Proof.
  intros H. pose proof H as (H1 & H2 & H3 & H4).
  unfold old_write, spec_write. cbn [exec sem].
  unfold a_read_ptr, a_spec_write. rewrite <- H4.
  unfold a_qoe, get_reg. cbn [s_regs set_reg]. rewrite nth_upd_any.
  destruct (s_closed a) eqn:Hc.
  - simpl. split; [reflexivity|].
    eapply obs_eq_trans; [apply set_reg_obs|]. eapply obs_eq_trans; [apply set_reg_obs|]. assumption.
  - rewrite <- H2.
    assert (Hab : obs_eq (set_reg t RIdle (set_reg t (RPtr (s_cur a)) a)) b).
    { eapply obs_eq_trans; [apply set_reg_obs|]. eapply obs_eq_trans; [apply set_reg_obs|]. assumption. }
    destruct (dqe_obs t p (s_cur a) _ _ Hab) as [He Ho].
    destruct (do_queue_or_encode t p (s_cur a) (set_reg t RIdle (set_reg t (RPtr (s_cur a)) a))) as [a' e1].
    destruct (do_queue_or_encode t p (s_cur a) b) as [b' e2].
    simpl in *. rewrite !app_nil_r. split; assumption.
Qed.

Lemma set_seq ph a b :
  obs_eq a b -> snd (a_set ph a) = snd (a_set ph b) /\ obs_eq (fst (a_set ph a)) (fst (a_set ph b)).
Proof.
  intros (H1 & H2 & H3 & H4). unfold a_set, queue_at. rewrite H2, H3, H4.
  destruct ph; destruct (s_cur b); try destruct (s_closed b) eqn:Hb; simpl;
    (split; [reflexivity|unfold obs_eq; simpl; repeat split; congruence]).
Qed.

Theorem seq_old_eq_spec ops : forall a b, obs_eq a b ->
  seq_run old_write ops a = seq_run spec_write ops b.
Proof.
  induction ops as [|o ops IH]; intros a b H; [reflexivity|].
  cbn [seq_run].
  assert (Hstep : snd (exec (op_labels old_write o) a) = snd (exec (op_labels spec_write o) b)
                  /\ obs_eq (fst (exec (op_labels old_write o) a)) (fst (exec (op_labels spec_write o) b))).
  { destruct o as [p|ph]; cbn [op_labels].
    - now apply write_seq.
    - cbn [exec]. destruct (set_seq ph a b H) as [He Ho].
      destruct (sem (LSet ph) a) as [a' e1] eqn:Ea. destruct (sem (LSet ph) b) as [b' e2] eqn:Eb.
      cbn [sem] in Ea, Eb. rewrite Ea, Eb in *. simpl in *. rewrite !app_nil_r. split; assumption. }
  destruct (exec (op_labels old_write o) a) as [a' e1].
  destruct (exec (op_labels spec_write o) b) as [b' e2].
  simpl in Hstep. destruct Hstep as [-> Ho].
  rewrite (IH a' b' Ho). destruct Ho as (_ & _ & _ & ->). reflexivity.
Qed.
