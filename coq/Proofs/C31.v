(* C31 — Lite forwards the connection unchanged apart from configured rewrites.
   Lemmas and proofs about Model/LiteForward.v; the property theorems are restated in Properties/C31.v. *)
From Coq Require Import List Arith NArith ZArith Lia Bool.
From Coq Require Import ZifyN ZifyNat ZifyBool.
From Verif Require Import Base.Hex Base.VarInt Model.LiteForward.
Import ListNotations.
Open Scope N_scope.
Ltac Zify.zify_post_hook ::= Z.div_mod_to_equations.

(* ---------- VarInt facts on top of Base/VarInt.v ---------- *)

Lemma dec_varint_enc u rest : u < 2^32 -> dec_varint (enc u ++ rest) = Some (u, rest).
Proof. intro H. unfold dec_varint. rewrite varint_roundtrip by exact H. reflexivity. Qed.

Lemma lor_lt_pow2 a b n : a < 2^n -> b < 2^n -> N.lor a b < 2^n.
Proof.
  intros Ha Hb.
  destruct (N.eq_dec a 0) as [->|Ha0]; [rewrite N.lor_0_l; exact Hb|].
  destruct (N.eq_dec b 0) as [->|Hb0]; [rewrite N.lor_0_r; exact Ha|].
  assert (Hl : N.lor a b <> 0).
  { intro E. apply N.lor_eq_0_iff in E. tauto. }
  apply N.log2_lt_pow2; [lia|].
  rewrite N.log2_lor.
  apply N.max_lub_lt; apply N.log2_lt_pow2; lia.
Qed.

Lemma dec_fuel_lt f : forall i acc bs u n r,
  acc < 2^32 -> dec_fuel f i acc bs = Ok (u, n, r) -> u < 2^32.
Proof.
  induction f as [|f IH]; intros i acc bs u n r Hacc H; [discriminate|].
  cbn [dec_fuel] in H. destruct bs as [|b bs]; [discriminate|].
  assert (Hnew : N.lor acc (N.shiftl (N.land b 127) (7 * i) mod 2 ^ 32) < 2^32).
  { apply lor_lt_pow2; [exact Hacc|]. apply N.mod_lt. discriminate. }
  destruct (5 <=? i); [discriminate|].
  destruct (N.land b 128 =? 0).
  - inversion H; subst. exact Hnew.
  - eapply IH; [exact Hnew|exact H].
Qed.

Lemma dec_varint_lt b u r : dec_varint b = Some (u, r) -> u < 2^32.
Proof.
  unfold dec_varint, dec. destruct (dec_fuel 6 0 0 b) as [[[u' n] r']|e] eqn:E; [|discriminate].
  intro H. inversion H; subst. eapply dec_fuel_lt; [|exact E]. reflexivity.
Qed.

(* ---------- take / frames ---------- *)

Lemma take_app p rest : take (length p) (p ++ rest) = Some (p, rest).
Proof.
  unfold take. rewrite app_length.
  replace (length p <=? length p + length rest)%nat with true by (symmetry; apply Nat.leb_le; lia).
  rewrite firstn_app, Nat.sub_diag, firstn_all, app_nil_r.
  rewrite skipn_app, Nat.sub_diag, skipn_all. reflexivity.
Qed.

Lemma len_to_nat p : N.to_nat (len p) = length p.
Proof. unfold len. apply Nat2N.id. Qed.

Definition frame_ok (p : bytes) : Prop := 0 < len p <= max_frame.

Lemma read_frame_frame p rest : frame_ok p -> read_frame (frame p ++ rest) = FPayload p rest.
Proof.
  intros [H0 H1]. unfold read_frame, frame. rewrite <- app_assoc.
  rewrite dec_varint_enc by (unfold max_frame in H1; lia).
  replace (len p =? 0) with false by (symmetry; apply N.eqb_neq; lia).
  replace (max_frame <? len p) with false by (symmetry; apply N.ltb_ge; lia).
  rewrite len_to_nat, take_app. reflexivity.
Qed.

Lemma next_packet_frame k p rest : frame_ok p -> next_packet k (frame p ++ rest) = Some (p, rest).
Proof. intro H. destruct k; cbn [next_packet]; rewrite read_frame_frame by exact H; reflexivity. Qed.

(* an empty frame (length prefix 0, minimal encoding) in front is skipped while retries remain *)
Lemma next_packet_skip_empty k b : next_packet (S k) (0 :: b) = next_packet k b.
Proof. reflexivity. Qed.

(* ---------- handshake codec ---------- *)

Definition wf_hs (h : handshake) : Prop :=
  hs_proto h < 2^32 /\ len (hs_addr h) <= max_string /\ hs_port h < 65536 /\ hs_next h < 2^32.

Lemma dec_enc_handshake h extra : wf_hs h ->
  dec_handshake_payload (enc_handshake_payload h ++ extra) = Some (h, extra).
Proof.
  intros (Hp & Ha & Hport & Hn). unfold dec_handshake_payload, enc_handshake_payload, enc_string.
  repeat rewrite <- app_assoc.
  rewrite dec_varint_enc by reflexivity. cbn [N.eqb].
  rewrite dec_varint_enc by exact Hp.
  rewrite dec_varint_enc by (unfold max_string in Ha; lia).
  replace (len (hs_addr h) <=? max_string) with true by (symmetry; apply N.leb_le; exact Ha).
  rewrite len_to_nat, take_app.
  unfold u16be. cbn [app].
  rewrite dec_varint_enc by exact Hn.
  replace (hs_port h / 256 * 256 + hs_port h mod 256) with (hs_port h) by lia.
  destruct h; reflexivity.
Qed.

Lemma take_some n b a r : take n b = Some (a, r) -> b = a ++ r /\ length a = n.
Proof.
  unfold take. destruct (n <=? length b)%nat eqn:E; [|discriminate].
  intro H. inversion H; subst. split; [symmetry; apply firstn_skipn|].
  apply firstn_length_le. apply Nat.leb_le. exact E.
Qed.

Lemma wf_bytes_app a b : wf_bytes (a ++ b) <-> wf_bytes a /\ wf_bytes b.
Proof. unfold wf_bytes. apply Forall_app. Qed.

Lemma dec_fuel_suffix f : forall i acc bs u n r,
  dec_fuel f i acc bs = Ok (u, n, r) -> exists pre, bs = pre ++ r.
Proof.
  induction f as [|f IH]; intros i acc bs u n r H; [discriminate|].
  cbn [dec_fuel] in H. destruct bs as [|b bs]; [discriminate|].
  destruct (5 <=? i); [discriminate|].
  destruct (N.land b 128 =? 0).
  - inversion H; subst. exists [b]. reflexivity.
  - apply IH in H. destruct H as [pre ->]. exists (b :: pre). reflexivity.
Qed.

Lemma dec_varint_suffix b u r : dec_varint b = Some (u, r) -> exists pre, b = pre ++ r.
Proof.
  unfold dec_varint, dec. destruct (dec_fuel 6 0 0 b) as [[[u' n] r']|e] eqn:E; [|discriminate].
  intro H. inversion H; subst. eapply dec_fuel_suffix. exact E.
Qed.

Lemma dec_varint_wf b u r : wf_bytes b -> dec_varint b = Some (u, r) -> wf_bytes r.
Proof.
  intros Hw H. apply dec_varint_suffix in H. destruct H as [pre ->].
  apply wf_bytes_app in Hw. tauto.
Qed.

(* whatever the decoder accepts is a well-formed handshake (so it can be re-encoded) *)
Lemma dec_handshake_wf p h extra : wf_bytes p ->
  dec_handshake_payload p = Some (h, extra) -> wf_hs h.
Proof.
  intros Hw. unfold dec_handshake_payload.
  destruct (dec_varint p) as [[id r0]|] eqn:E0; [|discriminate].
  destruct (id =? 0); [|discriminate].
  destruct (dec_varint r0) as [[pv r1]|] eqn:E1; [|discriminate].
  destruct (dec_varint r1) as [[sl r2]|] eqn:E2; [|discriminate].
  destruct (sl <=? max_string) eqn:Esl; [|discriminate].
  destruct (take (N.to_nat sl) r2) as [[a r3]|] eqn:E3; [|discriminate].
  destruct r3 as [|p1 [|p2 r4]]; try discriminate.
  destruct (dec_varint r4) as [[nx ex]|] eqn:E4; [|discriminate].
  intro H. inversion H; subst. clear H.
  pose proof (dec_varint_wf _ _ _ Hw E0) as W0.
  pose proof (dec_varint_wf _ _ _ W0 E1) as W1.
  pose proof (dec_varint_wf _ _ _ W1 E2) as W2.
  apply take_some in E3. destruct E3 as [-> Hlen].
  apply wf_bytes_app in W2. destruct W2 as [_ W3].
  inversion W3 as [|? ? Hp1 W4]; subst. inversion W4 as [|? ? Hp2 _]; subst.
  unfold wf_hs; cbn [hs_proto hs_addr hs_port hs_next].
  split; [eapply dec_varint_lt; exact E1|].
  split; [unfold len; apply N.leb_le in Esl; lia|].
  split; [lia|]. eapply dec_varint_lt; exact E4.
Qed.
(* ---------- failover: failed attempts leave the handshake alone ---------- *)

Lemma try_backends_id failed p h : try_backends failed p h = (p, h).
Proof. unfold try_backends. induction failed as [|x l IH]; [reflexivity|exact IH]. Qed.

(* The stream delivered after k failed attempts equals the stream of a direct connection to the
   serving backend: every rewrite is applied once, to the client's ORIGINAL handshake, with the serving
   backend's host. *)
Theorem failover_rewrites_once mvh r ca now p h rest :
  failover_stream mvh r ca now p h rest = lite_backend_stream mvh r ca now p h rest.
Proof. unfold failover_stream. rewrite try_backends_id. reflexivity. Qed.

Theorem failover_status_rewrites_once mvh r ca now p h q :
  failover_status_stream mvh r ca now p h q =
  proxy_prefix r ca ++ handshake_frame mvh r ca now (r_cache r) p h ++ frame q.
Proof. unfold failover_status_stream. rewrite try_backends_id. reflexivity. Qed.

(* ---------- classify on a well-formed client stream ---------- *)

Definition is_forward_state (n : N) : bool := (n =? 2) || (n =? 3).

Lemma classify_forward p h extra rest :
  frame_ok p -> dec_handshake_payload p = Some (h, extra) -> is_forward_state (hs_next h) = true ->
  classify (frame p ++ rest) = ReqForward p h rest.
Proof.
  intros Hf Hd Hs. unfold classify. rewrite next_packet_frame by exact Hf.
  rewrite Hd. unfold is_forward_state in Hs. rewrite Hs. reflexivity.
Qed.

(* ---------- C31_identity_when_no_rewrite ---------- *)

Lemma handshake_frame_no_rewrite mvh r ca now p h :
  rewrite_flag mvh r (hs_addr h) = false ->
  handshake_frame mvh r ca now false p h = frame p.
Proof.
  unfold rewrite_flag, handshake_frame, rewrite_address.
  destruct (r_mvh r && mvh_applies (r_backend_host r) (hs_addr h)).
  - destruct (r_realip r && is_tcpshield (mvh (r_backend_host r) (hs_addr h))); cbn [snd]; discriminate.
  - destruct (r_realip r && is_tcpshield (hs_addr h)); cbn [snd]; [discriminate|]. reflexivity.
Qed.

Theorem identity_when_no_rewrite mvh r ca now p h extra rest :
  frame_ok p -> dec_handshake_payload p = Some (h, extra) -> is_forward_state (hs_next h) = true ->
  rewrite_flag mvh r (hs_addr h) = false ->
  lite_flow mvh r ca now (frame p ++ rest) = FlowForward (proxy_prefix r ca ++ frame p ++ rest).
Proof.
  intros Hf Hd Hs Hr. unfold lite_flow. rewrite (classify_forward p h extra rest Hf Hd Hs).
  rewrite failover_rewrites_once. unfold lite_backend_stream. rewrite handshake_frame_no_rewrite by exact Hr. reflexivity.
Qed.

(* without route options nothing is rewritten, whatever the address *)
Lemma no_options_no_rewrite mvh r addr :
  r_mvh r = false -> r_realip r = false -> rewrite_flag mvh r addr = false.
Proof. intros H1 H2. unfold rewrite_flag, rewrite_address. rewrite H1, H2. reflexivity. Qed.

Lemma no_proxy_no_prefix r ca : r_proxy r = false -> proxy_prefix r ca = [].
Proof. intro H. unfold proxy_prefix. rewrite H. reflexivity. Qed.

(* ---------- C31_rewrite_only_address ---------- *)

Definition new_address (mvh : bytes -> bytes -> bytes) r ca now addr : bytes :=
  fst (rewrite_address mvh r ca now addr).

Lemma rewrite_flag_indep mvh r ca now addr :
  snd (rewrite_address mvh r ca now addr) = rewrite_flag mvh r addr.
Proof.
  unfold rewrite_flag, rewrite_address.
  destruct (r_mvh r && mvh_applies (r_backend_host r) addr);
    [destruct (r_realip r && is_tcpshield (mvh (r_backend_host r) addr))
    |destruct (r_realip r && is_tcpshield addr)]; reflexivity.
Qed.

Lemma handshake_frame_rewrite mvh r ca now force p h :
  rewrite_flag mvh r (hs_addr h) || force = true ->
  handshake_frame mvh r ca now force p h =
  frame (enc_handshake_payload (set_addr h (new_address mvh r ca now (hs_addr h)))).
Proof.
  intro H. unfold handshake_frame, new_address.
  rewrite <- (rewrite_flag_indep mvh r ca now) in H.
  destruct (rewrite_address mvh r ca now (hs_addr h)) as [a' ch]. cbn [fst snd] in *.
  rewrite H. reflexivity.
Qed.

Lemma enc_nonempty u : enc u <> [].
Proof. unfold enc. cbn [enc_fuel]. destruct (u <? 128); discriminate. Qed.

Lemma payload_nonempty h : 0 < len (enc_handshake_payload h).
Proof.
  unfold enc_handshake_payload, len. change (enc 0) with [0]. cbn [app length]. lia.
Qed.

(* The backend can read back the forwarded handshake: one frame whose payload decodes to the client's
   handshake with ONLY the address replaced (no left-over bytes), followed by the client's bytes. *)
Theorem rewrite_only_address mvh r ca now p h extra rest :
  wf_bytes p -> frame_ok p -> dec_handshake_payload p = Some (h, extra) -> is_forward_state (hs_next h) = true ->
  rewrite_flag mvh r (hs_addr h) = true ->
  let a' := new_address mvh r ca now (hs_addr h) in
  let p' := enc_handshake_payload (set_addr h a') in
  len a' <= max_string -> len p' <= max_frame ->
  lite_flow mvh r ca now (frame p ++ rest) = FlowForward (proxy_prefix r ca ++ frame p' ++ rest) /\
  read_frame (frame p' ++ rest) = FPayload p' rest /\
  dec_handshake_payload p' = Some (mkHs (hs_proto h) a' (hs_port h) (hs_next h), []).
Proof.
  intros Hw Hf Hd Hs Hr a' p' Ha Hp.
  pose proof (dec_handshake_wf p h extra Hw Hd) as (W1 & W2 & W3 & W4).
  split; [|split].
  - unfold lite_flow. rewrite (classify_forward p h extra rest Hf Hd Hs).
    rewrite failover_rewrites_once. unfold lite_backend_stream. rewrite handshake_frame_rewrite by (rewrite Hr; reflexivity).
    reflexivity.
  - apply read_frame_frame. split; [apply payload_nonempty|exact Hp].
  - rewrite <- (app_nil_r p'). unfold p'. rewrite dec_enc_handshake; [reflexivity|].
    unfold wf_hs, set_addr; cbn [hs_proto hs_addr hs_port hs_next]. tauto.
Qed.

(* the new address is what modifyVirtualHost / TCPShield dictate *)
Lemma new_address_cases mvh r ca now addr :
  new_address mvh r ca now addr =
  let a1 := if r_mvh r && mvh_applies (r_backend_host r) addr then mvh (r_backend_host r) addr else addr in
  if r_realip r && is_tcpshield a1
  then tcpshield_apply a1 (addr_text (ep_ip ca) (ep_port ca)) now else a1.
Proof.
  unfold new_address, rewrite_address.
  destruct (r_mvh r && mvh_applies (r_backend_host r) addr); cbn zeta;
  match goal with |- context [if ?c then _ else _] => destruct c end; reflexivity.
Qed.

(* ---------- status pings ---------- *)

Theorem status_flow mvh r ca now p h extra q rest0 rest :
  frame_ok p -> frame_ok q -> dec_handshake_payload p = Some (h, extra) -> hs_next h = 1 -> is_status_request q = true ->
  rest0 = frame q ++ rest ->
  lite_flow mvh r ca now (frame p ++ rest0) =
  FlowStatus (proxy_prefix r ca ++ handshake_frame mvh r ca now (r_cache r) p h ++ frame q).
Proof.
  intros Hf Hq Hd Hn Hs ->. unfold lite_flow, classify.
  rewrite next_packet_frame by exact Hf. rewrite Hd, Hn. cbn [N.eqb orb Pos.eqb].
  rewrite next_packet_frame by exact Hq. rewrite Hs. rewrite failover_status_rewrites_once. reflexivity.
Qed.
(* ---------- C31_pipe_identity: bufio buffer + pipe ---------- *)

Lemma consume_spec : forall chunks n buf buf' cs',
  consume n buf chunks = Some (buf', cs') ->
  skipn n (buf ++ concat chunks) = buf' ++ concat cs' /\ (n <= length (buf ++ concat chunks))%nat.
Proof.
  induction chunks as [|c cs IH]; intros n buf buf' cs' H; cbn [consume] in H.
  - destruct (n <=? length buf)%nat eqn:E; [|discriminate]. inversion H; subst.
    cbn [concat]. rewrite !app_nil_r. apply Nat.leb_le in E. split; [reflexivity|exact E].
  - destruct (n <=? length buf)%nat eqn:E.
    + inversion H; subst. apply Nat.leb_le in E. split.
      * rewrite skipn_app. replace (n - length buf)%nat with 0%nat by lia. reflexivity.
      * rewrite app_length. lia.
    + apply Nat.leb_gt in E. apply IH in H. destruct H as [H1 H2]. cbn [concat]. split.
      * rewrite skipn_app. rewrite skipn_all2 by lia. exact H1.
      * rewrite app_length. lia.
Qed.

Lemma consume_total : forall chunks n buf,
  (n <= length (buf ++ concat chunks))%nat -> exists buf' cs', consume n buf chunks = Some (buf', cs').
Proof.
  induction chunks as [|c cs IH]; intros n buf H; cbn [consume].
  - cbn [concat] in H. rewrite app_nil_r in H.
    replace (n <=? length buf)%nat with true by (symmetry; apply Nat.leb_le; exact H). eauto.
  - destruct (n <=? length buf)%nat eqn:E; [eauto|].
    apply Nat.leb_gt in E. apply IH. cbn [concat] in H. rewrite !app_length in *. lia.
Qed.

(* However the network cuts the client stream into reads: what emptyReadBuff writes plus what the pipe
   copies afterwards is exactly the client stream behind the handshake frame. *)
Theorem pipe_identity chunks fr rest :
  concat chunks = fr ++ rest ->
  exists buf cs', consume (length fr) [] chunks = Some (buf, cs') /\ forwarded_tail buf cs' = rest.
Proof.
  intro H.
  destruct (consume_total chunks (length fr) []) as (buf & cs' & E).
  { cbn [app]. rewrite H, app_length. lia. }
  exists buf, cs'. split; [exact E|].
  apply consume_spec in E. destruct E as [E _]. cbn [app] in E. rewrite H in E.
  rewrite skipn_app, Nat.sub_diag, skipn_all in E. cbn [app skipn] in E.
  unfold forwarded_tail. symmetry. exact E.
Qed.

(* dropping emptyReadBuff loses exactly the buffered bytes *)
Lemma without_empty_read_buff chunks fr rest buf cs' :
  concat chunks = fr ++ rest -> consume (length fr) [] chunks = Some (buf, cs') ->
  rest = buf ++ piped_back cs'.
Proof.
  intros H E. destruct (pipe_identity chunks fr rest H) as (b & c & E' & F).
  rewrite E in E'. inversion E'; subst. reflexivity.
Qed.

Theorem pipe_back_identity chunks s : concat chunks = s -> piped_back chunks = s.
Proof. intro H. exact H. Qed.

(* ---------- PROXY v2 header: the reference parser reads back the client address ---------- *)

Lemma prefixb_app p s : prefixb p (p ++ s) = true.
Proof. induction p as [|x p IH]; cbn [prefixb app]; [reflexivity|]. rewrite N.eqb_refl, IH. reflexivity. Qed.

Lemma u16_roundtrip n : n < 65536 -> n / 256 * 256 + n mod 256 = n.
Proof. lia. Qed.

Lemma to4_length ip v : to4 ip = Some v -> length v = 4%nat.
Proof.
  unfold to4. destruct (Nat.eqb (length ip) 4) eqn:E4.
  - intro H; inversion H; subst. apply Nat.eqb_eq. exact E4.
  - destruct (Nat.eqb (length ip) 16 && beq_bytes (firstn 12 ip) v4_prefix) eqn:E; [|discriminate].
    intro H; injection H as <-. apply andb_true_iff in E. destruct E as [E _].
    apply Nat.eqb_eq in E. change (length (skipn 12 ip) = 4%nat). rewrite skipn_length. lia.
Qed.

Lemma to16_length ip v : to16 ip = Some v -> length v = 16%nat.
Proof.
  unfold to16. destruct (Nat.eqb (length ip) 4) eqn:E4.
  - intro H; injection H as <-. apply Nat.eqb_eq in E4.
    change (length (v4_prefix ++ ip) = 16%nat). rewrite app_length, E4. reflexivity.
  - destruct (Nat.eqb (length ip) 16) eqn:E; [|discriminate].
    intro H; injection H as <-. apply Nat.eqb_eq. exact E.
Qed.

Lemma firstn_app_exact {A} (a b : list A) n : length a = n -> firstn n (a ++ b) = a.
Proof. intros <-. rewrite firstn_app, Nat.sub_diag, firstn_all. cbn. apply app_nil_r. Qed.
Lemma skipn_app_exact {A} (a b : list A) n : length a = n -> skipn n (a ++ b) = b.
Proof. intros <-. rewrite skipn_app, Nat.sub_diag, skipn_all. reflexivity. Qed.

Lemma to16_of_to4 ip v : to4 ip = Some v -> to16 ip = Some (v4_prefix ++ v).
Proof.
  unfold to4, to16. destruct (Nat.eqb (length ip) 4) eqn:E4.
  - intro H; inversion H; subst. reflexivity.
  - destruct (Nat.eqb (length ip) 16) eqn:E16; cbn [andb]; [|discriminate].
    destruct (beq_bytes (firstn 12 ip) v4_prefix) eqn:E; [|discriminate].
    intro H; injection H as <-. apply beq_bytes_eq in E.
    change (Some ip = Some (v4_prefix ++ skipn 12 ip)). rewrite <- E, firstn_skipn. reflexivity.
Qed.

Lemma same_ip_refl16 x y : to16 x = Some y -> forall z, to16 z = Some y -> same_ip z x = true.
Proof. intros Hx z Hz. unfold same_ip. rewrite Hx, Hz. apply beq_bytes_eq. reflexivity. Qed.

Lemma some_inj {A} (a b : A) : Some a = Some b -> a = b.
Proof. congruence. Qed.

(* The header the proxy writes, parsed by the reference parser, yields the client's address and port
   (IPv4 possibly in its v4-mapped form) and leaves exactly the bytes behind the header. *)
Lemma parse_v4 s4 d4 sport dport rest : length s4 = 4%nat -> length d4 = 4%nat ->
  sport < 65536 -> dport < 65536 ->
  parse_proxy_v2 ((sig_v2 ++ [33; 17; 0; 12] ++ s4 ++ d4 ++ u16be sport ++ u16be dport) ++ rest)
  = Some (mkEp s4 sport, mkEp d4 dport, rest).
Proof.
  intros Ls Ld Hs Hd. unfold u16be.
  generalize (u16_roundtrip sport Hs) (u16_roundtrip dport Hd).
  generalize (sport / 256) (sport mod 256) (dport / 256) (dport mod 256).
  intros sh sl dh dl E1 E2. clear Hs Hd. subst sport dport.
  destruct s4 as [|a [|b [|c [|d [|]]]]]; try discriminate.
  destruct d4 as [|a' [|b' [|c' [|d' [|]]]]]; try discriminate.
  reflexivity.
Qed.

Lemma parse_v6 s d sport dport rest : length s = 16%nat -> length d = 16%nat ->
  sport < 65536 -> dport < 65536 ->
  parse_proxy_v2 ((sig_v2 ++ [33; 33; 0; 36] ++ s ++ d ++ u16be sport ++ u16be dport) ++ rest)
  = Some (mkEp s sport, mkEp d dport, rest).
Proof.
  intros Ls Ld Hs Hd. unfold u16be.
  generalize (u16_roundtrip sport Hs) (u16_roundtrip dport Hd).
  generalize (sport / 256) (sport mod 256) (dport / 256) (dport mod 256).
  intros sh sl dh dl E1 E2. clear Hs Hd. subst sport dport.
  do 17 (destruct s as [|? s]; try discriminate).
  do 17 (destruct d as [|? d]; try discriminate).
  reflexivity.
Qed.

(* The header the proxy writes, parsed by the reference parser, yields the client's address and port
   (IPv4 possibly in its v4-mapped form) and leaves exactly the bytes behind the header. *)
Theorem proxy_header_roundtrip sip sport dip dport hdr rest :
  sport < 65536 -> dport < 65536 ->
  proxy_header sip sport dip dport = Some hdr ->
  exists src dst, parse_proxy_v2 (hdr ++ rest) = Some (src, dst, rest) /\
    same_ip (ep_ip src) sip = true /\ ep_port src = sport /\
    same_ip (ep_ip dst) dip = true /\ ep_port dst = dport.
Proof.
  intros Hs Hd. unfold proxy_header.
  destruct (to4 sip) as [s4|] eqn:Es4; [destruct (to4 dip) as [d4|] eqn:Ed4|].
  - pose proof (to4_length _ _ Es4) as Ls. pose proof (to4_length _ _ Ed4) as Ld.
    pose proof (to16_of_to4 _ _ Es4) as Es16. pose proof (to16_of_to4 _ _ Ed4) as Ed16.
    destruct (Nat.eqb (length dip) 16); intro H; apply some_inj in H; subst hdr.
    + exists (mkEp (v4_prefix ++ s4) sport), (mkEp (v4_prefix ++ d4) dport).
      split; [apply parse_v6; try assumption; rewrite app_length; [rewrite Ls|rewrite Ld]; reflexivity|].
      cbn [ep_ip ep_port]. repeat split.
      * eapply same_ip_refl16; [exact Es16|]. unfold to16. rewrite app_length, Ls. reflexivity.
      * eapply same_ip_refl16; [exact Ed16|]. unfold to16. rewrite app_length, Ld. reflexivity.
    + exists (mkEp s4 sport), (mkEp d4 dport).
      split; [apply parse_v4; assumption|].
      cbn [ep_ip ep_port]. repeat split.
      * eapply same_ip_refl16; [exact Es16|]. unfold to16. rewrite Ls. reflexivity.
      * eapply same_ip_refl16; [exact Ed16|]. unfold to16. rewrite Ld. reflexivity.
  - destruct (to16 sip) as [s|] eqn:Es; [|discriminate].
    destruct (to16 dip) as [d|] eqn:Ed; [|discriminate].
    pose proof (to16_length _ _ Es) as Ls. pose proof (to16_length _ _ Ed) as Ld.
    intro H; apply some_inj in H; subst hdr.
    exists (mkEp s sport), (mkEp d dport).
    split; [apply parse_v6; assumption|].
    cbn [ep_ip ep_port]. repeat split.
    + eapply same_ip_refl16; [exact Es|]. unfold to16. rewrite Ls. reflexivity.
    + eapply same_ip_refl16; [exact Ed|]. unfold to16. rewrite Ld. reflexivity.
  - destruct (to16 sip) as [s|] eqn:Es; [|discriminate].
    destruct (to16 dip) as [d|] eqn:Ed; [|discriminate].
    pose proof (to16_length _ _ Es) as Ls. pose proof (to16_length _ _ Ed) as Ld.
    intro H; apply some_inj in H; subst hdr.
    exists (mkEp s sport), (mkEp d dport).
    split; [apply parse_v6; assumption|].
    cbn [ep_ip ep_port]. repeat split.
    + eapply same_ip_refl16; [exact Es|]. unfold to16. rewrite Ls. reflexivity.
    + eapply same_ip_refl16; [exact Ed|]. unfold to16. rewrite Ld. reflexivity.
Qed.
(* ---------- PRE-FIX code: ReplaceAll vs. replacing the host part (finding C31-1, fixed in d2ccd45) ---------- *)

Lemma contains_cons_false old x r : contains old (x :: r) = false ->
  prefixb old (x :: r) = false /\ contains old r = false.
Proof. cbn [contains]. intro H. apply orb_false_iff in H. exact H. Qed.

Lemma replace_all_ne_absent old new : forall s,
  contains old s = false -> replace_all_ne old new 0 s = s.
Proof.
  induction s as [|x r IH]; intro H; [reflexivity|].
  apply contains_cons_false in H. destruct H as [Hp Hc].
  cbn [replace_all_ne]. rewrite Hp, IH by exact Hc. reflexivity.
Qed.

Lemma replace_all_ne_skip old new : forall s k,
  replace_all_ne old new k s = replace_all_ne old new 0 (skipn k s).
Proof.
  induction s as [|x r IH]; intros k.
  - destruct k; reflexivity.
  - destruct k as [|k]; [reflexivity|]. cbn [replace_all_ne skipn]. apply IH.
Qed.

Lemma after_none_absent old : forall s, old <> [] -> after old s = None -> contains old s = false.
Proof.
  induction s as [|x r IH]; intros Ho H.
  - cbn [contains]. destruct old; [contradiction|reflexivity].
  - cbn [after] in H. cbn [contains]. destruct (prefixb old (x :: r)); [discriminate|].
    cbn [orb]. apply IH; assumption.
Qed.

Lemma replace_first_ne_absent old new : forall s,
  contains old s = false -> replace_first_ne old new s = s.
Proof.
  induction s as [|x r IH]; intro H; [reflexivity|].
  apply contains_cons_false in H. destruct H as [Hp Hc].
  cbn [replace_first_ne]. rewrite Hp, IH by exact Hc. reflexivity.
Qed.

(* one occurrence only: ReplaceAll = Replace(…, 1) *)
Lemma replace_all_once old new : old <> [] -> forall s tail,
  after old s = Some tail -> contains old tail = false ->
  replace_all_ne old new 0 s = replace_first_ne old new s.
Proof.
  intros Ho. induction s as [|x r IH]; intros tail Ha Hc; [discriminate|].
  cbn [after] in Ha. cbn [replace_all_ne replace_first_ne].
  destruct (prefixb old (x :: r)) eqn:Ep.
  - apply some_inj in Ha. f_equal.
    rewrite replace_all_ne_skip.
    destruct old as [|o old']; [contradiction|].
    cbn [length skipn] in *. replace (S (length old') - 1)%nat with (length old') by lia. rewrite Ha.
    apply replace_all_ne_absent. exact Hc.
  - f_equal. eapply IH; eassumption.
Qed.

(* the code as it is now performs exactly the specified rewrite, on every input *)
Theorem impl_mvh_eq_spec backend addr : impl_mvh backend addr = spec_mvh backend addr.
Proof. reflexivity. Qed.

Theorem old_impl_mvh_eq_spec_off_trigger backend addr :
  mvh_applies backend addr = true -> mvh_trigger backend addr = false ->
  old_impl_mvh backend addr = spec_mvh backend addr.
Proof.
  intros Ha Ht. unfold mvh_trigger in Ht. rewrite Ha in Ht. cbn [andb] in Ht.
  unfold old_impl_mvh, spec_mvh, go_replace_all, go_replace_first.
  destruct (clear_virtual_host addr) as [|c0 c] eqn:Ec; [discriminate|].
  destruct (after (c0 :: c) addr) as [tail|] eqn:Et.
  - eapply replace_all_once; [discriminate|exact Et|exact Ht].
  - assert (Hc : contains (c0 :: c) addr = false) by (apply after_none_absent; [discriminate|exact Et]).
    rewrite replace_all_ne_absent, replace_first_ne_absent by exact Hc. reflexivity.
Qed.

(* lifted to the whole flow: off the trigger class the code and the specification coincide *)
Lemma rewrite_address_off_trigger r ca now addr :
  r_mvh r && mvh_trigger (r_backend_host r) addr = false ->
  rewrite_address old_impl_mvh r ca now addr = rewrite_address spec_mvh r ca now addr.
Proof.
  intro H. unfold rewrite_address.
  destruct (r_mvh r) eqn:Em; cbn [andb] in *; [|reflexivity].
  destruct (mvh_applies (r_backend_host r) addr) eqn:Ea; [|reflexivity].
  rewrite (old_impl_mvh_eq_spec_off_trigger _ _ Ea H). reflexivity.
Qed.

Theorem old_impl_flow_eq_spec_off_trigger r ca now p h rest :
  r_mvh r && mvh_trigger (r_backend_host r) (hs_addr h) = false ->
  lite_backend_stream old_impl_mvh r ca now p h rest = lite_backend_stream spec_mvh r ca now p h rest.
Proof.
  intro H. unfold lite_backend_stream, handshake_frame.
  rewrite (rewrite_address_off_trigger r ca now (hs_addr h) H). reflexivity.
Qed.

(* the deviation is real: three witnesses (empty cleaned host with a Forge marker; "."; a host that
   recurs behind the forge separator) *)
Definition b127 : bytes := [49;50;55;46;48;46;48;46;49].       (* "127.0.0.1" *)
Definition fml : bytes := [0;70;77;76;0].                       (* "\x00FML\x00" *)
Definition a_com : bytes := [97;46;99;111;109].                 (* "a.com" *)

Theorem old_impl_mvh_refuted :
  old_impl_mvh b127 fml <> spec_mvh b127 fml /\
  old_impl_mvh b127 [46] <> spec_mvh b127 [46] /\
  old_impl_mvh b127 (a_com ++ [0] ++ a_com ++ [0]) <> spec_mvh b127 (a_com ++ [0] ++ a_com ++ [0]).
Proof. repeat split; vm_compute; discriminate. Qed.

Example old_impl_mvh_witness_values :
  old_impl_mvh b127 fml = b127 ++ [0] ++ b127 ++ [70] ++ b127 ++ [77] ++ b127 ++ [76] ++ b127 ++ [0] ++ b127 /\
  spec_mvh b127 fml = b127 ++ fml /\
  old_impl_mvh b127 (a_com ++ [0] ++ a_com ++ [0]) = b127 ++ [0] ++ b127 ++ [0] /\
  spec_mvh b127 (a_com ++ [0] ++ a_com ++ [0]) = b127 ++ [0] ++ a_com ++ [0].
Proof. repeat split; vm_compute; reflexivity. Qed.

(* ---------- spec_mvh touches the host part only ---------- *)

Lemma trim_left_split c : forall s, exists ds, s = ds ++ trim_left c s /\ Forall (fun x => x = c) ds.
Proof.
  induction s as [|x r [ds [E F]]].
  - exists []. split; [reflexivity|constructor].
  - cbn [trim_left]. destruct (N.eqb_spec x c) as [->|Hn].
    + exists (c :: ds). split; [cbn [app]; f_equal; exact E|constructor; [reflexivity|exact F]].
    + exists []. split; [reflexivity|constructor].
Qed.

Lemma trim_left_head c s x r : trim_left c s = x :: r -> x <> c.
Proof.
  induction s as [|y s IH]; [discriminate|].
  cbn [trim_left]. destruct (N.eqb_spec y c) as [->|Hn]; [exact IH|].
  intro H. inversion H; subst. exact Hn.
Qed.

Lemma trim_right_split c s : exists ds, s = trim_right c s ++ ds.
Proof.
  unfold trim_right. destruct (trim_left_split c (rev s)) as (ds & E & _).
  exists (rev ds). rewrite <- rev_app_distr, <- E, rev_involutive. reflexivity.
Qed.

Lemma before_split sep : forall s, exists t, s = before sep s ++ t.
Proof.
  induction s as [|x r [t E]].
  - exists []. reflexivity.
  - cbn [before]. destruct (prefixb sep (x :: r)).
    + exists (x :: r). reflexivity.
    + exists t. cbn [app]. f_equal. exact E.
Qed.

Lemma replace_first_at old new : forall ds post,
  old <> [] -> (forall o old', old = o :: old' -> Forall (fun x => x <> o) ds) ->
  replace_first_ne old new (ds ++ old ++ post) = ds ++ new ++ post.
Proof.
  intros ds post Ho Hd. destruct old as [|o old']; [contradiction|].
  specialize (Hd o old' eq_refl).
  induction ds as [|d ds IH].
  - cbn [app]. change (o :: old' ++ post) with ((o :: old') ++ post).
    destruct ((o :: old') ++ post) as [|y t] eqn:E; [discriminate|].
    cbn [replace_first_ne]. rewrite <- E, prefixb_app. rewrite skipn_app_exact by reflexivity. reflexivity.
  - inversion Hd as [|? ? Hne Hrest]; subst.
    cbn [app replace_first_ne prefixb].
    replace (o =? d) with false by (symmetry; apply N.eqb_neq; congruence).
    cbn [andb]. f_equal. apply IH. exact Hrest.
Qed.

(* The specified rewrite keeps everything around the cleaned host: addr = pre ++ host ++ post where pre
   consists of dots only, and the result is pre ++ backend ++ post. *)
Theorem spec_mvh_host_part_only backend addr :
  clear_virtual_host addr <> [] ->
  exists pre post,
    addr = pre ++ clear_virtual_host addr ++ post /\
    Forall (fun x => x = dot) pre /\
    spec_mvh backend addr = pre ++ backend ++ post.
Proof.
  intro Hne. unfold spec_mvh, go_replace_first.
  set (c := clear_virtual_host addr) in *.
  destruct (before_split forge_sep addr) as [t0 E0].
  destruct (before_split shield_sep (before forge_sep addr)) as [t1 E1].
  destruct (trim_right_split dot (before shield_sep (before forge_sep addr))) as [ds2 E2].
  destruct (trim_left_split dot (trim_right dot (before shield_sep (before forge_sep addr)))) as (ds1 & E3 & F1).
  fold (trim dot (before shield_sep (before forge_sep addr))) in E3.
  change (trim dot (before shield_sep (before forge_sep addr))) with c in E3.
  assert (Ha : addr = ds1 ++ c ++ (ds2 ++ t1 ++ t0)).
  { rewrite E0 at 1. rewrite E1 at 1. rewrite E2 at 1. rewrite E3 at 1.
    repeat rewrite <- app_assoc. reflexivity. }
  exists ds1, (ds2 ++ t1 ++ t0). split; [exact Ha|]. split; [exact F1|].
  destruct c as [|c0 c'] eqn:Ec; [contradiction|].
  rewrite Ha at 1. apply replace_first_at; [discriminate|].
  intros o old' Ho. inversion Ho; subst o old'.
  assert (Hc0 : c0 <> dot).
  { eapply (trim_left_head dot (trim_right dot (before shield_sep (before forge_sep addr)))).
    fold (trim dot (before shield_sep (before forge_sep addr))).
    change (trim dot (before shield_sep (before forge_sep addr))) with c. subst c. exact Ec. }
  eapply Forall_impl; [|exact F1]. cbn beta. intros a ->. congruence.
Qed.

(* with an empty cleaned host the backend host is put in front and nothing else changes *)
Lemma spec_mvh_empty_host backend addr :
  clear_virtual_host addr = [] -> spec_mvh backend addr = backend ++ addr.
Proof. intro H. unfold spec_mvh, go_replace_first. rewrite H. reflexivity. Qed.

(* ---------- why failover_rewrites_once matters ---------- *)

(* The regression the theorem excludes: preparing (rewriting + re-encoding) the shared handshake BEFORE
   each dial, i.e. also for backends whose dial then fails. *)
Definition eager_step (mvh : bytes -> bytes -> bytes) (r : route) (ca : endpoint) (now : N)
           (st : bytes * handshake) (host : bytes) : bytes * handshake :=
  let r' := mkRoute (r_proxy r) (r_mvh r) (r_realip r) (r_cache r) host (r_backend r) [] in
  let '(p, h) := st in
  let '(a', changed) := rewrite_address mvh r' ca now (hs_addr h) in
  (if changed then enc_handshake_payload (set_addr h a') else p, set_addr h a').

Definition shield_addr : bytes :=     (* "a.b///1.2.3.4:5///9" *)
  [97;46;98;47;47;47;49;46;50;46;51;46;52;58;53;47;47;47;57].
Definition fo_hs : handshake := mkHs 763 shield_addr 25565 2.
Definition fo_route : route :=
  mkRoute false false true false b127 (mkEp [127;0;0;1] 25566) [b127].
Definition fo_client : endpoint := mkEp [10;0;0;7] 4000.

Example eager_prepare_differs :
  let p := enc_handshake_payload fo_hs in
  let '(p', h') := fold_left (eager_step spec_mvh fo_route fo_client 1700000000) (r_failed fo_route) (p, fo_hs) in
  lite_backend_stream spec_mvh fo_route fo_client 1700000000 p' h' [1;2;3] <>
  failover_stream spec_mvh fo_route fo_client 1700000000 p fo_hs [1;2;3].
Proof. vm_compute. discriminate. Qed.

(* the code's whole flow equals the specified one, on every input *)
Theorem impl_flow_eq_spec r ca now cs : impl_flow r ca now cs = spec_flow r ca now cs.
Proof. reflexivity. Qed.
