(* C32 — proofs about Model/PingCache.v.  One state invariant, preserved by every atomic step from
   any state satisfying it, lifted to all schedules of all thread sets with Base/Conc.v. *)
From Coq Require Import List NArith Bool Arith Lia.
From Verif Require Import Base.Hex Base.Conc Model.PingCache.
Import ListNotations.
Open Scope N_scope.

(* ---------- the reset that created generation g (time 0 for generation 0) ---------- *)

Definition R (rs : list N) (g : N) : N :=
  match g with 0 => 0 | _ => nth (N.to_nat g - 1) rs 0 end.

Lemma R_app rs t g : g <= N.of_nat (length rs) -> R (rs ++ [t]) g = R rs g.
Proof.
  intro H. unfold R. destruct g as [|p]; [reflexivity|].
  apply app_nth1. lia.
Qed.

Lemma R_last rs t : R (rs ++ [t]) (N.of_nat (length rs) + 1) = t.
Proof.
  unfold R. destruct (N.of_nat (length rs) + 1) eqn:E; [lia|].
  rewrite <- E. replace (N.to_nat (N.of_nat (length rs) + 1) - 1)%nat with (length rs) by lia.
  rewrite app_nth2; [|lia]. now rewrite Nat.sub_diag.
Qed.

Lemma R_lt rs g t : (forall tr, In tr rs -> tr < t) -> 1 <= t -> R rs g < t.
Proof.
  intros H Ht. unfold R. destruct g as [|p]; [lia|].
  destruct (nth_in_or_default (N.to_nat (N.pos p) - 1) rs 0) as [Hin|E]; [auto|rewrite E; lia].
Qed.

(* ---------- small facts about the list helpers ---------- *)

Lemma take_parked_spec : forall ps i p ps',
  take_parked ps i = Some (p, ps') -> In p ps /\ (forall q, In q ps' -> In q ps).
Proof.
  induction ps as [|x r IH]; intros i p ps' H; simpl in H; [discriminate|].
  destruct (p_id x =? i).
  - inversion H; subst. split; [now left|intros q Hq; now right].
  - destruct (take_parked r i) as [[q r']|] eqn:E; [|discriminate]. inversion H; subst.
    destruct (IH _ _ _ E) as [Hin Hsub]. split; [now right|].
    intros y [<-|Hy]; [now left|right; auto].
Qed.

Definition fkey (f : flight) : N * key := (f_gen f, f_key f).

Lemma join_flight_some : forall fs g k i st fs',
  join_flight fs g k i st = Some fs' ->
  exists pre f post,
    fs = pre ++ f :: post /\ same_flight g k f = true
    /\ fs' = pre ++ mkF (f_gen f) (f_key f) (f_leader f) (f_ttl f) (f_members f ++ [(i, st)]) (f_start f) :: post.
Proof.
  induction fs as [|f r IH]; intros g k i st fs' H; simpl in H; [discriminate|].
  destruct (same_flight g k f) eqn:E.
  - inversion H; subst. exists [], f, r. auto.
  - destruct (join_flight r g k i st) as [r'|] eqn:Ej; [|discriminate]. inversion H; subst.
    destruct (IH _ _ _ _ _ Ej) as [pre [f0 [post [-> [Hs ->]]]]].
    exists (f :: pre), f0, post. auto.
Qed.

Lemma join_flight_none : forall fs g k i st,
  join_flight fs g k i st = None -> forall f, In f fs -> same_flight g k f = false.
Proof.
  induction fs as [|f r IH]; intros g k i st H x Hx; [destruct Hx|]. simpl in H.
  destruct (same_flight g k f) eqn:E; [discriminate|].
  destruct (join_flight r g k i st) eqn:Ej; [discriminate|].
  destruct Hx as [<-|Hx]; [assumption|eauto].
Qed.

Lemma take_flight_spec : forall fs l f fs',
  take_flight fs l = Some (f, fs') -> exists pre post, fs = pre ++ f :: post /\ fs' = pre ++ post.
Proof.
  induction fs as [|x r IH]; intros l f fs' H; simpl in H; [discriminate|].
  destruct (f_leader x =? l).
  - inversion H; subst. exists [], fs'. auto.
  - destruct (take_flight r l) as [[g r']|] eqn:E; [|discriminate]. inversion H; subst.
    destruct (IH _ _ _ E) as [pre [post [-> ->]]]. exists (x :: pre), post. auto.
Qed.

Lemma cache_find_in : forall c k e, cache_find c k = Some e -> exists k', In (k', e) c.
Proof.
  induction c as [|[k0 e0] r IH]; intros k e H; simpl in H; [discriminate|].
  destruct (key_eqb k0 k).
  - inversion H; subst. exists k0. now left.
  - destruct (IH _ _ H) as [k' Hin]. exists k'. now right.
Qed.

Lemma cache_del_incl c k : incl (cache_del c k) c.
Proof. unfold cache_del. intros x Hx. apply filter_In in Hx. tauto. Qed.

Lemma live_incl s k : incl (snd (live s k)) (cache s).
Proof.
  unfold live. destruct (cache_find (cache s) k) as [e|]; [|apply incl_refl].
  destruct (_ || _); simpl; [apply cache_del_incl|apply incl_refl].
Qed.

Lemma live_some s k e c : live s k = (Some e, c) ->
  c = cache s /\ (exists k', In (k', e) (cache s)) /\ wall s < e_exp e /\ now s < e_exp e.
Proof.
  unfold live. destruct (cache_find (cache s) k) as [e0|] eqn:E; [|discriminate].
  destruct ((e_exp e0 <=? wall s) || (e_exp e0 <=? now s)) eqn:Ex; [discriminate|].
  intro H. inversion H; subst. apply orb_false_iff in Ex. destruct Ex as [E1 E2].
  apply N.leb_gt in E1. apply N.leb_gt in E2. repeat split; auto. eapply cache_find_in; eauto.
Qed.

(* ---------- the invariant ---------- *)

Definition from_cache (r : resp) : Prop := r_src r <> SFlight /\ r_val r <> None.

Section Uniq.
  Context {A : Type} (rel : A -> A -> bool).
  Definition uniq (l : list A) : Prop :=
    forall pre a mid b post, l = pre ++ a :: mid ++ b :: post -> rel a b = false.

  Lemma uniq_sub pre f post : uniq (pre ++ f :: post) -> uniq (pre ++ post).
  Proof.
    intros U pre' a mid b post' H.
    assert (Hx : exists pre2 mid2 post2, pre ++ f :: post = pre2 ++ a :: mid2 ++ b :: post2).
    { clear U. revert pre' H. induction pre as [|x pre IHp]; intros pre' H; simpl in *.
      - exists (f :: pre'), mid, post'. now rewrite H.
      - destruct pre' as [|y pre'].
        + simpl in H. inversion H; subst.
          assert (Hy : exists mid2 post2, pre ++ f :: post = mid2 ++ b :: post2).
          { clear - H2. revert mid H2. induction pre as [|z pre IHq]; intros mid H2; simpl in *.
            - exists (f :: mid), post'. now rewrite H2.
            - destruct mid as [|w mid].
              + simpl in H2. inversion H2; subst. exists [], (pre ++ f :: post). reflexivity.
              + simpl in H2. inversion H2; subst. destruct (IHq _ H1) as [m2 [p2 E]].
                exists (w :: m2), p2. simpl. now rewrite E. }
          destruct Hy as [mid2 [post2 E]]. exists [], mid2, post2. simpl. now rewrite E.
        + simpl in H. inversion H; subst. destruct (IHp _ H2) as [p2 [m2 [q2 E]]].
          exists (y :: p2), m2, q2. simpl. now rewrite E. }
    destruct Hx as [pre2 [mid2 [post2 E]]]. eapply U; eauto.
  Qed.

  Lemma uniq_cons k l : (forall x, In x l -> rel k x = false) -> uniq l -> uniq (k :: l).
  Proof.
    intros Hk U pre a mid b post H. destruct pre as [|x pre]; simpl in H; inversion H; subst.
    - apply Hk. apply in_or_app. right. now left.
    - eapply U; eauto.
  Qed.
End Uniq.

(* two flight keys are the same (generation and pingKey) *)
Definition sameb (a b : N * key) : bool := (fst b =? fst a) && key_eqb (snd b) (snd a).
Definition keys_unique (fs : list flight) : Prop := uniq sameb (map fkey fs).

Record Inv (s : state) : Prop := mkInv {
  i_time : 1 <= time s;
  i_gen : gen s = N.of_nat (length (resets s));
  i_resets_past : forall tr, In tr (resets s) -> tr < time s;
  i_resets_max : forall tr, In tr (resets s) -> tr <= R (resets s) (gen s);
  i_parked : forall p, In p (parked s) ->
      p_gen p <= gen s /\ p_start p < time s /\ R (resets s) (p_gen p) < p_start p
      /\ (forall tr, In tr (resets s) -> tr < p_start p -> tr <= R (resets s) (p_gen p));
  i_flights : forall f, In f (flights s) ->
      f_gen f <= gen s /\ R (resets s) (f_gen f) < f_start f /\ f_start f < time s
      /\ (forall m st, In (m, st) (f_members f) ->
            st < time s /\ forall tr, In tr (resets s) -> tr < st -> tr < f_start f);
  i_cache : forall k e, In (k, e) (cache s) ->
      R (resets s) (gen s) < e_fstart e /\ e_fstart e < time s
      /\ e_exp e = e_set e + e_ttl e /\ e_set e <= wall s;
  i_unique : keys_unique (flights s);
  (* the properties themselves, as history facts *)
  i_no_stale : forall r, In r (responses s) -> r_val r <> None ->
      r_req_start r < time s
      /\ forall tr, In tr (resets s) -> tr < r_req_start r -> tr < r_fetch_start r;
  i_ttl : forall r, In r (responses s) -> from_cache r -> r_now r < r_set r + r_ttl r
}.

Lemma inv_init : Inv init.
Proof.
  constructor; simpl; try (intros; contradiction); try lia; try reflexivity.
  intros pre f mid g post H. destruct pre; discriminate.
Qed.

(* everything in the invariant that only says "... < time s" survives a tick of the logical clock *)
Ltac tick := unfold tick1 in *; simpl in *.

(* a step that changes neither resets, gen, parked, flights, cache nor responses (clock moves) *)
Lemma inv_clock s w n :
  wall s <= w -> Inv s ->
  Inv (mkSt w n (gen s) (cache s) (flights s) (parked s) (tick1 s) (resets s) (fetches s) (responses s)).
Proof.
  intros Hw [T G RP RM P F C U NS TT]. constructor; tick; auto; try lia.
  - intros tr H. specialize (RP tr H). lia.
  - intros p H. destruct (P p H) as [a [b [c d]]]. repeat split; auto. lia.
  - intros f H. destruct (F f H) as [a [b [c d]]]. repeat split; auto; try lia.
    + destruct (d m st H0). lia.
    + destruct (d m st H0) as [_ X]. auto.
  - intros k e H. destruct (C k e H) as [a [b [c d]]]. repeat split; auto; lia.
  - intros r H Hv. destruct (NS r H Hv). split; [lia|auto].
Qed.

Lemma inv_tick d s : Inv s -> Inv (do_tick d s).
Proof. intro H. unfold do_tick. apply inv_clock; [lia|assumption]. Qed.

Lemma inv_skew d s : Inv s -> Inv (do_skew d s).
Proof. intro H. unfold do_skew. apply inv_clock; [lia|assumption]. Qed.

(* answering from a live cache entry *)
Lemma resp_from_entry s k e c i src rs :
  Inv s -> live s k = (Some e, c) -> rs < time s \/ rs = time s ->
  let r := mkR i (Some (e_val e)) src rs (e_fstart e) (now s) (e_set e) (e_ttl e) in
  (forall tr, In tr (resets s) -> tr < r_req_start r -> tr < r_fetch_start r)
  /\ r_now r < r_set r + r_ttl r.
Proof.
  intros HI Hl _. destruct (live_some _ _ _ _ Hl) as [_ [[k' Hin] [Hw Hn]]].
  destruct (i_cache s HI k' e Hin) as [Hf [_ [Hexp _]]]. simpl. split.
  - intros tr Htr _. pose proof (i_resets_max s HI tr Htr). lia.
  - lia.
Qed.

Lemma inv_cache_sub s c :
  Inv s -> incl c (cache s) ->
  forall k e, In (k, e) c ->
    R (resets s) (gen s) < e_fstart e /\ e_fstart e < time s + 1
    /\ e_exp e = e_set e + e_ttl e /\ e_set e <= wall s.
Proof.
  intros HI Hc k e H. destruct (i_cache s HI k e (Hc _ H)) as [a [b [c0 d]]]. repeat split; auto. lia.
Qed.

Lemma inv_cs1 i k ttl s : Inv s -> Inv (do_cs1 i k ttl s).
Proof.
  intro HI. pose proof HI as [T G RP RM P F C U NS TT].
  unfold do_cs1. destruct (live s k) as [[e|] c] eqn:El.
  - (* hit *)
    destruct (resp_from_entry s k e c i SCs1 (time s) HI El (or_intror eq_refl)) as [Hst Httl].
    pose proof (live_incl s k) as Hc. rewrite El in Hc. simpl in Hc.
    constructor; tick; auto; try lia.
    + intros tr H. specialize (RP tr H). lia.
    + intros p H. destruct (P p H) as [a [b [c0 d]]]. repeat split; auto. lia.
    + intros f H. destruct (F f H) as [a [b [c0 d]]]. repeat split; auto; try lia.
      * destruct (d m st H0). lia.
      * destruct (d m st H0) as [_ X]. auto.
    + intros k0 e0 H. apply (inv_cache_sub s c HI Hc k0 e0 H).
    + intros r H Hv. unfold add_resp in H. apply in_app_or in H. destruct H as [H|[<-|[]]].
      * destruct (NS r H Hv). split; [lia|auto].
      * simpl. split; [lia|]. exact Hst.
    + intros r H Hfc. unfold add_resp in H. apply in_app_or in H. destruct H as [H|[<-|[]]]; auto.
  - (* miss: parked *)
    pose proof (live_incl s k) as Hc. rewrite El in Hc. simpl in Hc.
    constructor; tick; auto; try lia.
    + intros tr H. specialize (RP tr H). lia.
    + intros p [<-|H]; simpl.
      * repeat split; try lia.
        -- apply R_lt; assumption.
        -- intros tr Htr _. apply RM. assumption.
      * destruct (P p H) as [a [b [c0 d]]]. repeat split; auto. lia.
    + intros f H. destruct (F f H) as [a [b [c0 d]]]. repeat split; auto; try lia.
      * destruct (d m st H0). lia.
      * destruct (d m st H0) as [_ X]. auto.
    + intros k0 e0 H. apply (inv_cache_sub s c HI Hc k0 e0 H).
    + intros r H Hv. destruct (NS r H Hv). split; [lia|auto].
Qed.

Lemma inv_get i k s : Inv s -> Inv (do_get i k s).
Proof.
  intro HI. pose proof HI as [T G RP RM P F C U NS TT].
  unfold do_get. pose proof (live_incl s k) as Hc. destruct (live s k) as [[e|] c] eqn:El; simpl in Hc.
  - destruct (resp_from_entry s k e c i SGet (time s) HI El (or_intror eq_refl)) as [Hst Httl].
    constructor; tick; auto; try lia.
    + intros tr H. specialize (RP tr H). lia.
    + intros p H. destruct (P p H) as [a [b [c0 d]]]. repeat split; auto. lia.
    + intros f H. destruct (F f H) as [a [b [c0 d]]]. repeat split; auto; try lia.
      * destruct (d m st H0). lia.
      * destruct (d m st H0) as [_ X]. auto.
    + intros k0 e0 H. apply (inv_cache_sub s c HI Hc k0 e0 H).
    + intros r H Hv. unfold add_resp in H. apply in_app_or in H. destruct H as [H|[<-|[]]].
      * destruct (NS r H Hv). split; [lia|auto].
      * simpl. split; [lia|]. exact Hst.
    + intros r H Hfc. unfold add_resp in H. apply in_app_or in H. destruct H as [H|[<-|[]]]; auto.
  - constructor; tick; auto; try lia.
    + intros tr H. specialize (RP tr H). lia.
    + intros p H. destruct (P p H) as [a [b [c0 d]]]. repeat split; auto. lia.
    + intros f H. destruct (F f H) as [a [b [c0 d]]]. repeat split; auto; try lia.
      * destruct (d m st H0). lia.
      * destruct (d m st H0) as [_ X]. auto.
    + intros k0 e0 H. apply (inv_cache_sub s c HI Hc k0 e0 H).
    + intros r H Hv. unfold add_resp in H. apply in_app_or in H. destruct H as [H|[<-|[]]].
      * destruct (NS r H Hv). split; [lia|auto].
      * simpl in Hv. contradiction.
    + intros r H Hfc. unfold add_resp in H. apply in_app_or in H. destruct H as [H|[<-|[]]]; auto.
      destruct Hfc as [_ Hv]. simpl in Hv. contradiction.
Qed.

Lemma inv_reset s : Inv s -> Inv (do_reset s).
Proof.
  intro HI. pose proof HI as [T G RP RM P F C U NS TT].
  unfold do_reset. constructor; tick; auto; try lia.
  - rewrite app_length. simpl. lia.
  - intros tr H. apply in_app_or in H. destruct H as [H|[<-|[]]]; [specialize (RP tr H)|]; lia.
  - intros tr H. rewrite G, R_last. apply in_app_or in H.
    destruct H as [H|[<-|[]]]; [specialize (RP tr H)|]; lia.
  - intros p H. destruct (P p H) as [a [b [c0 d]]].
    rewrite (R_app _ _ _ (eq_ind _ (fun x => p_gen p <= x) a _ G)).
    repeat split; try lia.
    intros tr Htr Hlt. apply in_app_or in Htr. destruct Htr as [Htr|[<-|[]]]; [auto|lia].
  - intros f H. destruct (F f H) as [a [b [c0 d]]].
    rewrite (R_app _ _ _ (eq_ind _ (fun x => f_gen f <= x) a _ G)).
    repeat split; try lia.
    + destruct (d m st H0). lia.
    + intros tr Htr Hlt. destruct (d m st H0) as [Hst X].
      apply in_app_or in Htr. destruct Htr as [Htr|[<-|[]]]; [auto|lia].
  - intros r H Hv. destruct (NS r H Hv) as [a b]. split; [lia|].
    intros tr Htr Hlt. apply in_app_or in Htr. destruct Htr as [Htr|[<-|[]]]; [auto|lia].
Qed.

Lemma inv_complete i ok s : Inv s -> Inv (do_complete i ok s).
Proof.
  intro HI. pose proof HI as [T G RP RM P F C U NS TT].
  unfold do_complete. destruct (take_flight (flights s) i) as [[f fs]|] eqn:Et.
  - destruct (take_flight_spec _ _ _ _ Et) as [pre [post [Hfs ->]]].
    assert (Hf : In f (flights s)) by (rewrite Hfs; apply in_or_app; right; now left).
    assert (Hsub : forall g, In g (pre ++ post) -> In g (flights s)).
    { intros g Hg. rewrite Hfs. apply in_app_or in Hg. apply in_or_app.
      destruct Hg; [now left|right; now right]. }
    destruct (F f Hf) as [Fa [Fb [Fc Fd]]].
    constructor; tick; auto; try lia.
    + intros tr H. specialize (RP tr H). lia.
    + intros p H. destruct (P p H) as [a [b [c0 d]]]. repeat split; auto. lia.
    + intros g H. destruct (F g (Hsub g H)) as [a [b [c0 d]]]. repeat split; auto; try lia.
      * destruct (d m st H0). lia.
      * destruct (d m st H0) as [_ X]. auto.
    + intros k e H. destruct (f_gen f =? gen s) eqn:Eg.
      * apply N.eqb_eq in Eg. unfold cache_set in H. destruct H as [H|H].
        -- inversion H; subst. simpl. repeat split; try lia. rewrite <- Eg. assumption.
        -- apply cache_del_incl in H. destruct (C k e H) as [a [b [c0 d]]]. repeat split; auto. lia.
      * destruct (C k e H) as [a [b [c0 d]]]. repeat split; auto. lia.
    + unfold keys_unique in *. rewrite Hfs, map_app in U. simpl in U. rewrite map_app. eapply uniq_sub; eauto.
    + intros r H Hv. apply in_app_or in H. destruct H as [H|H].
      * destruct (NS r H Hv). split; [lia|auto].
      * unfold member_resps in H. apply in_map_iff in H. destruct H as [[m st] [<- Hm]]. simpl.
        destruct (Fd m st Hm) as [Hst X]. split; [lia|exact X].
    + intros r H Hfc. apply in_app_or in H. destruct H as [H|H]; auto.
      unfold member_resps in H. apply in_map_iff in H. destruct H as [[m st] [<- Hm]].
      destruct Hfc as [Hsrc _]. simpl in Hsrc. contradiction.
  - apply (inv_clock s (wall s) (now s)); [lia|assumption].
Qed.

Lemma same_flight_members g k f ms :
  same_flight g k (mkF (f_gen f) (f_key f) (f_leader f) (f_ttl f) ms (f_start f)) = same_flight g k f.
Proof. reflexivity. Qed.

Lemma inv_dochan i s : Inv s -> Inv (do_dochan i s).
Proof.
  intro HI. pose proof HI as [T G RP RM P F C U NS TT].
  unfold do_dochan. destruct (take_parked (parked s) i) as [[p ps]|] eqn:Ep;
    [|apply (inv_clock s (wall s) (now s)); [lia|assumption]].
  destruct (take_parked_spec _ _ _ _ Ep) as [Hp Hps].
  destruct (P p Hp) as [Pa [Pb [Pc Pd]]].
  destruct (join_flight (flights s) (p_gen p) (p_key p) i (p_start p)) as [fs|] eqn:Ej.
  - (* joins a flight in progress *)
    destruct (join_flight_some _ _ _ _ _ _ Ej) as [pre [f [post [Hfs [Hsame ->]]]]].
    assert (Hf : In f (flights s)) by (rewrite Hfs; apply in_or_app; right; now left).
    destruct (F f Hf) as [Fa [Fb [Fc Fd]]].
    assert (Hg : f_gen f = p_gen p).
    { unfold same_flight in Hsame. apply andb_true_iff in Hsame. destruct Hsame as [Hs _].
      now apply N.eqb_eq in Hs. }
    constructor; tick; auto; try lia.
    + intros tr H. specialize (RP tr H). lia.
    + intros q H. destruct (P q (Hps q H)) as [a [b [c0 d]]]. repeat split; auto. lia.
    + intros g H. apply in_app_or in H. destruct H as [H|[<-|H]].
      * assert (Hgin : In g (flights s)) by (rewrite Hfs; apply in_or_app; now left).
        destruct (F g Hgin) as [a [b [c0 d]]]. repeat split; auto; try lia.
        -- destruct (d m st H0). lia.
        -- destruct (d m st H0) as [_ X]. auto.
      * simpl. repeat split; auto; try lia.
        -- apply in_app_or in H. destruct H as [H|[H|[]]]; [destruct (Fd m st H); lia|inversion H; subst; lia].
        -- intros tr Htr Hlt. apply in_app_or in H. destruct H as [H|[H|[]]].
           ++ destruct (Fd m st H) as [_ X]. auto.
           ++ inversion H; subst. specialize (Pd tr Htr Hlt). rewrite <- Hg in Pd. lia.
      * assert (Hgin : In g (flights s)) by (rewrite Hfs; apply in_or_app; right; now right).
        destruct (F g Hgin) as [a [b [c0 d]]]. repeat split; auto; try lia.
        -- destruct (d m st H0). lia.
        -- destruct (d m st H0) as [_ X]. auto.
    + intros k e H. destruct (C k e H) as [a [b [c0 d]]]. repeat split; auto. lia.
    + (* keys unchanged *)
      unfold keys_unique in *. rewrite Hfs in U. rewrite map_app in *. exact U.
    + intros r H Hv. destruct (NS r H Hv). split; [lia|auto].
  - (* leader *)
    pose proof (join_flight_none _ _ _ _ _ Ej) as Hnone.
    set (hit := if p_gen p =? gen s then live s (p_key p) else (None, cache s)).
    assert (Hc : incl (snd hit) (cache s)).
    { unfold hit. destruct (p_gen p =? gen s); [apply live_incl|apply incl_refl]. }
    destruct hit as [[e|] c] eqn:Eh; simpl in Hc.
    + (* CS2 answers from the cache: only when the generation is unchanged *)
      assert (El : live s (p_key p) = (Some e, c)).
      { unfold hit in Eh. destruct (p_gen p =? gen s); [assumption|discriminate]. }
      destruct (resp_from_entry s (p_key p) e c i SCs2 (p_start p) HI El (or_introl Pb)) as [Hst Httl].
      constructor; tick; auto; try lia.
      * intros tr H. specialize (RP tr H). lia.
      * intros q H. destruct (P q (Hps q H)) as [a [b [c0 d]]]. repeat split; auto. lia.
      * intros f H. destruct (F f H) as [a [b [c0 d]]]. repeat split; auto; try lia.
        -- destruct (d m st H0). lia.
        -- destruct (d m st H0) as [_ X]. auto.
      * intros k0 e0 H. apply (inv_cache_sub s c HI Hc k0 e0 H).
      * intros r H Hv. unfold add_resp in H. apply in_app_or in H. destruct H as [H|[<-|[]]].
        -- destruct (NS r H Hv). split; [lia|auto].
        -- simpl. split; [lia|]. exact Hst.
      * intros r H Hfc. unfold add_resp in H. apply in_app_or in H. destruct H as [H|[<-|[]]]; auto.
    + (* the loader starts *)
      constructor; tick; auto; try lia.
      * intros tr H. specialize (RP tr H). lia.
      * intros q H. destruct (P q (Hps q H)) as [a [b [c0 d]]]. repeat split; auto. lia.
      * intros f [<-|H]; simpl.
        -- split; [exact Pa|]. split; [lia|]. split; [lia|].
           intros m st [Hm|[]]. inversion Hm; subst. split; [lia|].
           intros tr Htr _. specialize (RP tr Htr). lia.
        -- destruct (F f H) as [a [b [c0 d]]]. repeat split; auto; try lia.
           ++ destruct (d m st H0). lia.
           ++ destruct (d m st H0) as [_ X]. auto.
      * intros k0 e0 H. apply (inv_cache_sub s c HI Hc k0 e0 H).
      * unfold keys_unique in *. simpl. apply uniq_cons; [|exact U].
        intros x Hx. apply in_map_iff in Hx. destruct Hx as [g [<- Hg]].
        exact (Hnone g Hg).
      * intros r H Hv. destruct (NS r H Hv). split; [lia|auto].
Qed.

Theorem step_inv : forall e s, Inv s -> Inv (step s e).
Proof.
  intros [i k ttl|i|i ok| |d|d|i k] s H; simpl.
  - now apply inv_cs1.
  - now apply inv_dochan.
  - now apply inv_complete.
  - now apply inv_reset.
  - now apply inv_tick.
  - now apply inv_skew.
  - now apply inv_get.
Qed.

(* ---------- all schedules ---------- *)

Definition act (e : ev) : @action state unit := fun s => (step s e, []).
Definition threads (ts : list (list ev)) : list (@thread state unit) := map (map act) ts.

Lemma in_threads ts a : In a (concat (threads ts)) -> exists e, a = act e /\ In e (concat ts).
Proof.
  unfold threads. induction ts as [|t r IH]; simpl; intro H; [destruct H|].
  apply in_app_or in H. destruct H as [H|H].
  - apply in_map_iff in H. destruct H as [e [<- He]]. exists e. split; [reflexivity|].
    apply in_or_app. now left.
  - destruct (IH H) as [e [-> He]]. exists e. split; [reflexivity|]. apply in_or_app. now right.
Qed.

Theorem inv_every_schedule : forall ts sched,
  Inv (final_state (run (threads ts) sched init)).
Proof.
  intros ts sched. unfold final_state.
  apply (inv_all_schedules Inv (threads ts)); [|apply inv_init].
  intros a Ha s Hs. destruct (in_threads _ _ Ha) as [e [-> _]]. simpl. now apply step_inv.
Qed.

Theorem no_stale_after_reset : forall ts sched,
  let s := final_state (run (threads ts) sched init) in
  forall r, In r (responses s) -> r_val r <> None ->
  forall tr, In tr (resets s) -> tr < r_req_start r -> tr < r_fetch_start r.
Proof.
  intros ts sched s r Hr Hv. destruct (i_no_stale s (inv_every_schedule ts sched) r Hr Hv) as [_ H]. exact H.
Qed.

Theorem single_flight : forall ts sched,
  keys_unique (flights (final_state (run (threads ts) sched init))).
Proof. intros. apply i_unique. apply inv_every_schedule. Qed.

Theorem ttl_bound : forall ts sched,
  let s := final_state (run (threads ts) sched init) in
  forall r, In r (responses s) -> from_cache r -> r_now r < r_set r + r_ttl r.
Proof. intros ts sched s r Hr Hc. exact (i_ttl s (inv_every_schedule ts sched) r Hr Hc). Qed.

(* in production the two clocks are one: without ESkew steps they never differ, and a cached answer
   is served no earlier than it was stored *)
Definition no_skew (e : ev) : Prop := match e with ESkew _ => False | _ => True end.

Record Inv2 (s : state) : Prop := mkInv2 {
  j_clock : wall s = now s;
  j_cache : forall k e, In (k, e) (cache s) -> e_set e <= wall s;
  j_resp : forall r, In r (responses s) -> from_cache r -> r_set r <= r_now r
}.

Lemma inv2_step e s : no_skew e -> Inv2 s -> Inv2 (step s e).
Proof.
  intros Hns [Jc Jk Jr].
  assert (Hnew : forall k0 e0 c0 src i0 rs, live s k0 = (Some e0, c0) ->
            forall r, In r (add_resp s (mkR i0 (Some (e_val e0)) src rs (e_fstart e0) (now s) (e_set e0) (e_ttl e0))) ->
            from_cache r -> r_set r <= r_now r).
  { intros k0 e0 c0 src i0 rs El r H Hfc. unfold add_resp in H. apply in_app_or in H.
    destruct H as [H|[<-|[]]]; auto. simpl.
    destruct (live_some _ _ _ _ El) as [_ [[k' Hin] _]]. specialize (Jk k' e0 Hin). lia. }
  destruct e as [i k ttl|i|i ok| |d|d|i k]; simpl in *; try contradiction.
  - unfold do_cs1. pose proof (live_incl s k) as Hc. destruct (live s k) as [[e|] c] eqn:El; simpl in Hc.
    + constructor; simpl; [exact Jc| |].
      * intros k0 e0 H0. apply (Jk k0 e0). apply Hc. exact H0.
      * eapply Hnew; eauto.
    + constructor; simpl; [exact Jc| |exact Jr].
      intros k0 e0 H0. apply (Jk k0 e0). apply Hc. exact H0.
  - unfold do_dochan. destruct (take_parked (parked s) i) as [[p ps]|]; [|constructor; simpl; assumption].
    destruct (join_flight _ _ _ _ _); [constructor; simpl; assumption|].
    set (hit := if p_gen p =? gen s then live s (p_key p) else (None, cache s)).
    assert (Hc : incl (snd hit) (cache s)).
    { unfold hit. destruct (p_gen p =? gen s); [apply live_incl|apply incl_refl]. }
    destruct hit as [[e|] c] eqn:Eh; simpl in Hc.
    + assert (El : live s (p_key p) = (Some e, c)).
      { unfold hit in Eh. destruct (p_gen p =? gen s); [assumption|discriminate]. }
      constructor; simpl; [exact Jc| |].
      * intros k0 e0 H0. apply (Jk k0 e0). apply Hc. exact H0.
      * eapply Hnew; eauto.
    + constructor; simpl; [exact Jc| |exact Jr].
      intros k0 e0 H0. apply (Jk k0 e0). apply Hc. exact H0.
  - unfold do_complete. destruct (take_flight (flights s) i) as [[f fs]|]; [|constructor; simpl; assumption].
    constructor; simpl; [exact Jc| |].
    + intros k e H. destruct (f_gen f =? gen s); [|eauto]. unfold cache_set in H. destruct H as [H|H].
      * inversion H; subst. simpl. lia.
      * apply cache_del_incl in H. eauto.
    + intros r H Hfc. apply in_app_or in H. destruct H as [H|H]; [auto|].
      unfold member_resps in H. apply in_map_iff in H. destruct H as [[m st] [<- Hm]].
      destruct Hfc as [Hsrc _]. simpl in Hsrc. contradiction.
  - unfold do_reset. constructor; simpl; [exact Jc| |exact Jr]. intros k e [].
  - unfold do_tick. constructor; simpl; [lia| |].
    + intros k e H. specialize (Jk k e H). lia.
    + exact Jr.
  - unfold do_get. pose proof (live_incl s k) as Hc. destruct (live s k) as [[e|] c] eqn:El; simpl in Hc.
    + constructor; simpl; [exact Jc| |].
      * intros k0 e0 H0. apply (Jk k0 e0). apply Hc. exact H0.
      * eapply Hnew; eauto.
    + constructor; simpl; [exact Jc| |].
      * intros k0 e0 H0. apply (Jk k0 e0). apply Hc. exact H0.
      * intros r H Hfc. unfold add_resp in H. apply in_app_or in H. destruct H as [H|[<-|[]]]; [auto|].
        destruct Hfc as [_ Hv]. simpl in Hv. contradiction.
Qed.

Theorem ttl_window : forall ts sched,
  (forall e, In e (concat ts) -> no_skew e) ->
  let s := final_state (run (threads ts) sched init) in
  forall r, In r (responses s) -> from_cache r -> r_set r <= r_now r /\ r_now r < r_set r + r_ttl r.
Proof.
  intros ts sched Hns s r Hr Hc. split; [|exact (ttl_bound ts sched r Hr Hc)].
  assert (H2 : Inv2 s).
  { unfold s, final_state. apply (inv_all_schedules Inv2 (threads ts)).
    - intros a Ha s0 Hs0. destruct (in_threads _ _ Ha) as [e [-> He]]. simpl.
      apply inv2_step; auto.
    - constructor; simpl; auto; intros; contradiction. }
  exact (j_resp s H2 r Hr Hc).
Qed.

(* ---------- fallback ---------- *)

Lemma first_ok_spec : forall oks i j,
  first_ok i oks = Some j ->
  exists pre post, oks = pre ++ true :: post /\ forallb negb pre = true /\ j = i + N.of_nat (length pre).
Proof.
  induction oks as [|b r IH]; intros i j H; simpl in H; [discriminate|].
  destruct b.
  - inversion H; subst. exists [], r. repeat split. simpl. lia.
  - destruct (IH _ _ H) as [pre [post [-> [Hp ->]]]]. exists (false :: pre), post.
    repeat split; auto. simpl. lia.
Qed.

Lemma first_ok_none : forall oks i, first_ok i oks = None -> forallb negb oks = true.
Proof.
  induction oks as [|b r IH]; intros i H; [reflexivity|]. simpl in H.
  destruct b; [discriminate|]. simpl. eauto.
Qed.

Theorem fallback_only_if_all_failed : forall oks fb,
  (resolve oks fb = AFallback -> fb = true /\ forallb negb oks = true)
  /\ (resolve oks fb = AError -> fb = false /\ forallb negb oks = true)
  /\ (forall i, resolve oks fb = AStatus i ->
        exists pre post, oks = pre ++ true :: post /\ forallb negb pre = true /\ i = N.of_nat (length pre))
  /\ (forallb negb oks = true -> fb = true -> resolve oks fb = AFallback).
Proof.
  intros oks fb. unfold resolve. destruct (first_ok 0 oks) as [j|] eqn:E.
  - repeat split; try discriminate.
    + intros i H. inversion H; subst. destruct (first_ok_spec _ _ _ E) as [pre [post [H1 [H2 H3]]]].
      exists pre, post. repeat split; auto.
    + intros Hall _. destruct (first_ok_spec _ _ _ E) as [pre [post [-> [_ _]]]].
      rewrite forallb_app in Hall. apply andb_true_iff in Hall. destruct Hall as [_ Hall].
      simpl in Hall. discriminate.
  - pose proof (first_ok_none _ _ E) as Hall. destruct fb; repeat split; auto; try discriminate.
Qed.

(* ---------- non-vacuity ---------- *)

Definition kA : key := ([97], 765, 1).

(* request 0 fetches; reset while it runs; request 1 (after the reset) must not get request 0's
   value: it leads its own fetch; request 2 joins it; request 3 hits the cache; after 4 ticks with
   ttl 3 request 4 fetches again *)
Definition ex_events : list ev :=
  [ECs1 0 kA 3; EDoChan 0; EReset; ECs1 1 kA 3; EDoChan 1; EComplete 0 true; ECs1 2 kA 3; EDoChan 2;
   EComplete 1 true; ECs1 3 kA 3; ETick 4; ECs1 4 kA 3; EDoChan 4; EComplete 4 false].

Example ex_run :
  obs_of (run_events ex_events)
  = ([(0, Some (0, true)); (1, Some (1, true)); (2, Some (1, true)); (3, Some (1, true)); (4, Some (4, false))],
     [0; 1; 4]).
Proof. vm_compute. reflexivity. Qed.

(* the same steps as three threads + a reset thread: every one of the 12 complete interleavings of
   [ECs1 0; EDoChan 0; EComplete 0] with [EReset] and [ECs1 1; EDoChan 1] ... is covered by the
   theorem; here: all schedules of a small instance satisfy the invariant's no-stale clause and at
   least one schedule serves a cached value *)
Example ex_all_schedules :
  let ts := [[ECs1 0 kA 3; EDoChan 0; EComplete 0 true]; [EReset]; [ECs1 1 kA 3; EDoChan 1; EComplete 1 true]] in
  length (all_schedules (threads ts)) = 140%nat
  /\ check_all_schedules (threads ts) init
       (fun s _ => forallb (fun r => forallb (fun tr => negb (tr <? r_req_start r) || (tr <? r_fetch_start r)) (resets s))
                              (responses s)) = true
  /\ existsb (fun sched => existsb (fun r => match r_src r with SFlight => false | _ => true end)
                                   (responses (final_state (run (threads ts) sched init))))
             (all_schedules (threads ts)) = true.
Proof. vm_compute. repeat split; reflexivity. Qed.
