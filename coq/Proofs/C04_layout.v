(* Generic theorems about the layout language (Model/Layout.v), proved once for ANY primitive
   family satisfying [pfam_ok]: round trip, independence of the reader-side options, equality of
   encoders for layouts that are equal after resolving the version tests. *)
From Coq Require Import List NArith ZArith Bool Lia ZifyN ZifyNat ZifyBool.
From Verif Require Import Base.Hex Model.Layout.
Import ListNotations.
Open Scope Z_scope.

Lemma atom_eqb_eq a b : atom_eqb a b = true -> a = b.
Proof.
  destruct a, b; cbn; intro H; try discriminate.
  - apply Z.eqb_eq in H. congruence.
  - apply Bool.eqb_prop in H. congruence.
  - apply beq_bytes_eq in H. congruence.
Qed.

(* what the theorems assume about the primitive codecs; [dom p a] = "a is a value primitive p can carry" *)
Record pfam_ok (F : pfam) (dom : prim F -> atom -> Prop) : Prop := mk_pfam_ok {
  ok_prim_rt : forall p a rest, dom p a ->
      exists bs, enc_prim F p a = Ok bs /\ dec_prim F p (bs ++ rest) = Ok (a, rest);
  ok_prim_min : forall p bs a rest, dec_prim F p bs = Ok (a, rest) ->
      (length rest + N.to_nat (prim_min F p) <= length bs)%nat;
  ok_prim_eqb : forall p q a, prim_eqb F p q = true -> enc_prim F p a = enc_prim F q a;
  ok_flag_rt : forall b rest, dec_flag F (enc_flag F b ++ rest) = Ok (b, rest);
  ok_flag_min : forall bs b rest, dec_flag F bs = Ok (b, rest) -> (length rest + 1 <= length bs)%nat;
  ok_count_rt : forall n rest, 0 <= n < 2 ^ 31 ->
      exists bs, enc_count F n = Ok bs /\ dec_count F (bs ++ rest) = Ok (n, rest);
  ok_count_min : forall bs n rest, dec_count F bs = Ok (n, rest) -> (length rest + 1 <= length bs)%nat
}.

Section Generic.
  Variable F : pfam.
  Variable dom : prim F -> atom -> Prop.
  Hypothesis OK : pfam_ok F dom.

  Notation layout := (layout F).

  (* ---------- the domain of a layout at a context ---------- *)
  Definition count_ok (o : repopts) (n : nat) : Prop :=
    Z.of_nat n < 2 ^ 31 /\ match rcap o with Some m => Z.of_nat n <= m | None => True end.

  Fixpoint in_dom (l : layout) (c : ctx) (v : value) : Prop :=
    match l with
    | LEnd => v = VUnit
    | LPrim _ p => exists a, v = VAtom a /\ dom p a
    | LSeq a b => exists x y, v = VPair x y /\ in_dom a c x /\ in_dom b c y
    | LVer g a b => if eval_guard g c then in_dom a c v else in_dom b c v
    | LOpt _ a b => exists fl x, v = VFlag fl x /\ (if fl then in_dom a c x else in_dom b c x)
    | LRep _ o a => exists vs, v = VList vs /\ Forall (in_dom a c) vs /\ count_ok o (length vs)
    | LRest _ lim => exists bs, v = VAtom (ABytes bs) /\
                       match lim with Some m => (lenN bs <= m)%N | None => True end
    | LConst p k => v = VUnit /\ dom p k
    | LTag _ p a => exists z x, v = VPair (VAtom (AZ z)) x /\ dom p (AZ z) /\ in_dom a (set_tag c z) x
    | LSel k a b => if ctag c =? k then in_dom a c v else in_dom b c v
    | LFail => False
    end.

  (* ---------- the tag in the context is only read by LSel ---------- *)
  Lemma eval_guard_tag g c z : eval_guard g (set_tag c z) = eval_guard g c.
  Proof. induction g; cbn [eval_guard]; try reflexivity; try (rewrite IHg; reflexivity); rewrite IHg1, IHg2; reflexivity. Qed.

  Lemma resolve_tag : forall l c z, resolve F l (set_tag c z) = resolve F l c.
  Proof.
    induction l as [| f p | a IHa b IHb | g a IHa b IHb | f a IHa b IHb | f o a IHa | f lim | p k | f p a IHa | k a IHa b IHb | ]; intros c z;
      cbn [resolve]; try reflexivity; try (rewrite ?IHa, ?IHb; reflexivity).
    rewrite eval_guard_tag. destruct (eval_guard g c); [apply IHa | apply IHb].
  Qed.
  Lemma norest_tag : forall l c z, norest F l (set_tag c z) = norest F l c.
  Proof.
    induction l as [| f p | a IHa b IHb | g a IHa b IHb | f a IHa b IHb | f o a IHa | f lim | p k | f p a IHa | k a IHa b IHb | ]; intros c z;
      cbn [norest]; try reflexivity; try (rewrite ?IHa, ?IHb; reflexivity).
    rewrite eval_guard_tag. destruct (eval_guard g c); [apply IHa | apply IHb].
  Qed.
  Lemma minsz_tag : forall l c z, minsz F l (set_tag c z) = minsz F l c.
  Proof.
    induction l as [| f p | a IHa b IHb | g a IHa b IHb | f a IHa b IHb | f o a IHa | f lim | p k | f p a IHa | k a IHa b IHb | ]; intros c z;
      cbn [minsz]; try reflexivity; try (rewrite ?IHa, ?IHb; reflexivity).
    rewrite eval_guard_tag. destruct (eval_guard g c); [apply IHa | apply IHb].
  Qed.
  Lemma wf_tag : forall l c z, wf F l (set_tag c z) = wf F l c.
  Proof.
    induction l as [| f p | a IHa b IHb | g a IHa b IHb | f a IHa b IHb | f o a IHa | f lim | p k | f p a IHa | k a IHa b IHb | ]; intros c z;
      cbn [wf]; try reflexivity; try (rewrite ?IHa, ?IHb, ?norest_tag, ?minsz_tag; reflexivity).
    rewrite eval_guard_tag. destruct (eval_guard g c); [apply IHa | apply IHb].
  Qed.

  (* ---------- resolve ---------- *)
  Lemma enc_resolve : forall l c v, enc_L F (resolve F l c) c v = enc_L F l c v.
  Proof.
    induction l as [| f p | a IHa b IHb | g a IHa b IHb | f a IHa b IHb | f o a IHa | f lim | p k | f p a IHa | k a IHa b IHb | ]; intros c v;
      cbn [resolve enc_L]; try reflexivity.
    - destruct v; try reflexivity. rewrite IHa, IHb. reflexivity.
    - destruct (eval_guard g c); [apply IHa | apply IHb].
    - destruct v as [| | | fl x |]; try reflexivity. destruct fl; [rewrite IHa | rewrite IHb]; reflexivity.
    - destruct v as [| | | | vs]; try reflexivity.
      assert (E : enc_all (enc_L F (resolve F a c) c) vs = enc_all (enc_L F a c) vs).
      { induction vs as [|x r IH]; [reflexivity|]. cbn [enc_all]. rewrite IHa, IH. reflexivity. }
      rewrite E. reflexivity.
    - destruct v as [| | v1 x | |]; try reflexivity. destruct v1 as [|a0| | |]; try reflexivity. destruct a0 as [z| |]; try reflexivity.
      rewrite <- (resolve_tag a c z), IHa. reflexivity.
    - destruct (ctag c =? k); [apply IHa | apply IHb].
  Qed.

  Lemma dec_many_ext : forall d1 d2, (forall bs, d1 bs = d2 bs) ->
    forall fuel n bs acc al, dec_many d1 fuel n bs acc al = dec_many d2 fuel n bs acc al.
  Proof.
    intros d1 d2 E fuel. induction fuel as [|f IH]; intros n bs acc al; cbn [dec_many].
    - reflexivity.
    - destruct (n =? 0)%N; [reflexivity|]. rewrite E. destruct (d2 bs) as [a1 [[v rest]|e]]; [apply IH | reflexivity].
  Qed.

  Lemma dec_resolve : forall l c bs, dec_T F (resolve F l c) c bs = dec_T F l c bs.
  Proof.
    induction l as [| f p | a IHa b IHb | g a IHa b IHb | f a IHa b IHb | f o a IHa | f lim | p k | f p a IHa | k a IHa b IHb | ]; intros c bs;
      cbn [resolve dec_T]; try reflexivity.
    - rewrite IHa. destruct (dec_T F a c bs) as [n1 [[x rest]|e]]; [|reflexivity]. rewrite IHb. reflexivity.
    - destruct (eval_guard g c); [apply IHa | apply IHb].
    - destruct (dec_flag F bs) as [[[|] rest]|e]; [rewrite IHa | rewrite IHb |]; reflexivity.
    - destruct (dec_count F bs) as [[n rest]|e]; [|reflexivity].
      destruct (n <? 0); [reflexivity|]. destruct (match rcap o with Some m => m <? n | None => false end); [reflexivity|].
      apply dec_many_ext. intro. apply IHa.
    - destruct (dec_prim F p bs) as [[[z| |] rest]|e]; try reflexivity.
      rewrite <- (resolve_tag a c z), IHa. reflexivity.
    - destruct (ctag c =? k); [apply IHa | apply IHb].
  Qed.

  (* ---------- equal layouts encode alike ---------- *)
  Lemma enc_all_ext : forall f g vs, (forall v, f v = g v) -> enc_all f vs = enc_all g vs.
  Proof. intros f g vs E. induction vs as [|x r IH]; [reflexivity|]. cbn [enc_all]. rewrite E, IH. reflexivity. Qed.

  Lemma enc_eqb : forall x y, layout_eqb F x y = true -> forall c v, enc_L F x c v = enc_L F y c v.
  Proof.
    induction x as [| f p | a IHa b IHb | g a IHa b IHb | f a IHa b IHb | f o a IHa | f lim | p k | f p a IHa | k a IHa b IHb | ];
      intros y H c v; destruct y as [| f' p' | a' b' | g' a' b' | f' a' b' | f' o' a' | f' lim' | p' k' | f' p' a' | k' a' b' | ];
      cbn [layout_eqb] in H; try discriminate; cbn [enc_L].
    - reflexivity.
    - apply andb_true_iff in H as [_ H]. destruct v; try reflexivity. apply (ok_prim_eqb F dom OK); assumption.
    - apply andb_true_iff in H as [H1 H2]. destruct v; try reflexivity.
      rewrite (IHa _ H1), (IHb _ H2). reflexivity.
    - apply andb_true_iff in H as [H H2]. apply andb_true_iff in H as [_ H1].
      destruct v as [| | | fl x |]; try reflexivity. destruct fl; [rewrite (IHa _ H1) | rewrite (IHb _ H2)]; reflexivity.
    - apply andb_true_iff in H as [_ H1]. destruct v as [| | | | vs]; try reflexivity.
      rewrite (enc_all_ext (enc_L F a c) (enc_L F a' c) vs (fun v => IHa _ H1 c v)). reflexivity.
    - reflexivity.
    - apply andb_true_iff in H as [H Hk]. apply atom_eqb_eq in Hk. subst k'.
      destruct v; try reflexivity. apply (ok_prim_eqb F dom OK); assumption.
    - apply andb_true_iff in H as [H H2]. apply andb_true_iff in H as [_ H1].
      destruct v as [| | v1 x | |]; try reflexivity. destruct v1 as [|a0| | |]; try reflexivity. destruct a0 as [z| |]; try reflexivity.
      rewrite (ok_prim_eqb F dom OK p p' (AZ z) H1), (IHa _ H2). reflexivity.
    - apply andb_true_iff in H as [H H2]. apply andb_true_iff in H as [Hk H1]. apply Z.eqb_eq in Hk. subst k'.
      destruct (ctag c =? k); [apply (IHa _ H1) | apply (IHb _ H2)].
    - reflexivity.
  Qed.

  Theorem enc_eqb_at : forall c x y, layout_eqb_at F c x y = true -> forall v, enc_L F x c v = enc_L F y c v.
  Proof.
    intros c x y H v. unfold layout_eqb_at in H.
    rewrite <- (enc_resolve x), <- (enc_resolve y). apply enc_eqb. exact H.
  Qed.

  (* ---------- consumption ---------- *)
  Definition dec_L' l c bs := dec_L F l c bs.

  Lemma dec_many_consumes : forall d, (forall bs v rest al, d bs = (al, Ok (v, rest)) -> (length rest <= length bs)%nat) ->
    forall fuel n bs acc al al' v rest,
      dec_many d fuel n bs acc al = (al', Ok (v, rest)) -> (length rest <= length bs)%nat.
  Proof.
    intros d Hd fuel. induction fuel as [|f IH]; intros n bs acc al al' v rest H; cbn [dec_many] in H.
    - destruct (n =? 0)%N; inversion H; subst. lia.
    - destruct (n =? 0)%N; [inversion H; subst; lia|].
      destruct (d bs) as [a1 [[x r]|e]] eqn:E; [|discriminate].
      apply IH in H. apply Hd in E. lia.
  Qed.

  Lemma dec_consumes : forall l c bs v rest, wf F l c = true -> dec_L F l c bs = Ok (v, rest) ->
    (length rest + N.to_nat (minsz F l c) <= length bs)%nat.
  Proof.
    unfold dec_L.
    induction l as [| f p | a IHa b IHb | g a IHa b IHb | f a IHa b IHb | f o a IHa | f lim | p k | f p a IHa | k a IHa b IHb | ];
      intros c bs v rest W H; cbn [dec_T minsz wf] in *.
    - inversion H; subst. lia.
    - cbn [snd] in H. destruct (dec_prim F p bs) as [[a r]|e] eqn:E; [|discriminate]. inversion H; subst.
      apply (ok_prim_min F dom OK) in E. exact E.
    - apply andb_true_iff in W as [W Wb]. apply andb_true_iff in W as [Wa _].
      destruct (dec_T F a c bs) as [n1 [[x r1]|e]] eqn:Ea; [|discriminate H].
      destruct (dec_T F b c r1) as [n2 [[y r2]|e]] eqn:Eb; [|discriminate H].
      cbn [snd] in H. inversion H; subst.
      specialize (IHa c bs x r1 Wa). rewrite Ea in IHa. specialize (IHa eq_refl).
      specialize (IHb c r1 y rest Wb). rewrite Eb in IHb. specialize (IHb eq_refl). lia.
    - destruct (eval_guard g c); [eapply IHa | eapply IHb]; eassumption.
    - apply andb_true_iff in W as [Wa Wb].
      destruct (dec_flag F bs) as [[fl r0]|e] eqn:Ef; [|discriminate H].
      apply (ok_flag_min F dom OK) in Ef.
      destruct fl.
      + destruct (dec_T F a c r0) as [n1 [[x r1]|e]] eqn:Ea; [|discriminate H]. cbn [snd] in H. inversion H; subst.
        specialize (IHa c r0 x rest Wa). rewrite Ea in IHa. specialize (IHa eq_refl). lia.
      + destruct (dec_T F b c r0) as [n1 [[x r1]|e]] eqn:Eb; [|discriminate H]. cbn [snd] in H. inversion H; subst.
        specialize (IHb c r0 x rest Wb). rewrite Eb in IHb. specialize (IHb eq_refl). lia.
    - apply andb_true_iff in W as [W _]. apply andb_true_iff in W as [Wa _].
      destruct (dec_count F bs) as [[n r0]|e] eqn:Ec; [|discriminate H].
      apply (ok_count_min F dom OK) in Ec.
      destruct (n <? 0).
      + destruct (rneg o); [discriminate H|]. cbn [snd] in H. inversion H; subst. lia.
      + destruct (match rcap o with Some m => m <? n | None => false end); [discriminate H|].
        destruct (dec_many (dec_T F a c) (S (length r0)) (Z.to_N n) r0 [] (N.min (Z.to_N n) (rpre o))) as [al' r] eqn:Em.
        cbn [snd] in H. subst r.
        apply dec_many_consumes in Em.
        * lia.
        * intros bs0 v0 rest0 al0 E0. specialize (IHa c bs0 v0 rest0 Wa). rewrite E0 in IHa. specialize (IHa eq_refl). lia.
    - destruct (match lim with Some m => (m <? lenN bs)%N | None => false end); [discriminate H|].
      cbn [snd] in H. inversion H; subst. cbn. lia.
    - cbn [snd] in H. destruct (dec_prim F p bs) as [[a r]|e] eqn:E; [|discriminate]. inversion H; subst.
      apply (ok_prim_min F dom OK) in E. exact E.
    - destruct (dec_prim F p bs) as [[[z| |] r0]|e] eqn:E; try discriminate H.
      apply (ok_prim_min F dom OK) in E.
      destruct (dec_T F a (set_tag c z) r0) as [n [[x r1]|e]] eqn:Ea; [|discriminate H].
      cbn [snd] in H. inversion H; subst.
      specialize (IHa (set_tag c z) r0 x rest). rewrite wf_tag, minsz_tag, Ea in IHa. specialize (IHa W eq_refl). lia.
    - apply andb_true_iff in W as [Wa Wb].
      destruct (ctag c =? k); [specialize (IHa c bs v rest Wa H) | specialize (IHb c bs v rest Wb H)]; lia.
    - discriminate H.
  Qed.

  (* ---------- round trip ---------- *)
  Lemma enc_all_app_ok : forall f x r b1 b2, f x = Ok b1 -> enc_all f r = Ok b2 -> enc_all f (x :: r) = Ok (b1 ++ b2).
  Proof. intros f x r b1 b2 H1 H2. cbn [enc_all]. rewrite H1. cbn [bind]. rewrite H2. reflexivity. Qed.

  (* the loop decodes what enc_all wrote, provided each element round-trips with at least one byte *)
  Lemma dec_many_roundtrip : forall a c,
    (forall v rest, in_dom a c v -> exists bs, enc_L F a c v = Ok bs /\ dec_L F a c (bs ++ rest) = Ok (v, rest) /\ (1 <= length bs)%nat) ->
    forall vs rest acc al, Forall (in_dom a c) vs ->
      exists bs, enc_all (enc_L F a c) vs = Ok bs /\
        forall fuel, (length vs <= fuel)%nat ->
          snd (dec_many (dec_T F a c) fuel (N.of_nat (length vs)) (bs ++ rest) acc al) = Ok (VList (rev acc ++ vs), rest).
  Proof.
    intros a c Helem vs. induction vs as [|x r IH]; intros rest acc al HF.
    - exists []. split; [reflexivity|]. intros fuel _. destruct fuel; cbn [dec_many length N.of_nat N.eqb snd app]; rewrite app_nil_r; reflexivity.
    - inversion HF as [|? ? Hx Hr]; subst.
      destruct (IH rest (x :: acc) 0%N Hr) as [b2 [E2 D2]].
      destruct (Helem x (b2 ++ rest) Hx) as [b1 [E1 [D1 L1]]].
      exists (b1 ++ b2). split; [apply enc_all_app_ok; assumption|].
      intros fuel Hf. destruct fuel as [|f]; [cbn in Hf; lia|].
      cbn [dec_many].
      replace (N.of_nat (length (x :: r)) =? 0)%N with false by (symmetry; apply N.eqb_neq; cbn [length]; lia).
      rewrite <- app_assoc. unfold dec_L in D1.
      destruct (dec_T F a c (b1 ++ b2 ++ rest)) as [a1 r1]. cbn [snd] in D1. subst r1.
      replace (N.of_nat (length (x :: r)) - 1)%N with (N.of_nat (length r)) by (cbn [length]; lia).
      (* the accumulator al differs from the IH's 0: the outcome does not depend on it *)
      assert (Hal : forall d fuel n bs acc al1 al2,
                 snd (dec_many d fuel n bs acc al1) = snd (dec_many d fuel n bs acc al2)).
      { clear. intros d fuel. induction fuel as [|f IH]; intros n bs acc al1 al2; cbn [dec_many].
        - destruct (n =? 0)%N; reflexivity.
        - destruct (n =? 0)%N; [reflexivity|]. destruct (d bs) as [a1 [[v rest]|e]]; [apply IH | reflexivity]. }
      rewrite (Hal _ _ _ _ _ _ 0%N). rewrite D2 by (cbn [length] in Hf; lia).
      cbn [rev]. rewrite <- app_assoc. reflexivity.
  Qed.

  Theorem layout_roundtrip : forall l c v rest,
    wf F l c = true -> in_dom l c v -> (norest F l c = false -> rest = []) ->
    exists bs, enc_L F l c v = Ok bs /\ dec_L F l c (bs ++ rest) = Ok (v, rest).
  Proof.
    unfold dec_L.
    induction l as [| f p | a IHa b IHb | g a IHa b IHb | f a IHa b IHb | f o a IHa | f lim | p k | f p a IHa | k a IHa b IHb | ];
      intros c v rest W D R; cbn [wf in_dom norest] in *.
    - subst v. exists []. split; reflexivity.
    - destruct D as [a [-> Da]]. destruct (ok_prim_rt F dom OK p a rest Da) as [bs [E Dd]].
      exists bs. split; [exact E|]. cbn [dec_T snd]. rewrite Dd. reflexivity.
    - destruct D as [x [y [-> [Dx Dy]]]].
      apply andb_true_iff in W as [W Wb]. apply andb_true_iff in W as [Wa Na].
      assert (Rb : norest F b c = false -> rest = []).
      { intro Hb. apply R. rewrite Na, Hb. reflexivity. }
      destruct (IHb c y rest Wb Dy Rb) as [b2 [E2 D2]].
      destruct (IHa c x (b2 ++ rest) Wa Dx) as [b1 [E1 D1]].
      { rewrite Na. discriminate. }
      exists (b1 ++ b2). split.
      + cbn [enc_L]. rewrite E1. cbn [bind]. rewrite E2. reflexivity.
      + cbn [dec_T]. rewrite <- app_assoc.
        destruct (dec_T F a c (b1 ++ b2 ++ rest)) as [n1 r1]. cbn [snd] in D1. subst r1.
        destruct (dec_T F b c (b2 ++ rest)) as [n2 r2]. cbn [snd] in D2. subst r2. reflexivity.
    - cbn [enc_L dec_T]. destruct (eval_guard g c); [apply IHa | apply IHb]; assumption.
    - destruct D as [fl [x [-> Dx]]]. apply andb_true_iff in W as [Wa Wb].
      destruct fl.
      + destruct (IHa c x rest Wa Dx) as [bs [E Dd]].
        { intro Hn. apply R. rewrite Hn. reflexivity. }
        exists (enc_flag F true ++ bs). split; [cbn [enc_L]; rewrite E; reflexivity|].
        cbn [dec_T]. rewrite <- app_assoc, (ok_flag_rt F dom OK).
        destruct (dec_T F a c (bs ++ rest)) as [n r]. cbn [snd] in Dd. subst r. reflexivity.
      + destruct (IHb c x rest Wb Dx) as [bs [E Dd]].
        { intro Hn. apply R. rewrite Hn. apply andb_false_r. }
        exists (enc_flag F false ++ bs). split; [cbn [enc_L]; rewrite E; reflexivity|].
        cbn [dec_T]. rewrite <- app_assoc, (ok_flag_rt F dom OK).
        destruct (dec_T F b c (bs ++ rest)) as [n r]. cbn [snd] in Dd. subst r. reflexivity.
    - destruct D as [vs [-> [DF [Cn Cc]]]].
      apply andb_true_iff in W as [W Wm]. apply andb_true_iff in W as [Wa Na].
      assert (Helem : forall v rest0, in_dom a c v ->
                exists bs, enc_L F a c v = Ok bs /\ dec_L F a c (bs ++ rest0) = Ok (v, rest0) /\ (1 <= length bs)%nat).
      { intros v0 rest0 Dv. destruct (IHa c v0 rest0 Wa Dv) as [bs [E Dd]].
        { rewrite Na. discriminate. }
        exists bs. split; [exact E|]. split; [exact Dd|].
        pose proof (dec_consumes a c (bs ++ rest0) v0 rest0 Wa Dd) as Hc.
        rewrite app_length in Hc. apply N.leb_le in Wm. lia. }
      destruct (ok_count_rt F dom OK (Z.of_nat (length vs)) ) with (rest := @nil N) as [bc0 _]; [lia|].
      destruct (dec_many_roundtrip a c Helem vs rest [] (N.min (Z.to_N (Z.of_nat (length vs))) (rpre o)) DF) as [b2 [E2 D2]].
      destruct (ok_count_rt F dom OK (Z.of_nat (length vs)) (b2 ++ rest)) as [bc [Ec Dc]]; [lia|].
      exists (bc ++ b2). split.
      + cbn [enc_L]. rewrite Ec. cbn [bind]. rewrite E2. reflexivity.
      + cbn [dec_T]. rewrite <- app_assoc, Dc.
        replace (Z.of_nat (length vs) <? 0) with false by (symmetry; apply Z.ltb_ge; lia).
        replace (match rcap o with Some m => m <? Z.of_nat (length vs) | None => false end) with false.
        2:{ destruct (rcap o); [symmetry; apply Z.ltb_ge; lia | reflexivity]. }
        replace (Z.to_N (Z.of_nat (length vs))) with (N.of_nat (length vs)) in * by lia.
        rewrite D2; [reflexivity|].
        (* fuel: every element took at least one byte *)
        assert (Hlen : forall vs0 b0, Forall (in_dom a c) vs0 -> enc_all (enc_L F a c) vs0 = Ok b0 -> (length vs0 <= length b0)%nat).
        { clear - Helem. induction vs0 as [|x r IH]; intros b0 HF0 E0; [cbn; lia|].
          inversion HF0 as [|? ? Hx Hr]; subst.
          destruct (Helem x [] Hx) as [b1 [E1 [_ L1]]].
          cbn [enc_all] in E0. rewrite E1 in E0. cbn [bind] in E0.
          destruct (enc_all (enc_L F a c) r) as [b2|e] eqn:Er; [|discriminate]. cbn [bind] in E0. inversion E0; subst.
          specialize (IH b2 Hr eq_refl). rewrite app_length. cbn [length]. lia. }
        specialize (Hlen vs b2 DF E2). rewrite app_length. lia.
    - destruct D as [bs [-> Hl]]. rewrite (R eq_refl). exists bs. split; [reflexivity|].
      cbn [dec_T]. rewrite app_nil_r.
      replace (match lim with Some m => (m <? lenN bs)%N | None => false end) with false.
      2:{ destruct lim; [symmetry; apply N.ltb_ge; exact Hl | reflexivity]. }
      reflexivity.
    - destruct D as [-> Dk]. destruct (ok_prim_rt F dom OK p k rest Dk) as [bs [E Dd]].
      exists bs. split; [exact E|]. cbn [dec_T snd]. rewrite Dd. reflexivity.
    - destruct D as [z [x [-> [Dz Dx]]]].
      destruct (IHa (set_tag c z) x rest) as [b2 [E2 D2]]; [rewrite wf_tag; exact W | exact Dx | rewrite norest_tag; exact R |].
      destruct (ok_prim_rt F dom OK p (AZ z) (b2 ++ rest) Dz) as [b1 [E1 D1]].
      exists (b1 ++ b2). split.
      + cbn [enc_L]. rewrite E1. cbn [bind]. rewrite E2. reflexivity.
      + cbn [dec_T]. rewrite <- app_assoc, D1.
        destruct (dec_T F a (set_tag c z) (b2 ++ rest)) as [n r]. cbn [snd] in D2. subst r. reflexivity.
    - apply andb_true_iff in W as [Wa Wb]. cbn [enc_L dec_T].
      destruct (ctag c =? k).
      + apply IHa; [exact Wa | exact D |]. intro Hn. apply R. rewrite Hn. reflexivity.
      + apply IHb; [exact Wb | exact D |]. intro Hn. apply R. rewrite Hn. apply andb_false_r.
    - destruct D.
  Qed.

  (* Encode's layout and Decode's layout agree at c, Decode's is well formed: Decode inverts Encode on
     the whole domain of Decode's layout (its caps are what the protocol permits). *)
  Theorem pair_roundtrip : forall enc dec c v rest,
    layout_eqb_at F c enc dec = true -> wf F dec c = true ->
    in_dom dec c v -> (norest F dec c = false -> rest = []) ->
    exists bs, enc_L F enc c v = Ok bs /\ dec_L F dec c (bs ++ rest) = Ok (v, rest).
  Proof.
    intros enc dec c v rest He W D R.
    destruct (layout_roundtrip dec c v rest W D R) as [bs [E Dd]].
    exists bs. split; [|exact Dd]. rewrite (enc_eqb_at c enc dec He). exact E.
  Qed.
End Generic.
