(* C34 -- the float comparison of Account against the exact rational comparison.
   float64(total) / (float64(interval) * 1e-9) > float64(limit) is two roundings (the product with the
   binary64 constant 1e-9, the division) and an exact comparison.  Pure arithmetic over Q first (Sections
   Band and Far: any computed values within relative error u of the exact ones), then the bit-exact
   SpecFloat run of Model/Limiter.v, tied to the arithmetic by the decidable predicate float_run_ok. *)
From Coq Require Import List ZArith QArith Qabs Lqa Lia Bool Floats.SpecFloat.
From Verif Require Import Base.Hex Base.Ip Model.Limiter.
Import ListNotations.
Open Scope Q_scope.

Section Band.
Variables u c0 dl : Q.            (* unit roundoff, the exact constant (1e-9), relative error of its float *)
Hypothesis Hu : 0 < u /\ u < 1.
Hypothesis Hc0 : 0 < c0.
Hypothesis Hdl : 0 < dl /\ dl < u.
Let c := c0 * (1 + dl).           (* the binary64 constant actually used *)

Variables T iv L : Q.
Hypothesis HT : 0 <= T.
Hypothesis Hiv : 0 < iv.
Hypothesis HL : 0 < L.
Variables d q : Q.                (* computed product fl(iv * c) and computed quotient fl(T / d) *)
Let P := iv * c.
Hypothesis Hd : (1 - u) * P <= d /\ d <= (1 + u) * P.
Hypothesis Hq : (1 - u) * T <= q * d /\ q * d <= (1 + u) * T.

Lemma P_pos : 0 < P.
Proof.
  unfold P, c. destruct Hdl. assert (0 < 1 + dl) by lra.
  assert (0 < c0 * (1 + dl)) by (apply Qmult_lt_0_compat; assumption).
  apply Qmult_lt_0_compat; assumption.
Qed.

Lemma d_pos : 0 < d.
Proof.
  pose proof P_pos as HP. destruct Hd as [Hd1 _], Hu as [_ Hu1].
  assert (0 < (1 - u) * P) by (apply Qmult_lt_0_compat; [lra|exact HP]). lra.
Qed.

(* above the band both comparisons say "exceeds" *)
Lemma above_band : L * P * (1 + u) < T * (1 - u) -> L < q /\ L * iv * c0 < T.
Proof.
  intros A. pose proof P_pos as HP. pose proof d_pos as Hdp.
  destruct Hd as [Hd1 Hd2], Hq as [Hq1 Hq2], Hu as [Hu0 Hu1], Hdl as [Hl0 Hl1].
  assert (HLP : 0 < L * P) by (apply Qmult_lt_0_compat; assumption).
  split.
  - (* L d <= L P (1+u) < T (1-u) <= q d *)
    assert (H1 : L * d <= L * ((1 + u) * P)) by (apply Qmult_le_l; [exact HL|exact Hd2]).
    assert (H2 : L * d < q * d) by lra.
    apply Qnot_le_lt. intros Hc.
    assert (q * d <= L * d) by (apply Qmult_le_compat_r; [exact Hc|apply Qlt_le_weak; exact Hdp]). lra.
  - set (a := iv * c0). assert (Ha : 0 < a) by (apply Qmult_lt_0_compat; assumption).
    assert (E : P == a + a * dl) by (unfold P, c, a; ring).
    assert (HLa : 0 < L * a) by (apply Qmult_lt_0_compat; assumption).
    assert (HLad : 0 <= L * a * dl) by (apply Qmult_le_0_compat; lra).
    assert (HLPu : 0 <= L * P * u) by (apply Qmult_le_0_compat; lra).
    assert (HTu : 0 <= T * u) by (apply Qmult_le_0_compat; lra).
    assert (E2 : L * P == L * a + L * a * dl) by (rewrite E; ring).
    assert (E3 : L * iv * c0 == L * a) by (unfold a; ring).
    rewrite E3. lra.
Qed.

(* below the band both say "does not exceed" *)
Lemma below_band : T * (1 + u) <= L * P * (1 - u) -> ~ L < q /\ ~ L * iv * c0 < T.
Proof.
  intros B. pose proof P_pos as HP. pose proof d_pos as Hdp.
  destruct Hd as [Hd1 Hd2], Hq as [Hq1 Hq2], Hu as [Hu0 Hu1], Hdl as [Hl0 Hl1].
  split.
  - (* q d <= T (1+u) <= L P (1-u) <= L d *)
    assert (H1 : L * ((1 - u) * P) <= L * d) by (apply Qmult_le_l; [exact HL|exact Hd1]).
    assert (H2 : q * d <= L * d) by lra.
    intros Hc. assert (L * d < q * d) by (apply Qmult_lt_compat_r; assumption). lra.
  - set (a := iv * c0). assert (Ha : 0 < a) by (apply Qmult_lt_0_compat; assumption).
    assert (HLa : 0 < L * a) by (apply Qmult_lt_0_compat; assumption).
    assert (E3 : L * iv * c0 == L * a) by (unfold a; ring). rewrite E3.
    assert (E2 : L * P * (1 - u) == L * a * ((1 + dl) * (1 - u))) by (unfold P, c, a; ring).
    assert (K : (1 + dl) * (1 - u) <= 1 + u).
    { assert (0 <= dl * u) by (apply Qmult_le_0_compat; lra).
      assert (Ek : (1 + dl) * (1 - u) == 1 + dl - u - dl * u) by ring. rewrite Ek. lra. }
    assert (H3 : L * a * ((1 + dl) * (1 - u)) <= L * a * (1 + u)) by (apply Qmult_le_l; [exact HLa|exact K]).
    assert (H4 : T * (1 + u) <= L * a * (1 + u)) by lra.
    intros Hc.
    assert (L * a * (1 + u) < T * (1 + u)) by (apply Qmult_lt_compat_r; [lra|exact Hc]). lra.
Qed.
End Band.

Section Far.
Variables u dl a T : Q.
Hypothesis Hu : 0 < u /\ u <= 1 # 5.
Hypothesis Hdl : 0 < dl /\ dl < u.
Hypothesis Ha : 0 < a.

Lemma poly_above : (1 + dl) * (1 + u) < (1 + 4 * u) * (1 - u).
Proof. destruct Hu, Hdl. nra. Qed.

Lemma poly_below : (1 - 4 * u) * (1 + u) <= (1 + dl) * (1 - u).
Proof. destruct Hu, Hdl. nra. Qed.

Lemma far_above : a * (1 + 4 * u) < T -> a * (1 + dl) * (1 + u) < T * (1 - u).
Proof.
  intros H. destruct Hu as [Hu0 Hu1].
  assert (H1 : a * (1 + 4 * u) * (1 - u) < T * (1 - u)) by (apply Qmult_lt_compat_r; [lra|exact H]).
  assert (H2 : a * ((1 + dl) * (1 + u)) < a * ((1 + 4 * u) * (1 - u))) by (apply Qmult_lt_l; [exact Ha|apply poly_above]).
  assert (E1 : a * (1 + dl) * (1 + u) == a * ((1 + dl) * (1 + u))) by ring.
  assert (E2 : a * (1 + 4 * u) * (1 - u) == a * ((1 + 4 * u) * (1 - u))) by ring.
  rewrite E1. rewrite E2 in H1. lra.
Qed.

Lemma far_below : T < a * (1 - 4 * u) -> T * (1 + u) <= a * (1 + dl) * (1 - u).
Proof.
  intros H. destruct Hu as [Hu0 Hu1].
  assert (H1 : T * (1 + u) < a * (1 - 4 * u) * (1 + u)) by (apply Qmult_lt_compat_r; [lra|exact H]).
  assert (H2 : a * ((1 - 4 * u) * (1 + u)) <= a * ((1 + dl) * (1 - u))) by (apply Qmult_le_l; [exact Ha|apply poly_below]).
  assert (E1 : a * (1 + dl) * (1 - u) == a * ((1 + dl) * (1 - u))) by ring.
  assert (E2 : a * (1 - 4 * u) * (1 + u) == a * ((1 - 4 * u) * (1 + u))) by ring.
  rewrite E1. rewrite E2 in H1. lra.
Qed.
End Far.

(* ---------- the bit-exact run, through the rationals its floats denote ---------- *)

Lemma f_params : (0 < f_u /\ f_u < 1) /\ 0 < f_c0 /\ (0 < f_dl /\ f_dl < f_u).
Proof. unfold f_u, f_c0, f_dl. repeat split; reflexivity. Qed.

Lemma qltb_lt a b : qltb a b = true <-> a < b.
Proof.
  unfold qltb. rewrite negb_true_iff. split.
  - intros H. apply Qnot_le_lt. intros Hc. apply Qle_bool_iff in Hc. congruence.
  - intros H. destruct (Qle_bool b a) eqn:E; [|reflexivity]. apply Qle_bool_iff in E. apply Qlt_not_le in H. contradiction.
Qed.

Lemma exceeds_exact_Q tot iv limit :
  exceeds_exact tot iv limit = true <-> inject_Z limit * inject_Z iv * f_c0 < inject_Z tot.
Proof.
  unfold exceeds_exact, f_c0. rewrite Z.ltb_lt. unfold Qlt, Qmult, inject_Z. cbn [Qnum Qden].
  rewrite !Pos.mul_1_l, !Z.mul_1_r. reflexivity.
Qed.

(* Outside the band the float comparison Account makes decides like the exact rational comparison,
   for every run that obeys the standard model (float_run_ok). *)
Theorem float_decision_exact_outside_band tot iv limit :
  (0 <= tot)%Z -> (0 < iv)%Z -> (0 < limit)%Z ->
  float_run_ok tot iv limit = true -> outside_band tot iv limit = true ->
  exceeds_float tot iv limit = exceeds_exact tot iv limit.
Proof.
  intros Ht Hiv Hl Hok Hband. unfold float_run_ok in Hok. unfold exceeds_float.
  destruct (sf_val (f64_of_int tot)) as [vt|]; [|discriminate].
  destruct (sf_val (f64_of_int iv)) as [vi|]; [|discriminate].
  destruct (sf_val (f64_of_int limit)) as [vl|]; [|discriminate].
  destruct (sf_val (SFmul 53 1024 (f64_of_int iv) f64_1e_9)) as [d|]; [|discriminate].
  destruct (sf_val (SFdiv 53 1024 (f64_of_int tot) (SFmul 53 1024 (f64_of_int iv) f64_1e_9))) as [q|]; [|discriminate].
  cbv zeta in Hok.
  apply andb_true_iff in Hok. destruct Hok as [Hok Hc].
  apply andb_true_iff in Hok. destruct Hok as [Hok Hq2].
  apply andb_true_iff in Hok. destruct Hok as [Hok Hq1].
  apply andb_true_iff in Hok. destruct Hok as [Hok Hd2].
  apply andb_true_iff in Hok. destruct Hok as [Hok Hd1].
  apply andb_true_iff in Hok. destruct Hok as [Hok Hvl].
  apply andb_true_iff in Hok. destruct Hok as [Hvt Hvi].
  destruct (SFcompare _ _) as [cmp|]; [|discriminate].
  apply Qle_bool_iff in Hq2, Hq1, Hd2, Hd1. apply Qeq_bool_iff in Hvl.
  destruct f_params as [Hu [Hc0 Hdl]].
  assert (HT : 0 <= inject_Z tot) by (change 0 with (inject_Z 0); rewrite <- Zle_Qle; exact Ht).
  assert (HI : 0 < inject_Z iv) by (change 0 with (inject_Z 0); rewrite <- Zlt_Qlt; exact Hiv).
  assert (HL : 0 < inject_Z limit) by (change 0 with (inject_Z 0); rewrite <- Zlt_Qlt; exact Hl).
  assert (Hcmp : cmp = (q ?= inject_Z limit)).
  { rewrite <- Hvl. destruct cmp, (q ?= vl); try discriminate Hc; reflexivity. }
  unfold outside_band in Hband. cbv zeta in Hband. apply orb_true_iff in Hband.
  destruct Hband as [A|B].
  - apply qltb_lt in A.
    destruct (above_band f_u f_c0 f_dl Hu Hc0 Hdl (inject_Z tot) (inject_Z iv) (inject_Z limit) HT HI HL d q
                (conj Hd1 Hd2) (conj Hq1 Hq2) A) as [G1 G2].
    apply Qgt_alt in G1. rewrite <- Hcmp in G1. rewrite G1.
    symmetry. apply exceeds_exact_Q. exact G2.
  - apply Qle_bool_iff in B.
    destruct (below_band f_u f_c0 f_dl Hu Hc0 Hdl (inject_Z tot) (inject_Z iv) (inject_Z limit) HI HL d q
                (conj Hd1 Hd2) (conj Hq1 Hq2) B) as [G1 G2].
    assert (E1 : match cmp with Gt => true | _ => false end = false).
    { destruct cmp; try reflexivity. exfalso. apply G1. apply Qgt_alt. rewrite <- Hcmp. reflexivity. }
    rewrite E1. symmetry. destruct (exceeds_exact tot iv limit) eqn:E; [|reflexivity].
    exfalso. apply G2. apply exceeds_exact_Q. exact E.
Qed.

(* the simpler distance condition |T*10^9 - L*iv| * 2^51 > L*iv implies "outside the band" *)
Theorem far_from_equality_outside_band tot iv limit :
  (0 < iv)%Z -> (0 < limit)%Z ->
  far_from_equality tot iv limit = true -> outside_band tot iv limit = true.
Proof.
  intros Hiv Hl H. unfold far_from_equality in H. apply Z.ltb_lt in H.
  unfold outside_band. cbv zeta. apply orb_true_iff.
  set (a := inject_Z limit * inject_Z iv * f_c0).
  assert (Ha : 0 < a).
  { unfold a, f_c0. unfold Qlt, Qmult, inject_Z. cbn [Qnum Qden]. nia. }
  assert (Hu : 0 < f_u /\ f_u <= 1 # 5) by (unfold f_u; split; [reflexivity|discriminate]).
  assert (Hdl : 0 < f_dl /\ f_dl < f_u) by (unfold f_dl, f_u; split; reflexivity).
  assert (EP : inject_Z limit * (inject_Z iv * f_c) == a * (1 + f_dl)) by (unfold a, f_c; ring).
  destruct (Z.le_gt_cases (limit * iv) (tot * 1000000000)) as [Hge|Hlt].
  - left. apply qltb_lt. rewrite Z.abs_eq in H by lia. rewrite EP.
    apply (far_above f_u f_dl a (inject_Z tot) Hu Hdl Ha).
    unfold a, f_c0, f_u. unfold Qlt, Qmult, Qplus, inject_Z. cbn [Qnum Qden].
    change (2 ^ 51)%Z with 2251799813685248%Z in H.
    change (Z.pos (2 ^ 53)) with 9007199254740992%Z.
    change (Z.pos (1 * 1 * 1000000000 * (1 * 2 ^ 53))) with 9007199254740992000000000%Z.
    lia.
  - right. apply Qle_bool_iff. rewrite Z.abs_neq in H by lia. rewrite EP.
    apply (far_below f_u f_dl a (inject_Z tot) Hu Hdl Ha).
    assert (E4 : 1 - 4 * f_u == 2251799813685247 # 2251799813685248) by reflexivity. rewrite E4.
    unfold a, f_c0. unfold Qlt, Qmult, inject_Z. cbn [Qnum Qden].
    change (2 ^ 51)%Z with 2251799813685248%Z in H.
    match goal with |- context [Z.pos ?p] => let c := eval vm_compute in (Z.pos p) in change (Z.pos p) with c end.
    lia.
Qed.

(* ---------- where the standard model has been checked bit by bit ---------- *)
Open Scope Z_scope.

Definition run_ok_table : bool :=
  forallb (fun iv => forallb (fun limit =>
     let t := limit * iv / 1000000000 in
     forallb (fun tot => float_run_ok tot iv limit) [Z.max 0 (t - 2); Z.max 0 (t - 1); t; t + 1; t + 2; 0; 2 * t + 1])
     [1; 5; 13; 500; 977; 65536; 1048576; 2147483647])
     [1000000; 100000000; 1000000000; 1234000000; 7000000000; 15000000000; 60000000000; 3600000000000].

(* the standard model holds on a table of runs around the threshold (windows 1 ms .. 1 h) *)
Lemma float_run_ok_table : run_ok_table = true.
Proof. vm_compute. reflexivity. Qed.

(* default configuration 7 s / 500 packets per second; threshold 3500 *)
Example float_default_far_from_band :
  float_run_ok 100 7000000000 500 = true /\ far_from_equality 100 7000000000 500 = true /\
  outside_band 100 7000000000 500 = true /\
  exceeds_float 100 7000000000 500 = exceeds_exact 100 7000000000 500 /\
  float_run_ok 3501 7000000000 500 = true /\ outside_band 3501 7000000000 500 = true /\
  exceeds_float 3501 7000000000 500 = true.
Proof.
  assert (R1 : float_run_ok 100 7000000000 500 = true) by (vm_compute; reflexivity).
  assert (F1 : far_from_equality 100 7000000000 500 = true) by (vm_compute; reflexivity).
  pose proof (far_from_equality_outside_band 100 7000000000 500 ltac:(lia) ltac:(lia) F1) as O1.
  split; [exact R1|]. split; [exact F1|]. split; [exact O1|].
  split; [apply float_decision_exact_outside_band; try lia; assumption|].
  repeat split; vm_compute; reflexivity.
Qed.

(* exactly at the threshold the total is inside the band: the theorem is silent there and the
   bit-exact model decides (here: not exceeded, as the exact comparison says) *)
Example float_default_inside_band :
  float_run_ok 3500 7000000000 500 = true /\ outside_band 3500 7000000000 500 = false /\
  exceeds_float 3500 7000000000 500 = false /\ exceeds_exact 3500 7000000000 500 = false.
Proof. repeat split; vm_compute; reflexivity. Qed.
