(* C20 — Paper-side reading of the forwarding body (round trip through Model/Prim readers). *)
From Coq Require Import List NArith ZArith Bool Lia.
From Verif Require Import Base.Hex Base.Sha256 Base.Hmac Model.Prim Model.Forwarding
  Proofs.C03_Lib Proofs.C03_Bytes Proofs.C03 Proofs.C20.
Import ListNotations.
Open Scope Z_scope.

Lemma bind_ok {A B} (a : A) r (k : A -> bytes -> res (B * bytes)) : bind (Ok (a, r)) k = k a r.
Proof. reflexivity. Qed.

Lemma key_part_1 k : key_part 1 k = Some [].
Proof. reflexivity. Qed.
Lemma key_part_4 k : key_part 4 k = Some [].
Proof. reflexivity. Qed.
Lemma key_part_2 d : key_part 2 (Some d)
  = Some (write_int 8 (k_expiry d) ++ write_bytes (k_pub d) ++ write_bytes (k_sig d) ++ []).
Proof. reflexivity. Qed.
Lemma key_part_3 d : key_part 3 (Some d)
  = Some (write_int 8 (k_expiry d) ++ write_bytes (k_pub d) ++ write_bytes (k_sig d)
          ++ match k_holder d with Some h => write_bool true ++ write_uuid h | None => write_bool false end).
Proof. reflexivity. Qed.
Lemma key_part_none_23 v : v = 2 \/ v = 3 -> key_part v None = None.
Proof. intros [-> | ->]; reflexivity. Qed.

Lemma some_inj {A} (x y : A) : Some x = Some y -> x = y.
Proof. congruence. Qed.

Ltac step_ok := rewrite bind_ok; cbv beta.

Theorem parse_thm v i b :
  dom_input i -> 1 <= v <= 4 ->
  body_of_version v i = Some b ->
  paper_parse b = Ok (expected_parsed v i, []).
Proof.
  intros (Ha & Hu & Hn & Hp & Hk) Hv Hb.
  unfold body_of_version in Hb.
  destruct (key_part v (f_key i)) as [kp|] eqn:Ekp; [|discriminate].
  apply some_inj in Hb. rewrite <- Hb. clear Hb b.
  unfold paper_parse.
  rewrite roundtrip_varint by lia. step_ok.
  assert (Emax : (paper_max_version <? v) = false) by (apply Z.ltb_ge; unfold paper_max_version; lia).
  rewrite Emax.
  rewrite rt_string by (try exact Ha; lia). step_ok.
  rewrite (roundtrip_uuid _ _ Hu). step_ok.
  rewrite rt_string by (try exact Hn; lia). step_ok.
  rewrite (roundtrip_properties _ _ Hp). step_ok.
  unfold expected_parsed.
  assert (Hcases : v = 1 \/ v = 2 \/ v = 3 \/ v = 4) by lia.
  destruct Hcases as [-> | [-> | [-> | ->]]].
  - rewrite key_part_1 in Ekp. apply some_inj in Ekp. rewrite <- Ekp. clear Ekp kp. reflexivity.
  - destruct (f_key i) as [d|]; [|rewrite key_part_none_23 in Ekp by auto; discriminate].
    rewrite key_part_2 in Ekp. apply some_inj in Ekp. rewrite <- Ekp. clear Ekp kp.
    destruct Hk as (He & Hpub & Hsig & _).
    change ((2 =? 2) || (2 =? 3)) with true. cbv iota.
    rewrite (rt_int8 _ _ He). step_ok.
    rewrite rt_bytes by (try exact Hpub; lia). step_ok.
    rewrite rt_bytes by (try exact Hsig; lia). step_ok.
    reflexivity.
  - destruct (f_key i) as [d|]; [|rewrite key_part_none_23 in Ekp by auto; discriminate].
    rewrite key_part_3 in Ekp. apply some_inj in Ekp. rewrite <- Ekp. clear Ekp kp.
    destruct Hk as (He & Hpub & Hsig & Hh).
    change ((3 =? 2) || (3 =? 3)) with true. cbv iota.
    rewrite (rt_int8 _ _ He). step_ok.
    rewrite rt_bytes by (try exact Hpub; lia). step_ok.
    rewrite rt_bytes by (try exact Hsig; lia). step_ok.
    change (3 =? 3) with true. cbv iota.
    destruct (k_holder d) as [h|].
    + rewrite (roundtrip_bool true _ I). step_ok. cbv iota.
      rewrite <- (app_nil_r (write_uuid h)). rewrite (roundtrip_uuid _ _ Hh). step_ok. reflexivity.
    + rewrite <- (app_nil_r (write_bool false)). rewrite (roundtrip_bool false _ I). step_ok. reflexivity.
  - rewrite key_part_4 in Ekp. apply some_inj in Ekp. rewrite <- Ekp. clear Ekp kp. reflexivity.
Qed.


(* the payload CreateForwardingData builds, read the Paper way *)
Theorem parse_body_thm requested i b :
  dom_input i ->
  body requested i = Some b ->
  paper_parse b = Ok (expected_parsed (find_version requested (f_protocol i) (kind_of (f_key i))) i, []).
Proof.
  intros Hd Hb. apply parse_thm; [exact Hd | apply version_range | exact Hb].
Qed.

(* request level: the code's answer is the demanded one, for every request *)
Theorem answer_impl_is_spec data i :
  Forall (fun b => (b < 256)%N) data ->
  impl_forwarding_data data i = spec_forwarding_data data i.
Proof.
  intro Hwf. unfold impl_forwarding_data, spec_forwarding_data, forwarding_data, body.
  rewrite (choice_impl_is_spec data _ _ Hwf). reflexivity.
Qed.

(* PRE-fix code: equal to the demanded answer off the trigger *)
Theorem prefix_eq_spec_off_trigger data i :
  Forall (fun b => (b < 256)%N) data ->
  trigger_unsigned data (f_protocol i) (kind_of (f_key i)) = false ->
  prefix_forwarding_data data i = spec_forwarding_data data i.
Proof.
  intros Hwf Ht. unfold prefix_forwarding_data, spec_forwarding_data, forwarding_data, body.
  rewrite (prefix_choice_off_trigger data _ _ Hwf Ht). reflexivity.
Qed.

(* the demanded answer: authentic, and Paper reads back Velocity's version and the player data *)
Theorem spec_answer_thm data i d :
  dom_input i ->
  spec_forwarding_data data i = Some d ->
  paper_check_integrity (f_secret i) d = true /\
  paper_parse (skipn 32 d)
  = Ok (expected_parsed (velocity_choice (requested_of_data spec_requested data) (f_protocol i)
                                         (kind_of (f_key i))) i, []).
Proof.
  intros Hd H. unfold spec_forwarding_data in H.
  set (v := velocity_choice (requested_of_data spec_requested data) (f_protocol i) (kind_of (f_key i))) in *.
  destruct (body_of_version v i) as [b|] eqn:Eb; [|discriminate].
  apply some_inj in H. subst d.
  pose proof (hmac_sha256_length (f_secret i) b) as Hl.
  split.
  - unfold paper_check_integrity. rewrite (firstn_app_len _ _ _ Hl), (skipn_app_len _ _ _ Hl).
    rewrite beq_bytes_refl, andb_true_r. apply Nat.leb_le. rewrite app_length, Hl. lia.
  - rewrite (skipn_app_len _ _ _ Hl). apply parse_thm; [exact Hd | | exact Eb].
    unfold v. rewrite <- version_eq. apply version_range.
Qed.

(* the code's answer to a request: authentic, Velocity's version, the player's data *)
Theorem impl_answer_thm data i d :
  Forall (fun b => (b < 256)%N) data ->
  dom_input i ->
  impl_forwarding_data data i = Some d ->
  paper_check_integrity (f_secret i) d = true /\
  paper_parse (skipn 32 d)
  = Ok (expected_parsed (velocity_choice (requested_of_data spec_requested data) (f_protocol i)
                                         (kind_of (f_key i))) i, []).
Proof.
  intros Hwf Hd H. rewrite (answer_impl_is_spec data i Hwf) in H. exact (spec_answer_thm data i d Hd H).
Qed.

(* non-vacuity: a 1.19.1 player with a LinkedV2 key and a signed textures property, backend asks for 3 *)
Example parse_nonvacuous :
  let key := mkKey KV2 1700000000000 [1%N;2%N;3%N] [4%N;5%N] (Some (repeat 7%N 16)) in
  let i := mkIn [115%N] [49%N;46%N;50%N] 760 (repeat 9%N 16) [80%N;108%N]
                [([116%N], ([118%N;0%N], [115%N]))] (Some key) in
  find_version 3 760 KV2 = 3 /\
  match forwarding_data 3 i with
  | Some d => paper_check_integrity [115%N] d = true /\
              (match paper_parse (skipn 32 d) with Ok (p, []) => pr_version p =? 3 | _ => false end) = true
  | None => False
  end.
Proof. vm_compute. repeat split; reflexivity. Qed.
