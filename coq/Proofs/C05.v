(* C05 - closed theorems for the decoders of every fragment type (Gen/PacketLayouts.v). *)
From Coq Require Import List NArith ZArith String Bool Lia.
From Verif Require Import Base.Hex Model.Layout Model.LayoutPrims Gen.PacketLayouts
  Proofs.C04_layout Proofs.C04_prims Proofs.GenLemmas Proofs.C05_layout Proofs.C05_prims.
Import ListNotations.
Open Scope N_scope.

(* obligation on the regenerated translation: every fragment decoder's layout is well formed at every registered
   context (io.ReadAll only in tail position, every counted loop's body consumes at least one byte) *)
Definition wf_entry (e : entry) : bool :=
  match e with
  | Fragment _ _ dec ctxs => forallb (wf LP dec) ctxs
  | Opaque _ _ _ => true
  end.
Definition not_wf : list string := map entry_name (filter (fun e => negb (wf_entry e)) packets).
Theorem C05_wf : not_wf = [].
Proof. vm_compute. reflexivity. Qed.

Lemma fragment_wf : forall name enc dec ctxs, In (Fragment name enc dec ctxs) packets ->
  forall c, In c ctxs -> wf LP dec c = true.
Proof.
  intros name enc dec ctxs He c Hc.
  pose proof C05_wf as H. unfold not_wf in H. apply map_eq_nil in H.
  pose proof (filter_nil _ _ H _ He) as Hf. apply negb_false_iff in Hf. cbn [wf_entry] in Hf.
  rewrite forallb_forall in Hf. exact (Hf c Hc).
Qed.

Theorem C05_terminates_lemma : forall name enc dec ctxs, In (Fragment name enc dec ctxs) packets ->
  forall c, In c ctxs -> forall bs, dec_L LP dec c bs <> Err EFuel.
Proof.
  intros name enc dec ctxs He c Hc bs.
  exact (dec_T_terminates LP lp_dom lp_ka lp_ok lp_alloc_ok dec c bs (fragment_wf _ _ _ _ He c Hc)).
Qed.

Theorem C05_alloc_lemma : forall name enc dec ctxs, In (Fragment name enc dec ctxs) packets ->
  forall c, In c ctxs -> forall bs,
    alloc_L LP dec c bs <= kcost LP lp_ka dec c * lenN bs + ucost LP dec c.
Proof.
  intros name enc dec ctxs He c Hc bs.
  exact (dec_T_alloc LP lp_dom lp_ka lp_ok lp_alloc_ok dec c bs (fragment_wf _ _ _ _ He c Hc)).
Qed.

(* the constants are small: the largest kcost / ucost over all fragment types and registered contexts *)
Definition max_over (f : L -> ctx -> N) : N :=
  fold_left N.max
    (flat_map (fun e => match e with
                        | Fragment _ _ dec ctxs => map (f dec) ctxs
                        | Opaque _ _ _ => []
                        end) packets) 0.

Definition max_kcost : N := max_over (kcost LP lp_ka).
Definition max_ucost : N := max_over (ucost LP).

Lemma fold_max_ge : forall l a x, In x l -> x <= fold_left N.max l a.
Proof.
  induction l as [|y r IH]; intros a x H; [destruct H|]. cbn [fold_left].
  destruct H as [->|H]; [|apply IH; exact H].
  clear IH. revert a. induction r as [|z r IH2]; intro a; cbn [fold_left]; [lia|].
  eapply N.le_trans; [apply (IH2 a)|]. clear. revert a.
  assert (M : forall l a b, a <= b -> fold_left N.max l a <= fold_left N.max l b).
  { induction l as [|w l IHl]; intros a b Hab; cbn [fold_left]; [exact Hab|]. apply IHl. lia. }
  intro a. apply M. lia.
Qed.

Lemma max_over_ge f : forall name enc dec ctxs, In (Fragment name enc dec ctxs) packets ->
  forall c, In c ctxs -> f dec c <= max_over f.
Proof.
  intros name enc dec ctxs He c Hc. unfold max_over. apply fold_max_ge.
  apply in_flat_map. exists (Fragment name enc dec ctxs). split; [exact He|]. apply in_map. exact Hc.
Qed.

(* one pair of constants for all fragment decoders *)
Theorem C05_alloc_uniform_lemma : forall name enc dec ctxs, In (Fragment name enc dec ctxs) packets ->
  forall c, In c ctxs -> forall bs,
    alloc_L LP dec c bs <= max_kcost * lenN bs + max_ucost.
Proof.
  intros name enc dec ctxs He c Hc bs.
  pose proof (C05_alloc_lemma name enc dec ctxs He c Hc bs) as H.
  pose proof (max_over_ge (kcost LP lp_ka) name enc dec ctxs He c Hc) as HK.
  pose proof (max_over_ge (ucost LP) name enc dec ctxs He c Hc) as HU.
  unfold max_kcost, max_ucost. nia.
Qed.

Definition constants : N * N := Eval vm_compute in (max_kcost, max_ucost).
Lemma constants_eq : (max_kcost, max_ucost) = constants.
Proof. vm_compute. reflexivity. Qed.
