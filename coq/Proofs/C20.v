(* C20 — proofs about Model/Forwarding.v. *)
From Coq Require Import List NArith ZArith Bool Lia.
From Verif Require Import Base.Hex Base.Sha256 Base.Hmac Model.Prim Model.Forwarding
  Proofs.C03_Lib Proofs.C03_Bytes Proofs.C03.
Import ListNotations.
Open Scope Z_scope.

Ltac split_cmp :=
  repeat match goal with
  | |- context [?a <? ?b] => destruct (Z.ltb_spec a b)
  | |- context [?a <=? ?b] => destruct (Z.leb_spec a b)
  | |- context [?a =? ?b] => destruct (Z.eqb_spec a b)
  end.

(* ---------- version negotiation ---------- *)

Theorem version_eq r p k : find_version r p k = velocity_choice r p k.
Proof.
  unfold find_version, velocity_choice, v_default, v_with_key, v_with_key_v2, v_lazy_session, p_1_19_3.
  destruct (Z.min_spec r 4) as [[H ->]|[H ->]]; destruct k; split_cmp; try reflexivity; try lia.
Qed.

Lemma version_range r p k : 1 <= find_version r p k <= 4.
Proof.
  rewrite version_eq. unfold velocity_choice. destruct k; split_cmp; lia.
Qed.

Lemma version_key r p k : 2 <= find_version r p k < 4 -> k = KV1 \/ k = KV2.
Proof.
  rewrite version_eq. unfold velocity_choice. destruct k; split_cmp; intros; try lia; auto.
Qed.

(* today's reading of the request byte (int(int8(b))) is Velocity's (readByte), for every byte *)
Lemma requested_impl_is_spec b : (b < 256)%N -> impl_requested b = spec_requested b.
Proof.
  intro H. unfold impl_requested, spec_requested. rewrite (N.mod_small b 256 H).
  destruct (N.ltb_spec b 128) as [Hlt|Hge].
  - assert (E : (128 <=? b)%N = false) by (apply N.leb_gt; exact Hlt). rewrite E. reflexivity.
  - assert (E : (128 <=? b)%N = true) by (apply N.leb_le; exact Hge). rewrite E. reflexivity.
Qed.

(* the code as it is now chooses what Velocity chooses, for every request *)
Theorem choice_impl_is_spec data p k :
  Forall (fun b => (b < 256)%N) data ->
  find_version (requested_of_data impl_requested data) p k
  = velocity_choice (requested_of_data spec_requested data) p k.
Proof.
  intro Hwf. rewrite version_eq.
  destruct data as [|b [|c r]]; try reflexivity.
  inversion Hwf as [|b' l Hb _]; subst. cbn [requested_of_data].
  rewrite (requested_impl_is_spec b Hb). reflexivity.
Qed.

(* ---- facts about the PRE-fix code (prefix_requested, before commit 63b6e75; finding C20-1) ---- *)

Lemma prefix_requested_small b : (b < 128)%N -> prefix_requested b = spec_requested b.
Proof.
  intro H. unfold prefix_requested, spec_requested.
  assert (E : (b <? 128)%N = true) by (apply N.ltb_lt; exact H). rewrite E. reflexivity.
Qed.

(* off the trigger the pre-fix code chose what Velocity chooses *)
Theorem prefix_choice_off_trigger data p k :
  Forall (fun b => (b < 256)%N) data ->
  trigger_unsigned data p k = false ->
  find_version (requested_of_data prefix_requested data) p k
  = velocity_choice (requested_of_data spec_requested data) p k.
Proof.
  intros Hwf Ht. rewrite version_eq.
  destruct data as [|b [|c r]]; try reflexivity.
  inversion Hwf as [|b' l Hb _]; subst. cbn [requested_of_data].
  unfold trigger_unsigned in Ht. unfold prefix_requested, spec_requested.
  destruct (N.ltb_spec b 128) as [Hlt|Hge]; [reflexivity|].
  assert (E : (128 <=? b)%N = true) by (apply N.leb_le; exact Hge).
  rewrite E in Ht. cbn [andb] in Ht.
  unfold velocity_choice, p_1_19_3 in *.
  destruct (761 <=? p) eqn:Ep; [discriminate|]. cbn [orb] in Ht.
  destruct k; try discriminate; split_cmp; try reflexivity; lia.
Qed.

(* on the trigger they always differed *)
Theorem prefix_choice_on_trigger data p k :
  Forall (fun b => (b < 256)%N) data ->
  trigger_unsigned data p k = true ->
  find_version (requested_of_data prefix_requested data) p k
  <> velocity_choice (requested_of_data spec_requested data) p k.
Proof.
  intros Hwf Ht. rewrite version_eq.
  destruct data as [|b [|c r]]; try discriminate.
  inversion Hwf as [|b' l Hb _]; subst. cbn [requested_of_data].
  unfold trigger_unsigned in Ht. apply andb_true_iff in Ht. destruct Ht as [Hb128 Hk].
  apply N.leb_le in Hb128.
  unfold prefix_requested, spec_requested.
  assert (E : (b <? 128)%N = false) by (apply N.ltb_ge; exact Hb128). rewrite E.
  unfold velocity_choice, p_1_19_3 in *.
  destruct (761 <=? p) eqn:Ep.
  - split_cmp; lia.
  - cbn [orb] in Hk. destruct k; try discriminate; split_cmp; lia.
Qed.

Theorem prefix_unsigned_refuted :
  trigger_unsigned [128%N] 761 KNone = true /\
  find_version (requested_of_data prefix_requested [128%N]) 761 KNone = 4 /\
  velocity_choice (requested_of_data spec_requested [128%N]) 761 KNone = 1 /\
  find_version (requested_of_data impl_requested [128%N]) 761 KNone = 1.
Proof. repeat split; reflexivity. Qed.

(* ---------- the MAC ---------- *)

Lemma firstn_app_len {A} (a b : list A) n : length a = n -> firstn n (a ++ b) = a.
Proof. intros <-. induction a; simpl; [destruct b; reflexivity | f_equal; assumption]. Qed.
Lemma skipn_app_len {A} (a b : list A) n : length a = n -> skipn n (a ++ b) = b.
Proof. intros <-. induction a; simpl; [reflexivity | assumption]. Qed.

Lemma beq_bytes_refl a : beq_bytes a a = true.
Proof. apply beq_bytes_eq. reflexivity. Qed.

Theorem mac_thm requested i d :
  forwarding_data requested i = Some d ->
  exists b, body requested i = Some b /\
            d = hmac_sha256 (f_secret i) b ++ b /\
            firstn 32 d = hmac_sha256 (f_secret i) (skipn 32 d) /\
            paper_check_integrity (f_secret i) d = true.
Proof.
  unfold forwarding_data. destruct (body requested i) as [b|]; [|discriminate].
  intro H. inversion H; subst. exists b. split; [reflexivity|]. split; [reflexivity|].
  pose proof (hmac_sha256_length (f_secret i) b) as Hl.
  rewrite (firstn_app_len _ _ _ Hl), (skipn_app_len _ _ _ Hl). split; [reflexivity|].
  unfold paper_check_integrity. rewrite (firstn_app_len _ _ _ Hl), (skipn_app_len _ _ _ Hl).
  rewrite beq_bytes_refl, andb_true_r. apply Nat.leb_le. rewrite app_length, Hl. lia.
Qed.

(* ---------- no "key missing" error ---------- *)

Theorem body_total requested i : exists b, body requested i = Some b.
Proof.
  unfold body, body_of_version, key_part.
  set (v := find_version requested (f_protocol i) (kind_of (f_key i))).
  destruct ((v_with_key <=? v) && (v <? v_lazy_session)) eqn:E; [|eexists; reflexivity].
  apply andb_true_iff in E. destruct E as [E1 E2]. apply Z.leb_le in E1. apply Z.ltb_lt in E2.
  destruct (version_key requested (f_protocol i) (kind_of (f_key i)) (conj E1 E2)) as [Hk|Hk];
    destruct (f_key i) as [d|]; try (simpl in Hk; discriminate); eexists; reflexivity.
Qed.

(* ---------- Paper's reading of the body ---------- *)

Definition dom_key_data (d : key_data) : Prop :=
  (- Z.of_N (2 ^ 63) <= k_expiry d < Z.of_N (2 ^ 63)) /\
  (Z.of_N (len (k_pub d)) <= 512) /\ (Z.of_N (len (k_sig d)) <= 4096) /\
  match k_holder d with Some h => length h = 16%nat /\ wf_bytes h | None => True end.

Definition dom_input (i : fwd_input) : Prop :=
  (Z.of_N (len (f_addr i)) <= 32767 * 4) /\
  (length (f_uuid i) = 16%nat /\ wf_bytes (f_uuid i)) /\
  (Z.of_N (len (f_name i)) <= 16 * 4) /\
  (Forall dom_property (f_props i) /\ (Z.of_nat (length (f_props i)) < 2 ^ 31)) /\
  match f_key i with Some d => dom_key_data d | None => True end.

Lemma rt_string max v rest : Z.of_N (len v) <= max * 4 -> max * 4 < 2 ^ 31 ->
  read_string_max max (write_string v ++ rest) = Ok (v, rest).
Proof. intros H1 H2. apply roundtrip_string. split; lia. Qed.

Lemma rt_bytes max v rest : Z.of_N (len v) <= max -> max < 2 ^ 31 ->
  impl_read_bytes_len max (write_bytes v ++ rest) = Ok (v, rest).
Proof. intros H1 H2. apply roundtrip_bytes. split; lia. Qed.

Lemma rt_int8 v rest : - Z.of_N (2 ^ 63) <= v < Z.of_N (2 ^ 63) ->
  read_int 8 (write_int 8 v ++ rest) = Ok (v, rest).
Proof. intro H. apply (roundtrip_int 8%nat); [lia|]. exact H. Qed.

(* ---------- forwarding must have been requested ---------- *)

Theorem required_thm pre post :
  Forall (fun e => e = EvPluginRequest false) pre ->
  login_run true false (pre ++ EvLoginSuccess :: post) = map (fun _ => OutIgnored) pre ++ [OutRefused].
Proof.
  induction pre as [|e pre IH]; intro H; [reflexivity|].
  inversion H as [|e' l He Hpre]; subst. simpl. f_equal. apply IH. exact Hpre.
Qed.

Theorem answered_then_proceeds post :
  login_run true false (EvPluginRequest true :: EvLoginSuccess :: post)
  = OutAnswered :: OutProceed :: login_run true true post.
Proof. reflexivity. Qed.

Theorem other_modes_never_refuse : forall es forwarded,
  ~ In OutRefused (login_run false forwarded es).
Proof.
  induction es as [|e es IH]; intros forwarded Hin; [exact Hin|].
  destruct e as [ch|]; simpl in Hin; destruct Hin as [H|H]; try discriminate; eapply IH; exact H.
Qed.

(* the model satisfies the predicate the judge evaluates on observed runs *)
Theorem required_holds_model : forall vm es forwarded,
  required_holds vm forwarded es (login_run vm forwarded es) = true.
Proof.
  induction es as [|e es IH]; intro forwarded; [reflexivity|].
  destruct e as [ch|]; cbn [login_run login_step].
  - destruct (vm && ch) eqn:E; cbn [required_holds beq_outcome].
    + rewrite E. rewrite orb_true_r. apply IH.
    + rewrite andb_false_r, orb_false_r. apply IH.
  - destruct (vm && negb forwarded) eqn:E; cbn [required_holds beq_outcome]; rewrite E; reflexivity.
Qed.
