(* C43 - proofs about Model/Status.v, for all operation sequences. *)
From Coq Require Import List NArith ZArith Bool Lia ZifyN ZifyNat ZifyBool.
From Verif Require Import Base.Hex Model.Status.
Import ListNotations.
Open Scope Z_scope.

(* ---- generic facts about run_from -------------------------------------------------------------- *)

Lemma run_from_cons adv on s o r :
  run_from adv on s (o :: r) =
  (fst (run_from adv on (fst (step adv on s o)) r),
   snd (step adv on s o) :: snd (run_from adv on (fst (step adv on s o)) r)).
Proof.
  cbn [run_from]. destruct (step adv on s o) as [s1 os]. cbn [fst snd].
  destruct (run_from adv on s1 r) as [s2 oss]. reflexivity.
Qed.

Lemma run_from_app adv on : forall a s b,
  run_from adv on s (a ++ b) =
  (fst (run_from adv on (fst (run_from adv on s a)) b),
   snd (run_from adv on s a) ++ snd (run_from adv on (fst (run_from adv on s a)) b)).
Proof.
  induction a as [|o a IH]; intros s b.
  - cbn [app run_from fst snd]. destruct (run_from adv on s b); reflexivity.
  - rewrite <- app_comm_cons. rewrite !run_from_cons. cbn [fst snd]. rewrite IH. reflexivity.
Qed.

Lemma step_closed adv on s o : closed s = true -> step adv on s o = (s, []).
Proof. intro H. unfold step. rewrite H. reflexivity. Qed.

Lemma run_from_closed adv on : forall ops s, closed s = true ->
  run_from adv on s ops = (s, map (fun _ => []) ops).
Proof.
  induction ops as [|o r IH]; intros s H; [reflexivity|].
  rewrite run_from_cons, step_closed by assumption. cbn [fst snd map]. rewrite IH by assumption. reflexivity.
Qed.

Lemma concat_map_nil {A B} (l : list A) : concat (map (fun _ => @nil B) l) = [].
Proof. induction l; cbn; auto. Qed.

(* closed is absorbing: once closed nothing is ever emitted again and the state never changes *)
Lemma closed_is_absorbing adv on ops s : closed s = true ->
  fst (run_from adv on s ops) = s /\ concat (snd (run_from adv on s ops)) = [].
Proof.
  intro H. rewrite run_from_closed by assumption. cbn [fst snd]. split; [reflexivity|apply concat_map_nil].
Qed.

(* ---- one response ------------------------------------------------------------------------------ *)

Lemma count_resp_app a b : count_resp (a ++ b) = (count_resp a + count_resp b)%nat.
Proof. unfold count_resp. rewrite filter_app, app_length. reflexivity. Qed.

Definition budget (s : st) : nat := if got_req s || closed s then 0%nat else 1%nat.

Lemma step_budget adv on s o :
  (count_resp (snd (step adv on s o)) + budget (fst (step adv on s o)) <= budget s)%nat.
Proof.
  unfold step, budget. destruct s as [g c e]; cbn [got_req closed empties].
  destruct c; [cbn; destruct g; cbn; lia|].
  destruct o as [|p| |]; cbn [fst snd].
  - destruct g; cbn; lia.
  - destruct (Nat.ltb (length p) 8); cbn; destruct g; cbn; lia.
  - cbn. destruct g; cbn; lia.
  - destruct (11 <=? e)%N; cbn; destruct g; cbn; lia.
Qed.

Lemma one_response_from adv on : forall ops s,
  (count_resp (concat (snd (run_from adv on s ops))) <= budget s)%nat.
Proof.
  induction ops as [|o r IH]; intros s; [cbn; lia|].
  rewrite run_from_cons. cbn [snd concat]. rewrite count_resp_app.
  pose proof (step_budget adv on s o). pose proof (IH (fst (step adv on s o))). lia.
Qed.

Theorem one_response adv on ops : (count_resp (trace adv on ops) <= 1)%nat.
Proof. unfold trace, outs, run. pose proof (one_response_from adv on ops init). cbn in H. exact H. Qed.

(* the first request on a connection that only saw (at most 11) empty frames is answered, once *)
Definition is_empty_op (o : op) : bool := match o with Empty => true | _ => false end.
Definition quiet (pre : list op) : bool := forallb is_empty_op pre && (length pre <=? 11)%nat.

Lemma run_empties adv on : forall pre g e,
  forallb is_empty_op pre = true -> (e + N.of_nat (length pre) <= 11)%N ->
  run_from adv on (mkSt g false e) pre = (mkSt g false (e + N.of_nat (length pre)), map (fun _ => []) pre).
Proof.
  induction pre as [|o r IH]; intros g e Hq Hl.
  - cbn. rewrite N.add_0_r. reflexivity.
  - cbn [forallb] in Hq. apply andb_true_iff in Hq. destruct Hq as [Ho Hr].
    destruct o; try discriminate. cbn [length] in Hl.
    assert (E : step adv on (mkSt g false e) Empty = (mkSt g false (e + 1), [])).
    { unfold step. cbn [closed empties got_req].
      replace (11 <=? e)%N with false by (symmetry; apply N.leb_gt; lia). reflexivity. }
    rewrite run_from_cons, E. cbn [fst snd]. rewrite IH by (try assumption; lia). cbn [fst snd map length].
    f_equal. f_equal. lia.
Qed.

Theorem first_request_answered adv on pre post :
  quiet pre = true ->
  exists rest, outs adv on (pre ++ Req :: post) = map (fun _ => []) pre ++ [OResp adv on] :: rest
            /\ count_resp (concat rest) = 0%nat.
Proof.
  unfold quiet. intro Hq. apply andb_true_iff in Hq. destruct Hq as [Hq Hl]. apply Nat.leb_le in Hl.
  unfold outs, run, init. rewrite run_from_app. cbn [snd].
  rewrite run_empties by (try assumption; lia). cbn [fst snd].
  assert (E : forall e, step adv on (mkSt false false e) Req = (mkSt true false 0, [OResp adv on])) by reflexivity.
  rewrite run_from_cons, E. cbn [fst snd].
  eexists. split; [reflexivity|].
  pose proof (one_response_from adv on post (mkSt true false 0)) as H. unfold budget in H. cbn in H. lia.
Qed.

(* ---- echo -------------------------------------------------------------------------------------- *)

Theorem echo_identical adv on pre p post :
  closed (final adv on pre) = false -> (8 <= length p)%nat ->
  exists rest, outs adv on (pre ++ Ping p :: post) = outs adv on pre ++ [OEcho p; OClose] :: rest
            /\ concat rest = [].
Proof.
  unfold final, outs, run. intros Hc Hp. rewrite run_from_app. cbn [snd].
  set (s := fst (run_from adv on init pre)) in *.
  assert (E : step adv on s (Ping p) = (mkSt (got_req s) true 0, [OEcho p; OClose])).
  { unfold step. rewrite Hc. replace (Nat.ltb (length p) 8) with false by (symmetry; apply Nat.ltb_ge; exact Hp). reflexivity. }
  rewrite run_from_cons, E. cbn [fst snd].
  eexists. split; [reflexivity|].
  apply closed_is_absorbing. reflexivity.
Qed.

(* the only echo ever sent is the body of a ping that was received *)
Lemma echo_from_ping adv on : forall ops s p,
  In (OEcho p) (concat (snd (run_from adv on s ops))) -> In (Ping p) ops.
Proof.
  induction ops as [|o r IH]; intros s p H; [cbn in H; contradiction|].
  rewrite run_from_cons in H. cbn [snd concat] in H. apply in_app_or in H. destruct H as [H|H].
  - left. unfold step in H. destruct (closed s); [cbn in H; contradiction|].
    destruct o as [|q| |]; cbn [snd] in H.
    + destruct (got_req s); cbn in H; intuition congruence.
    + destruct (Nat.ltb (length q) 8); cbn in H; intuition congruence.
    + cbn in H; intuition congruence.
    + destruct (11 <=? empties s)%N; cbn in H; intuition congruence.
  - right. eapply IH; eassumption.
Qed.

Theorem echo_only_of_pings adv on ops p : In (OEcho p) (trace adv on ops) -> In (Ping p) ops.
Proof. apply echo_from_ping. Qed.

(* ---- close rules ------------------------------------------------------------------------------- *)

(* the operations after which the connection must be closed, given the state before *)
Definition closing (s : st) (o : op) : bool :=
  match o with
  | Ping _ => true
  | Bad => true
  | Req => got_req s
  | Empty => (11 <=? empties s)%N
  end.

Lemma step_closing adv on s o : closed s = false -> closing s o = true ->
  closed (fst (step adv on s o)) = true /\ last (snd (step adv on s o)) OClose = OClose
  /\ snd (step adv on s o) <> [] /\ count_resp (snd (step adv on s o)) = 0%nat.
Proof.
  intros Hc Hcl. unfold step. rewrite Hc. destruct o as [|p| |]; cbn [closing] in Hcl.
  - rewrite Hcl. cbn. repeat split; congruence.
  - destruct (Nat.ltb (length p) 8); cbn; repeat split; congruence.
  - cbn. repeat split; congruence.
  - rewrite Hcl. cbn. repeat split; congruence.
Qed.

Theorem close_rules adv on pre o post :
  closed (final adv on pre) = false -> closing (final adv on pre) o = true ->
  trace adv on (pre ++ o :: post) = trace adv on pre ++ snd (step adv on (final adv on pre) o)
  /\ last (snd (step adv on (final adv on pre) o)) OClose = OClose
  /\ snd (step adv on (final adv on pre) o) <> []
  /\ closed (final adv on (pre ++ o :: post)) = true.
Proof.
  unfold trace, final, outs, run. intros Hc Hcl.
  destruct (step_closing adv on _ o Hc Hcl) as (H1 & H2 & H3 & _).
  rewrite run_from_app. cbn [fst snd]. rewrite run_from_cons. cbn [fst snd].
  destruct (closed_is_absorbing adv on post _ H1) as [Hs Hn].
  rewrite concat_app. cbn [concat]. rewrite Hn, app_nil_r, Hs. auto.
Qed.

(* a request that is not the first one is a closing operation: "repeated request closes" *)
Lemma second_request_closing adv on pre mid :
  closed (final adv on (pre ++ Req :: mid)) = false ->
  closing (final adv on (pre ++ Req :: mid)) Req = true.
Proof.
  unfold final, run. cbn [closing]. rewrite run_from_app. cbn [fst].
  set (s := fst (run_from adv on init pre)). rewrite run_from_cons. cbn [fst].
  assert (Hg : forall ops t, got_req t = true -> closed (fst (run_from adv on t ops)) = false ->
                             got_req (fst (run_from adv on t ops)) = true).
  { induction ops as [|o r IH]; intros t Ht Hc; [exact Ht|].
    rewrite run_from_cons in *. cbn [fst] in *. apply IH; [|exact Hc].
    unfold step. destruct (closed t); [exact Ht|]. destruct o as [|q| |]; cbn [fst got_req].
    - rewrite Ht. reflexivity.
    - destruct (Nat.ltb (length q) 8); exact Ht.
    - exact Ht.
    - destruct (11 <=? empties t)%N; exact Ht. }
  intro Hc. apply Hg; [|exact Hc].
  unfold step. destruct (closed s) eqn:Hs.
  - (* already closed before: contradiction with open afterwards *)
    exfalso. rewrite (step_closed adv on s Req Hs) in Hc. cbn [fst] in Hc.
    destruct (closed_is_absorbing adv on mid s Hs) as [E _]. rewrite E in Hc. congruence.
  - destruct (got_req s); reflexivity.
Qed.

(* ---- advertised protocol ----------------------------------------------------------------------- *)

Lemma memZ_In p l : memZ p l = true <-> In p l.
Proof.
  unfold memZ. rewrite existsb_exists. split.
  - intros (x & Hx & E). apply Z.eqb_eq in E. subst. exact Hx.
  - intro H. exists p. split; [exact H|apply Z.eqb_refl].
Qed.

Lemma fold_max_ge l : forall a, a <= fold_left Z.max l a /\ Forall (fun v => v <= fold_left Z.max l a) l.
Proof.
  induction l as [|x l IH]; intro a; cbn [fold_left]; [split; [lia|constructor]|].
  destruct (IH (Z.max a x)) as [H1 H2]. split; [lia|]. constructor; [lia|exact H2].
Qed.

Lemma fold_max_in l : forall a, fold_left Z.max l a = a \/ In (fold_left Z.max l a) l.
Proof.
  induction l as [|x l IH]; intro a; cbn [fold_left]; [left; reflexivity|].
  destruct (IH (Z.max a x)) as [H|H].
  - rewrite H. destruct (Z.max_spec a x) as [[_ E]|[_ E]]; rewrite E; [right; left; reflexivity|left; reflexivity].
  - right. right. exact H.
Qed.

Lemma newest_is_max sup : sup <> [] ->
  In (newest sup) sup /\ Forall (fun v => v <= newest sup) sup.
Proof.
  intro Hne. unfold newest. destruct sup as [|a l]; [congruence|]. cbn [hd].
  split.
  - destruct (fold_max_in (a :: l) a) as [H|H]; [rewrite H; left; reflexivity|exact H].
  - apply fold_max_ge.
Qed.

Lemma spec_advertised_supported sup p : In p sup -> spec_advertised sup p = p.
Proof. intro H. unfold spec_advertised. apply memZ_In in H. rewrite H. reflexivity. Qed.

Lemma spec_advertised_unsupported sup p : ~ In p sup -> spec_advertised sup p = newest sup.
Proof.
  intro H. unfold spec_advertised. destruct (memZ p sup) eqn:E; [apply memZ_In in E; contradiction|reflexivity].
Qed.

(* the code's choice IS the demanded one, for every protocol number and every version list *)
Lemma impl_eq_spec sup p : impl_advertised sup p = spec_advertised sup p.
Proof. reflexivity. Qed.

(* ---- facts about the PRE-FIX code (before c892351), kept for the record ------------------------- *)
Lemma prefix_impl_eq_spec_off_trigger sup p :
  ~ In (-1) sup -> trigger_unsupported sup p = false -> prefix_impl_advertised sup p = spec_advertised sup p.
Proof.
  unfold trigger_unsupported, prefix_impl_advertised, registry_protocol, spec_advertised. intros Hm Ht.
  apply negb_false_iff in Ht. rewrite Ht. destruct (Z.eqb_spec p (-1)) as [->|]; [|reflexivity].
  apply memZ_In in Ht. contradiction.
Qed.

(* gate's version.SupportedVersions at the pinned commit *)
Definition gate_supported : list Z :=
  [4;5;47;107;108;110;210;315;316;335;338;340;393;404;477;573;735;736;751;753;754;755;756;757;758;759;
   760;761;762;763;764;765;766;767;768;769;770;771;772;773;774;775;776].

Lemma prefix_advertised_refuted :
  exists sup p, trigger_unsupported sup p = true /\
    prefix_impl_advertised sup p <> spec_advertised sup p /\
    holds_C43 (spec_advertised sup p) 0 [Req] (outs (prefix_impl_advertised sup p) 0 [Req]) = false.
Proof. exists gate_supported, 999999. vm_compute. repeat split; congruence. Qed.

(* ---- the models satisfy / reproduce the property predicate --------------------------------------- *)

Lemma beq_bytes_refl b : beq_bytes b b = true.
Proof. apply beq_bytes_eq. reflexivity. Qed.
Lemma beq_out_refl o : beq_out o o = true.
Proof. destruct o; cbn; rewrite ?Z.eqb_refl, ?beq_bytes_refl; reflexivity. Qed.
Lemma beq_list_refl {A} (eq : A -> A -> bool) (H : forall x, eq x x = true) l : beq_list eq l l = true.
Proof. induction l; cbn; rewrite ?H, ?IHl; reflexivity. Qed.

Lemma spec_holds_from want on : forall ops g c e,
  holds_from want on g c ops (snd (run_from want on (mkSt g c e) ops)) = true.
Proof.
  induction ops as [|o r IH]; intros g c e; [reflexivity|].
  rewrite run_from_cons. cbn [snd holds_from]. unfold step. cbn [closed got_req empties].
  destruct c.
  - cbn [fst snd beq_list andb]. apply IH.
  - destruct o as [|p| |].
    + destruct g; cbn [fst snd]; rewrite beq_list_refl by apply beq_out_refl; cbn [andb]; apply IH.
    + destruct (Nat.ltb (length p) 8) eqn:El; cbn [fst snd].
      * replace (beq_list beq_out [OClose] [OEcho p; OClose]) with false by reflexivity.
        apply Nat.ltb_lt in El.
        replace (8 <=? Z.of_nat (length p)) with false by (symmetry; apply Z.leb_gt; lia).
        cbn [orb negb andb beq_list beq_out]. apply IH.
      * rewrite (beq_list_refl beq_out beq_out_refl [OEcho p; OClose]). cbn [orb andb]. apply IH.
    + cbn [fst snd]. rewrite beq_list_refl by apply beq_out_refl. cbn [andb]. apply IH.
    + destruct (11 <=? e)%N; cbn [fst snd].
      * replace (beq_list beq_out [OClose] []) with false by reflexivity.
        rewrite beq_list_refl by apply beq_out_refl. cbn [andb orb]. apply IH.
      * cbn [beq_list andb]. rewrite IH. reflexivity.
Qed.

Theorem spec_model_holds want on ops : holds_C43 want on ops (outs want on ops) = true.
Proof. unfold holds_C43, outs, run, init. apply spec_holds_from. Qed.

(* non-vacuity: a concrete session that exercises every clause *)
Example c43_example :
  outs 763 2 [Empty; Req; Req] = [[]; [OResp 763 2]; [OClose]] /\
  outs 763 2 [Req; Ping [1;2;3;4;5;6;7;8]%N; Req] = [[OResp 763 2]; [OEcho [1;2;3;4;5;6;7;8]%N; OClose]; []] /\
  quiet [Empty; Empty] = true /\
  closing (final 763 2 [Req]) Req = true /\ closed (final 763 2 [Req]) = false /\
  spec_advertised gate_supported 763 = 763 /\ spec_advertised gate_supported 999999 = 776 /\
  impl_advertised gate_supported 999999 = 776 /\ prefix_impl_advertised gate_supported 999999 = 4.
Proof. vm_compute. repeat split; reflexivity. Qed.

(* the response to the first request advertises the demanded protocol and the given player count *)
Theorem advertised_protocol_spec sup p online pre post :
  sup <> [] -> quiet pre = true ->
  (exists rest, outs (spec_advertised sup p) online (pre ++ Req :: post)
                = map (fun _ => []) pre ++ [OResp (if memZ p sup then p else newest sup) online] :: rest)
  /\ In (newest sup) sup /\ Forall (fun v => v <= newest sup) sup.
Proof.
  intros Hne Hq. split; [|apply newest_is_max; exact Hne].
  destruct (first_request_answered (spec_advertised sup p) online pre post Hq) as (rest & E & _).
  exists rest. exact E.
Qed.
