(* C07 - gate's encoders (layouts translated from the Go source, Gen/PacketLayouts.v) against the
   vanilla reference layouts (Model/Vanilla.v). *)
From Coq Require Import List NArith ZArith String Bool Lia.
From Verif Require Import Base.Hex Model.Layout Model.LayoutPrims Model.Vanilla Gen.PacketLayouts
  Proofs.C04_layout Proofs.C04_prims Proofs.GenLemmas.
Import ListNotations.
Open Scope string_scope.

Fixpoint find_ref (n : string) (t : list (string * (ctx -> VL))) : option (ctx -> VL) :=
  match t with
  | [] => None
  | (m, v) :: r => if String.eqb n m then Some v else find_ref n r
  end.

(* gate's Encode layout equals the reference at EVERY registered context (the 1.7 deviation is repaired, 6e760d1);
   a referenced type that the translator could not translate fails the obligation too *)
Definition c07_entry_ok (e : entry) : bool :=
  match e with
  | Fragment name enc _ ctxs =>
      match find_ref name references with
      | Some van => forallb (fun c => layout_eqb_at LP c enc (van c) && wf LP (van c) c) ctxs
      | None => true
      end
  | Opaque name _ _ => match find_ref name references with Some _ => false | None => true end
  end.

Definition c07_failing : list string := map entry_name (filter (fun e => negb (c07_entry_ok e)) packets).

Theorem C07_layouts : c07_failing = [].
Proof. vm_compute. reflexivity. Qed.

(* every reference is about a registered type *)
Definition refs_present : bool :=
  forallb (fun r => existsb (fun e => String.eqb (entry_name e) (fst r)) packets) references.
Theorem C07_refs_present : refs_present = true.
Proof. vm_compute. reflexivity. Qed.

Theorem C07_vanilla_decodes_lemma :
  forall name enc dec ctxs van, In (Fragment name enc dec ctxs) packets -> find_ref name references = Some van ->
  forall c, In c ctxs ->
  forall v, in_dom LP lp_dom (van c) c v ->
  exists bs, enc_L LP enc c v = Ok bs /\ dec_L LP (van c) c bs = Ok (v, []).
Proof.
  intros name enc dec ctxs van He Hr c Hc v D.
  pose proof C07_layouts as H. unfold c07_failing in H. apply map_eq_nil in H.
  pose proof (filter_nil _ _ H _ He) as Hf. apply negb_false_iff in Hf.
  cbn [c07_entry_ok] in Hf. rewrite Hr in Hf. rewrite forallb_forall in Hf. specialize (Hf c Hc).
  apply andb_true_iff in Hf as [Heq Hwf].
  destruct (pair_roundtrip LP lp_dom lp_ok enc (van c) c v [] Heq Hwf D (fun _ => eq_refl)) as [bs [E Dd]].
  rewrite app_nil_r in Dd. exists bs. auto.
Qed.

(* ---- PRE-FIX fact: the one-byte array length gate wrote below 1.8 before 6e760d1 was not what the reference reads ---- *)
Definition pm17_value : value := VPair (VAtom (ABytes (tx "x"))) (VPair (VAtom (ABytes [9; 9; 9; 9; 9]%N)) VUnit).
Theorem C07_prefix_17_refuted_lemma :
  in_dom LP lp_dom (van_plugin_message (mkctx 4 true)) (mkctx 4 true) pm17_value /\
  exists bs, enc_L LP prefix_plugin_message_17 (mkctx 4 true) pm17_value = Ok bs /\
             dec_L LP (van_plugin_message (mkctx 4 true)) (mkctx 4 true) bs <> Ok (pm17_value, []).
Proof.
  split.
  - cbn. repeat (eexists; eexists; split; [reflexivity|]; split; [eexists; split; [reflexivity | vm_compute; reflexivity] |]).
    reflexivity.
  - eexists. split; [vm_compute; reflexivity|]. vm_compute. discriminate.
Qed.

(* ---- player info update ---- *)
Fixpoint all_bools (n : nat) : list (list bool) :=
  match n with
  | O => [[]]
  | S k => (map (cons true) (all_bools k) ++ map (cons false) (all_bools k))%list
  end.
Definition all_bools8 := all_bools 8.
Definition pick (bs : list bool) : list N :=
  map snd (filter fst (combine bs [0; 1; 2; 3; 4; 5; 6; 7]%N)).

Lemma all_bools_complete n : forall l : list bool, List.length l = n -> In l (all_bools n).
Proof.
  induction n as [|n IH]; intros l H.
  - destruct l; [left; reflexivity | discriminate].
  - destruct l as [|b r]; [discriminate|]. cbn [all_bools]. apply in_or_app.
    destruct b; [left | right]; apply in_map; apply IH; cbn in H; lia.
Qed.

Lemma filter_as_pick {A} (f : A -> bool) (l : list A) :
  filter f l = map snd (filter fst (combine (map f l) l)).
Proof.
  induction l as [|a r IH]; [reflexivity|]. cbn [map combine filter fst snd].
  destruct (f a); cbn [map snd]; rewrite IH; reflexivity.
Qed.

(* every reference layout of the update packet (256 action sets x the registered contexts) is well formed *)
Definition upsert_wf_all : bool :=
  forallb (fun bs => forallb (fun c => wf LP (upsert_layout_in_order (pick bs) c) c) ctxs_playerinfo_Upsert) all_bools8.
Lemma upsert_wf_all_true : upsert_wf_all = true.
Proof. vm_compute. reflexivity. Qed.

Lemma canonical_is_pick acts : exists bs, In bs all_bools8 /\ canonical acts = pick bs.
Proof.
  exists (map (fun a => existsb (N.eqb a) acts) [0; 1; 2; 3; 4; 5; 6; 7]%N). split.
  - apply all_bools_complete. reflexivity.
  - unfold canonical, pick. apply filter_as_pick.
Qed.

(* today's encoder is the canonical one *)
Theorem C07_upsert_impl_is_spec_lemma : forall acts c, impl_upsert acts c = spec_upsert acts c.
Proof. reflexivity. Qed.

(* the encoder (today's = canonical) is inverted by the vanilla reader, for every action list,
   in whatever order and with whatever repetitions the API supplied it *)
Theorem C07_upsert_impl_lemma : forall acts c, In c ctxs_playerinfo_Upsert ->
  forall v, in_dom LP lp_dom (van_upsert acts c) c v ->
  exists bs, enc_L LP (impl_upsert acts c) c v = Ok bs /\ dec_L LP (van_upsert acts c) c bs = Ok (v, []).
Proof.
  intros acts c Hc v D. rewrite C07_upsert_impl_is_spec_lemma. unfold spec_upsert, van_upsert in *.
  destruct (canonical_is_pick acts) as [bs [Hb Hp]]. rewrite Hp in *.
  pose proof upsert_wf_all_true as W. unfold upsert_wf_all in W.
  rewrite forallb_forall in W. specialize (W bs Hb). rewrite forallb_forall in W. specialize (W c Hc).
  destruct (layout_roundtrip LP lp_dom lp_ok _ c v [] W D (fun _ => eq_refl)) as [out [E Dd]].
  rewrite app_nil_r in Dd. exists out. auto.
Qed.

(* PRE-FIX facts (encoder before d54f770): it coincided with the canonical one only for a canonical ActionSet ... *)
Theorem C07_prefix_upsert_eq_spec_off_trigger_lemma : forall acts c, canonical acts = acts -> prefix_upsert acts c = spec_upsert acts c.
Proof. intros acts c H. unfold prefix_upsert, spec_upsert, van_upsert. rewrite H. reflexivity. Qed.

(* ... and not otherwise: ActionSet [Latency; Listed], one entry with latency 300, listed: the vanilla reader
   took the first latency byte for the listed flag *)
Definition ups_value : value :=
  VPair VUnit (VPair (VList [VPair (VAtom (ABytes (repeat 7%N 16))) (VPair (VAtom (AZ 300)) (VPair (VAtom (ABool true)) VUnit))]) VUnit).
Definition ups_intended : value :=
  VPair VUnit (VPair (VList [VPair (VAtom (ABytes (repeat 7%N 16))) (VPair (VAtom (ABool true)) (VPair (VAtom (AZ 300)) VUnit))]) VUnit).
Theorem C07_prefix_upsert_refuted_lemma :
  canonical [4; 3]%N <> [4; 3]%N /\
  in_dom LP lp_dom (van_upsert [4; 3]%N (mkctx 765 true)) (mkctx 765 true) ups_intended /\
  exists bs, enc_L LP (prefix_upsert [4; 3]%N (mkctx 765 true)) (mkctx 765 true) ups_value = Ok bs /\
             van_upsert_decode (mkctx 765 true) bs <> Ok (ups_intended, []).
Proof.
  split; [vm_compute; discriminate|]. split.
  - unfold ups_intended. cbn.
    eexists. eexists. split; [reflexivity|]. split; [split; [reflexivity | vm_compute; reflexivity]|].
    eexists. eexists. split; [reflexivity|]. split; [|reflexivity].
    eexists. split; [reflexivity|]. split.
    + apply Forall_cons; [|apply Forall_nil].
      eexists. eexists. split; [reflexivity|]. split; [eexists; split; [reflexivity | vm_compute; reflexivity]|].
      eexists. eexists. split; [reflexivity|]. split; [eexists; split; [reflexivity | vm_compute; reflexivity]|].
      eexists. eexists. split; [reflexivity|]. split; [eexists; split; [reflexivity | vm_compute; reflexivity]|].
      reflexivity.
    + split; [vm_compute; reflexivity | exact I].
  - eexists. split; [vm_compute; reflexivity|]. vm_compute. discriminate.
Qed.
