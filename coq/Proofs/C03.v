(* C03 — the property theorems in their final, explicit form (re-stated in Properties/C03.v).
   All of them are about the model of the code as it is now (impl_X and the unprefixed definitions of
   Model/Prim.v); each primitive T gets roundtrip_T and prefix_rejected_T from its codec_ok lemma.
   Lemmas named old_... are historical facts about the PRE-FIX variants old_X. *)
From Coq Require Import List NArith ZArith Lia Bool.
From Coq Require Import ZifyN ZifyNat ZifyBool.
From Verif Require Import Base.Hex Model.Prim Proofs.C03_Lib Proofs.C03_Num Proofs.C03_Bytes.
Import ListNotations.
Open Scope N_scope.

Lemma rt_of {A} (dom : A -> Prop) enc dec : codec_ok dom enc dec ->
  forall v rest, dom v -> dec (enc v ++ rest) = Ok (v, rest).
Proof. intros [rt _ _]. exact rt. Qed.

Lemma pre_of {A} (dom : A -> Prop) enc dec : codec_ok dom enc dec ->
  forall v p q, dom v -> q <> [] -> enc v = p ++ q -> exists e, dec p = Err e.
Proof. intros [_ pre _] v p q D Hq E. apply (pre v p D). exists q. split; assumption. Qed.

(* ---------- VarInt ---------- *)

Lemma roundtrip_varint : forall v rest, (- 2 ^ 31 <= v < 2 ^ 31)%Z ->
  read_varint (write_varint v ++ rest) = Ok (v, rest).
Proof. exact (rt_of _ _ _ codec_varint). Qed.

Lemma prefix_rejected_varint : forall v p q, (- 2 ^ 31 <= v < 2 ^ 31)%Z -> q <> [] ->
  write_varint v = p ++ q -> exists e, read_varint p = Err e.
Proof. exact (pre_of _ _ _ codec_varint). Qed.

Lemma consumed_varint : forall v rest, (- 2 ^ 31 <= v < 2 ^ 31)%Z ->
  read_varint_n (write_varint v ++ rest) = Ok ((v, len (write_varint v)), rest).
Proof. exact read_varint_n_roundtrip. Qed.

(* ---------- bool, 8-bit ---------- *)

Lemma roundtrip_bool : forall (v : bool) rest, True -> read_bool (write_bool v ++ rest) = Ok (v, rest).
Proof. exact (rt_of _ _ _ codec_bool). Qed.
Lemma prefix_rejected_bool : forall (v : bool) p q, True -> q <> [] ->
  write_bool v = p ++ q -> exists e, read_bool p = Err e.
Proof. exact (pre_of _ _ _ codec_bool). Qed.

Lemma roundtrip_uint8 : forall v rest, v < 256 -> read_uint8 (write_uint8 v ++ rest) = Ok (v, rest).
Proof. exact (rt_of _ _ _ codec_uint8). Qed.
Lemma prefix_rejected_uint8 : forall v p q, v < 256 -> q <> [] ->
  write_uint8 v = p ++ q -> exists e, read_uint8 p = Err e.
Proof. exact (pre_of _ _ _ codec_uint8). Qed.

Lemma roundtrip_int8 : forall v rest, (-128 <= v < 128)%Z -> read_int8 (write_int8 v ++ rest) = Ok (v, rest).
Proof. exact (rt_of _ _ _ codec_int8). Qed.
Lemma prefix_rejected_int8 : forall v p q, (-128 <= v < 128)%Z -> q <> [] ->
  write_int8 v = p ++ q -> exists e, read_int8 p = Err e.
Proof. exact (pre_of _ _ _ codec_int8). Qed.

(* ---------- fixed width k = 2, 4, 8 bytes (spec reader: io.ReadFull); floats are the unsigned case ---------- *)

Lemma roundtrip_uint : forall k, (0 < k)%nat -> forall v rest, v < 256 ^ N.of_nat k ->
  impl_read_uint (N.of_nat k) (write_uint k v ++ rest) = Ok (v, rest).
Proof. intros k Hk. exact (rt_of _ _ _ (codec_uint k Hk)). Qed.
Lemma prefix_rejected_uint : forall k, (0 < k)%nat -> forall v p q, v < 256 ^ N.of_nat k -> q <> [] ->
  write_uint k v = p ++ q -> exists e, impl_read_uint (N.of_nat k) p = Err e.
Proof. intros k Hk. exact (pre_of _ _ _ (codec_uint k Hk)). Qed.

Lemma roundtrip_int : forall k, (0 < k)%nat -> forall v rest,
  (- Z.of_N (2 ^ (8 * N.of_nat k - 1)) <= v < Z.of_N (2 ^ (8 * N.of_nat k - 1)))%Z ->
  read_int (N.of_nat k) (write_int k v ++ rest) = Ok (v, rest).
Proof. intros k Hk. exact (rt_of _ _ _ (codec_int k Hk)). Qed.
Lemma prefix_rejected_int : forall k, (0 < k)%nat -> forall v p q,
  (- Z.of_N (2 ^ (8 * N.of_nat k - 1)) <= v < Z.of_N (2 ^ (8 * N.of_nat k - 1)))%Z -> q <> [] ->
  write_int k v = p ++ q -> exists e, read_int (N.of_nat k) p = Err e.
Proof. intros k Hk. exact (pre_of _ _ _ (codec_int k Hk)). Qed.

(* PRE-FIX reader old_read_uint (before 2257945): equal to today's reader off the trigger, zero padding on it *)
Lemma old_uint_off_trigger : forall w s, 0 < w -> (s = [] \/ w <= len s) ->
  old_read_uint w s = impl_read_uint w s.
Proof. exact old_read_uint_off_trigger. Qed.
Lemma old_uint_on_trigger : forall w s, 0 < len s < w ->
  old_read_uint w s = Ok (be_val (s ++ zeros (w - len s)), []).
Proof. exact old_read_uint_on_trigger. Qed.

(* ---------- UUID, both layouts ---------- *)

Lemma roundtrip_uuid : forall u rest, length u = 16%nat /\ wf_bytes u ->
  read_uuid (write_uuid u ++ rest) = Ok (u, rest).
Proof. exact (rt_of _ _ _ codec_uuid). Qed.
Lemma prefix_rejected_uuid : forall u p q, length u = 16%nat /\ wf_bytes u -> q <> [] ->
  write_uuid u = p ++ q -> exists e, read_uuid p = Err e.
Proof. exact (pre_of _ _ _ codec_uuid). Qed.

Lemma roundtrip_uuid_ints : forall u rest, length u = 16%nat /\ wf_bytes u ->
  impl_read_uuid_ints (write_uuid_ints u ++ rest) = Ok (u, rest).
Proof. exact (rt_of _ _ _ codec_uuid_ints). Qed.
Lemma prefix_rejected_uuid_ints : forall u p q, length u = 16%nat /\ wf_bytes u -> q <> [] ->
  write_uuid_ints u = p ++ q -> exists e, impl_read_uuid_ints p = Err e.
Proof. exact (pre_of _ _ _ codec_uuid_ints). Qed.

(* ---------- strings ---------- *)

Lemma roundtrip_string : forall max v rest, (Z.of_N (len v) <= max * 4)%Z /\ (Z.of_N (len v) < 2 ^ 31)%Z ->
  read_string_max max (write_string v ++ rest) = Ok (v, rest).
Proof. intro max. exact (rt_of _ _ _ (codec_string max)). Qed.
Lemma prefix_rejected_string : forall max v p q, (Z.of_N (len v) <= max * 4)%Z /\ (Z.of_N (len v) < 2 ^ 31)%Z ->
  q <> [] -> write_string v = p ++ q -> exists e, read_string_max max p = Err e.
Proof. intro max. exact (pre_of _ _ _ (codec_string max)). Qed.

Lemma bad_length_rejected_string : forall max l tail, (- 2 ^ 31 <= l < 2 ^ 31)%Z -> (l < 0 \/ max * 4 < l)%Z ->
  len_string max (write_varint l ++ tail) = Err (if (l <? 0)%Z then ENegLen else EOverLimit) /\
  read_string_max max (write_varint l ++ tail) = Err (if (l <? 0)%Z then ENegLen else EOverLimit).
Proof.
  intros max l tail D H. pose proof (len_limited_rejects (max * 4) l tail D H) as E.
  split; [exact E|]. unfold read_string_max. rewrite len_string_eq, E. reflexivity.
Qed.
Lemma alloc_bounded_string : forall max s n r, len_string max s = Ok (n, r) -> (Z.of_N n <= max * 4)%Z.
Proof. intros max s n r. rewrite len_string_eq. apply len_limited_bound. Qed.

(* ---------- byte arrays ---------- *)

Lemma roundtrip_bytes : forall max v rest, (Z.of_N (len v) <= max)%Z /\ (Z.of_N (len v) < 2 ^ 31)%Z ->
  impl_read_bytes_len max (write_bytes v ++ rest) = Ok (v, rest).
Proof. intro max. exact (rt_of _ _ _ (codec_bytes max)). Qed.
Lemma prefix_rejected_bytes : forall max v p q, (Z.of_N (len v) <= max)%Z /\ (Z.of_N (len v) < 2 ^ 31)%Z ->
  q <> [] -> write_bytes v = p ++ q -> exists e, impl_read_bytes_len max p = Err e.
Proof. intro max. exact (pre_of _ _ _ (codec_bytes max)). Qed.

(* held for the PRE-FIX reader too: the header is shared *)
Lemma bad_length_rejected_bytes : forall max l tail, (- 2 ^ 31 <= l < 2 ^ 31)%Z -> (l < 0 \/ max < l)%Z ->
  len_bytes max (write_varint l ++ tail) = Err (if (l <? 0)%Z then ENegLen else EOverLimit) /\
  impl_read_bytes_len max (write_varint l ++ tail) = Err (if (l <? 0)%Z then ENegLen else EOverLimit) /\
  old_read_bytes_len max (write_varint l ++ tail) = Err (if (l <? 0)%Z then ENegLen else EOverLimit).
Proof.
  intros max l tail D H. pose proof (len_limited_rejects max l tail D H) as E.
  split; [exact E|].
  split; unfold impl_read_bytes_len, old_read_bytes_len; rewrite len_bytes_eq, E; reflexivity.
Qed.
Lemma alloc_bounded_bytes : forall max s n r, len_bytes max s = Ok (n, r) -> (Z.of_N n <= max)%Z.
Proof. intros max s n r. rewrite len_bytes_eq. apply len_limited_bound. Qed.

Lemma old_bytes_off_trigger : forall max s,
  (forall n r, len_bytes max s = Ok (n, r) -> ~ (n = 0 /\ r = []) /\ ~ (0 < len r < n)) ->
  old_read_bytes_len max s = impl_read_bytes_len max s.
Proof. exact old_read_bytes_off_trigger. Qed.

(* ---------- extended Forge short and 1.7 arrays (spec format) ---------- *)

Lemma roundtrip_fshort : forall n rest, n < 2 ^ 23 ->
  impl_read_fshort (impl_write_fshort n ++ rest) = Ok (n, rest).
Proof. exact (rt_of _ _ _ codec_fshort_impl). Qed.
Lemma prefix_rejected_fshort : forall n p q, n < 2 ^ 23 -> q <> [] ->
  impl_write_fshort n = p ++ q -> exists e, impl_read_fshort p = Err e.
Proof. exact (pre_of _ _ _ codec_fshort_impl). Qed.

Lemma roundtrip_bytes17 : forall ext v e rest, write_bytes17 ext v = Ok e ->
  impl_read_bytes17 (e ++ rest) = Ok (v, rest).
Proof.
  intros ext v e rest H. destruct (write_bytes17_ok ext v e H) as [L ->].
  apply (rt_of _ _ _ codec_bytes17). exact L.
Qed.
Lemma prefix_rejected_bytes17 : forall ext v e p q, write_bytes17 ext v = Ok e -> q <> [] ->
  e = p ++ q -> exists er, impl_read_bytes17 p = Err er.
Proof.
  intros ext v e p q H Hq E. destruct (write_bytes17_ok ext v e H) as [L E'].
  apply (pre_of _ _ _ codec_bytes17 v p q L Hq). rewrite <- E'. exact E.
Qed.
(* the encoder accepts exactly the lengths up to its limit *)
Lemma write_bytes17_domain : forall ext v,
  (exists e, write_bytes17 ext v = Ok e) <-> len v <= (if ext then forge_max else 32767).
Proof.
  intros ext v. unfold write_bytes17, write_bytes17_with. destruct ext.
  - destruct (N.ltb_spec forge_max (len v)) as [L|L]; split; intro H; try lia.
    + destruct H as [e H]. discriminate.
    + eexists. reflexivity.
  - destruct (N.ltb_spec 32767 (len v)) as [L|L]; split; intro H; try lia.
    + destruct H as [e H]. discriminate.
    + eexists. reflexivity.
Qed.

Lemma bad_length_rejected_bytes17 : forall n tail, n < 2 ^ 23 -> forge_max < n ->
  len_bytes17 (impl_write_fshort n ++ tail) = Err EOverLimit /\
  impl_read_bytes17 (impl_write_fshort n ++ tail) = Err EOverLimit.
Proof.
  intros n tail D H. pose proof (len_bytes17_rejects n tail D H) as E.
  split; [exact E|]. unfold impl_read_bytes17. rewrite E. reflexivity.
Qed.
Lemma alloc_bounded_bytes17 : forall rfs s n r, len_bytes17_with rfs s = Ok (n, r) -> n <= forge_max.
Proof. exact len_bytes17_bound. Qed.

(* today's bit-operation code is the arithmetic Forge / Velocity format *)
Lemma fshort_impl_is_spec :
  (forall n, impl_write_fshort n = spec_write_fshort n) /\
  (forall low r, low < 65536 -> impl_fshort_tail low r = spec_fshort_tail low r) /\
  (forall s, wf_bytes (firstn 2 s) -> impl_read_fshort s = spec_read_fshort s).
Proof.
  split; [exact impl_write_fshort_is_spec|]. split; [exact impl_fshort_tail_is_spec | exact impl_read_fshort_is_spec].
Qed.

(* ---------- counted sequences ---------- *)

Lemma roundtrip_string_array : forall vs rest,
  Forall (fun v => (Z.of_N (len v) <= default_max * 4)%Z /\ (Z.of_N (len v) < 2 ^ 31)%Z) vs /\
  (Z.of_nat (length vs) < 2 ^ 31)%Z ->
  read_string_array (write_strings vs ++ rest) = Ok (vs, rest).
Proof. exact (rt_of _ _ _ codec_string_array). Qed.
Lemma prefix_rejected_string_array : forall vs p q,
  Forall (fun v => (Z.of_N (len v) <= default_max * 4)%Z /\ (Z.of_N (len v) < 2 ^ 31)%Z) vs /\
  (Z.of_nat (length vs) < 2 ^ 31)%Z ->
  q <> [] -> write_strings vs = p ++ q -> exists e, read_string_array p = Err e.
Proof. exact (pre_of _ _ _ codec_string_array). Qed.

Lemma roundtrip_varint_array : forall vs rest,
  Forall (fun v => (- 2 ^ 31 <= v < 2 ^ 31)%Z) vs /\ (Z.of_nat (length vs) < 2 ^ 31)%Z ->
  read_varint_array (write_varint_array vs ++ rest) = Ok (vs, rest).
Proof. exact (rt_of _ _ _ codec_varint_array). Qed.
Lemma prefix_rejected_varint_array : forall vs p q,
  Forall (fun v => (- 2 ^ 31 <= v < 2 ^ 31)%Z) vs /\ (Z.of_nat (length vs) < 2 ^ 31)%Z ->
  q <> [] -> write_varint_array vs = p ++ q -> exists e, read_varint_array p = Err e.
Proof. exact (pre_of _ _ _ codec_varint_array). Qed.

Lemma roundtrip_properties : forall ps rest,
  Forall dom_property ps /\ (Z.of_nat (length ps) < 2 ^ 31)%Z ->
  impl_read_properties (write_properties ps ++ rest) = Ok (ps, rest).
Proof. exact (rt_of _ _ _ codec_properties). Qed.
Lemma prefix_rejected_properties : forall ps p q,
  Forall dom_property ps /\ (Z.of_nat (length ps) < 2 ^ 31)%Z ->
  q <> [] -> write_properties ps = p ++ q -> exists e, impl_read_properties p = Err e.
Proof. exact (pre_of _ _ _ codec_properties). Qed.
(* the element loop was the same in the PRE-FIX reader: only the negative-count test differed *)
Lemma roundtrip_properties_old : forall ps rest,
  Forall dom_property ps /\ (Z.of_nat (length ps) < 2 ^ 31)%Z ->
  old_read_properties (write_properties ps ++ rest) = Ok (ps, rest).
Proof. exact (rt_of _ _ _ (codec_counted dom_property write_property read_property EPanic codec_property)). Qed.

(* negative counts: rejected by the header, before make(); the capacity is at most MaxPreAllocSize *)
Lemma negative_count_rejected : forall (A : Type) (d : dec_t A) neg l tail, (- 2 ^ 31 <= l < 0)%Z ->
  len_counted neg (write_varint l ++ tail) = Err neg /\
  read_counted neg d (write_varint l ++ tail) = Err neg.
Proof. intros A d neg l tail H. apply len_counted_rejects; [unfold dom_varint|]; lia. Qed.
Lemma alloc_bounded_counted : forall neg s l c r, len_counted neg s = Ok ((l, c), r) ->
  (0 <= c <= max_pre_alloc)%Z /\ (c <= l)%Z.
Proof. exact len_counted_bound. Qed.

(* ---------- UTF ---------- *)

Lemma roundtrip_utf : forall v rest, len v < 65536 -> impl_read_utf (write_utf v ++ rest) = Ok (v, rest).
Proof. exact (rt_of _ _ _ codec_utf). Qed.
Lemma prefix_rejected_utf : forall v p q, len v < 65536 -> q <> [] ->
  write_utf v = p ++ q -> exists e, impl_read_utf p = Err e.
Proof. exact (pre_of _ _ _ codec_utf). Qed.

Lemma alloc_bounded_utf : forall s n r, wf_bytes s ->
  (impl_read_uint 2 s = Ok (n, r) \/ old_read_uint 2 s = Ok (n, r)) -> n < 65536.
Proof. exact alloc_bounded_utf_lemma. Qed.

(* ---------- resource keys ---------- *)

Lemma roundtrip_key : forall k e rest, dom_key k -> write_key k = Ok e -> read_key (e ++ rest) = Ok (k, rest).
Proof.
  intros k e rest D H. rewrite (write_key_ok k D) in H. inversion H; subst.
  apply (rt_of _ _ _ codec_key). exact D.
Qed.
Lemma prefix_rejected_key : forall k e p q, dom_key k -> write_key k = Ok e -> q <> [] ->
  e = p ++ q -> exists er, read_key p = Err er.
Proof.
  intros k e p q D H Hq E. rewrite (write_key_ok k D) in H. inversion H as [H1].
  apply (pre_of _ _ _ codec_key k p q D Hq). rewrite H1. exact E.
Qed.
Lemma write_key_total : forall k, dom_key k -> exists e, write_key k = Ok e.
Proof. intros k D. eexists. apply write_key_ok. exact D. Qed.

Lemma roundtrip_key_array : forall ks e rest,
  Forall dom_key ks /\ (Z.of_nat (length ks) < 2 ^ 31)%Z -> write_key_array ks = Ok e ->
  read_key_array (e ++ rest) = Ok (ks, rest).
Proof.
  intros ks e rest D H. rewrite (write_key_array_ok ks (proj1 D)) in H. inversion H; subst.
  apply (rt_of _ _ _ codec_key_array). exact D.
Qed.
Lemma prefix_rejected_key_array : forall ks e p q,
  Forall dom_key ks /\ (Z.of_nat (length ks) < 2 ^ 31)%Z -> write_key_array ks = Ok e -> q <> [] ->
  e = p ++ q -> exists er, read_key_array p = Err er.
Proof.
  intros ks e p q D H Hq E. rewrite (write_key_array_ok ks (proj1 D)) in H. inversion H as [H1].
  apply (pre_of _ _ _ codec_key_array ks p q D Hq). rewrite H1. exact E.
Qed.

Lemma roundtrip_minimal_key : forall k rest, dom_key k /\ dom_string0 (key_minimal k) ->
  impl_read_minimal_key (write_minimal_key k ++ rest) = Ok (k, rest).
Proof. exact (rt_of _ _ _ codec_minimal_key). Qed.
Lemma prefix_rejected_minimal_key : forall k p q, dom_key k /\ dom_string0 (key_minimal k) -> q <> [] ->
  write_minimal_key k = p ++ q -> exists e, impl_read_minimal_key p = Err e.
Proof. exact (pre_of _ _ _ codec_minimal_key). Qed.

(* ---------- the counted loops of the model are the unbounded Go loops ---------- *)

Lemma counted_loop_fuel_irrelevant :
  (forall {A} (d : dec_t A), (forall s a r, d s = Ok (a, r) -> (length r < length s)%nat) ->
     forall f1 f2 n s, (length s < f1)%nat -> (length s < f2)%nat -> read_n d f1 n s = read_n d f2 n s) /\
  (forall s a r, read_string s = Ok (a, r) -> (length r < length s)%nat) /\
  (forall s a r, read_varint s = Ok (a, r) -> (length r < length s)%nat) /\
  (forall s a r, read_property s = Ok (a, r) -> (length r < length s)%nat) /\
  (forall s a r, read_key s = Ok (a, r) -> (length r < length s)%nat).
Proof.
  split; [intros A d; exact (read_n_fuel d)|]. split; [exact (progress_string default_max)|].
  split; [exact progress_varint|]. split; [exact progress_property | exact progress_key].
Qed.

(* ---------- all codecs of the code as it is now, at once ---------- *)

Lemma C03_all_impl :
  codec_ok dom_varint write_varint read_varint /\
  codec_ok (fun _ => True) write_bool read_bool /\
  codec_ok (fun x => x < 256) write_uint8 read_uint8 /\
  codec_ok (fun z => (-128 <= z < 128)%Z) write_int8 read_int8 /\
  (forall k, (0 < k)%nat -> codec_ok (fun x => x < 256 ^ N.of_nat k) (write_uint k) (impl_read_uint (N.of_nat k))) /\
  (forall k, (0 < k)%nat ->
     codec_ok (fun z => (- Z.of_N (2 ^ (8 * N.of_nat k - 1)) <= z < Z.of_N (2 ^ (8 * N.of_nat k - 1)))%Z)
              (write_int k) (read_int (N.of_nat k))) /\
  codec_ok dom_uuid write_uuid read_uuid /\
  codec_ok dom_uuid write_uuid_ints (impl_read_uuid_ints) /\
  (forall max, codec_ok (dom_string max) write_string (read_string_max max)) /\
  (forall max, codec_ok (dom_bytes max) write_bytes (impl_read_bytes_len max)) /\
  codec_ok dom_fshort (impl_write_fshort) (impl_read_fshort) /\
  codec_ok (fun v => len v <= forge_max) (fun v => impl_write_fshort (len v) ++ v) (impl_read_bytes17) /\
  codec_ok (dom_list dom_string0) write_strings read_string_array /\
  codec_ok (dom_list dom_varint) write_varint_array read_varint_array /\
  codec_ok (dom_list dom_property) write_properties (impl_read_properties) /\
  codec_ok (fun v => len v < 65536) write_utf (impl_read_utf) /\
  codec_ok dom_key (fun k => write_string (key_string k)) read_key /\
  codec_ok (dom_list dom_key) (write_counted (fun k => write_string (key_string k))) read_key_array /\
  codec_ok dom_minkey write_minimal_key (impl_read_minimal_key).
Proof.
  split; [exact codec_varint|]. split; [exact codec_bool|]. split; [exact codec_uint8|].
  split; [exact codec_int8|]. split; [exact codec_uint|]. split; [exact codec_int|].
  split; [exact codec_uuid|]. split; [exact codec_uuid_ints|]. split; [exact codec_string|].
  split; [exact codec_bytes|]. split; [exact codec_fshort_impl|]. split; [exact codec_bytes17|].
  split; [exact codec_string_array|]. split; [exact codec_varint_array|].
  split; [exact codec_properties|]. split; [exact codec_utf|]. split; [exact codec_key|].
  split; [exact codec_key_array|]. exact codec_minimal_key.
Qed.

(* ---------- non-vacuity: the premises are met by concrete, non-trivial values ---------- *)

Lemma ex_varint :
  (- 2 ^ 31 <= -2147483648 < 2 ^ 31)%Z /\
  write_varint (-2147483648) = [128; 128; 128; 128] ++ [8] /\
  read_varint (write_varint (-2147483648) ++ [7]) = Ok ((-2147483648)%Z, [7]) /\
  read_varint [128; 128; 128; 128] = Err EEOF.
Proof. split; [lia|]. split; [|split]; vm_compute; reflexivity. Qed.

Lemma ex_uint64 :
  (0 < 8)%nat /\ 18446744073709551615 < 256 ^ N.of_nat 8 /\
  impl_read_uint 8 (write_uint 8 18446744073709551615 ++ [1]) = Ok (18446744073709551615, [1]) /\
  (exists e, impl_read_uint 8 [255; 255; 255] = Err e).
Proof. split; [lia|]. split; [vm_compute; reflexivity|]. split; [vm_compute; reflexivity|]. eexists. vm_compute. reflexivity. Qed.

Lemma ex_int32 :
  (- Z.of_N (2 ^ (8 * N.of_nat 4 - 1)) <= -2 < Z.of_N (2 ^ (8 * N.of_nat 4 - 1)))%Z /\
  write_int 4 (-2) = [255; 255; 255; 254] /\
  read_int 4 (write_int 4 (-2)) = Ok ((-2)%Z, []).
Proof. split; [vm_compute; split; [discriminate | reflexivity]|]. split; vm_compute; reflexivity. Qed.

Lemma ex_uuid :
  let u := [1;2;3;4;5;6;7;8;9;10;11;12;13;14;15;255] in
  (length u = 16%nat /\ wf_bytes u) /\ write_uuid u = u /\ write_uuid_ints u = u /\
  impl_read_uuid_ints (u ++ [9]) = Ok (u, [9]).
Proof.
  cbv zeta. split; [split; [reflexivity | repeat constructor]|].
  split; [|split]; vm_compute; reflexivity.
Qed.

Lemma ex_string :
  let v := [226; 130; 172; 97] in                         (* "€a" *)
  ((Z.of_N (len v) <= 1 * 4)%Z /\ (Z.of_N (len v) < 2 ^ 31)%Z) /\
  write_string v = [4; 226; 130; 172; 97] /\
  read_string_max 1 (write_string v ++ [0]) = Ok (v, [0]) /\
  read_string_max 1 [4; 226; 130] = Err EUnexpectedEOF.
Proof. cbv zeta. split; [vm_compute; split; [discriminate | reflexivity]|]. split; [|split]; vm_compute; reflexivity. Qed.

Lemma ex_bad_length :
  len_string 16 (write_varint (-1) ++ [1; 2]) = Err ENegLen /\
  len_string 16 (write_varint 65 ++ [1; 2]) = Err EOverLimit /\
  len_bytes 65536 (write_varint 65537) = Err EOverLimit /\
  len_bytes 65536 (write_varint 2147483647) = Err EOverLimit /\
  len_bytes17 (impl_write_fshort 2097051 ++ [1]) = Err EOverLimit /\
  read_string_array (write_varint (-1)) = Err ENegLen.
Proof. repeat split; vm_compute; reflexivity. Qed.

Lemma ex_bytes_empty_at_end :
  impl_read_bytes_len 65536 (write_bytes [] ++ []) = Ok ([], []) /\
  old_read_bytes_len 65536 (write_bytes [] ++ []) = Err EEOF.
Proof. split; vm_compute; reflexivity. Qed.

Lemma ex_bytes17 :
  let v := repeat 7 300 in
  write_bytes17 true v = Ok ([1; 44] ++ v) /\
  impl_read_bytes17 (([1; 44] ++ v) ++ [5]) = Ok (v, [5]) /\
  impl_write_fshort 40000 = [156; 64; 1] /\
  impl_read_fshort [156; 64; 1; 9] = Ok (40000, [9]) /\
  (exists e, impl_read_fshort [156; 64] = Err e).
Proof. cbv zeta. split; [|split; [|split; [|split]]]; try (vm_compute; reflexivity). eexists. vm_compute. reflexivity. Qed.

Lemma ex_properties :
  let ps := [([110], ([118], [])); ([97; 98], ([], [115; 105; 103]))] in
  (Forall dom_property ps /\ (Z.of_nat (length ps) < 2 ^ 31)%Z) /\
  write_properties ps = [2; 1; 110; 1; 118; 0; 2; 97; 98; 0; 1; 3; 115; 105; 103] /\
  impl_read_properties (write_properties ps ++ [4]) = Ok (ps, [4]) /\
  (exists e, impl_read_properties [2; 1; 110; 1; 118; 0] = Err e).
Proof.
  cbv zeta. split.
  - split; [|vm_compute; reflexivity].
    repeat constructor; cbn; vm_compute; intuition discriminate.
  - split; [|split]; try (vm_compute; reflexivity). eexists. vm_compute. reflexivity.
Qed.

Lemma ex_utf :
  len [104; 105] < 65536 /\ write_utf [104; 105] = [0; 2; 104; 105] /\
  impl_read_utf (write_utf [104; 105] ++ [1]) = Ok ([104; 105], [1]) /\
  (exists e, impl_read_utf [0] = Err e).
Proof. split; [vm_compute; reflexivity|]. split; [|split]; try (vm_compute; reflexivity). eexists. vm_compute. reflexivity. Qed.

Lemma ex_key :
  let k := ([102; 111; 111], [98; 97; 114; 47; 122]) in       (* foo:bar/z *)
  dom_key k /\ (dom_key k /\ dom_string0 (key_minimal k)) /\
  write_key k = Ok [9; 102; 111; 111; 58; 98; 97; 114; 47; 122] /\
  read_key [9; 102; 111; 111; 58; 98; 97; 114; 47; 122; 1] = Ok (k, [1]) /\
  impl_read_minimal_key (write_minimal_key k) = Ok (k, []) /\
  impl_read_minimal_key (write_minimal_key (minecraft, [120])) = Ok ((minecraft, [120]), []).
Proof.
  cbv zeta.
  assert (D : dom_key ([102; 111; 111], [98; 97; 114; 47; 122])).
  { unfold dom_key, dom_string0, dom_string, dom_len. cbn.
    repeat split; try discriminate; try reflexivity; lia. }
  split; [exact D|]. split.
  - split; [exact D|]. unfold dom_string0, dom_string, dom_len. cbn. split; [discriminate | reflexivity].
  - repeat split; vm_compute; reflexivity.
Qed.
