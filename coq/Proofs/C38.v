(* C38 — proofs about Model/Reload.v (all traces, by induction over the step list). *)
From Coq Require Import List NArith Bool Lia Arith.
From Verif Require Import Model.Reload.
Import ListNotations.

Lemma fp_eqb_eq : forall a b, fp_eqb a b = true <-> a = b.
Proof.
  intros [x|] [y|]; cbn; split; intro H; try congruence; try discriminate.
  - apply N.eqb_eq in H. congruence.
  - inversion H. apply N.eqb_refl.
Qed.

Lemma fp_eqb_refl : forall a, fp_eqb a a = true.
Proof. intro a. apply fp_eqb_eq. reflexivity. Qed.

Lemma fp_eqb_neq : forall a b, fp_eqb a b = false <-> a <> b.
Proof.
  intros a b. split.
  - intros H E. apply fp_eqb_eq in E. congruence.
  - intro H. destruct (fp_eqb a b) eqn:E; [apply fp_eqb_eq in E; contradiction | reflexivity].
Qed.

Lemma fp_eqb_sym : forall a b, fp_eqb a b = fp_eqb b a.
Proof.
  intros a b. destruct (fp_eqb a b) eqn:E.
  - apply fp_eqb_eq in E. subst. symmetry. apply fp_eqb_refl.
  - symmetry. apply fp_eqb_neq. apply fp_eqb_neq in E. congruence.
Qed.

(* ---------------------------------------------------------------- invariants *)

(* debounce not armed => nothing observed that has not been evaluated *)
Definition inv (s : st) : Prop := armed s = false -> observed s = evaluated s.
(* repaired loop only: the callback has read exactly what the loop recorded as evaluated *)
Definition inv2 (s : st) : Prop := loaded s = evaluated s.

Lemma inv_init : forall f, inv (init f).
Proof. intros f _. reflexivity. Qed.
Lemma inv2_init : forall f, inv2 (init f).
Proof. intro f. reflexivity. Qed.

Lemma reconcile_file : forall s, file (reconcile s) = file s.
Proof. intro s. unfold reconcile. destruct (fp_eqb (file s) (observed s)); reflexivity. Qed.
Lemma reconcile_evaluated : forall s, evaluated (reconcile s) = evaluated s.
Proof. intro s. unfold reconcile. destruct (fp_eqb (file s) (observed s)); reflexivity. Qed.
Lemma reconcile_loaded : forall s, loaded (reconcile s) = loaded s.
Proof. intro s. unfold reconcile. destruct (fp_eqb (file s) (observed s)); reflexivity. Qed.
Lemma reconcile_observed : forall s, observed (reconcile s) = file s.
Proof.
  intro s. unfold reconcile. destruct (fp_eqb (file s) (observed s)) eqn:E; [|reflexivity].
  apply fp_eqb_eq in E. congruence.
Qed.
Lemma reconcile_inv : forall s, inv s -> inv (reconcile s).
Proof.
  intros s H. unfold reconcile. destruct (fp_eqb (file s) (observed s)); [exact H|].
  intro A. cbn in A. discriminate.
Qed.
Lemma reconcile_noop : forall s, file s = observed s -> reconcile s = s.
Proof. intros s H. unfold reconcile. rewrite H, fp_eqb_refl. reflexivity. Qed.

(* shape of one step: either silent with [evaluated], [loaded] unchanged, or exactly one callback *)
Lemma impl_step_shape : forall s e,
  (snd (impl_step s e) = [] /\ evaluated (fst (impl_step s e)) = evaluated s /\ loaded (fst (impl_step s e)) = loaded s)
  \/ (e = Expire /\ armed s = true /\ observed s <> evaluated s
      /\ impl_step s e = (mkst (file s) (observed s) (observed s) false (alive s) (file s), [Callback (observed s) (file s)])).
Proof.
  intros s e. destruct e; cbn; try (left; repeat split; reflexivity).
  - left. rewrite reconcile_evaluated, reconcile_loaded. repeat split; reflexivity.
  - unfold impl_expire. destruct (armed s) eqn:A.
    + destruct (fp_eqb (observed s) (evaluated s)) eqn:E.
      * left. repeat split; reflexivity.
      * right. apply fp_eqb_neq in E. repeat split; auto.
    + left. repeat split; reflexivity.
  - left. destruct (alive s); rewrite ?reconcile_evaluated, ?reconcile_loaded; repeat split; reflexivity.
Qed.

Lemma spec_step_shape : forall s e,
  (snd (spec_step s e) = [] /\ evaluated (fst (spec_step s e)) = evaluated s /\ loaded (fst (spec_step s e)) = loaded s)
  \/ (e = Expire /\ armed s = true /\ file s <> evaluated s
      /\ spec_step s e = (mkst (file s) (file s) (file s) false (alive s) (file s), [Callback (file s) (file s)])).
Proof.
  intros s e. destruct e; cbn; try (left; repeat split; reflexivity).
  - left. rewrite reconcile_evaluated, reconcile_loaded. repeat split; reflexivity.
  - unfold spec_expire. destruct (armed s) eqn:A.
    + destruct (fp_eqb (file s) (evaluated s)) eqn:E.
      * left. repeat split; reflexivity.
      * right. apply fp_eqb_neq in E. repeat split; auto.
    + left. repeat split; reflexivity.
  - left. destruct (alive s); rewrite ?reconcile_evaluated, ?reconcile_loaded; repeat split; reflexivity.
Qed.

Lemma impl_step_inv : forall s e, inv s -> inv (fst (impl_step s e)).
Proof.
  intros s e H. destruct e; cbn; try exact H.
  - apply reconcile_inv. exact H.
  - unfold impl_expire. destruct (armed s) eqn:A; [|exact H].
    destruct (fp_eqb (observed s) (evaluated s)) eqn:E; intros _; cbn.
    + apply fp_eqb_eq in E. exact E.
    + reflexivity.
  - destruct (alive s); [apply reconcile_inv|]; exact H.
Qed.

Lemma spec_step_inv : forall s e, inv s -> inv (fst (spec_step s e)).
Proof.
  intros s e H. destruct e; cbn; try exact H.
  - apply reconcile_inv. exact H.
  - unfold spec_expire. destruct (armed s) eqn:A; [|exact H].
    destruct (fp_eqb (file s) (evaluated s)) eqn:E; intros _; cbn.
    + apply fp_eqb_eq in E. exact E.
    + reflexivity.
  - destruct (alive s); [apply reconcile_inv|]; exact H.
Qed.

Lemma spec_step_inv2 : forall s e, inv2 s -> inv2 (fst (spec_step s e)).
Proof.
  intros s e H. unfold inv2 in *. destruct (spec_step_shape s e) as [(_ & E & L) | (_ & _ & _ & R)].
  - congruence.
  - rewrite R. reflexivity.
Qed.

Lemma run_cons : forall stp s e r,
  run stp s (e :: r) = (fst (run stp (fst (stp s e)) r), snd (stp s e) ++ snd (run stp (fst (stp s e)) r)).
Proof.
  intros. cbn [run]. destruct (stp s e) as [s1 o1]. cbn. destruct (run stp s1 r) as [s2 o2]. reflexivity.
Qed.

Lemma run_app : forall stp t1 t2 s,
  run stp s (t1 ++ t2) =
  (fst (run stp (fst (run stp s t1)) t2), snd (run stp s t1) ++ snd (run stp (fst (run stp s t1)) t2)).
Proof.
  intros stp t1. induction t1 as [|e r IH]; intros t2 s.
  - cbn. destruct (run stp s t2); reflexivity.
  - rewrite <- app_comm_cons. rewrite !run_cons. rewrite IH. cbn. rewrite app_assoc. reflexivity.
Qed.

Lemma impl_run_inv : forall tr s, inv s -> inv (fst (run impl_step s tr)).
Proof.
  induction tr as [|e r IH]; intros s H; [exact H|].
  rewrite run_cons. cbn. apply IH. apply impl_step_inv. exact H.
Qed.
Lemma spec_run_inv : forall tr s, inv s -> inv (fst (run spec_step s tr)).
Proof.
  induction tr as [|e r IH]; intros s H; [exact H|].
  rewrite run_cons. cbn. apply IH. apply spec_step_inv. exact H.
Qed.
Lemma spec_run_inv2 : forall tr s, inv2 s -> inv2 (fst (run spec_step s tr)).
Proof.
  induction tr as [|e r IH]; intros s H; [exact H|].
  rewrite run_cons. cbn. apply IH. apply spec_step_inv2. exact H.
Qed.

(* ---------------------------------------------------------------- never_same_as_evaluated *)

(* one step: a callback is only ever run with a candidate different from [evaluated] *)
Lemma impl_callback_differs : forall s e c r,
  In (Callback c r) (snd (impl_step s e)) -> c <> evaluated s /\ evaluated (fst (impl_step s e)) = c.
Proof.
  intros s e c r H. destruct (impl_step_shape s e) as [(N & _) | (_ & _ & D & R)].
  - rewrite N in H. destruct H.
  - rewrite R in H. cbn in H. destruct H as [H|[]]. inversion H; subst. rewrite R. cbn. auto.
Qed.

Lemma impl_never_same_gen : forall tr s,
  no_adjacent_dup (evaluated s :: map cand (snd (run impl_step s tr))) = true.
Proof.
  induction tr as [|e r IH]; intro s; [reflexivity|].
  rewrite run_cons. cbn [snd]. rewrite map_app.
  destruct (impl_step_shape s e) as [(N & E & _) | (_ & _ & D & R)].
  - rewrite N. cbn [map app]. rewrite <- E. apply IH.
  - rewrite R. cbn [snd fst map app cand].
    specialize (IH (mkst (file s) (observed s) (observed s) false (alive s) (file s))). cbn [evaluated] in IH.
    cbn [no_adjacent_dup]. cbn [no_adjacent_dup] in IH. rewrite IH.
    rewrite fp_eqb_sym. apply fp_eqb_neq in D. rewrite D. reflexivity.
Qed.

Lemma never_same_as_evaluated : forall f0 tr,
  no_adjacent_dup (f0 :: map cand (snd (run impl_step (init f0) tr))) = true.
Proof. intros f0 tr. exact (impl_never_same_gen tr (init f0)). Qed.

(* ---------------------------------------------------------------- stable stretches *)

Lemma stable_cons : forall e r, stable (e :: r) = true -> is_file e = false /\ stable r = true.
Proof.
  intros e r H. unfold stable in H. cbn in H. apply andb_true_iff in H. destruct H as [H1 H2].
  split; [destruct (is_file e); [discriminate|reflexivity] | exact H2].
Qed.

Lemma stable_app : forall a b, stable (a ++ b) = true -> stable a = true /\ stable b = true.
Proof. intros a b H. unfold stable in *. rewrite forallb_app in H. apply andb_true_iff in H. exact H. Qed.

Lemma gen_step_file : forall ex s e, (forall s, file (fst (ex s)) = file s) ->
  is_file e = false -> file (fst (gen_step ex s e)) = file s.
Proof.
  intros ex s e Hex H. destruct e; cbn in *; try discriminate; try reflexivity.
  - rewrite reconcile_file. reflexivity.
  - apply Hex.
  - destruct (alive s); [rewrite reconcile_file|]; reflexivity.
Qed.

Lemma impl_expire_file : forall s, file (fst (impl_expire s)) = file s.
Proof. intro s. unfold impl_expire. destruct (armed s), (fp_eqb (observed s) (evaluated s)); reflexivity. Qed.
Lemma spec_expire_file : forall s, file (fst (spec_expire s)) = file s.
Proof. intro s. unfold spec_expire. destruct (armed s), (fp_eqb (file s) (evaluated s)); reflexivity. Qed.

Lemma impl_step_file : forall s e, is_file e = false -> file (fst (impl_step s e)) = file s.
Proof. intros. apply gen_step_file; [apply impl_expire_file|assumption]. Qed.
Lemma spec_step_file : forall s e, is_file e = false -> file (fst (spec_step s e)) = file s.
Proof. intros. apply gen_step_file; [apply spec_expire_file|assumption]. Qed.

Lemma impl_run_file : forall tr s, stable tr = true -> file (fst (run impl_step s tr)) = file s.
Proof.
  induction tr as [|e r IH]; intros s H; [reflexivity|].
  apply stable_cons in H. destruct H as [H1 H2]. rewrite run_cons. cbn. rewrite IH by exact H2.
  apply impl_step_file. exact H1.
Qed.
Lemma spec_run_file : forall tr s, stable tr = true -> file (fst (run spec_step s tr)) = file s.
Proof.
  induction tr as [|e r IH]; intros s H; [reflexivity|].
  apply stable_cons in H. destruct H as [H1 H2]. rewrite run_cons. cbn. rewrite IH by exact H2.
  apply spec_step_file. exact H1.
Qed.

(* once file = observed, a stable stretch keeps it so *)
Lemma gen_step_synced : forall ex s e,
  (forall s, file s = observed s -> file (fst (ex s)) = observed (fst (ex s))) ->
  is_file e = false -> file s = observed s -> file (fst (gen_step ex s e)) = observed (fst (gen_step ex s e)).
Proof.
  intros ex s e Hex H S. destruct e; cbn in *; try discriminate; try exact S.
  - rewrite reconcile_file, reconcile_observed. reflexivity.
  - apply Hex. exact S.
  - destruct (alive s); [rewrite reconcile_file, reconcile_observed; reflexivity | exact S].
Qed.

Lemma impl_expire_synced : forall s, file s = observed s -> file (fst (impl_expire s)) = observed (fst (impl_expire s)).
Proof. intros s S. unfold impl_expire. destruct (armed s), (fp_eqb (observed s) (evaluated s)); cbn; exact S. Qed.
Lemma spec_expire_synced : forall s, file s = observed s -> file (fst (spec_expire s)) = observed (fst (spec_expire s)).
Proof. intros s S. unfold spec_expire. destruct (armed s), (fp_eqb (file s) (evaluated s)); cbn; auto. Qed.

Lemma impl_run_synced : forall tr s, stable tr = true -> file s = observed s ->
  file (fst (run impl_step s tr)) = observed (fst (run impl_step s tr)).
Proof.
  induction tr as [|e r IH]; intros s H S; [exact S|].
  apply stable_cons in H. destruct H as [H1 H2]. rewrite run_cons. cbn. apply IH; [exact H2|].
  apply gen_step_synced; [apply impl_expire_synced|exact H1|exact S].
Qed.
Lemma spec_run_synced : forall tr s, stable tr = true -> file s = observed s ->
  file (fst (run spec_step s tr)) = observed (fst (run spec_step s tr)).
Proof.
  induction tr as [|e r IH]; intros s H S; [exact S|].
  apply stable_cons in H. destruct H as [H1 H2]. rewrite run_cons. cbn. apply IH; [exact H2|].
  apply gen_step_synced; [apply spec_expire_synced|exact H1|exact S].
Qed.

(* fully settled: file = observed = evaluated.  Nothing happens any more in a stable stretch. *)
Definition quiet (s : st) : Prop := file s = observed s /\ observed s = evaluated s.

Lemma impl_step_quiet : forall s e, is_file e = false -> quiet s ->
  quiet (fst (impl_step s e)) /\ snd (impl_step s e) = [] /\ loaded (fst (impl_step s e)) = loaded s.
Proof.
  intros s e H [Q1 Q2]. destruct e; cbn in *; try discriminate; try (repeat split; assumption).
  - rewrite reconcile_noop by exact Q1. repeat split; assumption.
  - unfold impl_expire. destruct (armed s); [|repeat split; assumption].
    rewrite Q2, fp_eqb_refl. cbn. repeat split; cbn; congruence.
  - destruct (alive s); [rewrite reconcile_noop by exact Q1|]; repeat split; assumption.
Qed.

Lemma spec_step_quiet : forall s e, is_file e = false -> quiet s ->
  quiet (fst (spec_step s e)) /\ snd (spec_step s e) = [] /\ loaded (fst (spec_step s e)) = loaded s.
Proof.
  intros s e H [Q1 Q2]. destruct e; cbn in *; try discriminate; try (repeat split; assumption).
  - rewrite reconcile_noop by exact Q1. repeat split; assumption.
  - unfold spec_expire. destruct (armed s); [|repeat split; assumption].
    assert (E : file s = evaluated s) by congruence. rewrite E, fp_eqb_refl. cbn. repeat split; cbn; congruence.
  - destruct (alive s); [rewrite reconcile_noop by exact Q1|]; repeat split; assumption.
Qed.

Lemma impl_run_quiet : forall tr s, stable tr = true -> quiet s ->
  quiet (fst (run impl_step s tr)) /\ snd (run impl_step s tr) = [] /\ loaded (fst (run impl_step s tr)) = loaded s.
Proof.
  induction tr as [|e r IH]; intros s H Q; [repeat split; try reflexivity; apply Q|].
  apply stable_cons in H. destruct H as [H1 H2]. rewrite run_cons. cbn [fst snd].
  destruct (impl_step_quiet s e H1 Q) as (Q' & N & L).
  destruct (IH _ H2 Q') as (Q'' & N' & L'). rewrite N, N'. repeat split; try apply Q''. congruence.
Qed.
Lemma spec_run_quiet : forall tr s, stable tr = true -> quiet s ->
  quiet (fst (run spec_step s tr)) /\ snd (run spec_step s tr) = [] /\ loaded (fst (run spec_step s tr)) = loaded s.
Proof.
  induction tr as [|e r IH]; intros s H Q; [repeat split; try reflexivity; apply Q|].
  apply stable_cons in H. destruct H as [H1 H2]. rewrite run_cons. cbn [fst snd].
  destruct (spec_step_quiet s e H1 Q) as (Q' & N & L).
  destruct (IH _ H2 Q') as (Q'' & N' & L'). rewrite N, N'. repeat split; try apply Q''. congruence.
Qed.

(* ---------------------------------------------------------------- at_most_once_per_stable_content *)

(* file = observed: at most one callback in the rest of a stable stretch *)
Lemma impl_synced_le1 : forall tr s, stable tr = true -> file s = observed s ->
  length (snd (run impl_step s tr)) <= 1.
Proof.
  induction tr as [|e r IH]; intros s H S; [cbn; lia|].
  pose proof H as H0. apply stable_cons in H. destruct H as [H1 H2]. rewrite run_cons. cbn [snd]. rewrite app_length.
  destruct (impl_step_shape s e) as [(N & _) | (_ & _ & _ & R)].
  - rewrite N. cbn [length]. apply IH; [exact H2|]. apply gen_step_synced; [apply impl_expire_synced|exact H1|exact S].
  - rewrite R. cbn [fst snd length].
    assert (Q : quiet (mkst (file s) (observed s) (observed s) false (alive s) (file s))) by (split; cbn; auto).
    destruct (impl_run_quiet r _ H2 Q) as (_ & N & _). rewrite N. cbn. lia.
Qed.

Lemma count_fp_app : forall x a b, count_fp x (a ++ b) = count_fp x a + count_fp x b.
Proof. intros x a. induction a as [|y r IH]; intro b; cbn; [reflexivity|]. rewrite IH. lia. Qed.

Lemma count_le_length : forall x l, count_fp x l <= length l.
Proof. intros x l. induction l as [|y r IH]; cbn; [lia|]. destruct (fp_eqb x y); lia. Qed.

(* any state: in a stable stretch the callback runs at most once with the current content as candidate,
   and at most twice altogether (once for a stale fingerprint observed before the last change) *)
Lemma impl_stable_counts : forall tr s, inv s -> stable tr = true ->
  count_fp (file s) (map cand (snd (run impl_step s tr))) <= 1
  /\ length (snd (run impl_step s tr)) <= 2
  /\ (armed s = false -> length (snd (run impl_step s tr)) <= 1).
Proof.
  induction tr as [|e r IH]; intros s I H; [cbn; repeat split; intros; lia|].
  pose proof H as H0. apply stable_cons in H. destruct H as [H1 H2].
  destruct (fp_eqb (file s) (observed s)) eqn:S.
  { apply fp_eqb_eq in S. pose proof (impl_synced_le1 (e :: r) s H0 S) as L.
    pose proof (count_le_length (file s) (map cand (snd (run impl_step s (e :: r))))) as C.
    rewrite map_length in C. repeat split; intros; lia. }
  apply fp_eqb_neq in S.
  rewrite run_cons. cbn [snd]. rewrite map_app, count_fp_app, app_length.
  pose proof (impl_step_inv s e I) as I'.
  pose proof (impl_step_file s e H1) as F.
  destruct (IH _ I' H2) as (C1 & C2 & C3). rewrite F in C1.
  destruct (impl_step_shape s e) as [(N & _) | (_ & A & D & R)].
  - rewrite N. cbn [map count_fp length]. repeat split; try lia.
    intro A.
    (* not armed: either still not armed, or a reconcile synchronised observed with the file *)
    destruct e; cbn in H1; try discriminate; cbn [impl_step gen_step fst] in *.
    + (* Tick *) apply impl_synced_le1; [exact H2|]. rewrite reconcile_file, reconcile_observed. reflexivity.
    + (* Expire *) unfold impl_expire in *. rewrite A in *. cbn in *. apply C3. exact A.
    + (* Event *) destruct (alive s).
      * apply impl_synced_le1; [exact H2|]. rewrite reconcile_file, reconcile_observed. reflexivity.
      * apply C3. exact A.
    + apply C3. exact A.
    + apply C3. exact A.
    + apply C3. exact A.
  - rewrite R in *. cbn [fst snd map cand count_fp length] in *.
    assert (NE : fp_eqb (file s) (observed s) = false) by (apply fp_eqb_neq; exact S).
    rewrite NE. cbn [armed] in C3. specialize (C3 eq_refl). repeat split; try lia.
    intro A'. congruence.
Qed.

Lemma at_most_once_per_stable_content : forall s tr, inv s -> stable tr = true ->
  count_fp (file s) (map cand (snd (run impl_step s tr))) <= 1.
Proof. intros s tr I H. apply (impl_stable_counts tr s I H). Qed.

Lemma at_most_two_per_stable_stretch : forall s tr, inv s -> stable tr = true ->
  length (snd (run impl_step s tr)) <= 2.
Proof. intros s tr I H. apply (impl_stable_counts tr s I H). Qed.

(* the states the theorems quantify over: everything reachable from a start *)
Lemma reachable_inv : forall f0 pre, inv (fst (run impl_step (init f0) pre)).
Proof. intros. apply impl_run_inv, inv_init. Qed.

(* ---------------------------------------------------------------- eventually_final *)

Lemma impl_eventually_gen : forall s t1 b t2 t3, inv s ->
  stable (t1 ++ Tick b :: t2 ++ Expire :: t3) = true ->
  let s' := fst (run impl_step s (t1 ++ Tick b :: t2 ++ Expire :: t3)) in
  evaluated s' = file s /\ observed s' = file s /\ file s' = file s.
Proof.
  intros s t1 b t2 t3 I H. cbn zeta.
  pose proof (impl_run_file _ s H) as FF.
  apply stable_app in H. destruct H as [H1 H]. apply stable_cons in H. destruct H as [_ H].
  apply stable_app in H. destruct H as [H2 H]. apply stable_cons in H. destruct H as [_ H3].
  rewrite run_app. cbn [fst]. set (s1 := fst (run impl_step s t1)) in *.
  assert (I1 : inv s1) by (apply impl_run_inv; exact I).
  assert (F1 : file s1 = file s) by (apply impl_run_file; exact H1).
  rewrite run_cons. cbn [fst]. set (s2 := fst (impl_step s1 (Tick b))) in *.
  assert (I2 : inv s2) by (apply impl_step_inv; exact I1).
  assert (S2 : file s2 = observed s2) by (unfold s2; cbn; rewrite reconcile_file, reconcile_observed; reflexivity).
  assert (F2 : file s2 = file s) by (unfold s2; cbn; rewrite reconcile_file; exact F1).
  rewrite run_app. cbn [fst]. set (s3 := fst (run impl_step s2 t2)) in *.
  assert (I3 : inv s3) by (apply impl_run_inv; exact I2).
  assert (S3 : file s3 = observed s3) by (apply impl_run_synced; assumption).
  assert (F3 : file s3 = file s) by (unfold s3; rewrite impl_run_file by exact H2; exact F2).
  rewrite run_cons. cbn [fst]. set (s4 := fst (impl_step s3 Expire)) in *.
  assert (Q4 : quiet s4 /\ file s4 = file s).
  { unfold s4. cbn. unfold impl_expire. destruct (armed s3) eqn:A.
    - destruct (fp_eqb (observed s3) (evaluated s3)) eqn:E; cbn.
      + apply fp_eqb_eq in E. repeat split; assumption.
      + repeat split; assumption.
    - specialize (I3 A). repeat split; assumption. }
  destruct Q4 as [Q4 F4].
  destruct (impl_run_quiet t3 s4 H3 Q4) as ([Qa Qb] & _ & _).
  pose proof (impl_run_file t3 s4 H3) as F5.
  repeat split; congruence.
Qed.

Lemma eventually_final : forall s t1 b t2 t3, inv s ->
  stable (t1 ++ Tick b :: t2 ++ Expire :: t3) = true ->
  evaluated (fst (run impl_step s (t1 ++ Tick b :: t2 ++ Expire :: t3))) = file s.
Proof. intros. apply impl_eventually_gen; assumption. Qed.

(* ---------------------------------------------------------------- the repaired loop: content level *)

Lemma spec_never_same_gen : forall tr s, inv2 s ->
  no_adjacent_dup (loaded s :: map readc (snd (run spec_step s tr))) = true.
Proof.
  induction tr as [|e r IH]; intros s I; [reflexivity|].
  rewrite run_cons. cbn [snd]. rewrite map_app.
  pose proof (spec_step_inv2 s e I) as I'.
  destruct (spec_step_shape s e) as [(N & _ & L) | (_ & _ & D & R)].
  - rewrite N. cbn [map app]. rewrite <- L. apply IH. exact I'.
  - rewrite R in *. cbn [snd fst map app readc] in *.
    specialize (IH _ I'). cbn [loaded] in IH. cbn [no_adjacent_dup]. cbn [no_adjacent_dup] in IH. rewrite IH.
    unfold inv2 in I. rewrite I. rewrite fp_eqb_sym. apply fp_eqb_neq in D. rewrite D. reflexivity.
Qed.

Lemma spec_stable_le1 : forall tr s, inv2 s -> stable tr = true ->
  length (snd (run spec_step s tr)) <= 1.
Proof.
  induction tr as [|e r IH]; intros s I H; [cbn; lia|].
  apply stable_cons in H. destruct H as [H1 H2]. rewrite run_cons. cbn [snd]. rewrite app_length.
  destruct (spec_step_shape s e) as [(N & _) | (_ & _ & _ & R)].
  - rewrite N. cbn [length]. apply IH; [apply spec_step_inv2; exact I | exact H2].
  - rewrite R. cbn [fst snd length].
    assert (Q : quiet (mkst (file s) (file s) (file s) false (alive s) (file s))) by (split; reflexivity).
    destruct (spec_run_quiet r _ H2 Q) as (_ & N & _). rewrite N. cbn. lia.
Qed.

Lemma spec_eventually_gen : forall s t1 b t2 t3, inv s -> inv2 s ->
  stable (t1 ++ Tick b :: t2 ++ Expire :: t3) = true ->
  loaded (fst (run spec_step s (t1 ++ Tick b :: t2 ++ Expire :: t3))) = file s.
Proof.
  intros s t1 b t2 t3 I J H.
  pose proof (spec_run_inv2 (t1 ++ Tick b :: t2 ++ Expire :: t3) s J) as J'. unfold inv2 in J'. rewrite J'.
  apply stable_app in H. destruct H as [H1 H]. apply stable_cons in H. destruct H as [_ H].
  apply stable_app in H. destruct H as [H2 H]. apply stable_cons in H. destruct H as [_ H3].
  rewrite run_app. cbn [fst]. set (s1 := fst (run spec_step s t1)) in *.
  assert (I1 : inv s1) by (apply spec_run_inv; exact I).
  assert (F1 : file s1 = file s) by (apply spec_run_file; exact H1).
  rewrite run_cons. cbn [fst]. set (s2 := fst (spec_step s1 (Tick b))) in *.
  assert (I2 : inv s2) by (apply spec_step_inv; exact I1).
  assert (S2 : file s2 = observed s2) by (unfold s2; cbn; rewrite reconcile_file, reconcile_observed; reflexivity).
  assert (F2 : file s2 = file s) by (unfold s2; cbn; rewrite reconcile_file; exact F1).
  rewrite run_app. cbn [fst]. set (s3 := fst (run spec_step s2 t2)) in *.
  assert (I3 : inv s3) by (apply spec_run_inv; exact I2).
  assert (S3 : file s3 = observed s3) by (apply spec_run_synced; assumption).
  assert (F3 : file s3 = file s) by (unfold s3; rewrite spec_run_file by exact H2; exact F2).
  rewrite run_cons. cbn [fst]. set (s4 := fst (spec_step s3 Expire)) in *.
  assert (Q4 : quiet s4 /\ file s4 = file s).
  { unfold s4. cbn. unfold spec_expire. destruct (armed s3) eqn:A.
    - destruct (fp_eqb (file s3) (evaluated s3)) eqn:E; cbn.
      + apply fp_eqb_eq in E. repeat split; cbn; congruence.
      + repeat split; cbn; congruence.
    - specialize (I3 A). repeat split; cbn; congruence. }
  destruct Q4 as [Q4 F4].
  destruct (spec_run_quiet t3 s4 H3 Q4) as ([Qa Qb] & _ & _).
  pose proof (spec_run_file t3 s4 H3) as F5.
  congruence.
Qed.

(* ---------------------------------------------------------------- the repaired loop satisfies holds_C38 *)

Lemma holds_from_app_cbs : forall f ld ran rest,
  holds_from f ld ran ([] ++ rest) = holds_from f ld ran rest.
Proof. reflexivity. Qed.

(* invariant linking the fold state of holds_from with the model state *)
Lemma spec_observe_holds : forall tr s q ran f ld, inv s -> inv2 s ->
  f = file s -> ld = loaded s ->
  (q = 1 -> file s = observed s) ->
  (ran = true -> ld = f) ->
  holds_from f ld ran (observe spec_step s q tr) = true.
Proof.
  induction tr as [|e r IH]; intros s q ran f ld I J Ef El Q R; [reflexivity|].
  subst f ld. cbn [observe].
  pose proof (spec_step_inv s e I) as I'. pose proof (spec_step_inv2 s e J) as J'.
  assert (LE : loaded s = evaluated s) by exact J.
  destruct e.
  - (* File *) cbn [spec_step gen_step fst] in *. cbn [holds_from].
    apply IH; try assumption; try discriminate; try reflexivity.
    cbn [file loaded]. destruct (fp_eqb (apply_fop o) (file s)) eqn:E; [|discriminate].
    apply fp_eqb_eq in E. intro RR. rewrite E. apply R. exact RR.
  - (* Tick *) cbn [spec_step gen_step fst] in *. cbn [map app].
    apply IH; try assumption.
    + rewrite reconcile_file. reflexivity.
    + rewrite reconcile_loaded. reflexivity.
    + intros _. rewrite reconcile_file, reconcile_observed. reflexivity.
  - (* Expire *) cbn [spec_step gen_step] in *. unfold spec_expire in *.
    destruct (armed s) eqn:A.
    + destruct (fp_eqb (file s) (evaluated s)) eqn:E.
      * cbn [map app fst] in *. apply fp_eqb_eq in E.
        assert (LF : loaded s = file s) by congruence.
        destruct q as [|[|q]].
        -- apply IH; try assumption; try discriminate; reflexivity.
        -- cbn [holds_from]. rewrite LF at 1. rewrite fp_eqb_refl. cbn [andb].
           apply IH; try assumption; try discriminate; reflexivity.
        -- apply IH; try assumption; try discriminate; reflexivity.
      * cbn [map app fst readc] in *. apply fp_eqb_neq in E.
        assert (NE0 : file s <> loaded s) by congruence.
        assert (NR : ran = false).
        { destruct ran; [|reflexivity]. exfalso. apply NE0. symmetry. apply R. reflexivity. }
        subst ran. cbn [holds_from]. rewrite fp_eqb_refl. cbn [andb negb].
        assert (NE : fp_eqb (file s) (loaded s) = false) by (apply fp_eqb_neq; exact NE0).
        rewrite NE. cbn [negb andb].
        destruct q as [|[|q]].
        -- apply IH; try assumption; try discriminate; reflexivity.
        -- cbn [holds_from]. rewrite fp_eqb_refl. cbn [andb].
           apply IH; try assumption; try discriminate; reflexivity.
        -- apply IH; try assumption; try discriminate; reflexivity.
    + cbn [map app fst] in *.
      destruct q as [|[|q]].
      * apply IH; try assumption; reflexivity.
      * cbn [holds_from].
        assert (LF : loaded s = file s).
        { rewrite LE. rewrite <- (I A). symmetry. apply Q. reflexivity. }
        rewrite LF at 1. rewrite fp_eqb_refl. cbn [andb].
        apply IH; try assumption; try discriminate; reflexivity.
      * apply IH; try assumption; try discriminate; reflexivity.
  - (* Event *) cbn [spec_step gen_step] in *. cbn [map app].
    destruct (alive s); cbn [fst] in *.
    + apply IH; try assumption.
      * rewrite reconcile_file. reflexivity.
      * rewrite reconcile_loaded. reflexivity.
      * intros _. rewrite reconcile_file, reconcile_observed. reflexivity.
    + apply IH; try assumption; reflexivity.
  - cbn [spec_step gen_step fst] in *. cbn [map app]. apply IH; try assumption; reflexivity.
  - cbn [spec_step gen_step fst] in *. cbn [map app]. apply IH; try assumption; reflexivity.
  - cbn [spec_step gen_step fst] in *. cbn [map app]. apply IH; try assumption; reflexivity.
Qed.

Lemma spec_satisfies_holds_C38 : forall f0 tr, holds_C38 f0 (observe spec_step (init f0) 0 tr) = true.
Proof.
  intros f0 tr. unfold holds_C38.
  apply spec_observe_holds; try discriminate; try reflexivity; try apply inv_init; try apply inv2_init.
Qed.

(* ---------------------------------------------------------------- the loop as it is: refuted at content level *)

Local Open Scope N_scope.

(* A written, observed; B written inside the debounce window without a notification; the expiry runs the
   callback (candidate A, reads B); A written back: every later tick sees file = observed, nothing pending. *)
Definition stuck_trace : list step :=
  [File (Write 1); Tick false; File (Write 2); Expire; File (Write 1); Tick false; Expire; Tick false; Expire].

Lemma impl_stuck : let s := fst (run impl_step (init (Some 0)) stuck_trace) in
  file s = Some 1 /\ evaluated s = Some 1 /\ observed s = Some 1 /\ armed s = false /\ loaded s = Some 2.
Proof. vm_compute. repeat split. Qed.

Lemma impl_stuck_holds_false : holds_C38 (Some 0) (observe impl_step (init (Some 0)) 0 stuck_trace) = false.
Proof. vm_compute. reflexivity. Qed.

(* the same root cause, milder symptom: the callback runs twice for the same content *)
Definition twice_trace : list step := [File (Write 1); Tick false; File (Write 2); Expire; Tick false; Expire].
Lemma impl_twice : map readc (snd (run impl_step (init (Some 0)) twice_trace)) = [Some 2; Some 2].
Proof. vm_compute. reflexivity. Qed.

(* ... and off the trigger both loops are the same function *)
Lemma expire_eq_when_synced : forall s, (armed s && negb (fp_eqb (file s) (observed s))) = false ->
  impl_expire s = spec_expire s.
Proof.
  intros s H. unfold impl_expire, spec_expire. destruct (armed s); [|reflexivity].
  cbn in H. apply negb_false_iff in H. apply fp_eqb_eq in H. rewrite H. reflexivity.
Qed.

Lemma impl_eq_spec_off_trigger_gen : forall tr s, stale_expiry s tr = false -> run impl_step s tr = run spec_step s tr.
Proof.
  induction tr as [|e r IH]; intros s H; [reflexivity|].
  cbn [stale_expiry] in H. apply orb_false_iff in H. destruct H as [H1 H2].
  assert (E : impl_step s e = spec_step s e).
  { destruct e; try reflexivity. cbn. apply expire_eq_when_synced. exact H1. }
  rewrite !run_cons. rewrite <- E. rewrite IH by exact H2. reflexivity.
Qed.

(* ---------------------------------------------------------------- statements over reachable states *)

Lemma reachable_spec_inv : forall f0 pre, inv (fst (run spec_step (init f0) pre)) /\ inv2 (fst (run spec_step (init f0) pre)).
Proof. intros. split; [apply spec_run_inv, inv_init | apply spec_run_inv2, inv2_init]. Qed.

Lemma C38_at_most_once : forall f0 pre tr, stable tr = true ->
  let s := fst (run impl_step (init f0) pre) in
  (count_fp (file s) (map cand (snd (run impl_step s tr))) <= 1)%nat /\ (length (snd (run impl_step s tr)) <= 2)%nat.
Proof.
  intros f0 pre tr H s. split.
  - apply at_most_once_per_stable_content; [apply reachable_inv | exact H].
  - apply at_most_two_per_stable_stretch; [apply reachable_inv | exact H].
Qed.

Lemma C38_eventually_final : forall f0 pre t1 b t2 t3,
  stable (t1 ++ Tick b :: t2 ++ Expire :: t3) = true ->
  let s := fst (run impl_step (init f0) pre) in
  evaluated (fst (run impl_step s (t1 ++ Tick b :: t2 ++ Expire :: t3))) = file s.
Proof. intros. apply eventually_final; [apply reachable_inv | assumption]. Qed.

Lemma C38_spec_never_same : forall f0 tr,
  no_adjacent_dup (f0 :: map readc (snd (run spec_step (init f0) tr))) = true.
Proof. intros. exact (spec_never_same_gen tr (init f0) (inv2_init f0)). Qed.

Lemma C38_spec_at_most_once : forall f0 pre tr, stable tr = true ->
  (length (snd (run spec_step (fst (run spec_step (init f0) pre)) tr)) <= 1)%nat.
Proof. intros. apply spec_stable_le1; [apply reachable_spec_inv | assumption]. Qed.

Lemma C38_spec_eventually_final : forall f0 pre t1 b t2 t3,
  stable (t1 ++ Tick b :: t2 ++ Expire :: t3) = true ->
  let s := fst (run spec_step (init f0) pre) in
  loaded (fst (run spec_step s (t1 ++ Tick b :: t2 ++ Expire :: t3))) = file s.
Proof. intros. apply spec_eventually_gen; try assumption; apply reachable_spec_inv. Qed.

Lemma C38_refuted : exists f0 tr,
  stale_expiry (init f0) tr = true /\
  holds_C38 f0 (observe impl_step (init f0) 0 tr) = false /\
  (exists t, tr = t ++ [Tick false; Expire; Tick false; Expire] /\
             file (fst (run impl_step (init f0) t)) = file (fst (run impl_step (init f0) tr))) /\
  loaded (fst (run impl_step (init f0) tr)) <> file (fst (run impl_step (init f0) tr)).
Proof.
  exists (Some 0), stuck_trace. split; [vm_compute; reflexivity|]. split; [exact impl_stuck_holds_false|]. split.
  - exists [File (Write 1); Tick false; File (Write 2); Expire; File (Write 1)]. split; vm_compute; reflexivity.
  - vm_compute. discriminate.
Qed.

(* non-vacuity: a stable stretch with a tick and an expiry in which the callback really runs *)
Lemma C38_nonvacuous :
  let s := fst (run impl_step (init (Some 0)) [File (Replace 1); Dropped]) in
  stable [WatcherLost; Tick false; Event; Expire; Tick true] = true /\
  run impl_step s [WatcherLost; Tick false; Event; Expire; Tick true]
  = (mkst (Some 1) (Some 1) (Some 1) false true (Some 1), [Callback (Some 1) (Some 1)]).
Proof. vm_compute. split; reflexivity. Qed.
