(* C28 - refutations for the PRE-FIX tab list / encoder ([old_tcfg]; fixed by d54f770, d5f50a6, eb9ac68), examples, and the link between the judge's
   decidable comparison and entry-for-entry equality. *)
From Coq Require Import List NArith ZArith Bool Lia String.
From Verif Require Import Base.Hex Base.Assoc Model.TabList Proofs.C28_Struct Proofs.C28_Wire.
Import ListNotations.
Open Scope string_scope.
Open Scope N_scope.

Lemma tcfg_impl_is_spec_proof : impl_tcfg = spec_tcfg.
Proof. reflexivity. Qed.

(* ---------- decidable comparison = equality ---------- *)

Lemma beq_bytes_refl a : beq_bytes a a = true.
Proof. apply beq_bytes_eq. reflexivity. Qed.
Lemma prop_eqb_refl p : prop_eqb p p = true.
Proof. unfold prop_eqb. rewrite !beq_bytes_refl. reflexivity. Qed.
Lemma list_eqb_refl {A} (eqb : A -> A -> bool) : (forall x, eqb x x = true) -> forall l, list_eqb eqb l l = true.
Proof. intros R. induction l as [|x r IH]; [reflexivity|]. cbn. rewrite R, IH. reflexivity. Qed.

Lemma cinfo_eqb_eq a b : cinfo_eqb a b = true <-> a = b.
Proof.
  split.
  - unfold cinfo_eqb. intros H.
    repeat (apply andb_true_iff in H; let X := fresh "E" in destruct H as [H X]).
    apply beq_bytes_eq in H. apply (list_eqb_eq _ prop_eqb_eq) in E4.
    apply Bool.eqb_prop in E3. apply Z.eqb_eq in E2. apply N.eqb_eq in E1. apply Z.eqb_eq in E.
    assert (D : c_dn a = c_dn b).
    { destruct (c_dn a), (c_dn b); cbn in E0; try discriminate; [|reflexivity]. apply beq_bytes_eq in E0. congruence. }
    destruct a, b. cbn in *. subst. reflexivity.
  - intros <-. unfold cinfo_eqb. rewrite beq_bytes_refl, (list_eqb_refl _ prop_eqb_refl), Bool.eqb_reflx, Z.eqb_refl, N.eqb_refl, Z.eqb_refl.
    destruct (c_dn a); cbn; [rewrite beq_bytes_refl|]; reflexivity.
Qed.

Lemma same_view_spec a b : same_view a b = true <-> (forall k, aget k a = aget k b).
Proof. unfold same_view. apply ext_eqb_spec. apply cinfo_eqb_eq. Qed.

(* ---------- the pre-fix code: C28-1 (= C07-1) ---------- *)

Definition alice : pattrs := mkA (tx "Alice") [] 300 1 true None 0 false.
Definition quiet_bob : pattrs := mkA (tx "Bob") [] 0 (-1) true None 0 false.

(* the add of a listed creative-mode player with latency 300 ms is written latency, listed, game mode;
   the client reads game mode, listed, latency: it holds survival and 1 ms *)
Lemma order_refuted_values :
  exists c, client_after 765 [] (packets old_tcfg 765 [] [] [Add [(1, alice)]]) = Some c /\
            option_map c_gm (aget 1 c) = Some 0 /\ option_map c_latency (aget 1 c) = Some 1%Z /\
            option_map c_gm (aget 1 (view 765 [] (proxy_after old_tcfg 765 [] [] [Add [(1, alice)]]))) = Some 1 /\
            option_map c_latency (aget 1 (view 765 [] (proxy_after old_tcfg 765 [] [] [Add [(1, alice)]]))) = Some 300%Z.
Proof. eexists. split; [vm_compute; reflexivity|]. repeat split. Qed.

(* with a display name (NBT compound {text:"Al"}) the client cannot decode the packet at all *)
Definition tbl_al : list bytes := [hx "0a080004746578740002416c00"].
Definition alice_named : pattrs := mkA (tx "Alice") [] 300 1 true (Some 0) 0 false.
Lemma order_refuted_decode :
  client_after 765 [] (packets old_tcfg 765 tbl_al [] [Add [(1, alice_named)]]) = None /\
  exists c, client_after 765 [] (packets impl_tcfg 765 tbl_al [] [Add [(1, alice_named)]]) = Some c /\
            same_view (view 765 tbl_al (proxy_after impl_tcfg 765 tbl_al [] [Add [(1, alice_named)]])) c = true.
Proof. split; [vm_compute; reflexivity|]. eexists. split; vm_compute; reflexivity. Qed.

(* the same bit set, two byte strings (the probe of DESIGN.md) *)
Lemma same_bits_different_bytes :
  let e := mkD 1 [] [] false 0 true 300 None 0 false in
  bits_of [3; 4] = bits_of [4; 3] /\
  encode_upsert false [3; 4] [e] <> encode_upsert false [4; 3] [e] /\
  encode_upsert true [3; 4] [e] = encode_upsert true [4; 3] [e].
Proof. cbv zeta. split; [reflexivity|]. split; [vm_compute; discriminate|reflexivity]. Qed.

(* ---------- C28-2, C28-3 ---------- *)

Lemma readd_panics :
  map m_ret (run old_tcfg 765 [] [] [Add [(1, alice)]; AddLive 1]) = [TOk; TPanic].
Proof. vm_compute. reflexivity. Qed.

(* with encoding and nil check repaired: a re-add with another profile leaves the client with the old name *)
Definition bob_as_1 : pattrs := mkA (tx "Bob") [] 300 1 true None 0 false.
Lemma profile_change_lost :
  exists c, client_after 765 [] (packets (mkT true true false) 765 [] [] [Add [(1, alice)]; Add [(1, bob_as_1)]]) = Some c /\
            option_map c_name (aget 1 c) = Some (tx "Alice") /\
            option_map c_name (aget 1 (view 765 [] (proxy_after (mkT true true false) 765 [] [] [Add [(1, alice)]; Add [(1, bob_as_1)]]))) = Some (tx "Bob").
Proof. eexists. split; [vm_compute; reflexivity|]. split; reflexivity. Qed.

(* ---------- the demanded behaviour on the same histories, through the BYTES ---------- *)

Definition demo_history : list top :=
  [Add [(1, alice)]; AddLive 1; Add [(1, bob_as_1)]; SetLatency 1 5; SetGameMode 1 (-1);
   BackendUpsert [true; true; true; true; true; true; false; false]
                 [mkB 2 (tx "Carol") [mkProp (tx "textures") (tx "dmFsdWU=") []] 3 true 70000 None 0 false];
   RemoveAll [1]].

Lemma demo_agrees :
  exists c, client_after 765 [] (packets impl_tcfg 765 [] [] demo_history) = Some c /\
            same_view (view 765 [] (proxy_after impl_tcfg 765 [] [] demo_history)) c = true /\
            map fst c = [2].
Proof. eexists. split; [vm_compute; reflexivity|]. split; vm_compute; reflexivity. Qed.

(* the structured theorem's premise is met by the demo *)
Lemma demo_wf : Forall (wf_top 765) demo_history.
Proof.
  repeat constructor. intros a H L. cbv in H.
  repeat (destruct H as [<-|H]; [try reflexivity; exfalso; revert L; vm_compute; intros X; apply X; reflexivity|]). destruct H.
Qed.

Lemma demo_wf_acts : wf_acts 765 [true; true; true; true; true; true; false; false].
Proof.
  intros a H L. cbv in H.
  repeat (destruct H as [<-|H]; [try reflexivity; exfalso; revert L; vm_compute; intros X; apply X; reflexivity|]). destruct H.
Qed.

(* the premises of the byte-level theorem are met by the demo history (empty display-name table) *)
Lemma demo_wf_hist : tbl_ok 765 [] /\ wf_hist 765 [] [] demo_history.
Proof.
  split; [constructor|]. unfold demo_history.
  repeat match goal with
  | |- wf_hist _ _ _ (_ :: _) => cbn [wf_hist]; split; [|split; [|]]
  | |- wf_hist _ _ _ [] => exact I
  end.
  all: try exact I.
  all: try (apply demo_wf_acts).
  all: cbn [wf_op wf_top].
  all: unfold wf_remove, wf_bentry, wf_attrs, wf_props, wf_prop, short, int32, id_ok, dn_ok, alice, bob_as_1.
  all: repeat (split || constructor); try apply demo_wf_acts; cbn; try lia; try exact I.
Qed.
