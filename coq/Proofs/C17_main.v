(* C17 — property-level theorems, built on Proofs/C17.v. *)
From Coq Require Import List NArith Bool Arith Lia.
From Verif Require Import Base.Hex Base.Text Model.TryList Proofs.C17.
Import ListNotations.
Open Scope N_scope.

Lemma fresh_wf cfg vhost c cur inf : wf_state cfg vhost (mkP [] c cur inf).
Proof. left. reflexivity. Qed.

(* ---------- choice = first eligible entry at or after the cursor ---------- *)

Theorem first_eligible_thm cfg vhost reg current in_flight failed c i s :
  consistent reg (candidates cfg vhost) = true ->
  next_server cfg vhost reg current in_flight failed c = Some (i, s) ->
  (c <= i)%nat /\
  nth_error (candidates cfg vhost) i = Some s /\
  find_server reg s = Some s /\
  current <> Some s /\ in_flight <> Some s /\ failed <> Some s /\
  (forall j m t, (c <= j < i)%nat -> nth_error (candidates cfg vhost) j = Some m ->
     find_server reg m = Some t ->
     current = Some t \/ in_flight = Some t \/ failed = Some t).
Proof.
  intros Hcons H. unfold next_server in H.
  destruct (next cfg vhost reg (mkP [] c current in_flight) failed) as [st' r] eqn:En.
  simpl in H. subst r.
  destruct (next_some_impl _ _ _ _ _ _ _ _ (fresh_wf cfg vhost c current in_flight) En)
    as (n & Hle & _ & Hn & Hex & Hf & Hall).
  simpl in *.
  assert (s = n) as ->.
  { apply (consistent_spec reg _ Hcons n s); [eapply nth_error_In; eassumption | assumption]. }
  split; [exact Hle|]. split; [exact Hn|]. split; [exact Hf|].
  unfold Excl in Hex.
  split; [tauto|]. split; [tauto|]. split; [tauto|].
  intros j m t Hj Hm Ht.
  assert (t = m) as ->.
  { apply (consistent_spec reg _ Hcons m t); [eapply nth_error_In; eassumption | assumption]. }
  destruct (Hall j m Hj Hm) as [E|E]; [exact E | congruence].
Qed.

Theorem none_iff_thm cfg vhost reg current in_flight failed c :
  consistent reg (candidates cfg vhost) = true ->
  (next_server cfg vhost reg current in_flight failed c = None <->
   forall j m t, (c <= j)%nat -> nth_error (candidates cfg vhost) j = Some m ->
     find_server reg m = Some t ->
     current = Some t \/ in_flight = Some t \/ failed = Some t).
Proof.
  intro Hcons. unfold next_server. split.
  - intros H j m t Hj Hm Ht.
    destruct (next cfg vhost reg (mkP [] c current in_flight) failed) as [st' r] eqn:En.
    simpl in H. subst r.
    destruct (next_none_impl _ _ _ _ _ _ (fresh_wf cfg vhost c current in_flight) En) as [Hall _].
    simpl in Hall.
    assert (t = m) as ->.
    { apply (consistent_spec reg _ Hcons m t); [eapply nth_error_In; eassumption | assumption]. }
    destruct (Hall j m Hj Hm) as [E|E]; [exact E | congruence].
  - intro H. apply next_none_conv; [apply fresh_wf|]. simpl.
    intros j m Hj Hm. destruct (find_server reg m) as [t|] eqn:Ef; [|right; reflexivity].
    left. assert (t = m) as <-.
    { apply (consistent_spec reg _ Hcons m t); [eapply nth_error_In; eassumption | assumption]. }
    exact (H j t t Hj Hm Ef).
Qed.

(* the joining player: nothing excluded, cursor 0 *)
Theorem initial_choice_thm cfg vhost reg i s :
  consistent reg (candidates cfg vhost) = true ->
  next_server cfg vhost reg None None None 0 = Some (i, s) ->
  nth_error (match lookup_forced (clean vhost) (forced cfg) with [] => try_list cfg | l => l end) i = Some s /\
  find_server reg s = Some s /\
  (forall j m, (j < i)%nat ->
     nth_error (match lookup_forced (clean vhost) (forced cfg) with [] => try_list cfg | l => l end) j = Some m ->
     find_server reg m = None).
Proof.
  intros Hc H. destruct (first_eligible_thm _ _ _ _ _ _ _ _ _ Hc H) as (_ & Hn & Hf & _ & _ & _ & Hall).
  split; [exact Hn|]. split; [exact Hf|].
  intros j m Hj Hm. destruct (find_server reg m) as [t|] eqn:Ef; [|reflexivity].
  destruct (Hall j m t (conj (Nat.le_0_l j) Hj) Hm Ef) as [E|[E|E]]; discriminate.
Qed.

(* ---------- cursor ---------- *)

Theorem cursor_monotone_thm cfg vhost reg st failed :
  (cursor st <= cursor (fst (next cfg vhost reg st failed)))%nat.
Proof. apply next_cursor_monotone. Qed.

Theorem cursor_reset_thm cfg vhost st s :
  cursor (fst (step cfg vhost st (OConnected s))) = 0%nat /\
  cursor (fst (step cfg vhost st OPromote)) = 0%nat.
Proof. split; reflexivity. Qed.

(* a server that was chosen and then reported as failed is not chosen again: the next choice lies
   strictly further down the list (whatever happened to the registry in between) *)
Theorem failed_not_retried_thm cfg vhost reg reg' st st1 st2 failed0 i s j s' :
  wf_state cfg vhost st ->
  consistent reg (candidates cfg vhost) = true ->
  consistent reg' (candidates cfg vhost) = true ->
  next cfg vhost reg st failed0 = (st1, Some (i, s)) ->
  next cfg vhost reg' st1 (Some s) = (st2, Some (j, s')) ->
  (i < j)%nat /\ s' <> s.
Proof.
  intros Hwf Hc Hc' H1 H2.
  destruct (next_some_impl _ _ _ _ _ _ _ _ Hwf H1) as (n & _ & Hcur & Hn & _ & Hf & _).
  assert (s = n) as ->.
  { apply (consistent_spec reg _ Hc n s); [eapply nth_error_In; eassumption | assumption]. }
  assert (Hwf1 : wf_state cfg vhost st1).
  { pose proof (next_wf cfg vhost reg st failed0 Hwf) as W. rewrite H1 in W. exact W. }
  destruct (next_some_impl _ _ _ _ _ _ _ _ Hwf1 H2) as (n' & Hle & _ & Hn' & Hex & Hf' & _).
  assert (s' = n') as ->.
  { apply (consistent_spec reg' _ Hc' n' s'); [eapply nth_error_In; eassumption | assumption]. }
  assert (Hne : n' <> n).
  { intro E. apply Hex. right. right. rewrite E. reflexivity. }
  split; [|exact Hne].
  rewrite Hcur in Hle. destruct (Nat.eq_dec i j) as [E|E]; [|lia].
  subst j. rewrite Hn in Hn'. inversion Hn'. congruence.
Qed.

(* ---------- histories ---------- *)

Theorem history_thm cfg vhost ops :
  consistent_ops (candidates cfg vhost) ops = true ->
  holds_history (candidates cfg vhost) (mkS None None) 0 ops (run cfg vhost init_state ops) = true.
Proof.
  intro H. apply (run_holds cfg vhost ops init_state (mkS None None)); try reflexivity.
  - apply init_wf.
  - exact H.
Qed.

(* ---------- cleaning ---------- *)

Theorem clean_case_insensitive_thm h h' rest rest' :
  plain_host h = true -> plain_host h' = true ->
  removable_suffix rest = true -> removable_suffix rest' = true ->
  go_to_lower h = go_to_lower h' ->
  clean (h ++ rest) = clean (h' ++ rest').
Proof.
  intros A B C D E. rewrite (clean_removes_suffixes h rest A C), (clean_removes_suffixes h' rest' B D).
  exact E.
Qed.

Lemma is_ascii_lt (h : bytes) x : is_ascii h = true -> In x h -> x < 128.
Proof.
  unfold is_ascii. rewrite forallb_forall. intros H Hin. apply N.ltb_lt. apply H. exact Hin.
Qed.

Lemma lower0 : lower_cp 0 = 0.
Proof. reflexivity. Qed.

Lemma last_map_lower (h : bytes) : last (map lower_cp h) 0 = lower_cp (last h 0).
Proof.
  induction h as [|c h IH]; [reflexivity|].
  destruct h as [|d h]; [reflexivity|].
  change (last (map lower_cp (c :: d :: h)) 0) with (last (map lower_cp (d :: h)) 0).
  change (last (c :: d :: h) 0) with (last (d :: h) 0). exact IH.
Qed.

Lemma last_in_or_default (h : bytes) : h = [] \/ In (last h 0) h.
Proof.
  induction h as [|c h IH]; [left; reflexivity|]. right.
  destruct h as [|d h]; [left; reflexivity|].
  destruct IH as [E|E]; [discriminate|]. right. exact E.
Qed.

Lemma plain_host_lower (h : bytes) :
  is_ascii h = true -> plain_host h = true -> plain_host (map lower_cp h) = true.
Proof.
  intros Ha Hp. unfold plain_host in *.
  apply andb_true_iff in Hp. destruct Hp as [Hp Hl]. apply andb_true_iff in Hp. destruct Hp as [Hs Hf].
  apply andb_true_iff. split; [apply andb_true_iff; split|].
  - rewrite forallb_forall in *. intros y Hy. apply in_map_iff in Hy. destruct Hy as (x & <- & Hx).
    specialize (Hs x Hx). pose proof (is_ascii_lt h x Ha Hx) as Hlt.
    unfold is_sep in *.
    rewrite !(lower_cp_eqb_nonletter x) by (try exact Hlt; lia). exact Hs.
  - destruct h as [|c h]; [reflexivity|]. simpl in *.
    rewrite (lower_cp_eqb_nonletter c 46); [exact Hf| |lia].
    apply (is_ascii_lt (c :: h) c Ha). left. reflexivity.
  - rewrite last_map_lower.
    destruct (last_in_or_default h) as [->|Hin]; [reflexivity|].
    rewrite (lower_cp_eqb_nonletter (last h 0) 46); [exact Hl| |lia].
    apply (is_ascii_lt h _ Ha Hin).
Qed.

Lemma is_ascii_lower (h : bytes) : is_ascii h = true -> is_ascii (map lower_cp h) = true.
Proof.
  unfold is_ascii. rewrite !forallb_forall. intros H y Hy.
  apply in_map_iff in Hy. destruct Hy as (x & <- & Hx). apply lower_cp_ascii. apply H. exact Hx.
Qed.

Theorem clean_idempotent_ascii_thm h rest :
  is_ascii h = true -> plain_host h = true -> removable_suffix rest = true ->
  clean (clean (h ++ rest)) = clean (h ++ rest).
Proof.
  intros Ha Hp Hr. rewrite (clean_removes_suffixes h rest Hp Hr).
  rewrite (go_to_lower_ascii h Ha).
  pose proof (clean_removes_suffixes (map lower_cp h) [] (plain_host_lower h Ha Hp) eq_refl) as E.
  rewrite app_nil_r in E. rewrite E.
  rewrite (go_to_lower_ascii _ (is_ascii_lower h Ha)).
  rewrite map_map. apply map_ext_in. intros x Hx. apply lower_cp_idem_ascii.
  apply (is_ascii_lt h x Ha Hx).
Qed.

(* "a.:1" cleans to "a." and that to "a": a trailing dot in front of the port survives the first pass *)
Theorem clean_not_idempotent_thm : exists s, clean (clean s) <> clean s.
Proof. exists [97; 46; 58; 49]. vm_compute. discriminate. Qed.

(* ---------- examples: premises are satisfiable; what happens outside the premise ---------- *)

(* try = [a; b; c], all registered, connected to a which fails: b (index 1) is chosen, then c, then nothing *)
Example nonvacuous_run :
  let cfg := mkConfig [] [[97]; [98]; [99]] in
  let reg := [[97]; [98]; [99]] in
  consistent reg (candidates cfg []) = true /\
  run cfg [] init_state
    [ONext reg None; OConnected (Some [97]); ONext reg (Some [97]); ONext reg (Some [98]); ONext reg (Some [99])]
  = [mkObs (Some [97]) 0; mkObs None 0; mkObs (Some [98]) 1; mkObs (Some [99]) 2; mkObs None 2].
Proof. vm_compute. split; reflexivity. Qed.

(* forced host hit through port, Forge marker and mixed case: "Play.Example.com\0FML\0:25565" *)
Example nonvacuous_clean :
  let h := [80;108;97;121;46;69;120;97;109;112;108;101;46;99;111;109] in
  plain_host h = true /\
  clean (h ++ [0;70;77;76;0;58;50;53;53;54;53]) = [112;108;97;121;46;101;120;97;109;112;108;101;46;99;111;109].
Proof. vm_compute. split; reflexivity. Qed.

(* outside the loaded-configuration premise: the try list says "Lobby", the server was registered as
   "lobby" (API registration under another spelling); sameName compares exactly, so the failed server
   itself is chosen again *)
Example case_variant_retried :
  let cfg := mkConfig [] [[76;111;98;98;121]] in
  let reg := [[108;111;98;98;121]] in
  consistent reg (candidates cfg []) = false /\
  next_server cfg [] reg None None (Some [108;111;98;98;121]) 0 = Some (0%nat, [108;111;98;98;121]).
Proof. vm_compute. split; reflexivity. Qed.
