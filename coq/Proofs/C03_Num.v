(* C03 — numeric primitives: big-endian fixed width, signed views, VarInt, bool, UUID. *)
From Coq Require Import List NArith ZArith Lia Bool.
From Coq Require Import ZifyN ZifyNat ZifyBool.
From Verif Require Import Base.Hex Model.Prim Proofs.C03_Lib.
From Verif Require Base.VarInt.
Import ListNotations.
Open Scope N_scope.
Ltac Zify.zify_post_hook ::= Z.div_mod_to_equations.

(* ---------- big endian ---------- *)

Lemma be_enc_length k : forall x, length (be_enc k x) = k.
Proof.
  induction k as [|k IH]; intro x; [reflexivity|].
  cbn [be_enc]. rewrite app_length, IH. cbn [length]. lia.
Qed.

Lemma be_enc_len k x : len (be_enc k x) = N.of_nat k.
Proof. unfold len. rewrite be_enc_length. reflexivity. Qed.

Lemma be_val_snoc l b : be_val (l ++ [b]) = be_val l * 256 + b.
Proof. unfold be_val. rewrite fold_left_app. reflexivity. Qed.

Lemma be_val_fold l : forall a, fold_left (fun a b => a * 256 + b) l a = a * 256 ^ len l + be_val l.
Proof.
  unfold be_val. induction l as [|b l IH]; intro a.
  - cbn [fold_left]. rewrite len_nil, N.pow_0_r. lia.
  - cbn [fold_left]. rewrite (IH (a * 256 + b)), (IH (0 * 256 + b)), len_cons.
    rewrite N.pow_add_r, N.pow_1_r. lia.
Qed.

Lemma be_val_app a b : be_val (a ++ b) = be_val a * 256 ^ len b + be_val b.
Proof. unfold be_val at 1. rewrite fold_left_app. apply be_val_fold. Qed.

Lemma be_val_enc k : forall x, x < 256 ^ N.of_nat k -> be_val (be_enc k x) = x.
Proof.
  induction k as [|k IH]; intros x H.
  - rewrite N.pow_0_r in H. cbn. lia.
  - cbn [be_enc]. rewrite be_val_snoc. rewrite Nat2N.inj_succ, N.pow_succ_r' in H.
    rewrite IH by lia. lia.
Qed.

Lemma be_enc_val_rev bs : wf_bytes (rev bs) -> be_enc (length bs) (be_val (rev bs)) = rev bs.
Proof.
  induction bs as [|b bs IH]; intro W; [reflexivity|].
  cbn [rev length] in *. apply Forall_app in W. destruct W as [W1 W2].
  assert (Hb : b < 256) by (inversion W2; assumption).
  cbn [be_enc]. rewrite be_val_snoc.
  replace ((be_val (rev bs) * 256 + b) / 256) with (be_val (rev bs)) by lia.
  replace ((be_val (rev bs) * 256 + b) mod 256) with b by lia.
  rewrite IH by assumption. reflexivity.
Qed.

Lemma be_enc_val bs : wf_bytes bs -> be_enc (length bs) (be_val bs) = bs.
Proof.
  intro W. pose proof (be_enc_val_rev (rev bs)) as H.
  rewrite rev_involutive, rev_length in H. apply H. exact W.
Qed.

Lemma be_val_lt bs : wf_bytes bs -> be_val bs < 256 ^ len bs.
Proof.
  induction bs as [|b bs IH] using rev_ind; intro W.
  - cbn. lia.
  - apply Forall_app in W. destruct W as [W1 W2].
    assert (Hb : b < 256) by (inversion W2; assumption).
    rewrite be_val_snoc, len_app, N.pow_add_r. change (len [b]) with 1. rewrite N.pow_1_r.
    specialize (IH W1). lia.
Qed.

(* ---------- ReadUintK / WriteUintK ---------- *)

Lemma codec_uint k : (0 < k)%nat ->
  codec_ok (fun x => x < 256 ^ N.of_nat k) (write_uint k) (impl_read_uint (N.of_nat k)).
Proof.
  intro Hk. unfold impl_read_uint, write_uint. apply fixed_ok.
  - lia.
  - intros v _. apply be_enc_len.
  - intros v D. apply be_val_enc. exact D.
Qed.

(* PRE-FIX reader (before 2257945): off the trigger (no bytes, or at least w bytes) it agreed with io.ReadFull *)
Lemma old_read_uint_off_trigger w s :
  0 < w -> (s = [] \/ w <= len s) -> old_read_uint w s = impl_read_uint w s.
Proof.
  intros Hw [-> | L]; unfold old_read_uint, impl_read_uint, rd_read, rd_full.
  - replace (w =? 0) with false by (symmetry; apply N.eqb_neq; lia).
    replace (w <=? len []) with false by (symmetry; apply N.leb_gt; rewrite len_nil; lia).
    reflexivity.
  - replace (w =? 0) with false by (symmetry; apply N.eqb_neq; lia).
    replace (w <=? len s) with true by (symmetry; apply N.leb_le; lia).
    destruct s; [rewrite len_nil in L; lia | reflexivity].
Qed.

(* PRE-FIX reader: on the trigger it returned a zero-padded value with a nil error *)
Lemma old_read_uint_on_trigger w s :
  0 < len s < w -> old_read_uint w s = Ok (be_val (s ++ zeros (w - len s)), []).
Proof.
  intros [L1 L2]. unfold old_read_uint, rd_read.
  destruct s as [|b s]; [rewrite len_nil in L1; lia|].
  replace (w <=? len (b :: s)) with false by (symmetry; apply N.leb_gt; lia).
  reflexivity.
Qed.

(* ---------- signed views ---------- *)

Lemma signed_roundtrip bits z : 0 < bits ->
  (- Z.of_N (2 ^ (bits - 1)) <= z < Z.of_N (2 ^ (bits - 1)))%Z ->
  to_signed bits (of_signed bits z) = z /\ of_signed bits z < 2 ^ bits.
Proof.
  intros Hb Hz. unfold to_signed, of_signed.
  assert (E : 2 ^ bits = 2 * 2 ^ (bits - 1)).
  { rewrite <- N.pow_succ_r'. f_equal. lia. }
  set (H := 2 ^ (bits - 1)) in *. rewrite E.
  assert (0 < H) by (apply N.neq_0_lt_0; unfold H; apply N.pow_nonzero; lia).
  assert (M : (z mod Z.of_N (2 * H) = if z <? 0 then z + Z.of_N (2 * H) else z)%Z).
  { destruct (Z.ltb_spec z 0).
    - rewrite <- (Z_mod_plus_full z 1 (Z.of_N (2 * H))). rewrite Z.mod_small; lia.
    - apply Z.mod_small. lia. }
  rewrite M. clear M. split.
  - destruct (Z.ltb_spec z 0); match goal with |- context [?a <? ?b] => destruct (N.ltb_spec a b) end; lia.
  - destruct (Z.ltb_spec z 0); lia.
Qed.

Lemma codec_int k : (0 < k)%nat ->
  codec_ok (fun z => (- Z.of_N (2 ^ (8 * N.of_nat k - 1)) <= z < Z.of_N (2 ^ (8 * N.of_nat k - 1)))%Z)
           (write_int k) (read_int (N.of_nat k)).
Proof.
  intro Hk. unfold write_int, read_int.
  apply (dmap_ok (fun x => x < 256 ^ N.of_nat k) _ (write_uint k) (impl_read_uint (N.of_nat k))
                 (to_signed (8 * N.of_nat k)) (of_signed (8 * N.of_nat k))).
  - apply codec_uint. exact Hk.
  - intros z D. replace 256 with (2 ^ 8) by reflexivity. rewrite <- N.pow_mul_r.
    apply signed_roundtrip; [lia | exact D].
  - intros z D. apply signed_roundtrip; [lia | exact D].
Qed.

(* ---------- uint8 / int8 / bool ---------- *)

Lemma codec_uint8 : codec_ok (fun x => x < 256) write_uint8 read_uint8.
Proof.
  split.
  - intros v rest D. unfold write_uint8, read_uint8. rewrite N.mod_small by exact D. reflexivity.
  - intros v p D SP. unfold write_uint8 in SP. apply sprefix_len in SP.
    change (len [v mod 256]) with 1 in SP. assert (len p = 0) by lia.
    rewrite (len_0_nil p) by assumption. eexists. reflexivity.
  - intros v D. discriminate.
Qed.

Lemma codec_int8 : codec_ok (fun z => (-128 <= z < 128)%Z) write_int8 read_int8.
Proof.
  unfold write_int8, read_int8.
  apply (dmap_ok (fun x => x < 256) _ write_uint8 read_uint8 (to_signed 8) (of_signed 8) codec_uint8).
  - intros z D. apply (signed_roundtrip 8 z); [lia | exact D].
  - intros z D. apply (signed_roundtrip 8 z); [lia | exact D].
Qed.

Lemma codec_bool : codec_ok (fun _ : bool => True) write_bool read_bool.
Proof.
  unfold read_bool.
  apply (codec_ok_ext _ (fun b : bool => write_uint8 (if b then 1 else 0)) write_bool
                      (dmap (fun b => negb (b =? 0)) read_uint8)).
  - intros [|] _; reflexivity.
  - reflexivity.
  - apply (dmap_ok (fun x => x < 256) _ write_uint8 read_uint8 _ (fun b : bool => if b then 1 else 0) codec_uint8).
    + intros [|] _; lia.
    + intros [|] _; reflexivity.
Qed.

(* ---------- VarInt ---------- *)

Lemma varint_enc_ne u : VarInt.enc u <> [].
Proof. unfold VarInt.enc. cbn [VarInt.enc_fuel]. destruct (u <? 128); discriminate. Qed.

(* every strict prefix of a VarInt runs out of bytes *)
Lemma varint_prefix_gen k : forall i acc u p,
  i + N.of_nat k = 5 -> (0 < k)%nat -> acc < 2 ^ (7 * i) -> u < 2 ^ (32 - 7 * i) ->
  sprefix p (VarInt.enc_fuel k u) ->
  VarInt.dec_fuel (S k) i acc p = VarInt.Err VarInt.ErrShort.
Proof.
  induction k as [|k IH]; intros i acc u p Hik Hk Hacc Hu SP; [lia|].
  cbn [VarInt.enc_fuel] in SP. destruct (N.ltb_spec u 128) as [Hs|Hb].
  - apply sprefix_cons_inv in SP. destruct SP as [-> | (p' & _ & (q & Hq & E))]; [reflexivity|].
    symmetry in E. apply app_eq_nil in E. destruct E; congruence.
  - apply sprefix_cons_inv in SP. destruct SP as [-> | (p' & -> & SP')]; [reflexivity|].
    assert (Hi : i < 4).
    { destruct (N.eq_dec i 4) as [->|]; [cbn in Hu; lia | lia]. }
    rewrite VarInt.dec_more by (try assumption; lia).
    destruct k as [|k']. { cbn [VarInt.enc_fuel] in SP'. destruct SP' as (q & Hq & E). symmetry in E.
                           apply app_eq_nil in E. destruct E; congruence. }
    apply (IH (i + 1) _ (u / 128)).
    + lia.
    + lia.
    + replace (7 * (i + 1)) with (7 * i + 7) by lia. rewrite N.pow_add_r. change (2 ^ 7) with 128.
      assert (u mod 128 < 128) by (apply N.mod_lt; lia). nia.
    + destruct (VarInt.i_cases i ltac:(lia)) as [->|[->|[->|[->| ->]]]]; cbn in *; lia.
    + exact SP'.
Qed.

Lemma varint_prefix u p : u < 2 ^ 32 -> sprefix p (VarInt.enc u) -> VarInt.dec p = VarInt.Err VarInt.ErrShort.
Proof.
  intros Hu SP. unfold VarInt.dec. apply (varint_prefix_gen 5 0 0 u p); cbn; try lia. exact SP.
Qed.

Definition dom_varint (v : Z) : Prop := (- 2 ^ 31 <= v < 2 ^ 31)%Z.

Lemma of_signed32 v : dom_varint v -> to_signed 32 (of_signed 32 v) = v /\ of_signed 32 v < 2 ^ 32.
Proof. intro D. apply signed_roundtrip; [lia | exact D]. Qed.

Lemma codec_varint : codec_ok dom_varint write_varint read_varint.
Proof.
  split.
  - intros v rest D. destruct (of_signed32 v D) as [E L]. unfold read_varint, write_varint.
    rewrite VarInt.varint_roundtrip by exact L. rewrite E. reflexivity.
  - intros v p D SP. destruct (of_signed32 v D) as [E L]. unfold read_varint.
    unfold write_varint in SP. rewrite (varint_prefix _ _ L SP). eexists. reflexivity.
  - intros v D. apply varint_enc_ne.
Qed.

Lemma read_varint_n_roundtrip v rest : dom_varint v ->
  read_varint_n (write_varint v ++ rest) = Ok ((v, len (write_varint v)), rest).
Proof.
  intro D. destruct (of_signed32 v D) as [E L]. unfold read_varint_n, write_varint.
  rewrite VarInt.varint_roundtrip by exact L. rewrite E. reflexivity.
Qed.

(* ---------- UUID ---------- *)

Definition dom_uuid (u : bytes) : Prop := length u = 16%nat /\ wf_bytes u.

Lemma wf_firstn n (u : bytes) : wf_bytes u -> wf_bytes (firstn n u).
Proof. intro W. unfold wf_bytes in *. rewrite <- (firstn_skipn n u) in W. apply Forall_app in W. tauto. Qed.
Lemma wf_skipn n (u : bytes) : wf_bytes u -> wf_bytes (skipn n u).
Proof. intro W. unfold wf_bytes in *. rewrite <- (firstn_skipn n u) in W. apply Forall_app in W. tauto. Qed.

Lemma write_uuid_id u : dom_uuid u -> write_uuid u = u.
Proof.
  intros [L W]. unfold write_uuid.
  assert (L1 : length (firstn 8 u) = 8%nat) by (rewrite firstn_length; lia).
  assert (L2 : length (skipn 8 u) = 8%nat) by (rewrite skipn_length; lia).
  rewrite <- L1 at 1. rewrite be_enc_val by (apply wf_firstn; exact W).
  rewrite <- L2 at 2. rewrite be_enc_val by (apply wf_skipn; exact W).
  apply firstn_skipn.
Qed.

Lemma codec_uuid : codec_ok dom_uuid write_uuid read_uuid.
Proof.
  apply (codec_ok_ext dom_uuid (fun u => u) write_uuid
                      (fun s => bind (rd_full 16 s) (fun b r => Ok (b, r))) read_uuid).
  - intros v D. apply write_uuid_id. exact D.
  - intro s. unfold read_uuid. destruct (rd_full 16 s) as [[b r]|e]; reflexivity.
  - apply (fixed_ok dom_uuid (fun u => u) (fun b => b) 16).
    + lia.
    + intros v [L _]. unfold len. rewrite L. reflexivity.
    + reflexivity.
Qed.

(* the int-array layout writes the same sixteen bytes *)
Lemma be_enc_split a : forall b x, be_enc (a + b) x = be_enc a (x / 256 ^ N.of_nat b) ++ be_enc b x.
Proof.
  intros b. induction b as [|b IH]; intro x.
  - rewrite Nat.add_0_r. cbn [be_enc]. rewrite N.pow_0_r, N.div_1_r, app_nil_r. reflexivity.
  - rewrite Nat.add_succ_r. cbn [be_enc]. rewrite IH, <- app_assoc.
    rewrite Nat2N.inj_succ, N.pow_succ_r', N.div_div by (try apply N.pow_nonzero; lia).
    rewrite (N.mul_comm 256). reflexivity.
Qed.

Lemma write_uuid_ints_eq u : write_uuid_ints u = write_uuid u.
Proof.
  unfold write_uuid_ints, write_uuid. rewrite app_assoc, (app_assoc (be_enc 4 _ ++ be_enc 4 _)), <- app_assoc.
  change (2 ^ 32) with (256 ^ N.of_nat 4).
  rewrite <- (be_enc_split 4 4), <- (be_enc_split 4 4). reflexivity.
Qed.

Definition quad := (N * (N * (N * N)))%type.
Definition quad_bytes (q : quad) : bytes :=
  let '(a, (b, (c, d))) := q in be_enc 8 (a * 2 ^ 32 + b) ++ be_enc 8 (c * 2 ^ 32 + d).
Definition quad_of (u : bytes) : quad :=
  (be_val (firstn 4 u), (be_val (firstn 4 (skipn 4 u)),
   (be_val (firstn 4 (skipn 8 u)), be_val (skipn 12 u)))).
Definition dec_quad : dec_t quad :=
  dec_pair (impl_read_uint 4) (dec_pair (impl_read_uint 4) (dec_pair (impl_read_uint 4) (impl_read_uint 4))).
Definition dom_quad (q : quad) : Prop :=
  fst q < 256 ^ 4 /\ fst (snd q) < 256 ^ 4 /\ fst (snd (snd q)) < 256 ^ 4 /\ snd (snd (snd q)) < 256 ^ 4.

Lemma codec_quad : codec_ok dom_quad
  (fun q => write_uint 4 (fst q) ++ write_uint 4 (fst (snd q)) ++ write_uint 4 (fst (snd (snd q))) ++ write_uint 4 (snd (snd (snd q))))
  dec_quad.
Proof.
  pose proof (codec_uint 4 ltac:(lia)) as U. change (N.of_nat 4) with 4 in U.
  pose proof (pair_ok _ _ _ _ _ _ U (pair_ok _ _ _ _ _ _ U (pair_ok _ _ _ _ _ _ U U))) as P.
  eapply codec_ok_dom; [|exact P].
  intros [a [b [c d]]] (Ha & Hb & Hc & Hd). cbn [fst snd] in *. tauto.
Qed.

Lemma chunk4 (u : bytes) n : (n + 4 <= length u)%nat -> length (firstn 4 (skipn n u)) = 4%nat.
Proof. intro H. rewrite firstn_length, skipn_length. lia. Qed.

Lemma skipn_skipn' {A} (a b : nat) : forall l : list A, skipn a (skipn b l) = skipn (b + a) l.
Proof.
  induction b as [|b IH]; intro l; [reflexivity|].
  destruct l as [|x l]; [rewrite !skipn_nil; reflexivity|]. cbn [skipn Nat.add]. apply IH.
Qed.

Lemma uuid_chunks (u : bytes) : length u = 16%nat ->
  u = firstn 4 u ++ firstn 4 (skipn 4 u) ++ firstn 4 (skipn 8 u) ++ skipn 12 u.
Proof.
  intro L.
  rewrite <- (firstn_skipn 4 u) at 1. f_equal.
  rewrite <- (firstn_skipn 4 (skipn 4 u)) at 1. f_equal.
  rewrite skipn_skipn'. change (4 + 4)%nat with 8%nat.
  rewrite <- (firstn_skipn 4 (skipn 8 u)) at 1. f_equal.
  rewrite skipn_skipn'. reflexivity.
Qed.

Lemma quad_roundtrip u : dom_uuid u ->
  dom_quad (quad_of u) /\ quad_bytes (quad_of u) = u /\
  (let q := quad_of u in write_uint 4 (fst q) ++ write_uint 4 (fst (snd q)) ++ write_uint 4 (fst (snd (snd q))) ++ write_uint 4 (snd (snd (snd q)))) = u.
Proof.
  intros [L W].
  set (u1 := firstn 4 u). set (u2 := firstn 4 (skipn 4 u)). set (u3 := firstn 4 (skipn 8 u)). set (u4 := skipn 12 u).
  assert (L1 : length u1 = 4%nat) by (unfold u1; rewrite firstn_length; lia).
  assert (L2 : length u2 = 4%nat) by (unfold u2; apply chunk4; lia).
  assert (L3 : length u3 = 4%nat) by (unfold u3; apply chunk4; lia).
  assert (L4 : length u4 = 4%nat) by (unfold u4; rewrite skipn_length; lia).
  assert (W1 : wf_bytes u1) by (apply wf_firstn; exact W).
  assert (W2 : wf_bytes u2) by (apply wf_firstn, wf_skipn; exact W).
  assert (W3 : wf_bytes u3) by (apply wf_firstn, wf_skipn; exact W).
  assert (W4 : wf_bytes u4) by (apply wf_skipn; exact W).
  assert (B : forall x, length x = 4%nat -> wf_bytes x -> be_val x < 256 ^ 4).
  { intros x Lx Wx. pose proof (be_val_lt x Wx) as H. unfold len in H. rewrite Lx in H. exact H. }
  assert (E : forall x, length x = 4%nat -> wf_bytes x -> be_enc 4 (be_val x) = x).
  { intros x Lx Wx. rewrite <- Lx at 1. apply be_enc_val. exact Wx. }
  assert (P : forall x y, length x = 4%nat -> length y = 4%nat -> wf_bytes x -> wf_bytes y ->
              be_enc 8 (be_val x * 2 ^ 32 + be_val y) = x ++ y).
  { intros x y Lx Ly Wx Wy.
    replace (be_val x * 2 ^ 32 + be_val y) with (be_val (x ++ y)).
    - replace 8%nat with (length (x ++ y)) by (rewrite app_length; lia).
      apply be_enc_val. apply Forall_app. split; assumption.
    - rewrite be_val_app. unfold len. rewrite Ly. reflexivity. }
  unfold quad_of. fold u1 u2 u3 u4. split; [|split].
  - unfold dom_quad. cbn [fst snd]. repeat split; apply B; assumption.
  - unfold quad_bytes. rewrite !P by assumption. rewrite <- app_assoc.
    symmetry. apply uuid_chunks. exact L.
  - cbn [fst snd]. unfold write_uint. rewrite !E by assumption. symmetry. apply uuid_chunks. exact L.
Qed.

Lemma read_uuid_ints_as_quad s : impl_read_uuid_ints s = dmap quad_bytes dec_quad s.
Proof.
  unfold impl_read_uuid_ints, read_uuid_ints_with, dmap, dec_quad, dec_pair.
  destruct (impl_read_uint 4 s) as [[a r1]|e]; [|reflexivity]. cbn [bind].
  destruct (impl_read_uint 4 r1) as [[b r2]|e]; [|reflexivity]. cbn [bind].
  destruct (impl_read_uint 4 r2) as [[c r3]|e]; [|reflexivity]. cbn [bind].
  destruct (impl_read_uint 4 r3) as [[d r4]|e]; reflexivity.
Qed.

Lemma codec_uuid_ints : codec_ok dom_uuid write_uuid_ints (impl_read_uuid_ints).
Proof.
  apply (codec_ok_ext dom_uuid
           (fun u => let q := quad_of u in write_uint 4 (fst q) ++ write_uint 4 (fst (snd q)) ++ write_uint 4 (fst (snd (snd q))) ++ write_uint 4 (snd (snd (snd q))))
           write_uuid_ints (dmap quad_bytes dec_quad) (impl_read_uuid_ints)).
  - intros u D. rewrite write_uuid_ints_eq, write_uuid_id by exact D.
    symmetry. apply (quad_roundtrip u D).
  - apply read_uuid_ints_as_quad.
  - apply (dmap_ok dom_quad dom_uuid _ dec_quad quad_bytes quad_of codec_quad).
    + intros u D. apply (quad_roundtrip u D).
    + intros u D. apply (quad_roundtrip u D).
Qed.
