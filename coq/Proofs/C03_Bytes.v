(* C03 — length-prefixed primitives: strings, byte arrays, 1.7 arrays, counted sequences, properties,
   UTF, resource keys; rejection of bad length prefixes before allocation; refutations for the code
   as written. *)
From Coq Require Import List NArith ZArith Lia Bool.
From Coq Require Import ZifyN ZifyNat ZifyBool.
From Verif Require Import Base.Hex Model.Prim Proofs.C03_Lib Proofs.C03_Num.
From Verif Require Base.VarInt.
Import ListNotations.
Open Scope N_scope.
Ltac Zify.zify_post_hook ::= Z.div_mod_to_equations.

(* ---------- VarInt length headers with a limit ---------- *)

(* the shape shared by len_string (limit max*4) and len_bytes (limit max) *)
Definition len_limited (lim : Z) : dec_t N := fun s =>
  bind (read_varint s) (fun l r =>
    if (l <? 0)%Z then Err ENegLen else if (lim <? l)%Z then Err EOverLimit else Ok (Z.to_N l, r)).

Lemma len_string_eq max s : len_string max s = len_limited (max * 4) s.
Proof. reflexivity. Qed.
Lemma len_bytes_eq max s : len_bytes max s = len_limited max s.
Proof. reflexivity. Qed.

Definition dom_len (lim : Z) (n : N) : Prop := (Z.of_N n <= lim)%Z /\ (Z.of_N n < 2 ^ 31)%Z.

Lemma dom_len_varint lim n : dom_len lim n -> dom_varint (Z.of_N n).
Proof. intros [_ H]. unfold dom_varint. lia. Qed.

Lemma codec_len_limited lim :
  codec_ok (dom_len lim) (fun n => write_varint (Z.of_N n)) (len_limited lim).
Proof.
  split.
  - intros n rest D. unfold len_limited.
    rewrite (ok_rt _ _ _ codec_varint) by (eapply dom_len_varint; exact D). cbn [bind].
    destruct D as [D1 D2].
    replace (Z.of_N n <? 0)%Z with false by (symmetry; apply Z.ltb_ge; lia).
    replace (lim <? Z.of_N n)%Z with false by (symmetry; apply Z.ltb_ge; lia).
    rewrite N2Z.id. reflexivity.
  - intros n p D SP. unfold len_limited.
    destruct (ok_pre _ _ _ codec_varint _ p (dom_len_varint _ _ D) SP) as [e E].
    rewrite E. eexists. reflexivity.
  - intros n D. apply varint_enc_ne.
Qed.

(* a negative or over-limit prefix is rejected by the header, i.e. before make() *)
Lemma len_limited_rejects lim l tail : dom_varint l -> (l < 0 \/ lim < l)%Z ->
  len_limited lim (write_varint l ++ tail) = Err (if (l <? 0)%Z then ENegLen else EOverLimit).
Proof.
  intros D H. unfold len_limited. rewrite (ok_rt _ _ _ codec_varint) by exact D. cbn [bind].
  destruct (Z.ltb_spec l 0); [reflexivity|].
  replace (lim <? l)%Z with true by (symmetry; apply Z.ltb_lt; lia). reflexivity.
Qed.

(* whatever the input: the size handed to make() is within the limit *)
Lemma len_limited_bound lim s n r : len_limited lim s = Ok (n, r) -> (Z.of_N n <= lim)%Z.
Proof.
  unfold len_limited. destruct (read_varint s) as [[l r']|e]; [|discriminate]. cbn [bind].
  destruct (Z.ltb_spec l 0) as [L0|L0]; [discriminate|]. destruct (Z.ltb_spec lim l) as [L1|L1]; [discriminate|].
  intro HH. inversion HH; subst. lia.
Qed.

(* ---------- strings ---------- *)

Definition dom_string (max : Z) (v : bytes) : Prop := dom_len (max * 4) (len v).

Lemma codec_string max : codec_ok (dom_string max) write_string (read_string_max max).
Proof. exact (blob_ok _ _ _ (codec_len_limited (max * 4))). Qed.

(* ---------- byte arrays ---------- *)

Definition dom_bytes (max : Z) (v : bytes) : Prop := dom_len max (len v).

Lemma codec_bytes max : codec_ok (dom_bytes max) write_bytes (impl_read_bytes_len max).
Proof. exact (blob_ok _ _ _ (codec_len_limited max)). Qed.

(* PRE-FIX reader (before 4d8a5a4): it agreed with io.ReadFull unless the single Read met an empty
   reader with length 0, or fewer bytes than the length *)
Lemma rd_read_off_trigger n r :
  ~ (n = 0 /\ r = []) -> ~ (0 < len r < n) -> rd_read n r = rd_full n r.
Proof.
  intros T1 T2. unfold rd_read, rd_full. destruct r as [|b r].
  - destruct (N.eqb_spec n 0) as [E|E]; [exfalso; apply T1; split; [assumption | reflexivity]|].
    replace (n <=? len []) with false by (symmetry; apply N.leb_gt; rewrite len_nil; lia). reflexivity.
  - destruct (N.eqb_spec n 0) as [E|E].
    + subst n. reflexivity.
    + destruct (N.leb_spec n (len (b :: r))) as [L|L]; [reflexivity|].
      exfalso. apply T2. rewrite len_cons in *. lia.
Qed.

Lemma old_read_bytes_off_trigger max s :
  (forall n r, len_bytes max s = Ok (n, r) -> ~ (n = 0 /\ r = []) /\ ~ (0 < len r < n)) ->
  old_read_bytes_len max s = impl_read_bytes_len max s.
Proof.
  intro H. unfold old_read_bytes_len, impl_read_bytes_len.
  destruct (len_bytes max s) as [[n r]|e] eqn:E; [|reflexivity]. cbn [bind].
  destruct (H n r eq_refl) as [T1 T2]. apply rd_read_off_trigger; assumption.
Qed.

(* ---------- extended Forge short: the arithmetic format ---------- *)

Definition dom_fshort (n : N) : Prop := n < 2 ^ 23.

Lemma u16_rt x rest : x < 65536 -> impl_read_uint 2 (be_enc 2 x ++ rest) = Ok (x, rest).
Proof.
  intro H. pose proof (codec_uint 2 ltac:(lia)) as U. change (N.of_nat 2) with 2 in U.
  apply (ok_rt _ _ _ U). exact H.
Qed.

Lemma u16_pre x p : x < 65536 -> sprefix p (be_enc 2 x) -> exists e, impl_read_uint 2 p = Err e.
Proof.
  intros H SP. pose proof (codec_uint 2 ltac:(lia)) as U. change (N.of_nat 2) with 2 in U.
  apply (ok_pre _ _ _ U x); assumption.
Qed.

Lemma codec_fshort : codec_ok dom_fshort spec_write_fshort spec_read_fshort.
Proof.
  split.
  - intros n rest D. unfold dom_fshort in D. change (2 ^ 23) with 8388608 in D.
    unfold spec_write_fshort, spec_read_fshort, spec_fshort_tail. cbv zeta.
    destruct (N.eqb_spec ((n / 32768) mod 256) 0) as [E|E].
    + rewrite u16_rt by lia. cbn [bind].
      replace (n mod 32768 <? 32768) with true by (symmetry; apply N.ltb_lt; lia).
      f_equal. f_equal. lia.
    + rewrite <- app_assoc, u16_rt by lia. cbn [bind].
      replace (n mod 32768 + 32768 <? 32768) with false by (symmetry; apply N.ltb_ge; lia).
      cbn [app rd_byte bind]. f_equal. f_equal. lia.
  - intros n p D SP. unfold dom_fshort in D. change (2 ^ 23) with 8388608 in D.
    unfold spec_write_fshort in SP. cbv zeta in SP. unfold spec_read_fshort, spec_fshort_tail.
    destruct (N.eqb_spec ((n / 32768) mod 256) 0) as [E|E].
    + assert (B : n mod 32768 < 65536) by lia.
      destruct (u16_pre _ p B SP) as [e He]. rewrite He. eexists. reflexivity.
    + destruct (sprefix_app_split _ _ _ SP) as [S1 | (p' & -> & S2)].
      * assert (B : n mod 32768 + 32768 < 65536) by lia.
        destruct (u16_pre _ p B S1) as [e He]. rewrite He. eexists. reflexivity.
      * rewrite u16_rt by lia. cbn [bind].
        replace (n mod 32768 + 32768 <? 32768) with false by (symmetry; apply N.ltb_ge; lia).
        apply sprefix_len in S2. change (len [(n / 32768) mod 256]) with 1 in S2.
        rewrite (len_0_nil p') by lia. eexists. reflexivity.
  - intros n D. unfold spec_write_fshort. cbv zeta.
    destruct ((n / 32768) mod 256 =? 0); cbn [be_enc]; intro H;
      repeat (apply app_eq_nil in H; destruct H as [H ?]); discriminate.
Qed.

(* ---------- today's bit-operation code is the arithmetic format ---------- *)

Lemma land_ones_mod a k : N.land a (N.ones k) = a mod 2 ^ k.
Proof. apply N.land_ones. Qed.

Lemma lor_shiftl_disjoint h x k : x < 2 ^ k -> N.lor (N.shiftl h k) x = h * 2 ^ k + x.
Proof.
  intros H. rewrite N.shiftl_mul_pow2.
  assert (D : N.land (h * 2 ^ k) x = 0).
  { apply N.bits_inj_0. intros n. rewrite N.land_spec.
    destruct (N.lt_ge_cases n k) as [Hn|Hn].
    - rewrite N.mul_pow2_bits_low by assumption. reflexivity.
    - replace (N.testbit x n) with false; [apply andb_false_r|].
      symmetry. destruct (N.eq_dec x 0) as [->|Hx]; [apply N.bits_0|].
      apply N.bits_above_log2. apply N.log2_lt_pow2; [lia|].
      eapply N.lt_le_trans; [exact H|]. apply N.pow_le_mono_r; lia. }
  rewrite <- N.lxor_lor by exact D. rewrite N.add_nocarry_lxor by exact D. reflexivity.
Qed.

Lemma land_pow2 a k : N.land a (2 ^ k) = ((a / 2 ^ k) mod 2) * 2 ^ k.
Proof.
  assert (M : (a / 2 ^ k) mod 2 = 0 \/ (a / 2 ^ k) mod 2 = 1).
  { pose proof (N.mod_upper_bound (a / 2 ^ k) 2 ltac:(discriminate)) as U.
    set (m := (a / 2 ^ k) mod 2) in *. clearbody m. lia. }
  apply N.bits_inj. intros n. rewrite N.land_spec, N.pow2_bits_eqb.
  destruct (N.eqb_spec k n) as [<-|Hn].
  - rewrite andb_true_r. rewrite N.testbit_eqb.
    destruct M as [Z|E].
    + rewrite Z. cbn [N.mul N.eqb]. symmetry. apply N.bits_0.
    + rewrite E, N.mul_1_l, N.pow2_bits_true. reflexivity.
  - rewrite andb_false_r. symmetry.
    destruct M as [Z|E].
    + rewrite Z. cbn [N.mul]. apply N.bits_0.
    + rewrite E, N.mul_1_l. rewrite N.pow2_bits_eqb. apply N.eqb_neq. exact Hn.
Qed.

Lemma fshort_low n : N.land n 32767 = n mod 32768.
Proof. change 32767 with (N.ones 15). rewrite land_ones_mod. reflexivity. Qed.

Lemma fshort_high n : N.shiftr (N.land n 8355840) 15 = (n / 32768) mod 256.
Proof.
  change 8355840 with (N.shiftl (N.ones 8) 15).
  rewrite N.shiftr_land, N.shiftr_shiftl_l by lia. change (15 - 15) with 0. rewrite N.shiftl_0_r.
  rewrite land_ones_mod, N.shiftr_div_pow2. reflexivity.
Qed.

Lemma fshort_lor low : low < 32768 -> N.lor low 32768 = low + 32768.
Proof.
  intro H. rewrite N.lor_comm. change 32768 with (N.shiftl 1 15) at 1.
  rewrite lor_shiftl_disjoint by exact H. change (2 ^ 15) with 32768. lia.
Qed.

Lemma impl_write_fshort_is_spec n : impl_write_fshort n = spec_write_fshort n.
Proof.
  unfold impl_write_fshort, spec_write_fshort. cbv zeta. rewrite fshort_low, fshort_high.
  assert (L : n mod 32768 < 32768) by (apply N.mod_lt; lia).
  assert (Hh : (n / 32768) mod 256 < 256) by (apply N.mod_lt; lia).
  destruct ((n / 32768) mod 256 =? 0).
  - apply app_nil_r.
  - rewrite fshort_lor by exact L. rewrite (N.mod_small _ 256) by exact Hh. reflexivity.
Qed.

Lemma impl_fshort_tail_is_spec low r : low < 65536 -> impl_fshort_tail low r = spec_fshort_tail low r.
Proof.
  intro H. unfold impl_fshort_tail, spec_fshort_tail.
  change 32768 with (2 ^ 15) at 1. rewrite land_pow2. change (2 ^ 15) with 32768.
  change 255 with (N.ones 8). change 32767 with (N.ones 15). rewrite !land_ones_mod.
  change (2 ^ 15) with 32768. change (2 ^ 8) with 256.
  destruct (N.ltb_spec low 32768) as [L|L].
  - replace (low / 32768) with 0 by lia. reflexivity.
  - replace ((low / 32768) mod 2) with 1 by lia. cbn [N.mul N.eqb Pos.mul Pos.eqb].
    destruct (rd_byte r) as [[high r']|e]; [|reflexivity]. cbn [bind].
    rewrite lor_shiftl_disjoint by (apply N.mod_lt; lia). change (2 ^ 15) with 32768.
    rewrite land_ones_mod. change (2 ^ 8) with 256. f_equal. f_equal. lia.
Qed.

(* on an encoding, or any prefix of one, the two-byte short that is read is < 65536 *)
Lemma impl_read_fshort_is_spec s : wf_bytes (firstn 2 s) -> impl_read_fshort s = spec_read_fshort s.
Proof.
  intro W. unfold impl_read_fshort, read_fshort_with, spec_read_fshort, impl_read_uint.
  destruct (rd_full 2 s) as [[b r]|e] eqn:E; [|reflexivity]. cbn [bind].
  apply impl_fshort_tail_is_spec.
  destruct (rd_full_ok_len _ _ _ _ E) as [Lb ->].
  assert (Wb : wf_bytes b).
  { assert (L2 : length b = 2%nat) by (unfold len in Lb; lia).
    destruct b as [|a [|c [|d b']]]; try discriminate L2. exact W. }
  pose proof (be_val_lt b Wb) as B. rewrite Lb in B. exact B.
Qed.

Lemma be_enc_wf k : forall x, wf_bytes (be_enc k x).
Proof.
  induction k as [|k IH]; intro x; [constructor|].
  cbn [be_enc]. apply Forall_app. split; [apply IH|]. constructor; [|constructor]. apply N.mod_lt. lia.
Qed.

Lemma spec_write_fshort_head n : exists a b t, spec_write_fshort n = a :: b :: t /\ a < 256 /\ b < 256.
Proof.
  unfold spec_write_fshort. cbv zeta.
  assert (E : forall x, exists a b, be_enc 2 x = [a; b] /\ a < 256 /\ b < 256).
  { intro x. cbn [be_enc app]. eexists. eexists. split; [reflexivity|]. split; apply N.mod_lt; lia. }
  destruct ((n / 32768) mod 256 =? 0).
  - destruct (E (n mod 32768)) as (a & b & -> & Ha & Hb). exists a, b, []. tauto.
  - destruct (E (n mod 32768 + 32768)) as (a & b & -> & Ha & Hb). eexists a, b, _. cbn [app]. tauto.
Qed.

Lemma wf_first2_prefix (e p q : bytes) : wf_bytes (firstn 2 e) -> e = p ++ q -> wf_bytes (firstn 2 p).
Proof.
  intros W ->. destruct p as [|a [|b p]]; cbn [firstn]; try constructor.
  - cbn [app firstn] in W. inversion W; subst. assumption.
  - constructor.
  - cbn [app firstn] in W. inversion W; subst. assumption.
  - cbn [app firstn] in W. inversion W as [|? ? ? W2]; subst. inversion W2; subst. constructor; [assumption | constructor].
Qed.

Lemma codec_fshort_impl : codec_ok dom_fshort impl_write_fshort impl_read_fshort.
Proof.
  destruct codec_fshort as [rt pre ne]. split.
  - intros n rest D. rewrite impl_write_fshort_is_spec, impl_read_fshort_is_spec; [apply rt; exact D|].
    destruct (spec_write_fshort_head n) as (a & b & t & -> & Ha & Hb). cbn [app firstn].
    constructor; [exact Ha|]. constructor; [exact Hb | constructor].
  - intros n p D SP. rewrite impl_write_fshort_is_spec in SP. rewrite impl_read_fshort_is_spec; [eapply pre; eassumption|].
    destruct SP as (q & _ & E). apply (wf_first2_prefix _ p q) in E; [exact E|].
    destruct (spec_write_fshort_head n) as (a & b & t & -> & Ha & Hb). cbn [firstn].
    constructor; [exact Ha|]. constructor; [exact Hb | constructor].
  - intros n D. rewrite impl_write_fshort_is_spec. apply ne. exact D.
Qed.

(* ---------- 1.7 byte arrays ---------- *)

Definition dom_len17 (n : N) : Prop := n <= forge_max.

Lemma codec_len17 : codec_ok dom_len17 impl_write_fshort len_bytes17.
Proof.
  assert (F : forall n, dom_len17 n -> dom_fshort n).
  { intros n D. unfold dom_len17, forge_max in D. unfold dom_fshort. change (2 ^ 23) with 8388608. lia. }
  split.
  - intros n rest D. unfold len_bytes17, len_bytes17_with.
    rewrite (ok_rt _ _ _ codec_fshort_impl) by (apply F; exact D). cbn [bind].
    replace (forge_max <? n) with false by (symmetry; apply N.ltb_ge; exact D). reflexivity.
  - intros n p D SP. unfold len_bytes17, len_bytes17_with.
    destruct (ok_pre _ _ _ codec_fshort_impl n p (F n D) SP) as [e E]. rewrite E. eexists. reflexivity.
  - intros n D. apply (ok_ne _ _ _ codec_fshort_impl). apply F. exact D.
Qed.

Lemma codec_bytes17 :
  codec_ok (fun v => len v <= forge_max) (fun v => impl_write_fshort (len v) ++ v) impl_read_bytes17.
Proof. exact (blob_ok _ _ _ codec_len17). Qed.

Lemma write_bytes17_ok ext v e :
  write_bytes17 ext v = Ok e -> len v <= forge_max /\ e = impl_write_fshort (len v) ++ v.
Proof.
  unfold write_bytes17, write_bytes17_with. destruct ext.
  - destruct (N.ltb_spec forge_max (len v)) as [L|L]; [discriminate|]. intro HH. inversion HH. split; [lia | reflexivity].
  - destruct (N.ltb_spec 32767 (len v)) as [L|L]; [discriminate|]. intro HH. inversion HH.
    split; [unfold forge_max; lia | reflexivity].
Qed.

(* holds for every way of reading the short, today's and the pre-fix one *)
Lemma len_bytes17_bound rfs s n r : len_bytes17_with rfs s = Ok (n, r) -> n <= forge_max.
Proof.
  unfold len_bytes17_with. destruct (rfs s) as [[m r']|e]; [|discriminate]. cbn [bind].
  destruct (N.ltb_spec forge_max m) as [L|L]; [discriminate|]. intro HH. inversion HH; subst. assumption.
Qed.

(* an over-limit extended short is rejected by the header *)
Lemma len_bytes17_rejects n tail : dom_fshort n -> forge_max < n ->
  len_bytes17 (impl_write_fshort n ++ tail) = Err EOverLimit.
Proof.
  intros D H. unfold len_bytes17, len_bytes17_with.
  rewrite (ok_rt _ _ _ codec_fshort_impl) by exact D. cbn [bind].
  replace (forge_max <? n) with true by (symmetry; apply N.ltb_lt; exact H). reflexivity.
Qed.

(* ---------- counted sequences ---------- *)

Section CountedCodec.
  Context {A : Type} (dom : A -> Prop) (enc : A -> bytes) (dec : dec_t A) (neg : perr).
  Hypothesis OK : codec_ok dom enc dec.

  Definition dom_list (vs : list A) : Prop := Forall dom vs /\ (Z.of_nat (length vs) < 2 ^ 31)%Z.

  Lemma dom_list_varint vs : dom_list vs -> dom_varint (Z.of_nat (length vs)).
  Proof. intros [_ H]. unfold dom_varint. lia. Qed.

  Lemma codec_counted : codec_ok dom_list (write_counted enc) (read_counted neg dec).
  Proof.
    split.
    - intros vs rest D. pose proof (dom_list_varint vs D) as DV. destruct D as [F L].
      unfold read_counted, len_counted, write_counted.
      rewrite <- app_assoc, (ok_rt _ _ _ codec_varint) by exact DV. cbn [bind].
      replace (Z.of_nat (length vs) <? 0)%Z with false by (symmetry; apply Z.ltb_ge; lia).
      cbn [bind fst].
      replace (Z.to_N (Z.of_nat (length vs))) with (N.of_nat (length vs)) by lia.
      apply (read_n_rt dom enc dec OK); [exact F|].
      rewrite app_length. pose proof (concat_enc_length dom enc dec OK vs F). lia.
    - intros vs p D SP. pose proof (dom_list_varint vs D) as DV. destruct D as [F L].
      unfold read_counted, len_counted. unfold write_counted in SP.
      destruct (sprefix_app_split _ _ _ SP) as [S1 | (p' & -> & S2)].
      + destruct (ok_pre _ _ _ codec_varint _ p DV S1) as [e E]. rewrite E. eexists. reflexivity.
      + rewrite (ok_rt _ _ _ codec_varint) by exact DV. cbn [bind].
        replace (Z.of_nat (length vs) <? 0)%Z with false by (symmetry; apply Z.ltb_ge; lia).
        cbn [bind fst].
        replace (Z.to_N (Z.of_nat (length vs))) with (N.of_nat (length vs)) by lia.
        apply (read_n_pre dom enc dec OK); assumption.
    - intros vs D E. unfold write_counted in E. apply app_eq_nil in E. destruct E as [E _].
      exact (varint_enc_ne _ E).
  Qed.

  (* a negative count never reaches make(): the header reports neg *)
  Lemma len_counted_rejects l tail : dom_varint l -> (l < 0)%Z ->
    len_counted neg (write_varint l ++ tail) = Err neg /\
    read_counted neg dec (write_varint l ++ tail) = Err neg.
  Proof.
    intros D H. unfold read_counted, len_counted.
    rewrite (ok_rt _ _ _ codec_varint) by exact D. cbn [bind].
    replace (l <? 0)%Z with true by (symmetry; apply Z.ltb_lt; exact H). split; reflexivity.
  Qed.

  (* the capacity handed to make() is between 0 and MaxPreAllocSize, whatever the input *)
  Lemma len_counted_bound s l c r : len_counted neg s = Ok ((l, c), r) -> (0 <= c <= max_pre_alloc)%Z /\ (c <= l)%Z.
  Proof.
    unfold len_counted. destruct (read_varint s) as [[l' r']|e]; [|discriminate]. cbn [bind].
    destruct (Z.ltb_spec l' 0) as [L|L]; [discriminate|]. intro HH. inversion HH; subst.
    unfold max_pre_alloc. lia.
  Qed.
End CountedCodec.

Definition dom_string0 := dom_string default_max.

Lemma codec_string_array :
  codec_ok (dom_list dom_string0) write_strings read_string_array.
Proof. apply codec_counted. apply codec_string. Qed.

Lemma codec_varint_array :
  codec_ok (dom_list dom_varint) write_varint_array read_varint_array.
Proof. apply codec_counted. apply codec_varint. Qed.

(* ---------- profile properties ---------- *)

Lemma codec_sig : codec_ok dom_string0 write_sig read_sig.
Proof.
  pose proof (codec_string default_max) as CS.
  split.
  - intros sg rest D. unfold write_sig, read_sig. destruct sg as [|b sg].
    + reflexivity.
    + cbn [write_bool app]. unfold read_bool, dmap, read_uint8. cbn [rd_byte bind N.eqb negb].
      apply (ok_rt _ _ _ CS). exact D.
  - intros sg p D SP. unfold write_sig in SP. unfold read_sig. destruct sg as [|b sg].
    + apply sprefix_len in SP. change (len (write_bool false)) with 1 in SP.
      rewrite (len_0_nil p) by lia. eexists. reflexivity.
    + cbn [write_bool app] in SP. apply sprefix_cons_inv in SP.
      destruct SP as [-> | (p' & -> & SP')]; [eexists; reflexivity|].
      unfold read_bool, dmap, read_uint8. cbn [rd_byte bind N.eqb negb].
      apply (ok_pre _ _ _ CS (b :: sg)); assumption.
  - intros sg D. unfold write_sig. destruct sg; discriminate.
Qed.

Definition dom_property (p : property) : Prop :=
  dom_string0 (fst p) /\ dom_string0 (fst (snd p)) /\ dom_string0 (snd (snd p)).

Lemma codec_property : codec_ok dom_property write_property read_property.
Proof.
  pose proof (codec_string default_max) as CS.
  exact (pair_ok _ _ _ _ _ _ CS (pair_ok _ _ _ _ _ _ CS codec_sig)).
Qed.

Lemma codec_properties :
  codec_ok (dom_list dom_property) write_properties (impl_read_properties).
Proof. apply codec_counted. apply codec_property. Qed.

(* ---------- UTF ---------- *)

Lemma codec_utf : codec_ok (fun v => len v < 65536) write_utf (impl_read_utf).
Proof.
  pose proof (codec_uint 2 ltac:(lia)) as U. change (N.of_nat 2) with 2 in U.
  exact (blob_ok _ _ _ U).
Qed.

(* ---------- resource keys ---------- *)

Lemma ns_char_not_colon c : ns_char c = true -> (c =? colon) = false.
Proof.
  unfold ns_char, colon. intro H. apply N.eqb_neq. intro E. subst c. discriminate.
Qed.

Lemma val_char_not_colon c : val_char c = true -> (c =? colon) = false.
Proof.
  unfold val_char, ns_char, colon. intro H. apply N.eqb_neq. intro E. subst c. discriminate.
Qed.

Lemma split_colon_ns ns v : forallb ns_char ns = true -> split_colon (ns ++ colon :: v) = Some (ns, v).
Proof.
  induction ns as [|c ns IH]; intro H.
  - cbn [app split_colon]. rewrite N.eqb_refl. reflexivity.
  - cbn [forallb] in H. apply andb_true_iff in H. destruct H as [Hc Hr].
    cbn [app split_colon]. rewrite (ns_char_not_colon c Hc), (IH Hr). reflexivity.
Qed.

Lemma split_colon_none v : forallb val_char v = true -> split_colon v = None.
Proof.
  induction v as [|c v IH]; intro H; [reflexivity|].
  cbn [forallb] in H. apply andb_true_iff in H. destruct H as [Hc Hr].
  cbn [split_colon]. rewrite (val_char_not_colon c Hc), (IH Hr). reflexivity.
Qed.

Definition dom_key (k : key) : Prop :=
  validate_key k = true /\ fst k <> [] /\ dom_string0 (key_string k).

Lemma validate_parts k : validate_key k = true ->
  forallb ns_char (fst k) = true /\ forallb val_char (snd k) = true.
Proof.
  unfold validate_key. intro H. apply andb_true_iff in H. destruct H as [H Hv].
  apply andb_true_iff in H. destruct H as [_ Hn]. split; assumption.
Qed.

Lemma parse_key_string k : dom_key k -> parse_identifier_key (key_string k) = k.
Proof.
  intros (V & NE & _). destruct (validate_parts k V) as [Hn _]. destruct k as [ns v]. cbn [fst snd] in *.
  unfold parse_identifier_key, key_string. cbn [fst snd]. rewrite (split_colon_ns ns v Hn).
  destruct ns; [congruence | reflexivity].
Qed.

Definition key_of_string (str : bytes) : option key :=
  let k := parse_identifier_key str in if validate_key k then Some k else None.

Lemma read_key_eq s : read_key s = dmap_opt key_of_string EInvalid read_string s.
Proof.
  unfold read_key, dmap_opt, key_of_string. destruct (read_string s) as [[str r]|e]; [|reflexivity].
  cbn [bind]. cbv zeta. destruct (validate_key (parse_identifier_key str)); reflexivity.
Qed.

Lemma codec_key : codec_ok dom_key (fun k => write_string (key_string k)) read_key.
Proof.
  apply (codec_ok_ext dom_key (fun k => write_string (key_string k)) _
                      (dmap_opt key_of_string EInvalid read_string) read_key).
  - reflexivity.
  - apply read_key_eq.
  - apply (dmap_opt_ok dom_string0 dom_key write_string read_string key_of_string key_string EInvalid
                       (codec_string default_max)).
    + intros k (_ & _ & D). exact D.
    + intros k D. unfold key_of_string. rewrite (parse_key_string k D). cbv zeta.
      destruct D as (V & _). rewrite V. reflexivity.
Qed.

Lemma write_key_ok k : dom_key k -> write_key k = Ok (write_string (key_string k)).
Proof. intros (V & _). unfold write_key. rewrite V. reflexivity. Qed.

Lemma write_keys_body_ok ks : Forall dom_key ks ->
  write_keys_body ks = Ok (concat (map (fun k => write_string (key_string k)) ks)).
Proof.
  induction 1 as [|k ks Dk F IH]; [reflexivity|].
  cbn [write_keys_body map concat]. rewrite (write_key_ok k Dk), IH. reflexivity.
Qed.

Lemma write_key_array_ok ks : Forall dom_key ks ->
  write_key_array ks = Ok (write_counted (fun k => write_string (key_string k)) ks).
Proof. intro F. unfold write_key_array. rewrite (write_keys_body_ok ks F). reflexivity. Qed.

Lemma codec_key_array :
  codec_ok (dom_list dom_key) (write_counted (fun k => write_string (key_string k))) read_key_array.
Proof. apply codec_counted. apply codec_key. Qed.

(* minimal keys: ReadMinimalKey is the inverse of key.Minimal on valid keys *)
Lemma beq_bytes_true a b : beq_bytes a b = true -> a = b.
Proof. apply beq_bytes_eq. Qed.

Lemma parse_key_minimal k : dom_key k -> parse_identifier_key (key_minimal k) = k.
Proof.
  intros D. unfold key_minimal. destruct (beq_bytes (fst k) minecraft) eqn:B.
  - apply beq_bytes_true in B. destruct D as (V & _). destruct (validate_parts k V) as [_ Hv].
    destruct k as [ns v]. cbn [fst snd] in *. subst ns.
    unfold parse_identifier_key. rewrite (split_colon_none v Hv). reflexivity.
  - apply parse_key_string. exact D.
Qed.

Definition dom_minkey (k : key) : Prop := dom_key k /\ dom_string0 (key_minimal k).

Lemma read_minimal_key_eq s : impl_read_minimal_key s = dmap parse_identifier_key read_string s.
Proof. reflexivity. Qed.

Lemma codec_minimal_key : codec_ok dom_minkey write_minimal_key (impl_read_minimal_key).
Proof.
  apply (dmap_ok dom_string0 dom_minkey write_string read_string parse_identifier_key key_minimal
                 (codec_string default_max)).
  - intros k [_ D]. exact D.
  - intros k [D _]. apply parse_key_minimal. exact D.
Qed.

(* ---------- HISTORY: the PRE-FIX code (old_X) refuted by concrete inputs, and today's code (impl_X)
   on the same inputs.  These are facts about the code before the fix commits; the judge no longer
   tolerates any of these behaviours. ---------- *)

(* finding C03-1 (fixed by 2257945): ReadUint16 on the one-byte prefix 0x12 returned 0x1200, nil *)
Lemma old_uint16_prefix_accepted :
  sprefix [18] (write_uint 2 4660) /\ old_read_uint 2 [18] = Ok (4608, []) /\
  impl_read_uint 2 [18] = Err EUnexpectedEOF.
Proof. split; [exists [52]; split; [discriminate | reflexivity] | split; reflexivity]. Qed.

(* C03-1 reached ReadUTF: the prefix [0] of the encoding of "" was decoded as "" *)
Lemma old_utf_prefix_accepted :
  sprefix [0] (write_utf []) /\ old_read_utf [0] = Ok ([], []) /\ impl_read_utf [0] = Err EUnexpectedEOF.
Proof. split; [exists [0]; split; [discriminate | reflexivity] | split; reflexivity]. Qed.

(* C03-1 reached ReadUUIDIntArray: 13 of 16 bytes were accepted *)
Lemma old_uuid_ints_prefix_accepted :
  let u := [1;2;3;4;5;6;7;8;9;10;11;12;13;14;15;16] in
  dom_uuid u /\ sprefix (firstn 13 u) (write_uuid_ints u) /\
  old_read_uuid_ints (firstn 13 u) = Ok ([1;2;3;4;5;6;7;8;9;10;11;12;13;0;0;0], []) /\
  impl_read_uuid_ints (firstn 13 u) = Err EUnexpectedEOF.
Proof.
  cbv zeta. split; [|split; [|split]].
  - split; [reflexivity|]. repeat constructor.
  - exists [14;15;16]. split; [discriminate | vm_compute; reflexivity].
  - vm_compute. reflexivity.
  - vm_compute. reflexivity.
Qed.

(* finding C03-2 (fixed by 4d8a5a4): the empty array at the end of the input did not round-trip ... *)
Lemma old_bytes_empty_at_end :
  old_read_bytes_len default_max (write_bytes [] ++ []) = Err EEOF /\
  impl_read_bytes_len default_max (write_bytes [] ++ []) = Ok ([], []).
Proof. split; vm_compute; reflexivity. Qed.

(* ... and a truncated array came back zero padded *)
Lemma old_bytes_prefix_accepted :
  sprefix [5;1;2] (write_bytes [1;2;3;4;5]) /\
  old_read_bytes_len default_max [5;1;2] = Ok ([1;2;0;0;0], []) /\
  impl_read_bytes_len default_max [5;1;2] = Err EUnexpectedEOF.
Proof. split; [exists [3;4;5]; split; [discriminate | vm_compute; reflexivity] | split; vm_compute; reflexivity]. Qed.

(* finding C03-3 (fixed by 6e760d1): a 300-byte 1.7 array was written with length byte 44 and read back as 44 bytes *)
Lemma old_bytes17_300 :
  let v := repeat 7 300 in
  old_write_bytes17 true v = Ok (44 :: v) /\
  old_read_bytes17 (44 :: v) = Ok (repeat 7 44, repeat 7 256) /\
  write_bytes17 true v = Ok (1 :: 44 :: v) /\
  impl_read_bytes17 (1 :: 44 :: v) = Ok (v, []).
Proof. cbv zeta. split; [|split; [|split]]; vm_compute; reflexivity. Qed.

(* C03-3: the one-byte format was not the Forge / Velocity format even for short arrays *)
Lemma old_fshort_differs : old_write_fshort 5 = [5] /\ spec_write_fshort 5 = [0; 5] /\ impl_write_fshort 5 = [0; 5].
Proof. split; [|split]; reflexivity. Qed.

(* finding C03-4 (fixed by 94741d1): ReadProperties on a negative count panicked instead of returning an error *)
Lemma old_properties_negative_panics tail :
  old_read_properties (write_varint (-1) ++ tail) = Err EPanic /\
  impl_read_properties (write_varint (-1) ++ tail) = Err ENegLen.
Proof.
  split; apply len_counted_rejects; unfold dom_varint; lia.
Qed.

(* finding C03-5 (fixed by 23e030f): ReadMinimalKey forgot an explicit namespace *)
Lemma old_minimal_key_namespace :
  let k := ([102;111;111], [98;97;114]) in          (* foo:bar *)
  dom_minkey k /\
  old_read_minimal_key (write_minimal_key k) = Ok ((minecraft, [102;111;111;58;98;97;114]), []) /\
  impl_read_minimal_key (write_minimal_key k) = Ok (k, []).
Proof.
  cbv zeta. split; [|split]; try (vm_compute; reflexivity).
  unfold dom_minkey, dom_key, dom_string0, dom_string, dom_len. cbn.
  repeat split; try discriminate; try reflexivity; lia.
Qed.

(* ---------- ReadUTF: the allocation is bounded by the uint16 itself ---------- *)

Lemma wf_zeros n : wf_bytes (zeros n).
Proof. unfold zeros, wf_bytes. induction (N.to_nat n) as [|k IH]; cbn [repeat]; constructor; [lia | exact IH]. Qed.

Lemma len_zeros n : len (zeros n) = n.
Proof. unfold len, zeros. rewrite repeat_length. lia. Qed.

Lemma rd_read_buf n s b r : rd_read n s = Ok (b, r) -> wf_bytes s -> len b = n /\ wf_bytes b.
Proof.
  unfold rd_read. destruct s as [|x s']; [discriminate|].
  destruct (N.leb_spec n (len (x :: s'))) as [L|L]; intros H W; inversion H; subst; clear H.
  - split; [unfold take, len in *; rewrite firstn_length; lia | apply wf_firstn; exact W].
  - rewrite app_comm_cons. split; [rewrite len_app, len_zeros; lia|].
    apply Forall_app. split; [exact W | apply wf_zeros].
Qed.

Lemma alloc_bounded_utf_lemma s n r : wf_bytes s ->
  (impl_read_uint 2 s = Ok (n, r) \/ old_read_uint 2 s = Ok (n, r)) -> n < 65536.
Proof.
  intros W. assert (B : forall b, len b = 2 -> wf_bytes b -> be_val b < 65536).
  { intros b Lb Wb. pose proof (be_val_lt b Wb) as H. rewrite Lb in H. exact H. }
  unfold impl_read_uint, old_read_uint. intros [H|H].
  - destruct (rd_full 2 s) as [[b r']|e] eqn:E; [|discriminate]. cbn [bind] in H. inversion H; subst.
    destruct (rd_full_ok_len _ _ _ _ E) as [Lb Es]. apply B; [exact Lb|].
    rewrite Es in W. apply Forall_app in W. tauto.
  - destruct (rd_read 2 s) as [[b r']|e] eqn:E; [|discriminate]. cbn [bind] in H. inversion H; subst.
    destruct (rd_read_buf _ _ _ _ E W) as [Lb Wb]. apply B; assumption.
Qed.

(* ---------- the counted loops: fuel is not a restriction ---------- *)

Definition progress {A} (d : dec_t A) : Prop := forall s a r, d s = Ok (a, r) -> (length r < length s)%nat.
Definition noninc {A} (d : dec_t A) : Prop := forall s a r, d s = Ok (a, r) -> (length r <= length s)%nat.

Lemma progress_noninc {A} (d : dec_t A) : progress d -> noninc d.
Proof. intros P s a r H. apply P in H. lia. Qed.

(* any fuel above the number of remaining bytes gives the same result: read_counted's choice
   (1 + remaining bytes) models the unbounded Go loop *)
Lemma read_n_fuel {A} (d : dec_t A) : progress d ->
  forall f1 f2 n s, (length s < f1)%nat -> (length s < f2)%nat -> read_n d f1 n s = read_n d f2 n s.
Proof.
  intros P. induction f1 as [|f1 IH]; intros f2 n s L1 L2; [lia|].
  destruct f2 as [|f2]; [lia|]. cbn [read_n]. destruct (n =? 0); [reflexivity|].
  destruct (d s) as [[a r]|e] eqn:E; [|reflexivity]. cbn [bind]. apply P in E.
  rewrite (IH f2 (n - 1) r) by lia. reflexivity.
Qed.

Lemma varint_dec_progress f : forall i acc s u n r,
  VarInt.dec_fuel f i acc s = VarInt.Ok (u, n, r) -> (length r < length s)%nat.
Proof.
  induction f as [|f IH]; intros i acc s u n r H; [discriminate|].
  cbn [VarInt.dec_fuel] in H. destruct s as [|b s]; [discriminate|].
  destruct (5 <=? i); [discriminate|].
  destruct (N.land b 128 =? 0).
  - inversion H; subst. cbn [length]. lia.
  - apply IH in H. cbn [length]. lia.
Qed.

Lemma progress_varint : progress read_varint.
Proof.
  intros s a r. unfold read_varint, VarInt.dec.
  destruct (VarInt.dec_fuel 6 0 0 s) as [[[u n] r']|[|]] eqn:E; try discriminate.
  intro H. inversion H; subst. eapply varint_dec_progress. exact E.
Qed.

Lemma noninc_rd_full n : noninc (rd_full n).
Proof.
  intros s b r H. destruct (rd_full_ok_len _ _ _ _ H) as [_ ->]. rewrite app_length. lia.
Qed.

Lemma progress_bind {A B} (d : dec_t A) (k : A -> dec_t B) :
  progress d -> (forall a, noninc (k a)) -> progress (fun s => bind (d s) (fun a r => k a r)).
Proof.
  intros P Nk s b r. destruct (d s) as [[a r1]|e] eqn:E; [|discriminate]. cbn [bind]. intro H.
  apply P in E. apply Nk in H. lia.
Qed.

Lemma progress_string max : progress (read_string_max max).
Proof.
  intros s b r. unfold read_string_max, len_string.
  destruct (read_varint s) as [[l r1]|e] eqn:E; [|discriminate]. cbn [bind].
  destruct (l <? 0)%Z; [discriminate|]. destruct (max * 4 <? l)%Z; [discriminate|]. cbn [bind].
  intro H. apply progress_varint in E. apply noninc_rd_full in H. lia.
Qed.

Lemma progress_key : progress read_key.
Proof.
  intros s k r. unfold read_key. destruct (read_string s) as [[str r1]|e] eqn:E; [|discriminate].
  cbn [bind]. cbv zeta. destruct (validate_key (parse_identifier_key str)); [|discriminate].
  intro H. inversion H; subst. eapply progress_string. exact E.
Qed.

Lemma noninc_sig : noninc read_sig.
Proof.
  intros s b r. unfold read_sig, read_bool, dmap, read_uint8, rd_byte.
  destruct s as [|x s']; [discriminate|]. cbn [bind].
  destruct (negb (x =? 0)).
  - intro H. apply progress_string in H. cbn [length]. lia.
  - intro H. inversion H; subst. cbn [length]. lia.
Qed.

Lemma progress_property : progress read_property.
Proof.
  intros s p r. unfold read_property, dec_pair.
  destruct (read_string s) as [[a r1]|e] eqn:E1; [|discriminate]. cbn [bind].
  destruct (read_string r1) as [[b r2]|e] eqn:E2; [|discriminate]. cbn [bind].
  destruct (read_sig r2) as [[c r3]|e] eqn:E3; [|discriminate]. cbn [bind].
  intro H. inversion H; subst.
  apply progress_string in E1. apply progress_string in E2. apply noninc_sig in E3. lia.
Qed.
