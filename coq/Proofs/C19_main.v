(* C19 — assembled statements. *)
From Coq Require Import List NArith ZArith Bool Arith Lia.
From Verif Require Import Base.Hex Base.Text Model.TryList Model.HandshakeAddr Proofs.C19 Proofs.C19_json.
Import ListNotations.
Open Scope N_scope.

(* today's code = the demanded behaviour, for every hook, mode, client type and input *)
Theorem address_impl_is_spec ha ba fw ct c vhost :
  handshake_addr ha ba impl_props_json fw ct c vhost = handshake_addr ha ba spec_props_json fw ct c vhost.
Proof.
  unfold handshake_addr. rewrite (props_json_impl_is_spec fw ct c). reflexivity.
Qed.

Theorem legacy_address_thm (ba : option (bytes -> option bytes)) fw ct c vhost :
  used_forwarding None fw = true ->
  handshake_addr None ba impl_props_json fw ct c vhost
  = Some (srv_addr c ++ [0] ++ host_str (remote c) ++ [0] ++ undashed (uuid c) ++ [0]
          ++ json_array ((match props c with Some l => l | None => [] end) ++ appended fw ct c)).
Proof.
  intro H. rewrite address_impl_is_spec. unfold handshake_addr. rewrite H. reflexivity.
Qed.

Theorem impl_four_parts_thm fw ct c :
  nz (srv_addr c) = true -> nz (host_str (remote c)) = true ->
  split_nul (forwarding_address (impl_props_json fw ct c) c)
  = [srv_addr c; host_str (remote c); undashed (uuid c); json_array (props_list fw ct c)].
Proof. rewrite props_json_impl_is_spec. apply four_parts_thm. Qed.

Theorem impl_legacy_parse_thm fw ct c :
  nz (srv_addr c) = true -> nz (host_str (remote c)) = true ->
  forallb property_transparent (props_list fw ct c) = true ->
  bungee_parse (forwarding_address (impl_props_json fw ct c) c)
  = Some (srv_addr c, host_str (remote c), undashed (uuid c), props_list fw ct c).
Proof. rewrite props_json_impl_is_spec. apply legacy_parse_thm. Qed.

(* PRE-fix code (before 5dc4db8): its address differed from the demanded one only on the trigger *)
Theorem prefix_spec_address_thm ha ba fw ct c vhost :
  trigger_null fw ct c = false ->
  handshake_addr ha ba prefix_props_json fw ct c vhost = handshake_addr ha ba spec_props_json fw ct c vhost.
Proof.
  intro H. unfold handshake_addr. rewrite (prefix_eq_spec_off_trigger fw ct c H). reflexivity.
Qed.

(* a hook that appends NUL-separated data (Floodgate style) satisfies the host-first premise *)
Example append_hook_keeps d x : first_part ((fun y => y ++ 0 :: d) x) = first_part x.
Proof. apply first_part_app_nul. Qed.

(* Modern Forge client "play\0FML3\0", append hooks on both levels: the host stays first (the data the
   backend addresser appended is cut off again by backendHandshakeBaseHost for Modern Forge) *)
Example host_first_nonvacuous :
  let h := [112;108;97;121] in
  let v := h ++ [0;70;77;76;51;0] in
  let ha := Some (fun y : bytes => y ++ [0; 120]) in
  let ba := Some (fun y : bytes => Some (y ++ [0; 121])) in
  let c := mkCtx [98;58;49] [49;46;50;46;51;46;52;58;53] [] None (v ++ [58;50;53]) in
  used_forwarding ha FwLegacy = false /\
  server_address ha ba impl_props_json FwLegacy CtModernForge c = Some (h ++ [0;70;77;76;51;0]) /\
  player_vhost c = v.
Proof. vm_compute. repeat split; reflexivity. Qed.

(* host-first, stated with nth 0 (split_nul _) on both sides *)
Theorem host_first_split_thm :
  forall (ha : option (bytes -> bytes)) (ba : option (bytes -> option bytes)),
  (forall f x, ha = Some f -> nth 0 (split_nul (f x)) [] = nth 0 (split_nul x) []) ->
  (forall g x y, ba = Some g -> g x = Some y -> nth 0 (split_nul y) [] = nth 0 (split_nul x) []) ->
  forall pj fw ct c vhost r,
  used_forwarding ha fw = false ->
  handshake_addr ha ba pj fw ct c vhost = Some r ->
  nth 0 (split_nul r) [] = nth 0 (split_nul vhost) [].
Proof.
  intros ha ba Hha Hba pj fw ct c vhost r Hu H. rewrite !first_part_split.
  apply (host_first_thm ha ba) with (pj := pj) (fw := fw) (ct := ct) (c := c); try assumption.
  - intros f x E. rewrite <- !first_part_split. apply Hha. exact E.
  - intros g x y E1 E2. rewrite <- !first_part_split. apply (Hba g x y E1 E2).
Qed.
