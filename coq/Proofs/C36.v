(* C36 — proofs about Model/MergePatch.v *)
From Coq Require Import List NArith Bool Permutation Lia.
From Verif Require Import Base.Hex Base.Json Model.MergePatch.
Import ListNotations.

(* ---------- impl = RFC pseudocode ---------- *)

Lemma merge_rfc_undefined_target p : merge_rfc (Some JNull) p = merge_rfc None p.
Proof. destruct p; reflexivity. Qed.

Lemma loops_agree ps :
  Forall (fun kv => forall t, impl_merge t (snd kv) = merge_rfc (Some t) (snd kv)) ps ->
  forall acc, impl_loop impl_merge ps acc = rfc_loop merge_rfc ps acc.
Proof.
  induction 1 as [|[k v] r Hv Hr IH]; intros acc; cbn [impl_loop rfc_loop]; [reflexivity|].
  rewrite <- IH. f_equal. simpl in Hv.
  destruct (is_null v) eqn:En.
  - destruct v; try discriminate. cbn [impl_step rfc_step is_null].
    unfold obj_mem. destruct (obj_get k acc) eqn:E; [reflexivity|].
    now apply obj_del_absent.
  - assert (Hs : rfc_step merge_rfc acc (k, v) = obj_set k (merge_rfc (obj_get k acc) v) acc)
      by (destruct v; try reflexivity; discriminate).
    rewrite Hs. cbn [impl_step]. rewrite En. f_equal. unfold get_or_null.
    destruct (obj_get k acc); [apply Hv|]. rewrite Hv. apply merge_rfc_undefined_target.
Qed.

Theorem impl_eq_rfc p : forall t, impl_merge t p = merge_rfc (Some t) p.
Proof.
  induction p as [| | | |l IH|m IH] using json_ind'; intros t; try reflexivity.
  simpl. f_equal. rewrite (loops_agree m IH). destruct t; reflexivity.
Qed.

Corollary go_apply_eq_spec t p : go_apply t p = spec_apply t p.
Proof. apply impl_eq_rfc. Qed.

(* ---------- the RFC clauses ---------- *)

Lemma nonobject_patch_replaces t p : is_obj p = false -> impl_merge t p = p.
Proof. destruct p; simpl; intros H; try reflexivity; discriminate. Qed.

Lemma object_patch_gives_object t ps : is_obj (impl_merge t (JObj ps)) = true.
Proof. reflexivity. Qed.

(* member-wise description of the loop for a patch with unique member names *)
Lemma impl_loop_get ps : NoDup (keys ps) -> forall acc k,
  obj_get k (impl_loop impl_merge ps acc) =
  match obj_get k ps with
  | None => obj_get k acc
  | Some v => if is_null v then None else Some (impl_merge (get_or_null k acc) v)
  end.
Proof.
  induction ps as [|[k0 v0] r IH]; intros Hnd acc k; cbn [impl_loop obj_get]; [reflexivity|].
  inversion Hnd as [|? ? Hnotin Hnd']; subst.
  rewrite (IH Hnd').
  destruct (beq_bytes_spec k k0) as [->|Hne].
  - assert (Hr : obj_get k0 r = None) by now apply obj_get_None_notin.
    rewrite Hr. cbn [impl_step]. destruct (is_null v0).
    + apply obj_get_del_same.
    + apply obj_get_set_same.
  - assert (Hacc : obj_get k (impl_step impl_merge acc (k0, v0)) = obj_get k acc).
    { cbn [impl_step]. destruct (is_null v0).
      - apply obj_get_del_other. congruence.
      - apply obj_get_set_other. congruence. }
    unfold get_or_null. rewrite Hacc. reflexivity.
Qed.

Theorem object_patch_members t ps k : NoDup (keys ps) ->
  obj_get k (members_of (impl_merge t (JObj ps))) =
  match obj_get k ps with
  | None => obj_get k (members_of t)
  | Some JNull => None
  | Some v => Some (impl_merge (get_or_null k (members_of t)) v)
  end.
Proof.
  intros Hnd. simpl. rewrite (impl_loop_get ps Hnd).
  destruct (obj_get k ps) as [v|]; [|reflexivity]. destruct v; reflexivity.
Qed.

Corollary null_member_deletes t ps k : NoDup (keys ps) ->
  obj_get k ps = Some JNull -> obj_get k (members_of (impl_merge t (JObj ps))) = None.
Proof. intros Hnd H. rewrite object_patch_members, H by assumption. reflexivity. Qed.

Corollary absent_member_untouched t ps k : NoDup (keys ps) ->
  obj_get k ps = None ->
  obj_get k (members_of (impl_merge t (JObj ps))) = obj_get k (members_of t).
Proof. intros Hnd H. rewrite object_patch_members, H by assumption. reflexivity. Qed.

Corollary present_member_recurses t ps k v : NoDup (keys ps) ->
  obj_get k ps = Some v -> v <> JNull ->
  obj_get k (members_of (impl_merge t (JObj ps))) =
  Some (impl_merge (get_or_null k (members_of t)) v).
Proof.
  intros Hnd H Hv. rewrite object_patch_members, H by assumption.
  destruct v; try reflexivity. congruence.
Qed.

(* member names are exact: a patch member named k2 never touches a different name k1, however
   similar (letter case, Unicode look-alikes) *)
Theorem member_names_exact t k1 k2 v : k1 <> k2 ->
  obj_get k1 (members_of (impl_merge t (JObj [(k2, v)]))) = obj_get k1 (members_of t).
Proof.
  intros Hne. apply absent_member_untouched.
  - simpl. constructor; [intros []|constructor].
  - simpl. apply beq_bytes_neq in Hne. now rewrite Hne.
Qed.

Lemma merge_nonnull t p : p <> JNull -> impl_merge t p <> JNull.
Proof. destruct p; simpl; congruence. Qed.

Theorem no_null_members_from_patch t ps k v : NoDup (keys ps) ->
  obj_get k ps = Some v ->
  obj_get k (members_of (impl_merge t (JObj ps))) <> Some JNull.
Proof.
  intros Hnd H. rewrite object_patch_members, H by assumption.
  destruct v; discriminate.
Qed.

(* ---------- unique keys are preserved ---------- *)
Lemma get_or_null_wf k (m : obj) :
  Forall (fun kv => wf_json (snd kv)) m -> wf_json (get_or_null k m).
Proof.
  intros H. unfold get_or_null. destruct (obj_get k m) eqn:E; [|reflexivity].
  apply obj_get_Some_in in E. rewrite Forall_forall in H. exact (H _ E).
Qed.

Theorem merge_wf p : forall t, wf_json t -> wf_json p -> wf_json (impl_merge t p).
Proof.
  induction p as [| | | |l IH|m IH] using json_ind'; intros t Ht Hp; try exact Hp.
  simpl. apply wf_json_obj.
  apply wf_json_obj in Hp. destruct Hp as [_ Hvals].
  assert (H0 : NoDup (keys (members_of t)) /\ Forall (fun kv => wf_json (snd kv)) (members_of t)).
  { destruct t; simpl; try (split; constructor). now apply wf_json_obj. }
  revert H0. generalize (members_of t) as acc.
  induction m as [|[k v] r IHr]; intros acc [Hn Hf]; simpl; [tauto|].
  inversion IH as [|? ? Hv Hr]; subst. inversion Hvals as [|? ? Hwv Hwr]; subst.
  simpl in Hv, Hwv.
  apply IHr; try assumption.
  destruct (is_null v); split.
  - now apply NoDup_keys_obj_del.
  - now apply obj_del_values_Forall.
  - now apply NoDup_keys_obj_set.
  - apply obj_set_values_Forall; [|assumption]. apply Hv; [|assumption].
    now apply get_or_null_wf.
Qed.

(* ---------- idempotence ---------- *)
Lemma loop_fixed (rec : json -> json -> json) ps R :
  (forall kv, In kv ps -> impl_step rec R kv = R) -> impl_loop rec ps R = R.
Proof.
  induction ps as [|kv r IH]; intros H; simpl; [reflexivity|].
  rewrite (H kv) by now left. apply IH. intros kv' Hin. apply H. now right.
Qed.

Theorem merge_idempotent p : forall t,
  wf_json p -> impl_merge (impl_merge t p) p = impl_merge t p.
Proof.
  induction p as [| | | |l IH|m IH] using json_ind'; intros t Hp; try reflexivity.
  apply wf_json_obj in Hp. destruct Hp as [Hnd Hvals].
  simpl. f_equal. set (R := impl_loop impl_merge m (members_of t)).
  apply loop_fixed. intros [k v] Hin.
  assert (Hget : obj_get k m = Some v) by now apply obj_get_in_nodup.
  assert (HR : obj_get k R =
               if is_null v then None else Some (impl_merge (get_or_null k (members_of t)) v)).
  { unfold R. rewrite (impl_loop_get m Hnd), Hget. reflexivity. }
  cbn [impl_step]. destruct (is_null v) eqn:Ev.
  - now apply obj_del_absent.
  - assert (Hg : get_or_null k R = impl_merge (get_or_null k (members_of t)) v)
      by (unfold get_or_null at 1; now rewrite HR).
    apply obj_set_same. rewrite HR, Hg. f_equal.
    rewrite Forall_forall in IH, Hvals.
    symmetry. apply (IH (k, v) Hin). exact (Hvals (k, v) Hin).
Qed.

(* ---------- Go's map iteration order (and the member order of both documents, at every
              level) does not influence the result ---------- *)
Lemma get_or_null_equiv k (x y : obj) :
  json_equiv (JObj x) (JObj y) -> json_equiv (get_or_null k x) (get_or_null k y).
Proof.
  intros H. inversion H as [| | | | |? ? Hnone Hrel]; subst. unfold get_or_null.
  destruct (obj_get k x) as [u|] eqn:Ex, (obj_get k y) as [v|] eqn:Ey.
  - eapply Hrel; eauto.
  - apply Hnone in Ey. congruence.
  - apply Hnone in Ex. congruence.
  - constructor.
Qed.

Lemma members_of_equiv t t' :
  json_equiv t t' -> json_equiv (JObj (members_of t)) (JObj (members_of t')).
Proof.
  intros H. inversion H; subst; simpl; try apply json_equiv_refl. assumption.
Qed.

Lemma is_null_equiv u v : json_equiv u v -> is_null u = is_null v.
Proof. intros H. inversion H; reflexivity. Qed.

Theorem merge_respects_equiv p : forall p' t t',
  wf_json p -> wf_json p' -> json_equiv p p' -> json_equiv t t' ->
  json_equiv (impl_merge t p) (impl_merge t' p').
Proof.
  induction p as [| | | |l IH|m IH] using json_ind'; intros p' t t' Hw Hw' Hp Ht;
    try (inversion Hp; subst; simpl; assumption).
  inversion Hp as [| | | | |? m' Hnone Hrel]; subst.
  apply wf_json_obj in Hw. destruct Hw as [Hnd Hvals].
  apply wf_json_obj in Hw'. destruct Hw' as [Hnd' Hvals'].
  apply members_of_equiv in Ht.
  assert (Hmt := Ht). inversion Hmt as [| | | | |? ? Hnone_t Hrel_t]; subst.
  simpl.
  (* member-wise description of both results *)
  assert (L : forall k, obj_get k (impl_loop impl_merge m (members_of t)) =
                        match obj_get k m with
                        | None => obj_get k (members_of t)
                        | Some v => if is_null v then None
                                    else Some (impl_merge (get_or_null k (members_of t)) v)
                        end) by (intros; now apply impl_loop_get).
  assert (L' : forall k, obj_get k (impl_loop impl_merge m' (members_of t')) =
                         match obj_get k m' with
                         | None => obj_get k (members_of t')
                         | Some v => if is_null v then None
                                     else Some (impl_merge (get_or_null k (members_of t')) v)
                         end) by (intros; now apply impl_loop_get).
  rewrite Forall_forall in IH, Hvals, Hvals'.
  constructor.
  - intros k. rewrite L, L'.
    destruct (obj_get k m) as [v|] eqn:Ev, (obj_get k m') as [v'|] eqn:Ev'.
    + rewrite (is_null_equiv v v') by (eapply Hrel; eauto).
      destruct (is_null v'); split; intros; try reflexivity; discriminate.
    + apply Hnone in Ev'. congruence.
    + apply Hnone in Ev. congruence.
    + apply Hnone_t.
  - intros k u u'. rewrite L, L'.
    destruct (obj_get k m) as [v|] eqn:Ev, (obj_get k m') as [v'|] eqn:Ev'.
    + assert (Hvv : json_equiv v v') by (eapply Hrel; eauto).
      rewrite (is_null_equiv v v' Hvv).
      destruct (is_null v'); [discriminate|].
      intros E E'. inversion E; inversion E'; subst.
      apply obj_get_Some_in in Ev. apply obj_get_Some_in in Ev'.
      apply (IH (k, v) Ev).
      * exact (Hvals (k, v) Ev).
      * exact (Hvals' (k, v') Ev').
      * assumption.
      * now apply get_or_null_equiv.
    + apply Hnone in Ev'. congruence.
    + apply Hnone in Ev. congruence.
    + apply Hrel_t.
Qed.

(* a reordering of the members (a different map iteration order) is an equivalent patch *)
Lemma perm_members_equiv (ps ps' : obj) :
  NoDup (keys ps) -> Permutation ps ps' -> json_equiv (JObj ps) (JObj ps').
Proof.
  intros Hnd Hperm.
  assert (Hnd' : NoDup (keys ps')).
  { eapply Permutation_NoDup; [|exact Hnd]. unfold keys. now apply Permutation_map. }
  assert (Hget : forall k, obj_get k ps = obj_get k ps').
  { intros k. destruct (obj_get k ps) as [v|] eqn:E.
    - symmetry. apply obj_get_in_nodup; [assumption|].
      eapply Permutation_in; [exact Hperm|]. now apply obj_get_Some_in.
    - symmetry. apply obj_get_None_notin. apply obj_get_None_notin in E.
      intros Hin. apply E. eapply Permutation_in; [|exact Hin].
      unfold keys. apply Permutation_map. now apply Permutation_sym. }
  constructor.
  - intros k. rewrite Hget. tauto.
  - intros k u v Hu Hv. rewrite Hget, Hv in Hu. inversion Hu; subst. apply json_equiv_refl.
Qed.

Theorem iteration_order_irrelevant t ps ps' :
  wf_json (JObj ps) -> Permutation ps ps' ->
  json_eqb (impl_merge t (JObj ps)) (impl_merge t (JObj ps')) = true.
Proof.
  intros Hw Hperm. apply json_eqb_equiv.
  assert (Hw0 := Hw). apply wf_json_obj in Hw0. destruct Hw0 as [Hnd Hvals].
  apply merge_respects_equiv.
  - assumption.
  - apply wf_json_obj. split.
    + eapply Permutation_NoDup; [|exact Hnd]. unfold keys. now apply Permutation_map.
    + eapply Permutation_Forall; eassumption.
  - now apply perm_members_equiv.
  - apply json_equiv_refl.
Qed.

(* ---------- non-vacuity and the 15 examples of RFC 7396 Appendix A ---------- *)
Definition s (x : String.string) : json := JStr (tx x).
Definition n (x : String.string) : json := JNum (tx x).
Definition o (l : list (String.string * json)) : json := JObj (map (fun kv => (tx (fst kv), snd kv)) l).
Definition a (l : list json) : json := JArr l.
From Coq Require Import String.
Local Open Scope string_scope.

Example rfc_A01 : impl_merge (o [("a", s "b")]) (o [("a", s "c")]) = o [("a", s "c")].
Proof. vm_compute. reflexivity. Qed.
Example rfc_A02 : impl_merge (o [("a", s "b")]) (o [("b", s "c")]) = o [("a", s "b"); ("b", s "c")].
Proof. vm_compute. reflexivity. Qed.
Example rfc_A03 : impl_merge (o [("a", s "b")]) (o [("a", JNull)]) = o [].
Proof. vm_compute. reflexivity. Qed.
Example rfc_A04 : impl_merge (o [("a", s "b"); ("b", s "c")]) (o [("a", JNull)]) = o [("b", s "c")].
Proof. vm_compute. reflexivity. Qed.
Example rfc_A05 : impl_merge (o [("a", a [s "b"])]) (o [("a", s "c")]) = o [("a", s "c")].
Proof. vm_compute. reflexivity. Qed.
Example rfc_A06 : impl_merge (o [("a", s "c")]) (o [("a", a [s "b"])]) = o [("a", a [s "b"])].
Proof. vm_compute. reflexivity. Qed.
Example rfc_A07 :
  impl_merge (o [("a", o [("b", s "c")])]) (o [("a", o [("b", s "d"); ("c", JNull)])])
  = o [("a", o [("b", s "d")])].
Proof. vm_compute. reflexivity. Qed.
Example rfc_A08 : impl_merge (o [("a", a [o [("b", s "c")]])]) (o [("a", a [n "1"])]) = o [("a", a [n "1"])].
Proof. vm_compute. reflexivity. Qed.
Example rfc_A09 : impl_merge (a [s "a"; s "b"]) (a [s "c"; s "d"]) = a [s "c"; s "d"].
Proof. vm_compute. reflexivity. Qed.
Example rfc_A10 : impl_merge (o [("a", s "b")]) (a [s "c"]) = a [s "c"].
Proof. vm_compute. reflexivity. Qed.
Example rfc_A11 : impl_merge (o [("a", s "foo")]) JNull = JNull.
Proof. vm_compute. reflexivity. Qed.
Example rfc_A12 : impl_merge (o [("a", s "foo")]) (s "bar") = s "bar".
Proof. vm_compute. reflexivity. Qed.
Example rfc_A13 : impl_merge (o [("e", JNull)]) (o [("a", n "1")]) = o [("e", JNull); ("a", n "1")].
Proof. vm_compute. reflexivity. Qed.
Example rfc_A14 : impl_merge (a [n "1"; n "2"]) (o [("a", s "b"); ("c", JNull)]) = o [("a", s "b")].
Proof. vm_compute. reflexivity. Qed.
Example rfc_A15 :
  impl_merge (o []) (o [("a", o [("bb", o [("ccc", JNull)])])]) = o [("a", o [("bb", o [])])].
Proof. vm_compute. reflexivity. Qed.

(* the same table through the RFC pseudocode itself: a transcription check of merge_rfc *)
Example rfc_table_by_pseudocode :
  forallb (fun c => json_beq (merge_rfc (Some (fst (fst c))) (snd (fst c))) (snd c))
    [ (o [("a", s "b")], o [("a", s "c")], o [("a", s "c")]);
      (o [("a", s "b")], o [("b", s "c")], o [("a", s "b"); ("b", s "c")]);
      (o [("a", s "b")], o [("a", JNull)], o []);
      (o [("a", s "b"); ("b", s "c")], o [("a", JNull)], o [("b", s "c")]);
      (o [("a", a [s "b"])], o [("a", s "c")], o [("a", s "c")]);
      (o [("a", s "c")], o [("a", a [s "b"])], o [("a", a [s "b"])]);
      (o [("a", o [("b", s "c")])], o [("a", o [("b", s "d"); ("c", JNull)])], o [("a", o [("b", s "d")])]);
      (o [("a", a [o [("b", s "c")]])], o [("a", a [n "1"])], o [("a", a [n "1"])]);
      (a [s "a"; s "b"], a [s "c"; s "d"], a [s "c"; s "d"]);
      (o [("a", s "b")], a [s "c"], a [s "c"]);
      (o [("a", s "foo")], JNull, JNull);
      (o [("a", s "foo")], s "bar", s "bar");
      (o [("e", JNull)], o [("a", n "1")], o [("e", JNull); ("a", n "1")]);
      (a [n "1"; n "2"], o [("a", s "b"); ("c", JNull)], o [("a", s "b")]);
      (o [], o [("a", o [("bb", o [("ccc", JNull)])])], o [("a", o [("bb", o [])])]) ] = true.
Proof. vm_compute. reflexivity. Qed.

(* premises of the member-wise theorem, of idempotence and of order-irrelevance are met by a
   patch that deletes, recurses and adds at once *)
Example nonvacuous :
  let t := o [("a", o [("x", n "1"); ("y", n "2")]); ("b", s "keep"); ("c", a [JNull])] in
  let ps := [(tx "a", o [("x", JNull); ("z", n "3")]); (tx "c", JNull); (tx "d", o [("q", JNull)]); (tx "e", n "5")] in
  wf_json (JObj ps) /\ NoDup (keys ps) /\
  impl_merge t (JObj ps) = o [("a", o [("y", n "2"); ("z", n "3")]); ("b", s "keep"); ("d", o []); ("e", n "5")] /\
  json_eqb (impl_merge t (JObj (rev ps))) (impl_merge t (JObj ps)) = true /\
  json_beq (impl_merge t (JObj (rev ps))) (impl_merge t (JObj ps)) = false.
Proof.
  cbv zeta. split; [reflexivity|]. split; [apply nodupb_keys_NoDup; reflexivity|].
  repeat split; vm_compute; reflexivity.
Qed.

(* "bind" and "Bind" are different members: deleting "Bind" is a no-op, setting it adds a sibling *)
Example bind_vs_Bind :
  impl_merge (o [("bind", s "0.0.0.0:25565")]) (o [("Bind", JNull)]) = o [("bind", s "0.0.0.0:25565")] /\
  impl_merge (o [("bind", s "0.0.0.0:25565")]) (o [("Bind", s "x")])
  = o [("bind", s "0.0.0.0:25565"); ("Bind", s "x")] /\
  impl_merge (o [("a", o [("x", n "1")])]) (o [("A", o [("y", n "2")])])
  = o [("a", o [("x", n "1")]); ("A", o [("y", n "2")])].
Proof. vm_compute. repeat split; reflexivity. Qed.

(* a raw patch with a duplicated member name: Go keeps the last one *)
Example duplicate_member_last_wins :
  go_apply (o [("a", o [("x", n "1")])]) (o [("a", o [("x", JNull)]); ("a", o [("y", n "2")])])
  = o [("a", o [("x", n "1"); ("y", n "2")])].
Proof. vm_compute. reflexivity. Qed.
