(* C19 — forwarding part: the legacy / BungeeGuard address has exactly four NUL-separated parts and the
   reference BungeeCord-side parser reads back the values that went in. *)
From Coq Require Import List NArith ZArith Bool Arith Lia.
From Verif Require Import Base.Hex Base.Text Model.TryList Model.HandshakeAddr Proofs.C19.
Import ListNotations.
Open Scope N_scope.

(* ---------- no raw NUL in anything the JSON printer emits ---------- *)

Definition nz (l : bytes) : bool := forallb (fun b => negb (b =? 0)) l.

Lemma nz_app a b : nz (a ++ b) = nz a && nz b.
Proof. apply forallb_app. Qed.

Lemma nz_cons x l : nz (x :: l) = negb (x =? 0) && nz l.
Proof. reflexivity. Qed.

Lemma hexdigit_nz d : negb (hexdigit d =? 0) = true.
Proof.
  unfold hexdigit. apply negb_true_iff, N.eqb_neq. destruct (d <? 10); lia.
Qed.

Lemma esc_ascii_nz b : nz (esc_ascii b) = true.
Proof.
  unfold esc_ascii.
  destruct ((b =? 34) || (b =? 92)) eqn:E1.
  - apply orb_true_iff in E1. destruct E1 as [E|E]; apply N.eqb_eq in E; subst; reflexivity.
  - destruct (b =? 8); [reflexivity|]. destruct (b =? 12); [reflexivity|].
    destruct (b =? 10); [reflexivity|]. destruct (b =? 13); [reflexivity|].
    destruct (b =? 9); [reflexivity|].
    destruct ((b <? 32) || (b =? 60) || (b =? 62) || (b =? 38)) eqn:E2.
    + rewrite !nz_cons, !hexdigit_nz. reflexivity.
    + rewrite !orb_false_iff in E2. destruct E2 as [[[E2 _] _] _].
      apply N.ltb_ge in E2. rewrite nz_cons. simpl.
      rewrite andb_true_r. apply negb_true_iff, N.eqb_neq. lia.
Qed.

Lemma ge128_nz b : (128 <=? b) = true -> negb (b =? 0) = true.
Proof. intro H. apply N.leb_le in H. apply negb_true_iff, N.eqb_neq. lia. Qed.

Lemma esc_walk_nz : forall s st, nz (esc_walk st s) = true.
Proof.
  induction s as [|b r IH]; intro st; [reflexivity|].
  assert (Hdefault :
    nz (if b <? 128 then esc_ascii b ++ esc_walk ENone r
        else match seq_len (b :: r) with
             | O => esc_fffd ++ esc_walk ENone r
             | S k => match ls_ps (b :: r) with
                      | Some d => [92; 117; 50; 48; 50; hexdigit d] ++ esc_walk (EDrop k) r
                      | None => b :: esc_walk (match k with O => ENone | _ => ECopy k end) r
                      end
             end) = true).
  { destruct (b <? 128) eqn:Eb.
    - rewrite nz_app, esc_ascii_nz, IH. reflexivity.
    - destruct (seq_len (b :: r)) as [|k].
      + rewrite nz_app, IH. reflexivity.
      + destruct (ls_ps (b :: r)) as [d|].
        * rewrite nz_app, IH, !nz_cons, hexdigit_nz. reflexivity.
        * rewrite nz_cons, IH, andb_true_r. apply ge128_nz. apply N.leb_le. apply N.ltb_ge in Eb. exact Eb. }
  destruct st as [|[|k]|[|k]]; cbn [esc_walk]; try exact Hdefault.
  - destruct (128 <=? b) eqn:Eb.
    + rewrite nz_cons, IH, andb_true_r. apply ge128_nz. exact Eb.
    + rewrite nz_app, esc_ascii_nz, IH. reflexivity.
  - apply IH.
Qed.

Lemma json_string_nz s : nz (json_string s) = true.
Proof. unfold json_string. rewrite nz_cons, nz_app, esc_walk_nz. reflexivity. Qed.

Lemma json_property_nz p : nz (json_property p) = true.
Proof.
  unfold json_property. rewrite !nz_app, !json_string_nz.
  destruct (p_sig p) as [|x sg]; [reflexivity|].
  rewrite nz_app, json_string_nz. reflexivity.
Qed.

Lemma json_join_nz l : forallb nz l = true -> nz (json_join l) = true.
Proof.
  induction l as [|x r IH]; [reflexivity|]. cbn [forallb]. intro H.
  apply andb_true_iff in H. destruct H as [Hx Hr].
  destruct r as [|y r']; [exact Hx|].
  change (json_join (x :: y :: r')) with (x ++ [44] ++ json_join (y :: r')).
  rewrite !nz_app, Hx, (IH Hr). reflexivity.
Qed.

Lemma json_array_nz ps : nz (json_array ps) = true.
Proof.
  unfold json_array. rewrite !nz_app. rewrite json_join_nz; [reflexivity|].
  rewrite forallb_forall. intros x Hx. apply in_map_iff in Hx. destruct Hx as (p & <- & _).
  apply json_property_nz.
Qed.

Lemma undashed_nz u : nz (undashed u) = true.
Proof. induction u as [|b r IH]; [reflexivity|]. simpl. rewrite !hexdigit_nz, IH. reflexivity. Qed.

(* ---------- exactly four parts ---------- *)

Lemma split_nul_single a : nz a = true -> split_nul a = [a].
Proof.
  induction a as [|c a IH]; [reflexivity|]. simpl. intro H.
  apply andb_true_iff in H. destruct H as [Hc Ha]. apply negb_true_iff in Hc. rewrite Hc.
  rewrite (IH Ha). reflexivity.
Qed.

Lemma split_nul_app a r : nz a = true -> split_nul (a ++ 0 :: r) = a :: split_nul r.
Proof.
  induction a as [|c a IH]; [reflexivity|]. simpl. intro H.
  apply andb_true_iff in H. destruct H as [Hc Ha]. apply negb_true_iff in Hc. rewrite Hc.
  rewrite (IH Ha). reflexivity.
Qed.

Lemma forwarding_four_parts pj c :
  nz (srv_addr c) = true -> nz (host_str (remote c)) = true -> nz pj = true ->
  split_nul (forwarding_address pj c) = [srv_addr c; host_str (remote c); undashed (uuid c); pj].
Proof.
  intros Ha Hi Hp. unfold forwarding_address. cbn [app].
  rewrite (split_nul_app _ _ Ha), (split_nul_app _ _ Hi), (split_nul_app _ _ (undashed_nz (uuid c))).
  rewrite (split_nul_single _ Hp). reflexivity.
Qed.

(* ---------- string round trip ---------- *)

Definition esc_byte (b : N) : bytes := if b <? 128 then esc_ascii b else [b].

Lemma esc_walk_transparent : forall s st,
  transparent_walk st s = true -> esc_walk st s = flat_map esc_byte s.
Proof.
  induction s as [|b r IH]; intros st H; [reflexivity|].
  assert (Hdefault :
    (if b <? 128 then transparent_walk ENone r
     else match seq_len (b :: r) with
          | O => false
          | S k => match ls_ps (b :: r) with
                   | Some _ => false
                   | None => transparent_walk (match k with O => ENone | _ => ECopy k end) r
                   end
          end) = true ->
    (if b <? 128 then esc_ascii b ++ esc_walk ENone r
     else match seq_len (b :: r) with
          | O => esc_fffd ++ esc_walk ENone r
          | S k => match ls_ps (b :: r) with
                   | Some d => [92; 117; 50; 48; 50; hexdigit d] ++ esc_walk (EDrop k) r
                   | None => b :: esc_walk (match k with O => ENone | _ => ECopy k end) r
                   end
          end) = esc_byte b ++ flat_map esc_byte r).
  { unfold esc_byte. destruct (b <? 128) eqn:Eb.
    - intro Ht. rewrite (IH _ Ht). reflexivity.
    - destruct (seq_len (b :: r)) as [|k]; [discriminate|].
      destruct (ls_ps (b :: r)); [discriminate|]. intro Ht. rewrite (IH _ Ht). reflexivity. }
  destruct st as [|[|k]|[|k]]; cbn [esc_walk transparent_walk flat_map] in *;
    try (apply Hdefault; exact H); try discriminate.
  apply andb_true_iff in H. destruct H as [Hb Ht]. rewrite Hb. rewrite (IH _ Ht).
  unfold esc_byte. assert (E : (b <? 128) = false) by (apply N.ltb_ge; apply N.leb_le in Hb; exact Hb).
  rewrite E. reflexivity.
Qed.

Definition byte_ok (b : N) : Prop :=
  forall t, parse_string_body (esc_byte b ++ t)
            = match parse_string_body t with Some (u, r) => Some (b :: u, r) | None => None end.

Lemma byte_ok_ascii b : b < 128 -> byte_ok b.
Proof.
  intro H. destruct b as [|p]; [intro t; reflexivity|].
  do 7 (try (destruct p as [p|p|])); try (exfalso; lia); intro t; reflexivity.
Qed.

Lemma byte_ok_all b : byte_ok b.
Proof.
  destruct (N.ltb_spec b 128) as [Hlt|Hge].
  - apply byte_ok_ascii. exact Hlt.
  - intro t. unfold esc_byte.
    assert (E : (b <? 128) = false) by (apply N.ltb_ge; exact Hge). rewrite E.
    cbn [app parse_string_body].
    assert (E1 : (b =? 34) = false) by (apply N.eqb_neq; lia).
    assert (E2 : (b =? 92) = false) by (apply N.eqb_neq; lia).
    rewrite E1, E2. reflexivity.
Qed.

Lemma parse_body_flat s rest :
  parse_string_body (flat_map esc_byte s ++ 34 :: rest) = Some (s, rest).
Proof.
  induction s as [|b s IH]; [reflexivity|].
  cbn [flat_map]. rewrite <- app_assoc. rewrite (byte_ok_all b). rewrite IH. reflexivity.
Qed.

Lemma json_string_parse s rest :
  json_transparent s = true -> parse_string (json_string s ++ rest) = Some (s, rest).
Proof.
  intro H. unfold json_string, json_transparent in *. rewrite (esc_walk_transparent s ENone H).
  cbn [app parse_string]. rewrite <- app_assoc. apply parse_body_flat.
Qed.

(* ---------- property round trip ---------- *)

Lemma parse_k_name x : parse_string (k_name ++ x) = Some (s_name, 58 :: x).
Proof. reflexivity. Qed.
Lemma parse_k_value x : parse_string (tl k_value ++ x) = Some (s_value, 58 :: x).
Proof. reflexivity. Qed.
Lemma parse_k_sig x : parse_string (tl k_sig ++ x) = Some (s_signature, 58 :: x).
Proof. reflexivity. Qed.

Definition members_of (p : property) : list (bytes * bytes) :=
  (s_name, p_name p) :: (s_value, p_value p)
  :: match p_sig p with [] => [] | sg => [(s_signature, sg)] end.

Lemma property_of_members p : property_of (members_of p) = Some p.
Proof. destruct p as [n v [|x sg]]; reflexivity. Qed.

(* the text of a property after its opening brace *)
Definition property_tail (p : property) (rest : bytes) : bytes :=
  k_name ++ json_string (p_name p) ++ k_value ++ json_string (p_value p)
  ++ (match p_sig p with [] => [] | sg => k_sig ++ json_string sg end) ++ 125 :: rest.

Lemma json_property_tail p rest : json_property p ++ rest = 123 :: property_tail p rest.
Proof.
  unfold json_property, property_tail. cbn [app]. repeat rewrite <- app_assoc. reflexivity.
Qed.

Lemma pm_more fuel s k v r1 r2 :
  parse_string s = Some (k, 58 :: r1) -> parse_string r1 = Some (v, 44 :: r2) ->
  parse_members (S fuel) s
  = match parse_members fuel r2 with Some (ms, rest) => Some ((k, v) :: ms, rest) | None => None end.
Proof. intros H1 H2. cbn [parse_members]. rewrite H1, H2. reflexivity. Qed.

Lemma pm_last fuel s k v r1 r2 :
  parse_string s = Some (k, 58 :: r1) -> parse_string r1 = Some (v, 125 :: r2) ->
  parse_members (S fuel) s = Some ([(k, v)], r2).
Proof. intros H1 H2. cbn [parse_members]. rewrite H1, H2. reflexivity. Qed.

Lemma parse_members_property p rest fuel :
  property_transparent p = true -> (3 <= fuel)%nat ->
  parse_members fuel (property_tail p rest) = Some (members_of p, rest).
Proof.
  intros Ht Hf. unfold property_transparent in Ht.
  apply andb_true_iff in Ht. destruct Ht as [Ht Hs]. apply andb_true_iff in Ht. destruct Ht as [Hn Hv].
  destruct fuel as [|[|[|f]]]; try lia.
  unfold property_tail, members_of.
  destruct (p_sig p) as [|x sg] eqn:Es.
  - change (k_value ++ ?z) with (44 :: (tl k_value ++ z)).
    rewrite (pm_more _ _ s_name (p_name p) _ _ (parse_k_name _) (json_string_parse _ _ Hn)).
    cbn [app].
    rewrite (pm_last _ _ s_value (p_value p) _ _ (parse_k_value _) (json_string_parse _ _ Hv)).
    reflexivity.
  - rewrite <- app_assoc.
    change (k_value ++ ?z) with (44 :: (tl k_value ++ z)).
    change (k_sig ++ ?y) with (44 :: (tl k_sig ++ y)).
    rewrite (pm_more _ _ s_name (p_name p) _ _ (parse_k_name _) (json_string_parse _ _ Hn)).
    rewrite (pm_more _ _ s_value (p_value p) _ _ (parse_k_value _) (json_string_parse _ _ Hv)).
    rewrite (pm_last _ _ s_signature (x :: sg) _ _ (parse_k_sig _) (json_string_parse _ _ Hs)).
    reflexivity.
Qed.

Lemma property_tail_len p rest : (3 <= length (property_tail p rest))%nat.
Proof. unfold property_tail, k_name. cbn [app length]. lia. Qed.

Lemma join_props_one p : json_join (map json_property [p]) = json_property p.
Proof. reflexivity. Qed.

Lemma join_props_more p ps : ps <> [] ->
  json_join (map json_property (p :: ps)) = json_property p ++ [44] ++ json_join (map json_property ps).
Proof. destruct ps as [|q ps']; [contradiction | reflexivity]. Qed.

Lemma po_last fuel r ms p rest :
  parse_members (length r) r = Some (ms, 93 :: rest) -> property_of ms = Some p ->
  parse_objects (S fuel) (123 :: r) = Some ([p], rest).
Proof. intros H1 H2. cbn [parse_objects]. rewrite H1, H2. reflexivity. Qed.

Lemma po_more fuel r ms p r' :
  parse_members (length r) r = Some (ms, 44 :: r') -> property_of ms = Some p ->
  parse_objects (S fuel) (123 :: r)
  = match parse_objects fuel r' with Some (ps, rest') => Some (p :: ps, rest') | None => None end.
Proof. intros H1 H2. cbn [parse_objects]. rewrite H1, H2. reflexivity. Qed.

Lemma parse_objects_join : forall ps rest fuel,
  ps <> [] -> forallb property_transparent ps = true -> (length ps <= fuel)%nat ->
  parse_objects fuel (json_join (map json_property ps) ++ 93 :: rest) = Some (ps, rest).
Proof.
  induction ps as [|p ps IH]; intros rest fuel Hne Ht Hf; [contradiction|].
  cbn [forallb] in Ht. apply andb_true_iff in Ht. destruct Ht as [Hp Hps].
  destruct fuel as [|f]; [simpl in Hf; lia|].
  destruct ps as [|q ps'].
  - rewrite join_props_one. rewrite json_property_tail.
    rewrite (po_last _ _ _ _ _ (parse_members_property p (93 :: rest) _ Hp (property_tail_len p _))
               (property_of_members p)).
    reflexivity.
  - rewrite join_props_more by discriminate. rewrite <- !app_assoc. rewrite json_property_tail.
    cbn [app].
    rewrite (po_more _ _ _ _ _ (parse_members_property p _ _ Hp (property_tail_len p _))
               (property_of_members p)).
    rewrite (IH rest f); [reflexivity | discriminate | exact Hps | simpl in *; lia].
Qed.

Lemma json_property_len p : (1 <= length (json_property p))%nat.
Proof. unfold json_property. cbn [app length]. lia. Qed.

Lemma json_join_len ps : (length ps <= length (json_join (map json_property ps)))%nat.
Proof.
  induction ps as [|p ps IH]; [simpl; lia|].
  destruct ps as [|q ps'].
  - rewrite join_props_one. pose proof (json_property_len p). simpl length. lia.
  - rewrite join_props_more by discriminate. rewrite !app_length.
    pose proof (json_property_len p). simpl length in *. lia.
Qed.

Lemma join_props_head p ps : exists x, json_join (map json_property (p :: ps)) = 123 :: x.
Proof.
  destruct ps as [|q ps'].
  - rewrite join_props_one. unfold json_property. cbn [app]. eexists; reflexivity.
  - rewrite join_props_more by discriminate. unfold json_property at 1. cbn [app]. eexists; reflexivity.
Qed.

Theorem parse_props_array ps :
  forallb property_transparent ps = true -> parse_props (json_array ps) = Some ps.
Proof.
  intro Ht. unfold json_array. destruct ps as [|p ps]; [reflexivity|].
  cbn [app]. set (body := json_join (map json_property (p :: ps)) ++ [93]).
  assert (Hb : exists x, body = 123 :: x).
  { unfold body. destruct (join_props_head p ps) as [x ->]. eexists; reflexivity. }
  destruct Hb as [x Hx]. unfold parse_props. rewrite Hx. rewrite <- Hx.
  unfold body. rewrite (parse_objects_join (p :: ps) [] _); [reflexivity | discriminate | exact Ht |].
  rewrite app_length. pose proof (json_join_len (p :: ps)). lia.
Qed.

(* ---------- the BungeeCord-side reading of the forwarding address ---------- *)

Theorem legacy_parse_thm fw ct c :
  nz (srv_addr c) = true -> nz (host_str (remote c)) = true ->
  forallb property_transparent (props_list fw ct c) = true ->
  bungee_parse (forwarding_address (spec_props_json fw ct c) c)
  = Some (srv_addr c, host_str (remote c), undashed (uuid c), props_list fw ct c).
Proof.
  intros Ha Hi Ht. unfold bungee_parse, spec_props_json.
  rewrite (forwarding_four_parts _ c Ha Hi (json_array_nz _)).
  rewrite (parse_props_array _ Ht). reflexivity.
Qed.

(* whatever the strings are, part four never contains a raw NUL: always exactly four parts *)
Theorem four_parts_thm fw ct c :
  nz (srv_addr c) = true -> nz (host_str (remote c)) = true ->
  split_nul (forwarding_address (spec_props_json fw ct c) c)
  = [srv_addr c; host_str (remote c); undashed (uuid c); json_array (props_list fw ct c)].
Proof. intros Ha Hi. apply forwarding_four_parts; try assumption. apply json_array_nz. Qed.

(* ---------- the code vs. the property: the nil property slice ---------- *)

(* today's code prints what the property demands, for every input *)
Lemma props_json_impl_is_spec fw ct c : impl_props_json fw ct c = spec_props_json fw ct c.
Proof.
  unfold impl_props_json, spec_props_json, props_list.
  destruct (props c); [reflexivity|]. destruct (appended fw ct c); reflexivity.
Qed.

(* facts about the PRE-fix code (before 5dc4db8) *)
Lemma prefix_eq_spec_off_trigger fw ct c :
  trigger_null fw ct c = false -> prefix_props_json fw ct c = spec_props_json fw ct c.
Proof.
  unfold trigger_null, prefix_props_json, spec_props_json.
  destruct (props c); [reflexivity|]. destruct (appended fw ct c); [discriminate | reflexivity].
Qed.

(* offline-mode player, vanilla client, legacy forwarding: part four is the literal null *)
Definition null_witness : fw_ctx :=
  mkCtx [49;48;46;48;46;48;46;55;58;49] [49;46;50;46;51;46;52;58;53;53;53;53]
        [0;1;2;3;4;5;6;7;8;9;10;11;12;13;14;15] None [97;58;50;53;53;54;53].

Theorem prefix_null_refuted :
  trigger_null FwLegacy CtOther null_witness = true /\
  handshake_addr None None prefix_props_json FwLegacy CtOther null_witness [97]
    = Some (forwarding_address json_null null_witness) /\
  bungee_parse (forwarding_address json_null null_witness) = None /\
  bungee_parse (forwarding_address (spec_props_json FwLegacy CtOther null_witness) null_witness)
    = Some ([49;48;46;48;46;48;46;55;58;49], [49;46;50;46;51;46;52],
            undashed [0;1;2;3;4;5;6;7;8;9;10;11;12;13;14;15], []).
Proof. vm_compute. repeat split; reflexivity. Qed.

(* non-vacuity: a profile with a signed textures property and a BungeeGuard token, Modern Forge client *)
Example legacy_parse_nonvacuous :
  let p := mkProp [116;101;120;116;117;114;101;115] [101;121;74;48;34;92;60;10] [97;98;61] in
  let c := mkCtx [49;48;46;48;46;48;46;55;58;49] [91;58;58;49;93;58;52] (repeat 171 16) (Some [p])
                 [104;0;70;77;76;50;0;58;49] in
  nz (srv_addr c) = true /\ nz (host_str (remote c)) = true /\
  forallb property_transparent (props_list (FwBungeeGuard [115;0;34]) CtModernForge c) = true /\
  length (props_list (FwBungeeGuard [115;0;34]) CtModernForge c) = 3%nat.
Proof. vm_compute. repeat split; reflexivity. Qed.
