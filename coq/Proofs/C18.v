(* C18 — proofs about Model/KeepAlive.v. *)
From Coq Require Import List ZArith Bool Arith Lia.
From Verif Require Import Base.Conc Base.Lru Model.KeepAlive.
Import ListNotations.

(* ---------- lists ---------- *)

Lemma nth_error_upd_same {A} (l : list A) i x y :
  nth_error l i = Some y -> nth_error (upd l i x) i = Some x.
Proof. revert i. induction l as [|a l IH]; intros [|i] H; simpl in *; try discriminate; auto. Qed.

Lemma nth_error_upd_other {A} (l : list A) i j x :
  i <> j -> nth_error (upd l i x) j = nth_error l j.
Proof. revert i j. induction l as [|a l IH]; intros [|i] [|j] H; simpl; auto; congruence. Qed.

Definition sumf {A} (w : A -> nat) (l : list A) : nat := fold_right (fun a n => w a + n) 0 l.

Lemma sumf_app {A} (w : A -> nat) l1 l2 : sumf w (l1 ++ l2) = sumf w l1 + sumf w l2.
Proof. induction l1; simpl; lia. Qed.

Lemma sumf_filter {A} (p : A -> bool) l : sumf (fun a => if p a then 1 else 0) l = length (filter p l).
Proof. induction l as [|a l IH]; simpl; auto. destruct (p a); simpl; lia. Qed.

(* replacing position r (if it exists) changes the sum by the difference of the weights *)
Lemma sumf_upd {A} (w : A -> nat) (l : list A) r x d :
  w d = 0 ->
  sumf w (upd l r x) + w (nth r l d) <= sumf w l + w x
  /\ sumf w l <= sumf w (upd l r x) + w (nth r l d).
Proof.
  intros Hd. revert r. induction l as [|a l IH]; intros [|r]; simpl; try lia.
  specialize (IH r). lia.
Qed.

(* ---------- keys are Z ---------- *)

Definition zspec := Z.eqb_spec.

Definition pend1 (s : state) (c : nat) (id : Z) : nat := if pending s c id then 1 else 0.

Definition is_tok (c : nat) (id : Z) (l : rlocal) : bool :=
  match tok l with Some (c', id') => Nat.eqb c c' && Z.eqb id id' | None => false end.
Definition w_tok (c : nat) (id : Z) (l : rlocal) : nat := if is_tok c id l then 1 else 0.
Definition tokens (s : state) (c : nat) (id : Z) : nat := sumf (w_tok c id) (locals s).

Definition w_write (c : nat) (id : Z) (e : event) : nat :=
  match e with EWrite c' id' _ => if Nat.eqb c c' && Z.eqb id id' then 1 else 0 | _ => 0 end.
Definition w_fresh (c : nat) (id : Z) (e : event) : nat :=
  match e with ERec c' id' true => if Nat.eqb c c' && Z.eqb id id' then 1 else 0 | _ => 0 end.

Lemma count_writes_sum c id evs : count_writes c id evs = sumf (w_write c id) evs.
Proof.
  unfold count_writes. rewrite <- sumf_filter. induction evs as [|e l IH]; simpl; auto.
  rewrite IH. destruct e; simpl; auto.
Qed.

Lemma count_fresh_sum c id evs : count_fresh c id evs = sumf (w_fresh c id) evs.
Proof.
  unfold count_fresh. rewrite <- sumf_filter. induction evs as [|e l IH]; simpl; auto.
  rewrite IH. destruct e as [c' id' [|]|]; simpl; auto.
Qed.

(* the accounting invariant: every write, every consumed-but-unwritten token and every pending
   entry of (c, id) is paid for by a distinct keep-alive of backend c that made id pending *)
Definition account (s : state) (evs : list event) : Prop :=
  forall c id, sumf (w_write c id) evs + tokens s c id + pend1 s c id <= sumf (w_fresh c id) evs.

(* the actions of the model *)
Inductive is_action : (state -> state * list event) -> Prop :=
| IA_record c id : is_action (a_record c id)
| IA_pick_current r : is_action (a_pick_current r)
| IA_consume r id : is_action (a_consume r id)
| IA_write r : is_action (a_write r)
| IA_pick_inflight r : is_action (a_pick_inflight r)
| IA_set_stat c st : is_action (a_set_stat c st)
| IA_set_current c : is_action (a_set_current c)
| IA_set_inflight c : is_action (a_set_inflight c).

Lemma pending_set_conn_other s c x c' id :
  c <> c' -> pending (set_conn s c x) c' id = pending s c' id.
Proof. intros H. unfold pending, set_conn; simpl. now rewrite nth_error_upd_other. Qed.

Lemma pending_set_conn_same s c x sc id :
  nth_error (conns s) c = Some sc ->
  pending (set_conn s c x) c id = Lru.mem Z.eqb id (pend x).
Proof. intros H. unfold pending, set_conn; simpl. now rewrite (nth_error_upd_same _ _ _ _ H). Qed.

Lemma tokens_set_conn s c x c' id : tokens (set_conn s c x) c' id = tokens s c' id.
Proof. reflexivity. Qed.

Lemma pending_set_local s r x c id : pending (set_local s r x) c id = pending s c id.
Proof. reflexivity. Qed.

Lemma w_tok_local0 c id : w_tok c id local0 = 0.
Proof. reflexivity. Qed.

(* overwriting a local: tokens change by at most the old and new token of that local *)
Lemma tokens_set_local s r x c id :
  tokens (set_local s r x) c id + w_tok c id (get_local s r) <= tokens s c id + w_tok c id x
  /\ tokens s c id <= tokens (set_local s r x) c id + w_tok c id (get_local s r).
Proof. unfold tokens, set_local, get_local; simpl. apply sumf_upd. apply w_tok_local0. Qed.

Lemma mem_find {V} (l : lru (K := Z) (V := V)) id :
  Lru.mem Z.eqb id l = match Lru.find Z.eqb id l with Some _ => true | None => false end.
Proof. reflexivity. Qed.

Lemma step_account a s evs :
  is_action a -> account s evs -> account (fst (a s)) (evs ++ snd (a s)).
Proof.
  intros Ha Hacc c0 id0. specialize (Hacc c0 id0). rewrite !sumf_app.
  destruct Ha.
  - (* record *)
    unfold a_record. destruct (nth_error (conns s) c) as [sc|] eqn:Hc; simpl; [|lia].
    rewrite tokens_set_conn. unfold pend1 in *.
    destruct (Nat.eq_dec c c0) as [->|Hn].
    + rewrite (pending_set_conn_same _ _ _ _ _ Hc). simpl pend.
      assert (Hp : pending s c0 id0 = Lru.mem Z.eqb id0 (pend sc)) by (unfold pending; now rewrite Hc).
      rewrite Hp in Hacc. rewrite Nat.eqb_refl. simpl.
      destruct (Z.eq_dec id id0) as [->|Hi].
      * rewrite Z.eqb_refl. rewrite mem_find, (Lru.find_set_same _ zspec) by (unfold capacity; lia).
        destruct (Lru.mem Z.eqb id0 (pend sc)); simpl in *; lia.
      * replace (id0 =? id)%Z with false by (symmetry; apply Z.eqb_neq; congruence).
        assert (Hle : (if Lru.mem Z.eqb id0 (Lru.set Z.eqb capacity id tt (pend sc)) then 1 else 0)
                      <= (if Lru.mem Z.eqb id0 (pend sc) then 1 else 0)).
        { rewrite !mem_find.
          destruct (Lru.find Z.eqb id0 (Lru.set Z.eqb capacity id tt (pend sc))) eqn:E; [|lia].
          apply (Lru.find_set_other _ zspec) in E; [|congruence]. now rewrite E. }
        destruct (negb (Lru.mem Z.eqb id (pend sc))); simpl; lia.
    + rewrite pending_set_conn_other by auto.
      replace (c0 =? c) with false by (symmetry; apply Nat.eqb_neq; congruence). simpl.
      destruct (negb (Lru.mem Z.eqb id (pend sc))); simpl; lia.
  - (* pick current: the local is reset *)
    unfold a_pick_current; simpl. unfold pend1 in *. rewrite pending_set_local.
    pose proof (tokens_set_local s r (mkLocal (current s) None false) c0 id0) as [H1 _].
    unfold w_tok at 2 in H1. simpl in H1. lia.
  - (* consume *)
    unfold a_consume. destruct (fin (get_local s r)); simpl; [lia|].
    destruct (target (get_local s r)) as [c|] eqn:Ht; simpl; [|lia].
    destruct (nth_error (conns s) c) as [sc|] eqn:Hc; simpl; [|lia].
    destruct (Lru.get Z.eqb id (pend sc)) as [[u|] p'] eqn:Hg; simpl; [|lia].
    assert (Hp' : Lru.remove Z.eqb id p' = Lru.remove Z.eqb id (pend sc)).
    { replace p' with (snd (Lru.get Z.eqb id (pend sc))) by now rewrite Hg.
      apply (Lru.remove_get _ zspec). }
    assert (Hfound : Lru.mem Z.eqb id (pend sc) = true).
    { unfold Lru.get in Hg. rewrite mem_find. destruct (Lru.find Z.eqb id (pend sc)); [auto|].
      inversion Hg. }
    rewrite Hp'. unfold pend1 in *. rewrite pending_set_local.
    pose proof (tokens_set_local (set_conn s c (mkConn (Lru.remove Z.eqb id (pend sc)) (stat sc))) r
                  (mkLocal (Some c) (Some (c, id)) false) c0 id0) as [H1 _].
    rewrite !tokens_set_conn in *.
    assert (Hgl : get_local (set_conn s c (mkConn (Lru.remove Z.eqb id (pend sc)) (stat sc))) r
                  = get_local s r) by reflexivity.
    rewrite Hgl in H1.
    destruct (Nat.eq_dec c c0) as [->|Hn].
    + rewrite (pending_set_conn_same _ _ _ _ _ Hc). simpl pend.
      assert (Hp : pending s c0 id0 = Lru.mem Z.eqb id0 (pend sc)) by (unfold pending; now rewrite Hc).
      rewrite Hp in Hacc.
      destruct (Z.eq_dec id id0) as [->|Hi].
      * rewrite mem_find, (Lru.find_remove_same Z.eqb). rewrite Hfound in Hacc.
        unfold w_tok at 2 in H1. unfold is_tok in H1. simpl in H1.
        rewrite Nat.eqb_refl, Z.eqb_refl in H1. simpl in H1. lia.
      * rewrite mem_find, (Lru.find_remove_other _ zspec) by auto. rewrite <- mem_find.
        unfold w_tok at 2 in H1. unfold is_tok in H1. simpl in H1.
        replace (id0 =? id)%Z with false in H1 by (symmetry; apply Z.eqb_neq; congruence).
        rewrite andb_false_r in H1. lia.
    + rewrite pending_set_conn_other by auto.
      unfold w_tok at 2 in H1. unfold is_tok in H1. simpl in H1.
      replace (c0 =? c) with false in H1 by (symmetry; apply Nat.eqb_neq; congruence).
      simpl in H1. lia.
  - (* write *)
    unfold a_write. destruct (tok (get_local s r)) as [[c id]|] eqn:Ht; simpl; [|lia].
    unfold pend1 in *. rewrite pending_set_local.
    pose proof (tokens_set_local s r (mkLocal (target (get_local s r)) None true) c0 id0) as [H1 _].
    unfold w_tok at 2 in H1. simpl in H1.
    assert (Hold : w_tok c0 id0 (get_local s r) = if Nat.eqb c0 c && Z.eqb id0 id then 1 else 0).
    { unfold w_tok, is_tok. now rewrite Ht. }
    rewrite Hold in H1.
    assert (Hev : sumf (w_write c0 id0)
                    match nth_error (conns s) c with
                    | Some sc => match forwardable (stat sc) with Some st => [EWrite c id st] | None => [] end
                    | None => [] end
                  <= if Nat.eqb c0 c && Z.eqb id0 id then 1 else 0).
    { destruct (nth_error (conns s) c) as [sc|]; simpl; [|lia].
      destruct (forwardable (stat sc)); simpl; lia. }
    lia.
  - (* pick in-flight: keeps the token *)
    unfold a_pick_inflight. destruct (fin (get_local s r)); simpl; [lia|].
    unfold pend1 in *. rewrite pending_set_local.
    pose proof (tokens_set_local s r (mkLocal (inflight s) (tok (get_local s r)) false) c0 id0) as [H1 _].
    assert (E : w_tok c0 id0 (mkLocal (inflight s) (tok (get_local s r)) false) = w_tok c0 id0 (get_local s r))
      by reflexivity.
    rewrite E in H1. lia.
  - (* status change *)
    unfold a_set_stat. destruct (nth_error (conns s) c) as [sc|] eqn:Hc; simpl; [|lia].
    rewrite tokens_set_conn. unfold pend1 in *.
    destruct (Nat.eq_dec c c0) as [->|Hn].
    + rewrite (pending_set_conn_same _ _ _ _ _ Hc). simpl.
      assert (Hp : pending s c0 id0 = Lru.mem Z.eqb id0 (pend sc)) by (unfold pending; now rewrite Hc).
      rewrite Hp in Hacc. lia.
    + rewrite pending_set_conn_other by auto. lia.
  - change (tokens (fst (a_set_current c s)) c0 id0) with (tokens s c0 id0).
    change (pend1 (fst (a_set_current c s)) c0 id0) with (pend1 s c0 id0). simpl. lia.
  - change (tokens (fst (a_set_inflight c s)) c0 id0) with (tokens s c0 id0).
    change (pend1 (fst (a_set_inflight c s)) c0 id0) with (pend1 s c0 id0). simpl. lia.
Qed.

(* ---------- every write goes to a backend in CONFIG or PLAY; one event per action ---------- *)

Definition write_state_ok (e : event) : Prop :=
  match e with EWrite _ _ st => st = PConfig \/ st = PPlay | _ => True end.

Lemma forwardable_ok st p : forwardable st = Some p -> p = PConfig \/ p = PPlay.
Proof. destruct st as [| |[]]; simpl; intros H; inversion H; auto. Qed.

Lemma action_events a s :
  is_action a -> length (snd (a s)) <= 1 /\ Forall write_state_ok (snd (a s)).
Proof.
  intros Ha. destruct Ha; simpl.
  - unfold a_record. destruct (nth_error (conns s) c); simpl; split; auto. repeat constructor.
  - split; auto.
  - unfold a_consume. destruct (fin _); simpl; [split; auto|].
    destruct (target _); simpl; [|split; auto].
    destruct (nth_error _ _); simpl; [|split; auto].
    destruct (Lru.get _ _ _) as [[u|] p']; simpl; split; auto.
  - unfold a_write. destruct (tok _) as [[c id]|]; simpl; [|split; auto].
    destruct (nth_error _ _) as [sc|]; simpl; [|split; auto].
    destruct (forwardable (stat sc)) eqn:E; simpl; split; auto.
    constructor; auto. simpl. eapply forwardable_ok; eauto.
  - unfold a_pick_inflight. destruct (fin _); simpl; split; auto.
  - unfold a_set_stat. destruct (nth_error _ _); simpl; split; auto.
  - split; auto.
  - split; auto.
Qed.

(* prefix form of the accounting: at every moment *)
Definition prefix_ok (evs : list event) : Prop :=
  forall n c id, count_writes c id (firstn n evs) <= count_fresh c id (firstn n evs).

Definition good (s : state) (evs : list event) : Prop :=
  account s evs /\ prefix_ok evs /\ Forall write_state_ok evs.

Lemma account_counts s evs c id : account s evs -> count_writes c id evs <= count_fresh c id evs.
Proof. intros H. specialize (H c id). rewrite count_writes_sum, count_fresh_sum. lia. Qed.

Lemma good_step a s evs : is_action a -> good s evs -> good (fst (a s)) (evs ++ snd (a s)).
Proof.
  intros Ha (Hacc & Hpre & Hst).
  pose proof (step_account a s evs Ha Hacc) as Hacc'.
  destruct (action_events a s Ha) as [Hlen Hok].
  split; [exact Hacc'|]. split.
  - intros n c id. destruct (Nat.le_gt_cases n (length evs)) as [Hle|Hgt].
    + rewrite firstn_app. replace (n - length evs) with 0 by lia. simpl. rewrite app_nil_r. apply Hpre.
    + rewrite firstn_app, (firstn_all2 evs) by lia.
      rewrite (firstn_all2 (snd (a s))) by lia. now apply account_counts with (s := fst (a s)).
  - apply Forall_app. split; auto.
Qed.

Lemma account_init stats cur inf n : account (init stats cur inf n) [].
Proof.
  intros c id. simpl.
  assert (Ht : tokens (init stats cur inf n) c id = 0).
  { unfold tokens, init; simpl. induction n; simpl; auto. }
  assert (Hp : pend1 (init stats cur inf n) c id = 0).
  { unfold pend1, pending, init; simpl. rewrite nth_error_map.
    destruct (nth_error stats c); reflexivity. }
  lia.
Qed.

Definition actions_only (ts : list (@thread state event)) : Prop :=
  forall a, In a (concat ts) -> is_action a.

Lemma all_schedules_good stats cur inf n ts sched :
  actions_only ts ->
  good (final_state (run ts sched (init stats cur inf n)))
       (events (run ts sched (init stats cur inf n))).
Proof.
  intros Ht.
  apply (trace_inv_all_schedules good ts) with (evs0 := []).
  - intros a Ha s evs Hg. apply good_step; auto.
  - split; [apply account_init|]. split; [|constructor].
    intros k c id. now rewrite firstn_nil.
Qed.

(* the forwardKeepAlive thread consists of actions *)
Lemma reply_thread_actions r id a : In a (reply_thread r id) -> is_action a.
Proof.
  unfold reply_thread. intros [<-|[<-|[<-|[<-|[<-|[<-|[]]]]]]]; constructor.
Qed.

(* forward_only_if_pending + at_most_once, every schedule *)
Lemma forward_accounting_all stats cur inf n ts sched :
  actions_only ts ->
  let evs := events (run ts sched (init stats cur inf n)) in
  (forall k c id, count_writes c id (firstn k evs) <= count_fresh c id (firstn k evs))
  /\ (forall c id st, In (EWrite c id st) evs -> st = PConfig \/ st = PPlay).
Proof.
  intros Ht evs. destruct (all_schedules_good stats cur inf n ts sched Ht) as (_ & Hpre & Hst).
  split; [exact Hpre|]. intros c id st Hin.
  rewrite Forall_forall in Hst. exact (Hst _ Hin).
Qed.

(* ---------- whole calls (sequential specification) ---------- *)

Lemma get_set_local0 s x l0 ls :
  locals s = l0 :: ls -> get_local (set_local s 0 x) 0 = x.
Proof. intros H. unfold get_local, set_local; simpl. now rewrite H. Qed.

Lemma get_miss id (p : pend_t) : Lru.mem Z.eqb id p = false -> Lru.get Z.eqb id p = (None, p).
Proof. unfold Lru.mem, Lru.get. destruct (Lru.find Z.eqb id p); [discriminate|auto]. Qed.

Lemma get_hit id (p : pend_t) :
  Lru.mem Z.eqb id p = true -> exists u p', Lru.get Z.eqb id p = (Some u, p').
Proof. unfold Lru.mem, Lru.get. destruct (Lru.find Z.eqb id p); [eauto|discriminate]. Qed.

(* a_consume on a local that is not finished and whose target misses: nothing happens *)
Lemma consume_miss r id s :
  (forall c, target (get_local s r) = Some c -> pending s c id = false) ->
  a_consume r id s = (s, []).
Proof.
  intros H. unfold a_consume. destruct (fin (get_local s r)); auto.
  destruct (target (get_local s r)) as [c|]; auto. specialize (H c eq_refl).
  unfold pending in H. destruct (nth_error (conns s) c) as [sc|]; auto.
  now rewrite (get_miss _ _ H).
Qed.

Lemma run_actions_cons a r s s1 e1 :
  a s = (s1, e1) ->
  run_actions (a :: r) s = (fst (run_actions r s1), e1 ++ snd (run_actions r s1)).
Proof. intros H. simpl. rewrite H. now destruct (run_actions r s1). Qed.

(* "replies matching no pending id are dropped" *)
Lemma unmatched_dropped_seq s id :
  locals s <> [] ->
  (forall c, current s = Some c -> pending s c id = false) ->
  (forall c, inflight s = Some c -> pending s c id = false) ->
  snd (step_op s (ClientReply id)) = [] /\ conns (fst (step_op s (ClientReply id))) = conns s.
Proof.
  intros Hl Hc Hi. destruct (locals s) as [|l0 ls] eqn:El; [congruence|].
  set (s1 := set_local s 0 (mkLocal (current s) None false)).
  assert (G1 : get_local s1 0 = mkLocal (current s) None false) by (eapply get_set_local0; eauto).
  assert (El1 : locals s1 = mkLocal (current s) None false :: ls) by (unfold s1, set_local; simpl; now rewrite El).
  set (s2 := set_local s1 0 (mkLocal (inflight s) None false)).
  assert (G2 : get_local s2 0 = mkLocal (inflight s) None false) by (eapply get_set_local0; eauto).
  assert (A1 : a_pick_current 0 s = (s1, [])) by reflexivity.
  assert (A2 : a_consume 0 id s1 = (s1, []))
    by (apply consume_miss; rewrite G1; simpl; intros c E; apply Hc in E; exact E).
  assert (A3 : a_write 0 s1 = (s1, [])) by (unfold a_write; now rewrite G1).
  assert (A4 : a_pick_inflight 0 s1 = (s2, [])) by (unfold a_pick_inflight; now rewrite G1).
  assert (A5 : a_consume 0 id s2 = (s2, []))
    by (apply consume_miss; rewrite G2; simpl; intros c E; apply Hi in E; exact E).
  assert (A6 : a_write 0 s2 = (s2, [])) by (unfold a_write; now rewrite G2).
  unfold step_op, reply_thread.
  rewrite (run_actions_cons _ _ _ _ _ A1), (run_actions_cons _ _ _ _ _ A2),
          (run_actions_cons _ _ _ _ _ A3), (run_actions_cons _ _ _ _ _ A4),
          (run_actions_cons _ _ _ _ _ A5), (run_actions_cons _ _ _ _ _ A6).
  simpl. split; reflexivity.
Qed.

(* "the current server is tried before the in-flight one" and forwarding happens when pending:
   an id pending on the connected server is consumed there; it is written iff that backend is
   open in CONFIG or PLAY; no other connection is touched *)
Lemma current_first_seq s id c sc :
  locals s <> [] ->
  current s = Some c -> nth_error (conns s) c = Some sc -> Lru.mem Z.eqb id (pend sc) = true ->
  snd (step_op s (ClientReply id)) =
    match forwardable (stat sc) with Some st => [EWrite c id st] | None => [] end
  /\ pending (fst (step_op s (ClientReply id))) c id = false
  /\ forall c', c' <> c -> nth_error (conns (fst (step_op s (ClientReply id)))) c' = nth_error (conns s) c'.
Proof.
  intros Hl Hcur Hc Hm. destruct (locals s) as [|l0 ls] eqn:El; [congruence|].
  destruct (get_hit _ _ Hm) as (u & p' & Hg).
  set (s1 := set_local s 0 (mkLocal (current s) None false)).
  assert (G1 : get_local s1 0 = mkLocal (Some c) None false)
    by (rewrite <- Hcur; eapply get_set_local0; eauto).
  set (sc' := mkConn (Lru.remove Z.eqb id p') (stat sc)).
  set (s2 := set_local (set_conn s1 c sc') 0 (mkLocal (Some c) (Some (c, id)) false)).
  assert (El1 : locals (set_conn s1 c sc') = mkLocal (current s) None false :: ls)
    by (unfold s1, set_local, set_conn; simpl; now rewrite El).
  assert (G2 : get_local s2 0 = mkLocal (Some c) (Some (c, id)) false) by (eapply get_set_local0; eauto).
  assert (Hc2 : nth_error (conns s2) c = Some sc').
  { unfold s2, set_local, set_conn; simpl. eapply nth_error_upd_same; eauto. }
  set (s3 := set_local s2 0 (mkLocal (Some c) None true)).
  assert (El2 : locals s2 = mkLocal (Some c) (Some (c, id)) false :: ls).
  { change (locals s2) with (upd (locals (set_conn s1 c sc')) 0 (mkLocal (Some c) (Some (c, id)) false)).
    now rewrite El1. }
  assert (G3 : get_local s3 0 = mkLocal (Some c) None true) by (eapply get_set_local0; eauto).
  set (out := match forwardable (stat sc) with Some st => [EWrite c id st] | None => [] end).
  assert (A1 : a_pick_current 0 s = (s1, [])) by reflexivity.
  assert (A2 : a_consume 0 id s1 = (s2, [])).
  { unfold a_consume. rewrite G1. simpl. change (conns s1) with (conns s). now rewrite Hc, Hg. }
  assert (A3 : a_write 0 s2 = (s3, out)).
  { unfold a_write. rewrite G2. cbn [tok target]. now rewrite Hc2. }
  assert (A4 : a_pick_inflight 0 s3 = (s3, [])) by (unfold a_pick_inflight; now rewrite G3).
  assert (A5 : a_consume 0 id s3 = (s3, [])) by (unfold a_consume; now rewrite G3).
  assert (A6 : a_write 0 s3 = (s3, [])) by (unfold a_write; now rewrite G3).
  unfold step_op, reply_thread.
  rewrite (run_actions_cons _ _ _ _ _ A1), (run_actions_cons _ _ _ _ _ A2),
          (run_actions_cons _ _ _ _ _ A3), (run_actions_cons _ _ _ _ _ A4),
          (run_actions_cons _ _ _ _ _ A5), (run_actions_cons _ _ _ _ _ A6).
  simpl fst. simpl snd. split; [|split].
  - simpl. now rewrite !app_nil_r.
  - unfold pending. change (conns s3) with (conns s2). rewrite Hc2. simpl.
    replace p' with (snd (Lru.get Z.eqb id (pend sc))) by now rewrite Hg.
    rewrite (Lru.remove_get _ zspec). unfold Lru.mem. now rewrite (Lru.find_remove_same Z.eqb).
  - intros c' Hn. change (conns s3) with (upd (conns s) c sc').
    now rewrite nth_error_upd_other by auto.
Qed.

(* ---------- eviction ---------- *)

Fixpoint record_all (c : nat) (ids : list Z) (s : state) : state :=
  match ids with
  | [] => s
  | id :: r => record_all c r (fst (a_record c id s))
  end.

Lemma record_all_pend c ids s sc :
  nth_error (conns s) c = Some sc ->
  exists sc', nth_error (conns (record_all c ids s)) c = Some sc'
    /\ pend sc' = Lru.set_all Z.eqb capacity (map (fun id => (id, tt)) ids) (pend sc)
    /\ stat sc' = stat sc.
Proof.
  revert s sc. induction ids as [|id r IH]; intros s sc Hc; simpl.
  - exists sc. auto.
  - unfold a_record at 1. rewrite Hc. simpl fst.
    set (sc1 := mkConn (Lru.set Z.eqb capacity id tt (pend sc)) (stat sc)).
    assert (H1 : nth_error (conns (set_conn s c sc1)) c = Some sc1)
      by (unfold set_conn; simpl; eapply nth_error_upd_same; eauto).
    destruct (IH _ _ H1) as (sc' & Hn & Hp & Hs). exists sc'. auto.
Qed.

(* after more than 64 distinct ids from one backend only the 64 most recent are pending *)
Lemma evicted_pending c ids s sc id :
  nth_error (conns s) c = Some sc -> pend sc = [] -> NoDup ids ->
  pending (record_all c ids s) c id = true <-> In id (firstn capacity (rev ids)).
Proof.
  intros Hc He Hnd. destruct (record_all_pend c ids s sc Hc) as (sc' & Hn & Hp & _).
  unfold pending. rewrite Hn, Hp, He.
  rewrite (Lru.set_all_distinct _ zspec) by
    (try (unfold capacity; lia); rewrite map_map; simpl; now rewrite map_id).
  rewrite <- map_rev, firstn_map. unfold Lru.mem.
  set (l := firstn capacity (rev ids)). clearbody l. clear.
  induction l as [|a l IH]; simpl.
  - split; [discriminate|tauto].
  - destruct (Z.eqb_spec id a) as [->|Hn].
    + split; auto.
    + rewrite IH. split; [auto|]. intros [E|H]; [congruence|auto].
Qed.

Lemma record_all_frame c ids s :
  locals (record_all c ids s) = locals s /\ current (record_all c ids s) = current s
  /\ inflight (record_all c ids s) = inflight s.
Proof.
  revert s. induction ids as [|id r IH]; intros s; simpl; auto.
  destruct (IH (fst (a_record c id s))) as (H1 & H2 & H3). rewrite H1, H2, H3.
  unfold a_record. destruct (nth_error (conns s) c); simpl; auto.
Qed.

(* "> 64 pending": a reply to an id that was pushed out is dropped *)
Lemma evicted_dropped_seq c ids s sc id :
  nth_error (conns s) c = Some sc -> pend sc = [] -> NoDup ids ->
  locals s <> [] -> current s = Some c -> inflight s = None ->
  ~ In id (firstn capacity (rev ids)) ->
  snd (step_op (record_all c ids s) (ClientReply id)) = [].
Proof.
  intros Hc He Hnd Hl Hcur Hinf Hnot.
  destruct (record_all_frame c ids s) as (F1 & F2 & F3).
  apply unmatched_dropped_seq.
  - now rewrite F1.
  - rewrite F2, Hcur. intros c' E. inversion E; subst c'.
    destruct (pending (record_all c ids s) c id) eqn:Ep; auto.
    apply (evicted_pending c ids s sc id Hc He Hnd) in Ep. contradiction.
  - rewrite F3, Hinf. discriminate.
Qed.

Lemma at_most_once_all stats cur inf n ts sched c id :
  actions_only ts ->
  let evs := events (run ts sched (init stats cur inf n)) in
  count_fresh c id evs <= 1 -> count_writes c id evs <= 1.
Proof.
  intros Ht evs H1.
  destruct (forward_accounting_all stats cur inf n ts sched Ht) as [Hpre _].
  specialize (Hpre (length evs) c id). fold evs in Hpre. rewrite firstn_all in Hpre. lia.
Qed.

(* ---------- non-vacuity: two replies race for one pending id, all 12012 schedules ---------- *)

Definition nv_threads : list (@thread state event) :=
  [[a_record 0 5%Z]; reply_thread 0 5%Z; reply_thread 1 5%Z].

Definition nv_check : bool :=
  let outs_ := outcomes nv_threads (init [COpen PPlay; COpen PConfig] (Some 0) (Some 1) 2) in
  forallb (fun r => (count_writes 0 5%Z (events r) <=? 1) && (count_fresh 0 5%Z (events r) =? 1)) outs_
  && existsb (fun r => count_writes 0 5%Z (events r) =? 1) outs_
  && existsb (fun r => count_writes 0 5%Z (events r) =? 0) outs_
  && (length outs_ =? 12 * 1001).

Lemma nv_check_ok : nv_check = true.
Proof. vm_compute. reflexivity. Qed.

Lemma nv_threads_actions : actions_only nv_threads.
Proof.
  intros a Ha. unfold nv_threads in Ha. simpl in Ha.
  repeat (destruct Ha as [<-|Ha]; [constructor|]). destruct Ha.
Qed.
