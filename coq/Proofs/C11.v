(* C11 — proofs about Model/PlayerRegistry.v.
   Part 1: association-map facts.
   Part 2: what one atomic action can do to the two maps (step_shape).
   Part 3: invariants for every action => for every schedule (Conc.inv_all_schedules /
           trace_inv_all_schedules): ids_unique, count_eq, indices_agree, findable, kick order,
           no lock leak.
   Part 4: facts about the PRE-FIX code (prefix_cfg): refutations (concrete threads + schedule,
           vm_compute) and prefix = spec off the recorded triggers.  The code as it is now is
           impl_cfg = spec_cfg, to which every theorem of Part 3 applies. *)
From Coq Require Import List NArith Bool String Ascii Lia.
From Verif Require Import Base.Conc Model.PlayerRegistry.
Import ListNotations.
Open Scope N_scope.
Open Scope list_scope.

(* ================= Part 1: maps ================= *)

Section MapFacts.
  Context {K : Type} (keq : K -> K -> bool).
  Hypothesis keq_spec : forall a b, keq a b = true <-> a = b.

  Lemma keq_refl a : keq a a = true.
  Proof. now apply keq_spec. Qed.

  Lemma keq_neq a b : a <> b -> keq a b = false.
  Proof.
    intros H. destruct (keq a b) eqn:E; [|reflexivity]. apply keq_spec in E. contradiction.
  Qed.

  Lemma get_in k (m : list (K * player)) p : get keq k m = Some p -> In (k, p) m.
  Proof.
    induction m as [|[k' v] r IH]; simpl; [discriminate|].
    destruct (keq k k') eqn:E.
    - intros H. inversion H; subst. apply keq_spec in E. subst. now left.
    - intros H. right. auto.
  Qed.

  Lemma get_none_notin k (m : list (K * player)) : get keq k m = None -> ~ In k (map fst m).
  Proof.
    induction m as [|[k' v] r IH]; simpl; [tauto|].
    destruct (keq k k') eqn:E; [discriminate|].
    intros H [H1|H1].
    - subst. rewrite keq_refl in E. discriminate.
    - now apply IH.
  Qed.

  Lemma notin_get_none k (m : list (K * player)) : ~ In k (map fst m) -> get keq k m = None.
  Proof.
    induction m as [|[k' v] r IH]; simpl; [reflexivity|].
    intros H. destruct (keq k k') eqn:E.
    - apply keq_spec in E. subst. exfalso. apply H. now left.
    - apply IH. tauto.
  Qed.

  Lemma in_get k (m : list (K * player)) p :
    NoDup (map fst m) -> In (k, p) m -> get keq k m = Some p.
  Proof.
    induction m as [|[k' v] r IH]; simpl; [tauto|].
    intros Hnd [H|H].
    - inversion H; subst. now rewrite keq_refl.
    - inversion Hnd as [|? ? Hn Hr]; subst.
      destruct (keq k k') eqn:E.
      + apply keq_spec in E. subst. exfalso. apply Hn.
        change k' with (fst (k', p)). now apply in_map.
      + auto.
  Qed.

  Lemma del_in k k' p (m : list (K * player)) :
    In (k', p) (del keq k m) <-> In (k', p) m /\ k' <> k.
  Proof.
    unfold del. rewrite filter_In. simpl. split.
    - intros [H1 H2]. split; [assumption|]. intros ->. now rewrite keq_refl in H2.
    - intros [H1 H2]. split; [assumption|]. rewrite keq_neq; auto.
  Qed.

  Lemma del_keys k k' (m : list (K * player)) :
    In k' (map fst (del keq k m)) <-> In k' (map fst m) /\ k' <> k.
  Proof.
    rewrite !in_map_iff. split.
    - intros [[a p] [H1 H2]]. simpl in H1. subst. apply del_in in H2. destruct H2. split; [|assumption].
      exists (k', p). auto.
    - intros [[[a p] [H1 H2]] H3]. simpl in H1. subst. exists (k', p). split; [reflexivity|].
      apply del_in. auto.
  Qed.

  Lemma del_nodup k (m : list (K * player)) : NoDup (map fst m) -> NoDup (map fst (del keq k m)).
  Proof.
    induction m as [|[k' v] r IH]; simpl; [auto|].
    intros Hnd. inversion Hnd as [|? ? Hn Hr]; subst.
    destruct (negb (keq k k')); simpl; [|auto].
    constructor; [|auto]. intros H. apply del_keys in H. tauto.
  Qed.

  Lemma get_del_same k (m : list (K * player)) : get keq k (del keq k m) = None.
  Proof. apply notin_get_none. intros H. apply del_keys in H. tauto. Qed.

  Lemma get_del_other k k' (m : list (K * player)) :
    k' <> k -> get keq k' (del keq k m) = get keq k' m.
  Proof.
    intros Hne. induction m as [|[a v] r IH]; simpl; [reflexivity|].
    destruct (keq k a) eqn:E; simpl.
    - apply keq_spec in E. subst. rewrite (keq_neq k' a); auto.
    - destruct (keq k' a); auto.
  Qed.

  Lemma del_none_id k (m : list (K * player)) : get keq k m = None -> del keq k m = m.
  Proof.
    induction m as [|[a v] r IH]; simpl; [reflexivity|].
    destruct (keq k a) eqn:E; [discriminate|]. simpl. intros H. f_equal. auto.
  Qed.

  Lemma get_put_same k p (m : list (K * player)) : get keq k (put keq k p m) = Some p.
  Proof. unfold put. simpl. now rewrite keq_refl. Qed.

  Lemma get_put_other k k' p (m : list (K * player)) :
    k' <> k -> get keq k' (put keq k p m) = get keq k' m.
  Proof. intros H. unfold put. simpl. rewrite keq_neq by assumption. now apply get_del_other. Qed.

  Lemma put_in k p k' q (m : list (K * player)) :
    In (k', q) (put keq k p m) <-> (k' = k /\ q = p) \/ (In (k', q) m /\ k' <> k).
  Proof.
    unfold put. simpl. rewrite del_in. split.
    - intros [H|H]; [inversion H; auto|auto].
    - intros [[-> ->]|H]; auto.
  Qed.

  Lemma put_nodup k p (m : list (K * player)) : NoDup (map fst m) -> NoDup (map fst (put keq k p m)).
  Proof.
    intros H. unfold put. simpl. constructor.
    - intros Hin. apply del_keys in Hin. tauto.
    - now apply del_nodup.
  Qed.

  (* a map whose every entry sits under the key computed from the stored player *)
  Definition wfm (kf : player -> K) (m : list (K * player)) : Prop :=
    NoDup (map fst m) /\ forall k p, In (k, p) m -> kf p = k.

  Lemma wfm_del kf k m : wfm kf m -> wfm kf (del keq k m).
  Proof.
    intros [H1 H2]. split; [now apply del_nodup|].
    intros k' p H. apply del_in in H. destruct H. auto.
  Qed.

  Lemma wfm_put kf p m : wfm kf m -> wfm kf (put keq (kf p) p m).
  Proof.
    intros [H1 H2]. split; [now apply put_nodup|].
    intros k' q H. apply put_in in H. destruct H as [[-> ->]|[H _]]; auto.
  Qed.
End MapFacts.

Lemma Neqb_spec a b : (a =? b) = true <-> a = b.
Proof. apply N.eqb_eq. Qed.
Lemma Seqb_spec a b : String.eqb a b = true <-> a = b.
Proof. apply String.eqb_eq. Qed.

Lemma player_eqb_spec a b : player_eqb a b = true <-> a = b.
Proof.
  unfold player_eqb. destruct a as [o1 n1 i1], b as [o2 n2 i2]. simpl.
  rewrite !andb_true_iff, !N.eqb_eq, String.eqb_eq. split.
  - intros [[-> ->] ->]. reflexivity.
  - intros H. inversion H. auto.
Qed.

Lemma player_eqb_refl a : player_eqb a a = true.
Proof. now apply player_eqb_spec. Qed.

(* ================= Part 2: shape of one step ================= *)

(* the two maps are well-formed Go maps keyed by uuid and by lower-case name *)
Definition maps_wf (s : state) : Prop :=
  wfm p_id (ids s) /\ wfm lname (names s).

(* What the maps can look like after one action: unchanged, an insert of p that was guarded by
   "no entry under p's id" (and, kick off, "no entry under p's name"), or an unregister of p. *)
Inductive step_shape (c : cfg) (s s1 : state) (evs : list event) : Prop :=
| SSame : names s1 = names s -> ids s1 = ids s -> leaked s1 = leaked s ->
          (forall p, ~ In (EvReg p) evs) -> (forall p st, ~ In (EvTeardown p st) evs) ->
          (forall p, ~ In (EvUnreg p) evs) -> step_shape c s s1 evs
| SLeak : names s1 = names s -> ids s1 = ids s -> leaked s1 = true -> v_leak c = true -> kick c = false ->
          (forall p, ~ In (EvReg p) evs) -> (forall p st, ~ In (EvTeardown p st) evs) ->
          (forall p, ~ In (EvUnreg p) evs) -> step_shape c s s1 evs
| SInsert p : get_id (p_id p) s = None -> (kick c = false -> get_name (lname p) s = None) ->
          names s1 = put String.eqb (lname p) p (names s) ->
          ids s1 = put N.eqb (p_id p) p (ids s) -> leaked s1 = leaked s -> leaked s = false ->
          evs = [EvReg p] -> step_shape c s s1 evs
| SUnreg p : names s1 = names (fst (unregister c p s)) -> ids s1 = ids (fst (unregister c p s)) ->
          leaked s1 = leaked s -> leaked s = false ->
          (exists st, evs = [EvTeardown p st]) \/ evs = [EvUnreg p] -> step_shape c s s1 evs.

Lemma unregister_leaked c p s : leaked (fst (unregister c p s)) = leaked s.
Proof. unfold unregister. destruct (v_unreg c); reflexivity. Qed.

Ltac same_shape :=
  solve [ apply SSame; simpl; try reflexivity;
          try (intros; intros [HH|HH]; [discriminate|contradiction]); try (intros; intros []) ].

Lemma sem_shape c a s : step_shape c s (fst (sem c a s)) (snd (sem c a s)).
Proof.
  destruct a as [t p| |t p|t p|t|t|p]; simpl.
  - (* ACan *)
    destruct (get_local t (locals s)) as [l|]; [same_shape|].
    destruct (online c && kick c); [same_shape|].
    destruct (leaked s) eqn:El; [unfold blocked; same_shape|].
    destruct (can_register c p s); same_shape.
  - same_shape.
  - (* AReg *)
    destruct (get_local t (locals s)) as [[| | |]|]; try same_shape.
    destruct (leaked s) eqn:El; [unfold blocked; same_shape|].
    destruct (kick c) eqn:Ek.
    + unfold register_kick_pass. destruct (get_id (p_id p) s) as [e|] eqn:Eg; simpl.
      * same_shape.
      * eapply (SInsert _ _ _ _ p); simpl; auto. intros Hk; congruence.
    + unfold register_nokick.
      destruct (get_name (lname p) s) eqn:En; [|destruct (get_id (p_id p) s) eqn:Ei].
      * destruct (v_leak c) eqn:Ev; simpl; [|same_shape].
        apply SLeak; simpl; auto; try (intros; intros [HH|HH]; [discriminate|contradiction]).
      * destruct (v_leak c) eqn:Ev; simpl; [|same_shape].
        apply SLeak; simpl; auto; try (intros; intros [HH|HH]; [discriminate|contradiction]).
      * simpl. eapply (SInsert _ _ _ _ p); simpl; auto.
  - (* ABegin *)
    destruct (get_local t (locals s)); same_shape.
  - (* AClose *)
    destruct (get_local t (locals s)) as [[|e r|e r|]|]; try same_shape.
    destruct (memN (p_obj e) (closed s)); same_shape.
  - (* ATear *)
    destruct (get_local t (locals s)) as [[|e r|e r|]|]; try same_shape.
    destruct (leaked s) eqn:El; [unfold blocked; same_shape|].
    unfold teardown. destruct (unregister c e s) as [s1 found] eqn:Eu. simpl.
    apply (SUnreg _ _ _ _ e); simpl; rewrite ?Eu; simpl; auto.
    + change s1 with (fst (s1, found)). rewrite <- Eu. apply unregister_leaked.
    + left. eexists. reflexivity.
  - (* AUnreg *)
    destruct (leaked s) eqn:El; [unfold blocked; same_shape|]. simpl.
    apply (SUnreg _ _ _ _ p); simpl; auto. apply unregister_leaked.
Qed.

(* every action of a compiled program is the semantics of some act *)
Lemma compile_in c ts a : In a (List.concat (compile c ts)) -> exists x, a = sem c x.
Proof.
  unfold compile. intros H. apply in_concat in H. destruct H as [th [H1 H2]].
  apply in_map_iff in H1. destruct H1 as [l [<- _]].
  apply in_map_iff in H2. destruct H2 as [x [<- _]]. now exists x.
Qed.

(* ================= Part 3: invariants over all schedules ================= *)

(* ---- 3.1 the maps stay well-formed (any variant, any mode) ---- *)

Lemma unregister_wf c p s : maps_wf s -> maps_wf (fst (unregister c p s)).
Proof.
  intros [Hi Hn]. unfold unregister, maps_wf.
  destruct (v_unreg c); simpl.
  - split; apply wfm_del; auto using Neqb_spec, Seqb_spec.
  - split.
    + destruct (stored_is p (get_id (p_id p) s)); [apply wfm_del|]; auto using Neqb_spec.
    + destruct (stored_is p (get_name (lname p) s)); [apply wfm_del|]; auto using Seqb_spec.
Qed.

Lemma shape_wf c s s1 evs : step_shape c s s1 evs -> maps_wf s -> maps_wf s1.
Proof.
  intros H [Hi Hn]. unfold maps_wf.
  destruct H as [En Ei _ _ _ _|En Ei _ _ _ _ _ _|p _ _ En Ei _ _ _|p En Ei _ _ _].
  - rewrite En, Ei. auto.
  - rewrite En, Ei. auto.
  - rewrite En, Ei. split; apply wfm_put; auto using Neqb_spec, Seqb_spec.
  - rewrite En, Ei. apply unregister_wf. split; auto.
Qed.

Lemma wf_all_schedules c ts sched s0 :
  maps_wf s0 -> maps_wf (final_state (run (compile c ts) sched s0)).
Proof.
  intros H0. unfold final_state.
  apply (inv_all_schedules maps_wf (compile c ts)); [|exact H0].
  intros a Ha s Hs. destruct (compile_in _ _ _ Ha) as [x ->].
  eapply shape_wf; [apply sem_shape|exact Hs].
Qed.

Lemma maps_wf_init : maps_wf init.
Proof. split; split; simpl; try constructor; intros ? ? []. Qed.

(* at most one registered player per UUID; every entry sits under its own UUID *)
Lemma wf_ids_unique s : maps_wf s ->
  (forall i p q, In (i, p) (ids s) -> In (i, q) (ids s) -> p = q)
  /\ (forall i p, In (i, p) (ids s) -> p_id p = i).
Proof.
  intros [[Hnd Hk] _]. split; [|exact Hk].
  intros i p q Hp Hq.
  pose proof (in_get N.eqb Neqb_spec _ _ _ Hnd Hp) as E1.
  pose proof (in_get N.eqb Neqb_spec _ _ _ Hnd Hq) as E2.
  congruence.
Qed.

(* the same for the name index (any mode: the name index is a map too) *)
Lemma wf_names_unique s : maps_wf s ->
  (forall n p q, In (n, p) (names s) -> In (n, q) (names s) -> p = q)
  /\ (forall n p, In (n, p) (names s) -> lname p = n).
Proof.
  intros [_ [Hnd Hk]]. split; [|exact Hk].
  intros i p q Hp Hq.
  pose proof (in_get String.eqb Seqb_spec _ _ _ Hnd Hp) as E1.
  pose proof (in_get String.eqb Seqb_spec _ _ _ Hnd Hq) as E2.
  congruence.
Qed.

(* PlayerCount = len(playerIDs) = number of distinct UUIDs among the registered players *)
Definition player_count (s : state) : nat := List.length (ids s).
Definition registered_uuids (s : state) : list N := map (fun kv => p_id (snd kv)) (ids s).

Lemma wf_count_eq s : maps_wf s ->
  player_count s = List.length (nodup N.eq_dec (registered_uuids s)).
Proof.
  intros [[Hnd Hk] _]. unfold player_count, registered_uuids.
  assert (E : map (fun kv : N * player => p_id (snd kv)) (ids s) = map fst (ids s)).
  { apply map_ext_in. intros [k p] Hin. simpl. auto. }
  rewrite E, nodup_fixed_point by assumption. now rewrite map_length.
Qed.

(* ---- 3.2 kick off, conditional unregister: the two indices describe the same set ---- *)

Definition indices_agree (s : state) : Prop :=
  forall p, In (lname p, p) (names s) <-> In (p_id p, p) (ids s).

Lemma stored_is_in_id s p : maps_wf s ->
  stored_is p (get_id (p_id p) s) = true <-> In (p_id p, p) (ids s).
Proof.
  intros [[Hnd _] _]. unfold stored_is, get_id. split.
  - destruct (get N.eqb (p_id p) (ids s)) as [q|] eqn:E; [|discriminate].
    intros H. apply player_eqb_spec in H. subst. now apply (get_in N.eqb Neqb_spec).
  - intros H. rewrite (in_get N.eqb Neqb_spec _ _ _ Hnd H). apply player_eqb_refl.
Qed.

Lemma stored_is_in_name s p : maps_wf s ->
  stored_is p (get_name (lname p) s) = true <-> In (lname p, p) (names s).
Proof.
  intros [_ [Hnd _]]. unfold stored_is, get_name. split.
  - destruct (get String.eqb (lname p) (names s)) as [q|] eqn:E; [|discriminate].
    intros H. apply player_eqb_spec in H. subst. now apply (get_in String.eqb Seqb_spec).
  - intros H. rewrite (in_get String.eqb Seqb_spec _ _ _ Hnd H). apply player_eqb_refl.
Qed.

Lemma shape_agree c s s1 evs :
  kick c = false -> v_unreg c = false ->
  step_shape c s s1 evs -> maps_wf s -> indices_agree s -> indices_agree s1.
Proof.
  intros Hk Hv H Hwf Ha. pose proof Hwf as [[Hndi Hki] [Hndn Hkn]].
  destruct H as [En Ei _ _ _ _|En Ei _ _ _ _ _ _|p Gi Gn En Ei _ _ _|p En Ei _ _ _];
    unfold indices_agree; intros q; rewrite En, Ei; try apply Ha.
  - (* insert p, both keys were free *)
    specialize (Gn Hk).
    rewrite (put_in String.eqb Seqb_spec), (put_in N.eqb Neqb_spec).
    pose proof (get_none_notin String.eqb Seqb_spec _ _ Gn) as Nn.
    pose proof (get_none_notin N.eqb Neqb_spec _ _ Gi) as Ni.
    split.
    + intros [[_ ->]|[Hin _]]; [left; auto|]. right. split; [now apply Ha|].
      intros E. apply Ni. rewrite <- E. apply Ha in Hin.
      change (p_id q) with (fst (p_id q, q)). now apply in_map.
    + intros [[_ ->]|[Hin _]]; [left; auto|]. right. split; [now apply Ha|].
      intros E. apply Nn. rewrite <- E. apply Ha in Hin.
      change (lname q) with (fst (lname q, q)). now apply in_map.
  - (* conditional unregister of p *)
    unfold unregister. rewrite Hv. simpl.
    destruct (stored_is p (get_id (p_id p) s)) eqn:Si.
    + assert (Sn : stored_is p (get_name (lname p) s) = true).
      { apply stored_is_in_name; [assumption|]. apply Ha. now apply stored_is_in_id. }
      rewrite Sn. apply (stored_is_in_id s p Hwf) in Si. apply (stored_is_in_name s p Hwf) in Sn.
      rewrite (del_in String.eqb Seqb_spec), (del_in N.eqb Neqb_spec). split.
      * intros [Hin Hne]. split; [now apply Ha|]. intros E.
        apply Ha in Hin. rewrite E in Hin.
        assert (q = p) by (eapply (proj1 (wf_ids_unique s Hwf)); eauto). subst. auto.
      * intros [Hin Hne]. split; [now apply Ha|]. intros E.
        apply Ha in Hin. rewrite E in Hin.
        assert (q = p) by (eapply (proj1 (wf_names_unique s Hwf)); eauto). subst. auto.
    + assert (Sn : stored_is p (get_name (lname p) s) = false).
      { destruct (stored_is p (get_name (lname p) s)) eqn:Sn; [|reflexivity].
        apply (stored_is_in_name s p Hwf), Ha, (stored_is_in_id s p Hwf) in Sn. congruence. }
      rewrite Sn. apply Ha.
Qed.

Lemma agree_all_schedules c ts sched s0 :
  kick c = false -> v_unreg c = false ->
  maps_wf s0 -> indices_agree s0 ->
  indices_agree (final_state (run (compile c ts) sched s0)).
Proof.
  intros Hk Hv H0 A0. unfold final_state.
  apply (inv_all_schedules (fun s => maps_wf s /\ indices_agree s) (compile c ts)); [|split; assumption].
  intros a Ha s [Hs As]. destruct (compile_in _ _ _ Ha) as [x ->]. split.
  - eapply shape_wf; [apply sem_shape|exact Hs].
  - eapply shape_agree; eauto using sem_shape.
Qed.

(* ---- 3.3 the lock is never leaked when the failure path unlocks ---- *)

Lemma noleak_all_schedules c ts sched s0 :
  v_leak c = false -> leaked s0 = false ->
  leaked (final_state (run (compile c ts) sched s0)) = false.
Proof.
  intros Hv H0. unfold final_state.
  apply (inv_all_schedules (fun s => leaked s = false) (compile c ts)); [|exact H0].
  intros a Ha s Hs. destruct (compile_in _ _ _ Ha) as [x ->].
  destruct (sem_shape c x s) as [_ _ El _ _ _|_ _ _ Hl _ _ _ _|p _ _ _ _ El _ _|p _ _ El _ _]; congruence.
Qed.

(* ---- 3.4 a registered player stays findable until ITS OWN teardown / unregister ---- *)

Definition own_removal (p : player) (evs : list event) : Prop :=
  (exists st, In (EvTeardown p st) evs) \/ In (EvUnreg p) evs.

(* registered according to the trace and not removed by itself *)
Definition live (p : player) (evs : list event) : Prop :=
  In (EvReg p) evs /\ ~ own_removal p evs.

Definition findable (c : cfg) (s : state) (evs : list event) : Prop :=
  forall p, live p evs ->
    get_id (p_id p) s = Some p /\ (kick c = false -> get_name (lname p) s = Some p).

Lemma player_eq_dec (a b : player) : {a = b} + {a <> b}.
Proof.
  destruct (player_eqb a b) eqn:E.
  - left. now apply player_eqb_spec.
  - right. intros H. apply player_eqb_spec in H. congruence.
Qed.

Lemma stored_is_other p q : q <> p -> stored_is p (Some q) = false.
Proof.
  intros H. simpl. destruct (player_eqb q p) eqn:E; [|reflexivity].
  apply player_eqb_spec in E. contradiction.
Qed.

Lemma shape_findable c s s1 evs ev :
  v_unreg c = false ->
  step_shape c s s1 ev -> findable c s evs -> findable c s1 (evs ++ ev).
Proof.
  intros Hv H F p [Hreg Hnot].
  unfold get_id, get_name in *.
  destruct H as [En Ei _ N1 N2 N3|En Ei _ _ _ N1 N2 N3|q Gi Gn En Ei _ _ Eev|q En Ei _ _ Eev];
    rewrite En, Ei.
  - (* maps unchanged, no registry event *)
    apply F. split.
    + apply in_app_or in Hreg. destruct Hreg as [|Hr]; [assumption|]. exfalso. eapply N1; eauto.
    + intros [[st Ht]|Hu]; apply Hnot; [left; exists st|right]; apply in_or_app; auto.
  - apply F. split.
    + apply in_app_or in Hreg. destruct Hreg as [|Hr]; [assumption|]. exfalso. eapply N1; eauto.
    + intros [[st Ht]|Hu]; apply Hnot; [left; exists st|right]; apply in_or_app; auto.
  - (* insert q *)
    subst ev. destruct (player_eq_dec p q) as [->|Hne].
    + split; [apply (get_put_same N.eqb Neqb_spec)|intros _; apply (get_put_same String.eqb Seqb_spec)].
    + assert (Hl : live p evs).
      { split.
        - apply in_app_or in Hreg. destruct Hreg as [|[Hr|[]]]; [assumption|]. inversion Hr. congruence.
        - intros [[st Ht]|Hu]; apply Hnot; [left; exists st|right]; apply in_or_app; auto. }
      destruct (F p Hl) as [Fi Fn]. unfold get_id, get_name in *. split.
      * rewrite (get_put_other N.eqb Neqb_spec); [assumption|]. intros E. rewrite E in Fi. congruence.
      * intros Hk. specialize (Fn Hk). specialize (Gn Hk).
        rewrite (get_put_other String.eqb Seqb_spec); [assumption|]. intros E. rewrite E in Fn. congruence.
  - (* conditional unregister of q: p is somebody else *)
    assert (Hne : p <> q).
    { intros ->. apply Hnot. destruct Eev as [[st ->]| ->].
      - left. exists st. apply in_or_app. right. now left.
      - right. apply in_or_app. right. now left. }
    assert (Hl : live p evs).
    { split.
      - apply in_app_or in Hreg. destruct Hreg as [|Hr]; [assumption|].
        destruct Eev as [[st ->]| ->]; destruct Hr as [Hr|[]]; discriminate.
      - intros [[st Ht]|Hu]; apply Hnot; [left; exists st|right]; apply in_or_app; auto. }
    destruct (F p Hl) as [Fi Fn]. unfold get_id, get_name in *.
    unfold unregister. rewrite Hv. simpl. unfold get_id, get_name. split.
    + destruct (N.eq_dec (p_id p) (p_id q)) as [E|E].
      * rewrite <- E, Fi, (stored_is_other q p Hne). assumption.
      * destruct (stored_is q (get N.eqb (p_id q) (ids s))); [|assumption].
        rewrite (get_del_other N.eqb Neqb_spec); assumption.
    + intros Hk. specialize (Fn Hk).
      destruct (string_dec (lname p) (lname q)) as [E|E].
      * rewrite <- E, Fn, (stored_is_other q p Hne). assumption.
      * destruct (stored_is q (get String.eqb (lname q) (names s))); [|assumption].
        rewrite (get_del_other String.eqb Seqb_spec); assumption.
Qed.

Lemma findable_all_schedules c ts sched s0 :
  v_unreg c = false ->
  let r := run (compile c ts) sched s0 in
  findable c (final_state r) (events r).
Proof.
  intros Hv r. unfold final_state, events, r.
  apply (trace_inv_all_schedules (findable c) (compile c ts)) with (evs0 := []).
  - intros a Ha s evs F. destruct (compile_in _ _ _ Ha) as [x ->].
    eapply shape_findable; eauto using sem_shape.
  - intros p [[] _].
Qed.

(* ---- 3.5 a new registration under a UUID comes after the removal of the older one ---- *)

Definition reg_order (evs : list event) : Prop :=
  forall l1 p l2, evs = l1 ++ EvReg p :: l2 ->
    forall q, q <> p -> p_id q = p_id p -> In (EvReg q) l1 -> own_removal q l1.

Lemma event_eq_dec (a b : event) : {a = b} + {a <> b}.
Proof.
  assert (Hs : forall x y : status, {x = y} + {x <> y}) by decide equality.
  destruct a as [p|p|p st|p|], b as [q|q|q st'|q|]; try (right; discriminate).
  - destruct (player_eq_dec p q); [left; congruence|right; congruence].
  - destruct (player_eq_dec p q); [left; congruence|right; congruence].
  - destruct (player_eq_dec p q); [|right; congruence].
    destruct (Hs st st'); [left; congruence|right; congruence].
  - destruct (player_eq_dec p q); [left; congruence|right; congruence].
  - now left.
Qed.

Lemma own_removal_dec q l : {own_removal q l} + {~ own_removal q l}.
Proof.
  unfold own_removal.
  destruct (in_dec event_eq_dec (EvUnreg q) l) as [Hu|Hu]; [left; now right|].
  assert (D : {st | In (EvTeardown q st) l} + {forall st, ~ In (EvTeardown q st) l}).
  { destruct (in_dec event_eq_dec (EvTeardown q SSuccessful) l); [left; eauto|].
    destruct (in_dec event_eq_dec (EvTeardown q SConflicting) l); [left; eauto|].
    destruct (in_dec event_eq_dec (EvTeardown q SCanceled) l); [left; eauto|].
    right. intros []; assumption. }
  destruct D as [[st H]|H]; [left; left; eauto|].
  right. intros [[st Ht]|]; [eapply H; eauto|contradiction].
Qed.

(* appending events that contain no registration keeps every decomposition inside the old trace *)
Lemma split_in_prefix (evs ev l1 l2 : list event) p :
  ~ In (EvReg p) ev -> evs ++ ev = l1 ++ EvReg p :: l2 ->
  exists l2', evs = l1 ++ EvReg p :: l2'.
Proof.
  intros Hn E. apply app_eq_app in E. destruct E as [l [[E1 E2]|[E1 E2]]].
  - destruct l as [|x l].
    + simpl in E2. exfalso. apply Hn. rewrite <- E2. now left.
    + simpl in E2. inversion E2; subst. exists l. reflexivity.
  - exfalso. apply Hn. rewrite E2. apply in_or_app. right. now left.
Qed.

Lemma split_last (evs l1 l2 : list event) e x :
  evs ++ [e] = l1 ++ x :: l2 ->
  (l1 = evs /\ x = e /\ l2 = []) \/ (exists l2', evs = l1 ++ x :: l2').
Proof.
  intros E. destruct l2 as [|y l2] using rev_ind.
  - apply app_inj_tail in E. destruct E as [-> ->]. auto.
  - right. clear IHl2. exists l2.
    change (l1 ++ x :: l2 ++ [y]) with (l1 ++ (x :: l2) ++ [y]) in E.
    rewrite app_assoc in E. apply app_inj_tail in E. tauto.
Qed.

Lemma shape_reg_order c s s1 evs ev :
  step_shape c s s1 ev -> findable c s evs -> reg_order evs -> reg_order (evs ++ ev).
Proof.
  intros H F R l1 p l2 E q Hne Hid Hq.
  assert (Hold : (exists l2', evs = l1 ++ EvReg p :: l2') -> own_removal q l1).
  { intros [l2' E']. eapply R; eauto. }
  destruct H as [_ _ _ N1 _ _|_ _ _ _ _ N1 _ _|r Gi _ _ _ _ _ Eev|r _ _ _ _ Eev].
  - apply Hold. eapply split_in_prefix; [apply N1|exact E].
  - apply Hold. eapply split_in_prefix; [apply N1|exact E].
  - subst ev. apply split_last in E. destruct E as [[-> [Ep ->]]|E]; [|now apply Hold].
    inversion Ep; subst r.
    destruct (own_removal_dec q evs) as [|Hn]; [assumption|]. exfalso.
    destruct (F q (conj Hq Hn)) as [Fi _]. rewrite Hid in Fi. congruence.
  - apply Hold. destruct Eev as [[st ->]| ->]; (eapply split_in_prefix; [|exact E]);
      intros [HH|[]]; discriminate.
Qed.

Lemma reg_order_all_schedules c ts sched s0 :
  v_unreg c = false ->
  reg_order (events (run (compile c ts) sched s0)).
Proof.
  intros Hv. unfold events.
  pose (P := fun s evs => findable c s evs /\ reg_order evs).
  assert (HP : P (fst (fst (run (compile c ts) sched s0)))
                 ([] ++ snd (fst (run (compile c ts) sched s0)))).
  { apply (trace_inv_all_schedules P (compile c ts)).
    - intros a Ha s evs [F R]. destruct (compile_in _ _ _ Ha) as [x ->]. split.
      + eapply shape_findable; eauto using sem_shape.
      + eapply shape_reg_order; eauto using sem_shape.
    - split.
      + intros p [[] _].
      + intros l1 p l2 E. destruct l1; discriminate. }
  exact (proj2 HP).
Qed.

(* ================= Part 4: the PRE-FIX code (findings C11-1, C11-2; repaired in /repo) ================= *)

(* ---- 4.1 off the recorded triggers the pre-fix functions WERE the specified ones ---- *)

Lemma unregister_off_trigger on kk p s :
  trigger_unreg p s = false ->
  unregister (prefix_cfg on kk) p s = unregister (spec_cfg on kk) p s.
Proof.
  unfold trigger_unreg, unregister, prefix_cfg, spec_cfg. cbn [v_unreg].
  intros H. apply orb_false_iff in H. destruct H as [Hn Hi].
  unfold get_name, get_id in *.
  pose proof (del_none_id String.eqb (lname p) (names s)) as Dn.
  pose proof (del_none_id N.eqb (p_id p) (ids s)) as Di.
  destruct (get String.eqb (lname p) (names s)) as [q|];
    destruct (get N.eqb (p_id p) (ids s)) as [q'|]; simpl in *;
    repeat match goal with
           | H : negb _ = false |- _ => apply negb_false_iff in H; rewrite H
           end;
    try rewrite (Dn eq_refl); try rewrite (Di eq_refl); reflexivity.
Qed.

Lemma register_off_trigger on p s :
  trigger_leak (prefix_cfg on false) p s = false ->
  register_nokick (prefix_cfg on false) p s = register_nokick (spec_cfg on false) p s.
Proof.
  unfold trigger_leak, register_nokick. simpl.
  destruct (get_name (lname p) s); [discriminate|].
  destruct (get_id (p_id p) s); [discriminate|]. reflexivity.
Qed.

(* ---- 4.2 refutations: concrete goroutines and a schedule ---- *)

Definition alice : player := mkP 0 "Alice" 7.
Definition alice_dup_same_uuid : player := mkP 1 "alice" 7.
Definition alice_dup_other_uuid : player := mkP 2 "ALICE" 8.

(* Alice logs in; a second login "alice" with the same UUID is rejected by canRegisterConnection and
   torn down: Alice's registration is gone although Alice never disconnected. *)
Definition ts_dup (d : player) (c : cfg) : list (list act) :=
  [login_thread c 0 0 alice; login_thread c 0 1 d].
Definition sched_seq : list nat := [0; 0; 0; 0; 0; 1; 1; 1; 1; 1]%nat.

Lemma findable_refuted_witness :
  let c := prefix_cfg false false in
  let r := run (compile c (ts_dup alice_dup_same_uuid c)) sched_seq init in
  In (EvReg alice) (events r)
  /\ (forall p st, In (EvTeardown p st) (events r) -> p = alice_dup_same_uuid)
  /\ (forall p, ~ In (EvUnreg p) (events r))
  /\ get_id (p_id alice) (final_state r) = None
  /\ player_count (final_state r) = 0%nat.
Proof.
  vm_compute. repeat split.
  - now left.
  - intros p st H.
    repeat match goal with H : _ \/ _ |- _ => destruct H end;
      try discriminate; try contradiction.
    match goal with H : _ = EvTeardown _ _ |- _ => inversion H; reflexivity end.
  - intros p H.
    repeat match goal with H : _ \/ _ |- _ => destruct H end;
      try discriminate; try contradiction.
Qed.

(* the same with another UUID (what offline mode produces for another spelling): the name entry is
   deleted, the id entry stays: the two indices disagree *)
Lemma agree_refuted_witness :
  let c := prefix_cfg false false in
  let s := final_state (run (compile c (ts_dup alice_dup_other_uuid c)) sched_seq init) in
  get_id (p_id alice) s = Some alice /\ get_name (lname alice) s = None.
Proof. vm_compute. split; reflexivity. Qed.

(* two logins of the same name pass canRegisterConnection before either registers: the second
   registerConnection fails and leaves muP locked; every later step blocks *)
Definition sched_race : list nat := [0; 1; 0; 0; 1; 1; 1; 1; 0; 0]%nat.
Lemma leak_refuted_witness :
  let c := prefix_cfg false false in
  let r := run (compile c (ts_dup alice_dup_same_uuid c)) sched_race init in
  leaked (final_state r) = true /\ In EvBlocked (events r).
Proof. vm_compute. split; [reflexivity|]. auto 10. Qed.

(* with the specified functions the same goroutines and schedules are harmless *)
Example spec_same_threads_fine :
  let c := spec_cfg false false in
  let r1 := run (compile c (ts_dup alice_dup_same_uuid c)) sched_seq init in
  let r2 := run (compile c (ts_dup alice_dup_other_uuid c)) sched_seq init in
  let r3 := run (compile c (ts_dup alice_dup_same_uuid c)) sched_race init in
  get_id 7 (final_state r1) = Some alice /\ get_name "alice" (final_state r2) = Some alice
  /\ leaked (final_state r3) = false /\ get_id 7 (final_state r3) = Some alice
  /\ complete (remaining r3) = true.
Proof. vm_compute. repeat split; reflexivity. Qed.

(* a bare unregister of a never-registered object with Alice's UUID lets a third player register
   under that UUID while Alice's session was never torn down *)
Definition carol_same_uuid : player := mkP 3 "Carol" 7.
Lemma reg_order_refuted_witness :
  let c := prefix_cfg true true in
  let r := run (compile c [[ACan 0 alice; AReg 0 alice]; [AUnreg alice_dup_same_uuid];
                           [ACan 2 carol_same_uuid; AReg 2 carol_same_uuid]])
               [0; 0; 1; 2; 2]%nat init in
  events r = [EvReg alice; EvUnreg alice_dup_same_uuid; EvReg carol_same_uuid].
Proof. vm_compute. reflexivity. Qed.

(* ---- 4.3 non-vacuity: the theorems' premises are met by real runs ---- *)

(* kick mode, same UUID: the newcomer finds Alice, disconnects her (close, teardown), retries, registers *)
Example kick_flow :
  let c := spec_cfg true true in
  let r := run (compile c [login_thread c 1 0 alice; login_thread c 1 1 alice_dup_same_uuid])
               [0; 0; 0; 1; 1; 1; 1; 1; 1]%nat init in
  events r = [EvReg alice; EvTeardown alice SConflicting; EvReg alice_dup_same_uuid]
  /\ get_id 7 (final_state r) = Some alice_dup_same_uuid.
Proof. vm_compute. split; reflexivity. Qed.

(* every complete interleaving of a login against a racing duplicate and a disconnect of the winner:
   the indices agree and nothing blocks (1 680 schedules evaluated) *)
Example all_schedules_small :
  let c := spec_cfg false false in
  let ts := compile c [ [ACan 0 alice; AReg 0 alice; AClose 0; ATear 0];
                        [ACan 1 alice_dup_other_uuid; AReg 1 alice_dup_other_uuid; AClose 1; ATear 1];
                        [ABegin 2 alice; AClose 2; ATear 2] ] in
  check_all_schedules ts init
    (fun s evs => negb (leaked s)
                  && list_eqb N.eqb (sortN (map (fun kv => p_obj (snd kv)) (names s))) (players_sorted s))
  = true.
Proof. vm_compute. reflexivity. Qed.

(* ================= Part 5: the code as it is now; the observed-trace checker ================= *)

Lemma impl_is_spec on kk : impl_cfg on kk = spec_cfg on kk.
Proof. reflexivity. Qed.

Lemma own_removal_app q l1 l2 : own_removal q l1 -> own_removal q (l1 ++ l2).
Proof.
  intros [[st H]|H]; [left; exists st|right]; apply in_or_app; auto.
Qed.

(* the boolean walk used by the judge implies the Prop-level ordering property of the theorems *)
Lemma order_ok_gen evs : forall pre livep,
  (forall q, In (EvReg q) pre -> ~ own_removal q pre -> In q livep) ->
  order_ok livep evs = true ->
  forall l1 p l2, evs = l1 ++ EvReg p :: l2 ->
  forall q, q <> p -> p_id q = p_id p -> In (EvReg q) (pre ++ l1) -> own_removal q (pre ++ l1).
Proof.
  induction evs as [|e r IH]; intros pre livep Hinv Hok l1 p l2 E q Hne Hid Hq.
  - destruct l1; discriminate.
  - destruct l1 as [|e' l1].
    + simpl in E. inversion E; subst e r. rewrite app_nil_r in *.
      simpl in Hok. apply andb_true_iff in Hok. destruct Hok as [Hall _].
      destruct (own_removal_dec q pre) as [|Hn]; [assumption|]. exfalso.
      rewrite forallb_forall in Hall. specialize (Hall q (Hinv q Hq Hn)).
      apply orb_true_iff in Hall. destruct Hall as [H|H].
      * apply player_eqb_spec in H. contradiction.
      * apply negb_true_iff, N.eqb_neq in H. contradiction.
    + simpl in E. inversion E; subst e' r. clear E.
      replace (pre ++ e :: l1) with ((pre ++ [e]) ++ l1) in * by (rewrite <- app_assoc; reflexivity).
      assert (Hstep : exists livep',
                 (forall x, In (EvReg x) (pre ++ [e]) -> ~ own_removal x (pre ++ [e]) -> In x livep')
                 /\ order_ok livep' (l1 ++ EvReg p :: l2) = true).
      { destruct e as [p0|p0|q0 st|q0|]; simpl in Hok.
        - apply andb_true_iff in Hok. destruct Hok as [_ Hok]. exists (p0 :: livep). split; [|exact Hok].
          intros x Hx Hnx. apply in_app_or in Hx. destruct Hx as [Hx|[Hx|[]]].
          + right. apply Hinv; [assumption|]. intros Hr. apply Hnx. now apply own_removal_app.
          + inversion Hx. now left.
        - exists livep. split; [|exact Hok].
          intros x Hx Hnx. apply in_app_or in Hx. destruct Hx as [Hx|[Hx|[]]]; [|discriminate].
          apply Hinv; [assumption|]. intros Hr. apply Hnx. now apply own_removal_app.
        - exists (filter (fun x => negb (player_eqb x q0)) livep). split; [|exact Hok].
          intros x Hx Hnx. apply in_app_or in Hx. destruct Hx as [Hx|[Hx|[]]]; [|discriminate].
          apply filter_In. split.
          + apply Hinv; [assumption|]. intros Hr. apply Hnx. now apply own_removal_app.
          + apply negb_true_iff. destruct (player_eqb x q0) eqn:Ex; [|reflexivity].
            apply player_eqb_spec in Ex. subst. exfalso. apply Hnx. left. exists st.
            apply in_or_app. right. now left.
        - exists (filter (fun x => negb (player_eqb x q0)) livep). split; [|exact Hok].
          intros x Hx Hnx. apply in_app_or in Hx. destruct Hx as [Hx|[Hx|[]]]; [|discriminate].
          apply filter_In. split.
          + apply Hinv; [assumption|]. intros Hr. apply Hnx. now apply own_removal_app.
          + apply negb_true_iff. destruct (player_eqb x q0) eqn:Ex; [|reflexivity].
            apply player_eqb_spec in Ex. subst. exfalso. apply Hnx. right.
            apply in_or_app. right. now left.
        - exists livep. split; [|exact Hok].
          intros x Hx Hnx. apply in_app_or in Hx. destruct Hx as [Hx|[Hx|[]]]; [|discriminate].
          apply Hinv; [assumption|]. intros Hr. apply Hnx. now apply own_removal_app. }
      destruct Hstep as [livep' [Hinv' Hok']].
      eapply (IH (pre ++ [e]) livep' Hinv' Hok' l1 p l2 eq_refl q Hne Hid Hq).
Qed.

Lemma order_ok_sound evs : order_ok [] evs = true -> reg_order evs.
Proof.
  intros Hok l1 p l2 E q Hne Hid Hq.
  exact (order_ok_gen evs [] [] (fun x H => match H with end) Hok l1 p l2 E q Hne Hid Hq).
Qed.

(* and the model's own traces pass the walk's premise: nothing to show beyond reg_order, which
   reg_order_all_schedules gives for every schedule; here the executable walk on concrete runs *)
Example order_ok_kick_flow :
  let c := impl_cfg true true in
  order_ok [] (events (run (compile c [login_thread c 1 0 alice; login_thread c 1 1 alice_dup_same_uuid])
                           [0; 0; 0; 1; 1; 1; 1; 1; 1]%nat init)) = true.
Proof. vm_compute. reflexivity. Qed.

(* the walk rejects the pre-fix witness trace of reg_order_refuted_witness *)
Example order_ok_rejects_prefix_trace :
  order_ok [] [EvReg alice; EvUnreg alice_dup_same_uuid; EvReg carol_same_uuid] = false.
Proof. vm_compute. reflexivity. Qed.
